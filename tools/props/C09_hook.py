# C09: class distribution of the judged cases (the generator tags every case with its class; last field of the case line)
import os, collections
NAMES = {1: "random schema, in-domain message", 2: "random schema, raw message (unsupported key kinds, -0, ...)", 3: "length-prefix sweep 127/128, 16383/16384 at depths 1..6",
         4: "nesting 100..300 frames (singular / repeated / map / mixed), stack limit", 5: "map key kinds and integer boundaries", 6: "one value of the wrong JSON kind",
         7: "unknown members x DisallowUnknownField", 8: "null / empty / default members", 40: "history: valid document after failed conversions (sweep schema)",
         41: "history: valid document after failed conversions (random schema)", 42: "history: failing conversion",
         90: "quirk: integers wrapped / truncated / exponent spelling", 91: "quirk: null element / map value", 92: "quirk: duplicate members",
         93: "quirk: enum by number / name, base64 variants", 94: "quirk: map key spellings", 95: "error: string-spelled numbers, kind contradictions at every level",
         105: "map key names: int32", 103: "map key names: int64", 113: "map key names: uint32", 104: "map key names: uint64", 108: "map key names: bool",
         109: "map key names: string", 117: "map key kind sint32 (unsupported: error)", 118: "map key kind sint64 (unsupported: error)",
         107: "map key kind fixed32 (unsupported: error)", 106: "map key kind fixed64 (unsupported: error)", 115: "map key kind sfixed32 (unsupported: error)",
         116: "map key kind sfixed64 (unsupported: error)",
         96: "float spellings (double rounding, overflow, -0, subnormal)", 97: "not one JSON document", 98: "empty containers"}
def name(c):
    if c in NAMES: return NAMES[c]
    if c >= 100: return 'class %d' % c
    base, deco = c % 10, c // 10
    d = {1: "+ unknown/null/empty/default decorations, shuffled", 2: "+ shuffled", 3: "+ explicit defaults"}.get(deco, "")
    return (NAMES.get(base, "class %d" % c) + " " + d).strip()
def run(ctx):
    rd = ctx["rundir"]
    try:
        cases = [l for l in open(os.path.join(rd, "cases.txt")).read().splitlines() if l and not l.startswith("#")]
        verds = open(os.path.join(rd, "verdicts.txt")).read().splitlines()
    except Exception as e:
        return {"evidence": {"class_distribution": "unavailable: %s" % e}}
    dist = collections.OrderedDict()
    for c, v in zip(cases, verds):
        last = c.rsplit(" ", 1)[-1]
        cl = int(last[1:]) if last.startswith("n") else -1
        d = dist.setdefault(cl, {"n": 0, "ok": 0, "skip": 0, "drift": 0, "bad": 0, "known": 0})
        d["n"] += 1
        k = v.split()[0] if v else "bad"
        d[k if k in d else "bad"] += 1
    out = {"%d %s" % (k, name(k)): dist[k] for k in sorted(dist)}
    print("C09 classes: " + "; ".join("%d:%d" % (k, dist[k]["n"]) for k in sorted(dist)))
    return {"evidence": {"class_distribution": out}}
