"""C18 plugin: (1) records which SIMD flavours were run / skipped (CPU support) in the evidence; (2) runs every non-default flavour once more
ALONE in its own child process (VERIF_C18_FLAVOURS=<flavour>: the stubs are bound exactly once after package init, no re-binding sequence)
on a smaller budget and has the same extracted checkers judge the cases — evidence that the in-process re-binding used by the main run
does not influence the results."""
import os, subprocess, json

NAMES = ["avx2", "avx", "sse"]

def run(ctx):
    ev = {}; viol = []; known = []
    cases = os.path.join(ctx["rundir"], "cases.txt")
    mask = None
    try:
        for line in open(cases):
            if line.startswith("1800 "):
                t = line.split()
                mask = int(t[1][1:]); ev["distinct_stub_bindings"] = int(t[2][1:])
                break
    except OSError:
        pass
    try:
        flags = set()
        for line in open("/proc/cpuinfo"):
            if line.startswith("flags"):
                flags = set(line.split(":", 1)[1].split()); break
        ev["cpu_has"] = {"avx2": "avx2" in flags, "avx": "avx" in flags, "sse": "sse" in flags}
    except OSError:
        pass
    if mask is None:
        return {"evidence": ev, "infra": None if ctx.get("replay") else "no 1800 flavour inventory case in the run"}
    ev["flavours_run"] = [n for i, n in enumerate(NAMES) if mask >> i & 1]
    ev["flavours_skipped_cpu_lacks_them"] = [n for i, n in enumerate(NAMES) if not mask >> i & 1]
    ev["portable_run"] = True
    if ctx.get("replay"):
        return {"evidence": ev}
    st = ctx["st"]
    n = 400 if ctx["tier"] == "quick" else 20000
    solo = {}
    for fl in ev["flavours_run"][1:]:            # the first one is what a plain process binds at init anyway
        cp = os.path.join(ctx["rundir"], "cases_%s.txt" % fl)
        env = dict(ctx["ENV"], VERIF_C18_FLAVOURS=fl)
        rc, o = ctx["sh"]([st["harness"], "-prop", "C18", "-seed", str(ctx["seed"] + 1000), "-n", str(n), "-o", cp], env=env, timeout=3600)
        if rc != 0:
            return {"evidence": ev, "infra": "solo run of flavour %s failed: %s" % (fl, o[-500:])}
        with open(cp) as fin:
            p = subprocess.run(["bash", "-c", "ulimit -s unlimited 2>/dev/null; exec \"$0\"", st["modelrun"]], stdin=fin, stdout=subprocess.PIPE, stderr=subprocess.PIPE, env=ctx["ENV"])
        if p.returncode != 0:
            return {"evidence": ev, "infra": "modelrun failed on the solo run of %s: %s" % (fl, p.stderr.decode(errors="replace")[-500:])}
        cs = [l for l in open(cp).read().splitlines() if l]
        vs = p.stdout.decode().splitlines()
        cnt = {"cases": len(cs), "ok": 0, "skip": 0, "known": 0, "drift": 0, "bad": 0}
        for c, v in zip(cs, vs):
            k = v.split()[0]
            if k in cnt:
                cnt[k] += 1
            if k == "known":
                known.append({"id": int(v.split()[1]), "what": "solo %s" % fl})
            elif k not in ("ok", "skip", "drift"):
                cnt["bad"] += 1
                if len(viol) < 3:
                    viol.append({"what": "flavour %s alone in its own process: %s" % (fl, v[:100]), "replay": {"cases": [c], "flavour": fl, "verdict": v}})
        if len(vs) != len(cs):
            return {"evidence": ev, "infra": "verdict count mismatch on the solo run of %s" % fl}
        solo[fl] = cnt
    ev["solo_process_runs"] = solo
    # one KNOWN line per finding id is enough
    seen = set(); k2 = []
    for k in known:
        if k["id"] not in seen:
            seen.add(k["id"]); k2.append(k)
    return {"evidence": ev, "violations": viol, "known": k2}
