"""C12 plugin for ./check: race-detector build of the harness + exploration run.

The normal stage of ./check already ran `harness -prop C12` (non-race binary) and judged its summary cases with the extracted
Check12.v. This hook
  1. builds the same harness with `-race` (cached per build key; CGO is needed; if the race build is impossible offline the
     evidence says so and the non-race binary is used for the second run),
  2. runs it (`-prop C12 -seed S -n N`): rounds of G in {1,4,..,64} goroutines, GOMAXPROCS in {1,2,16}, mixed operations on
     shared descriptors / converters / inputs, seeded Gosched points (harness/c12.go),
  3. turns race-detector reports ("WARNING: DATA RACE", exit code 66), runtime crashes ("fatal error: concurrent map ...")
     and non-ok verdicts of the summary cases into violations, attributed to the round (seed + G + P + operation mix) that
     was running; replay = the same arguments.
"""
import os, re, json, subprocess, time


def _rounds(out):
    """split the combined output into (round header, text) chunks"""
    chunks = []
    cur = ("(before the first round: fixtures / sequential oracle / scenarios)", [])
    for line in out.splitlines():
        if line.startswith("C12-ROUND "):
            chunks.append(cur)
            cur = (line.strip(), [])
        else:
            cur[1].append(line)
    chunks.append(cur)
    return chunks


def _race_summary(text):
    """first repo frames of both accesses of one report"""
    frames = re.findall(r"^\s+(\S+)\(\)?\n\s+(\S+?):(\d+)", text, re.M)
    keep = []
    for fn, f, ln in frames:
        if "/internal/verifharness/" in f or "/src/runtime/" in f or "/src/sync/" in f:
            continue
        keep.append("%s (%s:%s)" % (fn.split("/")[-1], f, ln))
        if len(keep) >= 4:
            break
    return keep


def run(ctx):
    V, REPO, B, st, sh, ENV = ctx["V"], ctx["REPO"], ctx["B"], ctx["st"], ctx["sh"], ctx["ENV"]
    tier, seed, conf, rundir = ctx["tier"], ctx["seed"], ctx["conf"], ctx["rundir"]
    res = {"violations": [], "known": [], "evidence": {}, "infra": None}
    ev = res["evidence"]
    if not st.get("harness_ok"):
        res["infra"] = "harness did not build"
        return res

    # ---- 1. race build (cached per build key)
    race_bin = os.path.join(B, "harness-race")
    stamp = os.path.join(B, "harness-race.key")
    key = st.get("key", "")
    env = dict(ENV, CGO_ENABLED="1")
    have = os.path.exists(race_bin) and os.path.exists(stamp) and open(stamp).read() == key
    t0 = time.time()
    if not have:
        rc, o = sh(["go", "build", "-race", "-tags", "verif", "-overlay", os.path.join(B, "overlay.json"), "-o", race_bin, "./internal/verifharness"],
                   cwd=REPO, timeout=1800, env=env)
        if rc == 0:
            open(stamp, "w").write(key)
            have = True
            ev["race_build"] = "ok (%.1fs)" % (time.time() - t0)
        else:
            ev["race_build"] = "FAILED, falling back to the non-race binary (results/retention/inputs/descriptors are still checked, data races are not): " + o[-600:]
            try:
                os.remove(stamp)
            except OSError:
                pass
    else:
        ev["race_build"] = "ok (cached)"
    binary = race_bin if have else st["harness"]
    ev["race_detector"] = bool(have)

    # ---- 2. run
    rp = ctx.get("replay") or {}
    hr = rp.get("hook_replay") or {}
    if hr.get("harness_args"):
        args = [str(a) for a in hr["harness_args"]]
    else:
        n = conf.get("race_n", {}).get(tier, conf["n"][tier])
        args = ["-prop", "C12", "-seed", str(seed), "-n", str(n)]
    cases_p = os.path.join(rundir, "cases-race.txt")
    try:
        os.remove(cases_p)
    except OSError:
        pass
    renv = dict(env, GORACE="halt_on_error=0 exitcode=66 history_size=%d" % (3 if tier == "quick" else 5))
    t1 = time.time()
    timeout = conf.get("race_timeout", {}).get(tier, 900 if tier == "quick" else 10800)
    try:
        rc, out = sh([binary] + args + ["-o", cases_p], timeout=timeout, env=renv)
    except subprocess.TimeoutExpired:
        res["violations"].append({"what": "race run did not finish within %ds (deadlock or livelock under concurrency?)" % timeout,
                                  "replay": {"harness_args": args}, "no_input": True})
        return res
    ev["race_run_s"] = round(time.time() - t1, 1)
    ev["race_run_args"] = args
    ev["race_run_exit_code"] = rc
    m = re.search(r"C12-WORLD (.*)", out)
    if m:
        ev["world"] = m.group(1).strip()
    heads = re.findall(r"C12-ROUND (\d+) seed=\d+ G=(\d+) P=(\d+) calls=(\d+)", out)
    ev["rounds"] = len(heads)
    ev["goroutines_seen"] = sorted(set(int(h[1]) for h in heads))
    ev["gomaxprocs_seen"] = sorted(set(int(h[2]) for h in heads))
    ev["calls_in_rounds"] = sum(int(h[3]) for h in heads)
    nrace = out.count("WARNING: DATA RACE")
    ev["data_race_reports"] = nrace
    ev["mismatch_lines"] = out.count("C12-MISMATCH")
    ev["unstable_alone_ops"] = out.count("C12-UNSTABLE-ALONE")

    replay = {"harness_args": args, "binary": "harness-race (go build -race -tags verif -overlay .build/overlay.json ./internal/verifharness)" if have else "harness-bin",
              "env": {"GORACE": renv["GORACE"]}}
    if nrace:
        seen = {}
        for head, lines in _rounds(out):
            text = "\n".join(lines)
            for blk in re.findall(r"WARNING: DATA RACE\n(.*?)\n==================", text, re.S):
                fr = _race_summary(blk)
                k = " <-> ".join(fr[:2]) or blk[:200]
                if k not in seen:
                    seen[k] = (head, fr, blk[:3000])
        ev["distinct_race_pairs"] = len(seen)
        for k, (head, fr, blk) in list(seen.items())[:3]:
            res["violations"].append({"what": "DATA RACE reported by the race detector: %s | during %s" % (k, head),
                                      "replay": dict(replay, round=head, frames=fr, report=blk)})
    if rc not in (0, 66):
        tail = out[-2500:]
        last = [h for h, _ in _rounds(out)][-1]
        res["violations"].append({"what": "race run crashed (rc=%s) during %s: %s" % (rc, last, tail[-400:].replace("\n", " | ")),
                                  "replay": dict(replay, round=last, output_tail=tail)})
    elif rc == 66 and not nrace:
        res["violations"].append({"what": "race run exited with 66 but no report was captured", "replay": dict(replay, output_tail=out[-2000:]), "no_input": True})

    # ---- 3. judge the summary cases of the race run with the extracted checker
    if os.path.exists(cases_p) and st.get("modelrun"):
        ver_p = os.path.join(rundir, "verdicts-race.txt")
        with open(cases_p) as fin, open(ver_p, "w") as fout:
            p = subprocess.run([st["modelrun"]], stdin=fin, stdout=fout, stderr=subprocess.PIPE, env=ENV)
        cases = [l for l in open(cases_p).read().splitlines() if l and not l.startswith("#")]
        verds = open(ver_p).read().splitlines()
        tally = {}
        if p.returncode != 0 or len(cases) != len(verds):
            res["infra"] = "modelrun on the race-run cases failed: rc=%s %d cases %d verdicts" % (p.returncode, len(cases), len(verds))
        knownseen = {}
        badseen = {}
        for c, v in zip(cases, verds):
            t = v.split()[0]
            tally[t] = tally.get(t, 0) + 1
            if t == "known":
                knownseen[int(v.split()[1])] = knownseen.get(int(v.split()[1]), 0) + 1
            elif t not in ("ok", "skip", "drift"):
                kk = c.split(" ", 1)[0] + ":" + (v.split()[1] if len(v.split()) > 1 else "?")
                badseen.setdefault(kk, (c, v))
        ev["race_run_cases"] = len(cases)
        ev["race_run_verdicts"] = tally
        for k, n in sorted(knownseen.items()):
            res["known"].append({"id": k, "what": "seen in the race run (%d cases)" % n})
        codes = {"1": "a result differs from the sequential oracle", "2": "shared input bytes were modified", "3": "a descriptor dump changed",
                 "4": "a result handed out earlier changed after later calls (retention)", "5": "calls after failing calls deviate",
                 "6": "the control of the pool-miss scenario deviates", "7": "an operation run alone twice gave two different results",
                 "8": "a reused HTTPRequest wrapper does not answer like a fresh one for the second request"}
        for kk, (c, v) in sorted(badseen.items()):
            code = kk.split(":")[1]
            detail = [l for l in out.splitlines() if l.startswith("C12-MISMATCH")][:6]
            res["violations"].append({"what": "race run, check %s: %s; case: %s" % (kk, codes.get(code, v), c[:200]),
                                      "replay": dict(replay, case=c[:2000], verdict=v, mismatch_lines=detail)})
    elif not res["violations"]:
        res["infra"] = "race run produced no case file: " + out[-500:]
    return res
