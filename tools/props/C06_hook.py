"""C06 hook: runtime exploration of every read-side entry point on malformed inputs.

The harness (generator "C06R", harness/c06_run.go) is started as CHILD processes under `ulimit -v` with a
per-call watchdog; the input of every call sits flush against a PROT_NONE page; per call it reports
ok/err, panic (recovered), over-read (fault address inside the guard page), duration and the
runtime.MemStats.TotalAlloc delta. A child that dies (fatal error: out of memory / stack overflow / SIGSEGV
outside Go's fault handling) or is killed by the watchdog is attributed to the job announced by its last
`S <idx>` line, confirmed by re-running exactly that job alone in a fresh child, and the range is resumed
behind it.

Classification: a failure is a KNOWN finding only if (entry point, failure kind, input class flag computed
by harness/c06_sel.go) matches one of the entries of KNOWN below; anything else is a VIOLATION.
"""
import os, subprocess, time, json, re, collections, concurrent.futures

VMEM_KB = 16 * 1024 * 1024

# (finding id, entry points (regex), failure kinds, required input-class flag (harness/c06_sel.go), regex the failure detail must match)
THRIFT_READERS = r"^(thrift\.ReadAny|thrift\.ReadAnyWithDesc|generic\.Node\.(Interface|List/Map|GetByPath|Children)|generic\.Value\.GetByPath|generic\.PathNode\.Load)$"
KNOWN = [
    # capacity = declared element count (make([]interface{},0,n) / make(map,n) / PathNode slices)
    (601, THRIFT_READERS, {"alloc", "oom", "hang"}, "xcount", None),
    # conv/p2j packed-list loop drops the element error and never advances
    (602, r"^p2j$", {"hang", "oom"}, "xhang", None),
    # protobuf length varint >= 2^63: int(v)+n / p.Read+size wrap, next() panics or slices with a negative bound
    (603, r"^(proto\.Skip|p2j|proto\.ReadAnyWithDesc|proto\.ReadList/ReadMap/SkipAll|pgeneric\..*)$", {"panic"}, "xlen", r"invalid size|slice bounds out of range"),
    # proto/generic getByPath: err.(Node) on an error that is not a Node
    (604, r"^pgeneric\.Value\.GetByPath/Interface$", {"panic"}, None, r"interface conversion: error is meta\.Error, not generic\.Node"),
    # proto/generic marshalTo ignores the ConsumeTag error and looks up field number -1
    (605, r"^pgeneric\.Value\.MarshalTo$", {"panic"}, "xtag", r"index out of range \[-1\]"),
    # thrift/generic Node accessors on a buffer that does not hold a complete value of the node's type
    (606, r"^generic\.(Node\..*|PathNode\.Load|Value\.GetByPath)$", {"overread", "panic"}, "xtrunc", r"fault addr=guard|index out of range|slice bounds out of range"),
    # same accessors reached through a descriptor whose element type differs from the (substituted) type byte on the wire
    (606, r"^generic\.Value\.GetByPath$", {"overread", "panic"}, "class:type", r"fault addr=guard|index out of range|slice bounds out of range"),
    (606, r"^generic\.Value\.GetByPath$", {"overread", "panic"}, "class:flip", r"fault addr=guard|index out of range|slice bounds out of range"),
    # (descriptor-driven read of bytes whose type byte was substituted: scalar bytes are taken for a container header -> finding 601)
    (601, r"^generic\.Value\.GetByPath$", {"alloc", "oom", "hang"}, "class:type", None),
    (601, r"^generic\.Value\.GetByPath$", {"alloc", "oom", "hang"}, "class:flip", None),
    # thrift/generic marshalTo dereferences a nil descriptor when wire type and descriptor disagree / input is cut
    (607, r"^generic\.Value\.MarshalTo$", {"panic"}, None, r"nil pointer dereference"),
    # native j2t reads past the end of a text that ends inside a number / literal
    (608, r"^j2t$", {"panic", "overread", "segv"}, "xjsonend", r"invalid memory address|fault"),
    (608, r"^j2t$", {"panic", "overread", "segv"}, "xjsonstr", r"invalid memory address|fault"),
    # j2p: sonic ast reads past the end of a text that ends inside a number / literal; nil field for a top-level non-object
    (609, r"^j2p$", {"panic", "overread", "segv"}, "xjsonend", r"invalid memory address|fault"),
    (609, r"^j2p$", {"panic", "overread", "segv"}, "xjsonstr", r"invalid memory address|fault"),
    # (nil descriptor in the visitor callbacks: also on VALID JSON whose map value message itself holds a map, decode.go:503)
    (609, r"^j2p$", {"panic"}, None, r"nil pointer dereference"),
    # (inconsistent visitor stack on malformed JSON: FinishSpeculativeLength(pos=-1) from onValueEnd, decode.go:617)
    (609, r"^j2p$", {"panic"}, "class:flip", r"slice bounds out of range \[:-1\]"),
    (609, r"^j2p$", {"panic"}, "class:trunc", r"slice bounds out of range \[:-1\]"),
    (609, r"^j2p$", {"panic"}, "class:special", r"slice bounds out of range \[:-1\]"),
    # proto/generic marshalTo allocates a buffer per nesting level (quadratic in depth)
    (610, r"^pgeneric\.Value\.MarshalTo$", {"alloc"}, "xdeep", None),
]


def classify(ep, kind, flags, detail, cls=""):
    fl = set(f for f in flags.split(",") if f and f != "-")
    fl.add("class:" + (cls or ""))
    for fid, pat, kinds, need, dre in KNOWN:
        if re.match(pat, ep) and kind in kinds and (need is None or need in fl) and (dre is None or re.search(dre, detail or "")):
            return fid
    return None


def child(ctx, seed, tier, env_extra, outp, timeout):
    env = dict(ctx["ENV"])
    env.update({"C06_TIER": tier, "GOMAXPROCS": "2", "GOTRACEBACK": "single"})
    env.update(env_extra)
    cmd = ["bash", "-c", "ulimit -v %d; ulimit -c 0; exec \"$@\"" % VMEM_KB, "x", ctx["st"]["harness"], "-prop", "C06R", "-seed", str(seed), "-o", outp]
    t0 = time.time()
    try:
        p = subprocess.run(cmd, env=env, stdout=subprocess.PIPE, stderr=subprocess.STDOUT, timeout=timeout, text=True, errors="replace")
        rc, o = p.returncode, p.stdout
    except subprocess.TimeoutExpired as e:
        rc, o = 124, (e.stdout or b"").decode(errors="replace") if isinstance(e.stdout, bytes) else (e.stdout or "")
    return rc, o, time.time() - t0


def parse(outp):
    """-> (njobs, results {idx: fields}, descriptions {idx: line}, last started idx without result, ended)"""
    res, desc, hang, skipped = {}, {}, {}, {}
    njobs, last_s, ended = None, None, False
    try:
        lines = open(outp, errors="replace").read().splitlines()
    except OSError:
        lines = []
    for l in lines:
        if not l:
            continue
        t = l.split(" ", 1)
        if t[0] == "J":
            njobs = int(t[1])
        elif t[0] == "S":
            last_s = int(t[1])
        elif t[0] == "R":
            f = l.split(" ")
            if len(f) >= 8:
                res[int(f[1])] = {"ep": f[2], "class": f[3], "outcome": f[4], "us": int(f[5]), "alloc": int(f[6]), "len": int(f[7])}
                if last_s == int(f[1]):
                    last_s = None
        elif t[0] in ("D", "H"):
            m = re.match(r"^[DH] (\d+) (\S+) (\S+) (-?\d+) (x[0-9a-f]*) (\S*) :: (.*)$", l)
            if m:
                d = {"idx": int(m.group(1)), "ep": m.group(2), "class": m.group(3), "param": int(m.group(4)), "input": m.group(5), "flags": m.group(6), "detail": m.group(7)}
                (hang if t[0] == "H" else desc)[d["idx"]] = d
        elif t[0] == "X":
            f = l.split(" ")
            skipped[int(f[1])] = {"ep": f[2], "class": f[3], "flags": f[4] if len(f) > 4 else ""}
        elif t[0] == "E":
            ended = True
    return njobs, res, desc, hang, skipped, last_s, ended


def run_range(ctx, seed, tier, lo, hi, tag, timeout_ms, log):
    """runs jobs [lo,hi) in child processes, resuming after every crash. returns (results, failures, skipped)"""
    rd = ctx["rundir"]
    results, failures, skipped = {}, [], {}
    cur = lo
    attempt = 0
    unknown_deaths = 0
    while cur < hi:
        attempt += 1
        outp = os.path.join(rd, "c06-%s-%d.out" % (tag, attempt))
        if os.path.exists(outp):
            os.remove(outp)
        rc, o, dt = child(ctx, seed, tier, {"C06_FROM": str(cur), "C06_TO": str(hi), "C06_TIMEOUT_MS": str(timeout_ms), "C06_LO": str(lo), "C06_XBUDGET": "1" if tier == "quick" else "4"}, outp, 3600)
        njobs, res, desc, hang, skp, last_s, ended = parse(outp)
        results.update(res)
        skipped.update(skp)
        for i, r in res.items():
            if r["outcome"] not in ("ok", "err"):
                d = desc.get(i, {})
                failures.append({"idx": i, "ep": r["ep"], "class": r["class"], "kind": r["outcome"], "flags": d.get("flags", ""), "detail": d.get("detail", ""),
                                 "input": d.get("input", ""), "param": d.get("param", 0), "len": r["len"], "alloc": r["alloc"], "us": r["us"]})
        if ended and rc == 0:
            break
        if last_s is None:
            if njobs is None:
                failures.append({"idx": -1, "ep": "harness", "class": "-", "kind": "infra", "flags": "", "detail": "child produced no output rc=%s: %s" % (rc, o[-400:]), "input": "", "param": 0})
                break
            # died between jobs: resume after the last reported job
            nxt = max([i for i in res] + [cur - 1]) + 1
            if nxt <= cur:
                failures.append({"idx": cur, "ep": "harness", "class": "-", "kind": "infra", "flags": "", "detail": "child died without progress rc=%s: %s" % (rc, o[-400:]), "input": "", "param": 0})
                break
            cur = nxt
            continue
        # the child died / was killed inside job last_s: confirm alone
        kind = "hang" if (rc == 97 or last_s in hang) else "crash"
        log.append("child rc=%s inside job %d (%s) after %.1fs" % (rc, last_s, kind, dt))
        f = confirm(ctx, seed, tier, last_s, tag, max(timeout_ms, 2000), o)
        failures.append(f)
        if f["kind"] != "flaky" and classify(f["ep"], f["kind"], f["flags"], f["detail"], f.get("class")) is None:
            unknown_deaths += 1
            if unknown_deaths >= 8:
                # the tree is badly broken: every further death costs seconds and adds nothing to the verdict
                log.append("range %s: stopped at job %d after %d unclassified process deaths" % (tag, last_s, unknown_deaths))
                failures.append({"idx": last_s, "ep": "harness", "class": "-", "kind": "stopped", "flags": "", "detail": "", "input": "", "param": 0})
                break
        cur = last_s + 1
    return results, failures, skipped


def confirm(ctx, seed, tier, idx, tag, timeout_ms, first_out):
    """re-run job idx alone in a fresh child (up to 2 times): what happens to exactly this input?"""
    rd = ctx["rundir"]
    outp = os.path.join(rd, "c06-%s-only-%d.out" % (tag, idx))
    # description of the job
    lp = os.path.join(rd, "c06-%s-desc-%d.out" % (tag, idx))
    child(ctx, seed, tier, {"C06_ONLY": str(idx), "C06_LIST": "1"}, lp, 600)
    _, _, desc, _, _, _, _ = parse(lp)
    d = desc.get(idx, {"ep": "?", "class": "?", "flags": "", "input": "", "param": 0})
    kinds = []
    detail = ""
    for rep in range(2):
        if os.path.exists(outp):
            os.remove(outp)
        rc, o, dt = child(ctx, seed, tier, {"C06_ONLY": str(idx), "C06_TIMEOUT_MS": str(timeout_ms)}, outp, 600)
        njobs, res, dsc, hang, _, last_s, ended = parse(outp)
        if idx in res:
            k = res[idx]["outcome"]
            if k in ("ok", "err"):
                kinds.append("none")
                continue
            kinds.append(k)
            detail = dsc.get(idx, {}).get("detail", "")
        elif rc == 97 or idx in hang:
            kinds.append("hang")
            detail = "no return within %d ms (watchdog)" % timeout_ms
        else:
            txt = o or first_out or ""
            if "out of memory" in txt or "cannot allocate memory" in txt:
                kinds.append("oom")
                detail = "fatal error: out of memory under ulimit -v %d kB" % VMEM_KB
            elif "stack overflow" in txt or "stack exceeds" in txt:
                kinds.append("stackoverflow")
                detail = "fatal error: stack overflow"
            elif "SIGSEGV" in txt or "fault" in txt or "signal" in txt:
                kinds.append("segv")
                m = re.search(r"(unexpected fault address \S+|signal SIGSEGV[^\n]*|fatal error: [^\n]*)", txt)
                detail = m.group(1) if m else txt[-200:]
            else:
                kinds.append("crash")
                detail = "child died rc=%s: %s" % (rc, txt[-300:].replace("\n", " | "))
        break_on = kinds[-1]
        if break_on != "none":
            break
    real = [k for k in kinds if k != "none"]
    kind = real[0] if real else "flaky"
    return {"idx": idx, "ep": d.get("ep"), "class": d.get("class"), "kind": kind, "flags": d.get("flags", ""), "detail": detail, "input": d.get("input", ""),
            "param": d.get("param", 0), "len": (len(d.get("input", "x")) - 1) // 2, "confirmed_alone": bool(real)}


def run(ctx):
    seed, tier = ctx["seed"], ctx["tier"]
    rd = ctx["rundir"]
    log = []
    if not ctx["st"].get("harness_ok"):
        return {"infra": "harness did not build"}
    rp = ctx.get("replay")
    if rp and rp.get("hook_replay"):
        # replay of one job: run it alone
        h = rp["hook_replay"]
        f = confirm(ctx, h.get("seed", seed), h.get("tier", tier), int(h["idx"]), "replay", 4000, "")
        fid = classify(f["ep"], f["kind"], f["flags"], f["detail"], f.get("class")) if f["kind"] != "flaky" else None
        if f["kind"] == "flaky":
            return {"violations": [], "known": [], "evidence": {"replayed": f}}
        if fid:
            return {"violations": [], "known": [{"id": fid, "what": f["ep"]}], "evidence": {"replayed": f}}
        return {"violations": [{"what": "%s: %s on %s input (%s)" % (f["ep"], f["kind"], f["class"], f["detail"][:200]), "replay": dict(h)}], "evidence": {"replayed": f}}
    if rp:
        return {}
    # how many jobs?
    lp = os.path.join(rd, "c06-count.out")
    rc, o, _ = child(ctx, seed, tier, {"C06_LIST": "1", "C06_FROM": "0", "C06_TO": "0"}, lp, 900)
    njobs = parse(lp)[0]
    if not njobs:
        return {"infra": "cannot list C06 jobs: rc=%s %s" % (rc, o[-500:])}
    nproc = 6 if tier == "quick" else 12
    timeout_ms = 1000 if tier == "quick" else 2000
    bounds = [njobs * k // nproc for k in range(nproc + 1)]
    t0 = time.time()
    results, failures, skipped = {}, [], {}
    with concurrent.futures.ThreadPoolExecutor(max_workers=nproc) as ex:
        futs = [ex.submit(run_range, ctx, seed, tier, bounds[k], bounds[k + 1], "b%d" % k, timeout_ms, log) for k in range(nproc)]
        for f in futs:
            r, fl, sk = f.result()
            results.update(r); failures += fl; skipped.update(sk)
    wall = time.time() - t0
    # aggregate
    by_ep = collections.OrderedDict()
    for i in sorted(results):
        r = results[i]
        e = by_ep.setdefault(r["ep"], {"calls": 0, "ok": 0, "err": 0, "fail": 0, "max_us": 0, "max_alloc_per_byte": 0.0})
        e["calls"] += 1
        if r["outcome"] in ("ok", "err"):
            e[r["outcome"]] += 1
        e["max_us"] = max(e["max_us"], r["us"])
        if r["outcome"] in ("ok", "err"):
            e["max_alloc_per_byte"] = max(e["max_alloc_per_byte"], round(max(0, r["alloc"] - (1 << 20)) / max(1, r["len"]), 1))
    # distribution: entry point x mutation kind (input class) -> calls / errors returned / failures
    dist = collections.OrderedDict()
    kinds = collections.OrderedDict()
    for i in sorted(results):
        r = results[i]
        c = dist.setdefault(r["ep"], collections.OrderedDict()).setdefault(r["class"], [0, 0, 0])
        c[0] += 1
        if r["outcome"] == "err":
            c[1] += 1
        elif r["outcome"] != "ok":
            c[2] += 1
        kinds[r["class"]] = kinds.get(r["class"], 0) + 1
    violations, known = [], {}
    infra = None
    seen_v = {}
    stopped = False
    not_alone = {}
    for f in sorted(failures, key=lambda f: (f["ep"] or "", f["kind"], f.get("len", 0), f["idx"])):
        if f["kind"] == "infra":
            infra = f["detail"]
            continue
        if f["kind"] == "stopped":
            stopped = True
            continue
        if f["kind"] == "flaky":
            log.append("job %d (%s) died once but not when re-run alone: not counted" % (f["idx"], f["ep"]))
            continue
        if f["ep"] in by_ep:
            by_ep[f["ep"]]["fail"] += 1
        fid = classify(f["ep"], f["kind"], f["flags"], f["detail"], f.get("class"))
        if fid is not None:
            k = known.setdefault(fid, {"id": fid, "what": "", "count": 0, "eps": {}, "min": None})
            k["count"] += 1
            k["eps"][f["ep"] + ":" + f["kind"]] = k["eps"].get(f["ep"] + ":" + f["kind"], 0) + 1
            if k["min"] is None or f.get("len", 1 << 30) < k["min"].get("len", 1 << 30):
                k["min"] = {"ep": f["ep"], "kind": f["kind"], "input": f["input"], "len": f.get("len"), "detail": f["detail"][:200], "idx": f["idx"], "param": f.get("param")}
        else:
            key = (f["ep"], f["kind"])
            if key in seen_v:
                seen_v[key]["count"] += 1
                continue
            if key in not_alone and not_alone[key] >= 3:
                continue
            if not f.get("confirmed_alone"):
                # in-process failure (recovered panic / allocation): does it happen to this input in a fresh process?
                g = confirm(ctx, seed, tier, f["idx"], "v", max(timeout_ms, 2000), "")
                if g["kind"] == "flaky":
                    not_alone[key] = not_alone.get(key, 0) + 1
                    log.append("job %d (%s, %s: %s) does not fail when run alone in a fresh process: state left behind by an earlier failing call, not counted" % (f["idx"], f["ep"], f["kind"], f["detail"][:80]))
                    continue
            v = {"what": "%s: %s on %s input of %s bytes (%s)" % (f["ep"], f["kind"], f["class"], f.get("len"), f["detail"][:240]),
                 "replay": {"idx": f["idx"], "seed": seed, "tier": tier, "ep": f["ep"], "kind": f["kind"], "class": f["class"], "flags": f["flags"], "param": f.get("param"),
                            "input": f["input"], "detail": f["detail"][:600]}, "count": 1}
            seen_v[key] = v
            violations.append(v)
    for v in violations:
        v["what"] += " [%d inputs]" % v.pop("count")
    total_fail = sum(e["fail"] for e in by_ep.values())
    ev = {"jobs": njobs, "calls": len(results), "skipped_expected_hang_class": len(skipped), "children": nproc, "wall_s": round(wall, 1),
          "guard_page": "input copied flush against a PROT_NONE page (mmap+mprotect), cap == len", "vmem_limit_kb": VMEM_KB, "watchdog_ms": timeout_ms,
          "alloc_bound": "TotalAlloc delta <= 2048*len + 1 MiB", "by_entry_point": by_ep, "failures": total_fail,
          "mutation_kinds": kinds,
          "distribution_entry_point_x_mutation_kind": {"columns": "calls, returned an error, failed (panic/over-read/alloc/hang/crash)",
                                                       "rows": {ep: {k: "%d/%d/%d" % tuple(v) for k, v in d.items()} for ep, d in dist.items()}},
          "known": {str(k): {"count": v["count"], "by": v["eps"], "smallest": v["min"]} for k, v in known.items()}, "log": log[:40]}
    if len(results) + len(skipped) + total_fail < njobs and not infra and not stopped:
        missing = njobs - len(results) - len(skipped)
        crashed = len([f for f in failures if f["kind"] in ("hang", "oom", "crash", "segv", "stackoverflow")])
        if missing > crashed:
            infra = "only %d of %d jobs reported (+%d skipped, %d died)" % (len(results), njobs, len(skipped), crashed)
    return {"violations": violations, "known": [{"id": k, "what": ""} for k in sorted(known)], "evidence": ev, "infra": infra}
