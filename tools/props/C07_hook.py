"""C07 plugin: generator coverage. Reads the case file of the run that has just been judged and counts, for the
GetByPath lines (check 702, APIs 1 and 2), which path-step kind x container flavour every query ends in, so that the
evidence shows what the quick tier reaches; a class of the required grid that is never reached is a violation
(the refinement theorem quantifies over all of them; the correspondence must at least touch each)."""
import os, collections

KIND = {1: "double", 2: "float", 3: "int64", 4: "uint64", 5: "int32", 6: "fixed64", 7: "fixed32", 8: "bool", 9: "string", 11: "message",
        12: "bytes", 13: "uint32", 14: "enum", 15: "sfixed32", 16: "sfixed64", 17: "sint32", 18: "sint64"}
WT = {1: 1, 6: 1, 16: 1, 2: 5, 7: 5, 15: 5, 9: 2, 11: 2, 12: 2}

def elem_flavour(kind):
    if kind == 11: return "unpacked-message"
    if kind == 9: return "unpacked-string"
    if kind == 12: return "unpacked-bytes"
    return {0: "packed-varint", 1: "packed-fixed64", 5: "packed-fixed32"}[WT.get(kind, 0)]

def value_class(kind):
    return "message" if kind == 11 else ("bytes" if kind in (9, 12) else "scalar")

def parse_line(t):
    i = 1
    root = bytes.fromhex(t[i][1:]).decode(); nm = int(t[i + 1][1:]); i += 2
    msgs = {}
    for _ in range(nm):
        name = bytes.fromhex(t[i][1:]).decode(); nf = int(t[i + 1][1:]); i += 2
        fl = []
        for _ in range(nf):
            fl.append({"num": int(t[i][1:]), "name": bytes.fromhex(t[i + 1][1:]).decode(), "json": bytes.fromhex(t[i + 2][1:]).decode(),
                       "label": int(t[i + 3][1:]), "kind": int(t[i + 4][1:]), "kk": int(t[i + 5][1:]), "msg": bytes.fromhex(t[i + 6][1:]).decode()})
            i += 7
        msgs[name] = fl
    return i, root, msgs

def run(ctx):
    cases = os.path.join(ctx["rundir"], "cases.txt")
    if not os.path.exists(cases):
        return {}
    cls = collections.Counter(); outcome = collections.Counter(); depth = collections.Counter(); lines = collections.Counter(); deep = collections.Counter()
    for line in open(cases):
        if not line.startswith("702 "):
            lines[line.split(" ", 1)[0]] += 1
            continue
        t = line.split()
        i, root, msgs = parse_line(t)
        i += 1  # bytes
        api = int(t[i][1:]); nq = int(t[i + 1][1:]); i += 2
        lines["702 api %d" % api] += 1
        if api in (7, 10):
            # recursive loads: the deepest message level a query of this line addresses (field steps through messages)
            mx = 0
            for _ in range(nq):
                n = int(t[i][1:]); i += 1
                lv = sum(1 for s_ in range(n) if t[i + 2 * s_] in ("n1", "n2"))
                i += 2 * n + 4
                mx = max(mx, lv)
            for b in (10, 500, 1000, 1023, 1024, 1500, 5000):
                if mx >= b:
                    deep["recursive-load api %d depth>=%d" % (api, b)] += 1
            continue
        if api not in (1, 2):
            continue
        for _ in range(nq):
            n = int(t[i][1:]); i += 1
            cur = ("msg", root); last = None; ok = True
            for _s in range(n):
                k = int(t[i][1:]); a = t[i + 1]; i += 2
                if not ok:
                    continue
                if k in (1, 2) and cur[0] == "msg":
                    fds = msgs.get(cur[1], [])
                    if k == 1:
                        f = next((x for x in fds if x["num"] == int(a[1:])), None)
                    else:
                        nm_ = bytes.fromhex(a[1:]).decode()
                        f = next((x for x in fds if x["name"] == nm_ or x["json"] == nm_), None)
                    if f is None:
                        last = "field-%s:undeclared" % ("id" if k == 1 else "name"); ok = False; continue
                    lab = {0: "singular", 1: "list", 2: "list", 3: "map"}[f["label"]]
                    if lab == "singular":
                        last = "field-%s:singular-%s" % ("id" if k == 1 else "name", value_class(f["kind"]))
                        cur = ("msg", f["msg"]) if f["kind"] == 11 else ("leaf",)
                    elif lab == "list":
                        last = "field-%s:list-%s" % ("id" if k == 1 else "name", elem_flavour(f["kind"]))
                        cur = ("list", f)
                    else:
                        last = "field-%s:map-%s-%s" % ("id" if k == 1 else "name", KIND[f["kk"]], value_class(f["kind"]))
                        cur = ("map", f)
                elif k == 3 and cur[0] == "list":
                    f = cur[1]; last = "index:%s" % elem_flavour(f["kind"])
                    cur = ("msg", f["msg"]) if f["kind"] == 11 else ("leaf",)
                elif k in (4, 5) and cur[0] == "map":
                    f = cur[1]; last = "%s:%s-%s" % ("strkey" if k == 4 else "intkey", KIND[f["kk"]], value_class(f["kind"]))
                    cur = ("msg", f["msg"]) if f["kind"] == 11 else ("leaf",)
                else:
                    last = "ill-typed"; ok = False
            st = t[i]; i += 3
            if api == 1 or (last or "").startswith("field-name"):
                cls[last or "empty"] += 1
                outcome[(last or "empty").split(":")[0] + ":" + {"n0": "found", "n1": "not-found", "n2": "error", "n3": "panic"}.get(st, st)] += 1
                depth[n] += 1
    required = ["field-id:singular-scalar", "field-id:singular-bytes", "field-id:singular-message", "field-name:singular-scalar",
                "field-id:undeclared"]
    required += ["field-id:list-" + f for f in ("packed-varint", "packed-fixed32", "packed-fixed64", "unpacked-string", "unpacked-bytes", "unpacked-message")]
    required += ["index:" + f for f in ("packed-varint", "packed-fixed32", "packed-fixed64", "unpacked-string", "unpacked-bytes", "unpacked-message")]
    intkeys = ["int32", "int64", "uint32", "uint64", "sint32", "sint64", "fixed32", "fixed64", "sfixed32", "sfixed64"]
    missing = [c for c in required if cls[c] == 0]
    # key steps: every key kind (any value class) and every value class (any key kind)
    for kk in intkeys:
        if sum(v for c, v in cls.items() if c.startswith("intkey:%s-" % kk)) == 0:
            missing.append("intkey:%s-*" % kk)
    for vc in ("scalar", "bytes", "message"):
        if sum(v for c, v in cls.items() if c.startswith("intkey:") and c.endswith("-" + vc)) == 0:
            missing.append("intkey:*-" + vc)
        if cls["strkey:string-" + vc] == 0:
            missing.append("strkey:string-" + vc)
    for o in ("index:found", "index:not-found", "intkey:found", "intkey:not-found", "strkey:found", "strkey:not-found",
              "field-id:found", "field-id:not-found"):
        if outcome[o] == 0:
            missing.append("outcome " + o)
    # deep class: Load(recurse=true) / Children(recurse=true) on values nested up to 5000 levels
    for api in (7, 10):
        for b in (1024,):
            if deep["recursive-load api %d depth>=%d" % (api, b)] == 0:
                missing.append("recursive-load api %d depth>=%d" % (api, b))
    ev = {"getbypath_last_step_classes": dict(sorted(cls.items())), "getbypath_outcomes": dict(sorted(outcome.items())),
          "path_length_histogram": {str(k): v for k, v in sorted(depth.items())}, "case_lines": dict(sorted(lines.items())), "recursive_load_depths": dict(sorted(deep.items())),
          "required_classes_missing": missing}
    res = {"evidence": ev}
    if missing:
        res["violations"] = [{"what": "C07 generator coverage: the quick tier never reached " + ", ".join(missing), "replay": {"missing": missing}, "no_input": True}]
    return res
