# Per-property configuration for ./check (levels, budgets, dependencies on generated modules).
PROPS = {
    "C20": {
        "level": "proof",
        "n": {"quick": 3000, "thorough": 200000},
        "gen_needs": ["Gen_protowire", "Gen_proto", "Gen_protobinary"],
        "assumptions": [
            "theorems are about definitions regenerated from proto/protowire/*.go and proto/binary/binary.go by tools/go2coq on this run",
            "Go slices are shorter than 2^63 bytes (hypothesis of ConsumeBytes_ref) and buffers shorter than 2^62 (dispatch_inverse)",
            "float32/float64 values are modelled by their IEEE bit patterns (math.Float*bits is the identity in the model)",
            "message-level WriteAnyWithDesc/ReadAnyWithDesc (lists, maps, nested messages) is covered under C07/C10's model, not here",
        ],
        "trusted_base": ["google.golang.org/protobuf/encoding/protowire as the reference implementation"],
    },
    "C01": {
        "level": "proof",
        "n": {"quick": 3000, "thorough": 150000},
        "gen_needs": [],
        "assumptions": [],
        "trusted_base": [],
    },
}
