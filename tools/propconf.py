# Per-property configuration for ./check: one JSON file per property under tools/props/ (levels, budgets,
# dependencies on generated modules, assumptions). "claimed": false keeps a property out of MANIFEST.checks.
import json, os, glob
_D = os.path.join(os.path.dirname(os.path.abspath(__file__)), "props")
PROPS = {}
for _f in sorted(glob.glob(os.path.join(_D, "C*.json"))):
    PROPS[os.path.basename(_f)[:-5]] = json.load(open(_f))
