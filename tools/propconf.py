# Per-property configuration for ./check (levels, budgets, dependencies on generated modules).
PROPS = {
    "C20": {
        "level": "proof",
        "n": {"quick": 3000, "thorough": 200000},
        "gen_needs": ["Gen_protowire", "Gen_proto", "Gen_protobinary"],
        "assumptions": [
            "theorems are about definitions regenerated from proto/protowire/*.go and proto/binary/binary.go by tools/go2coq on this run",
            "Go slices are shorter than 2^63 bytes (hypothesis of ConsumeBytes_ref) and buffers shorter than 2^62 (dispatch_inverse)",
            "float32/float64 values are modelled by their IEEE bit patterns (math.Float*bits is the identity in the model)",
            "message-level WriteAnyWithDesc/ReadAnyWithDesc (lists, maps, nested messages) is covered under C07/C10's model, not here",
        ],
        "trusted_base": ["google.golang.org/protobuf/encoding/protowire as the reference implementation"],
        "level_text": "Machine-checked proof (Coq) that the varint/zig-zag/fixed/bytes codecs generated from the Go source equal a recursive reference for all values and all byte strings, and that the descriptor-driven scalar reader inverts the writer for every kind; tied to the code by regeneration (go2coq) on every run plus differential runs of the real functions, protobuf-go and the extracted definitions.",
        "level_note": "Trusted: Coq kernel, go2coq translator (validated each run by executing generated definitions against the real functions), extraction + OCaml driver, Go harness, protobuf-go protowire as reference. Message-level reader/writer is covered under C07/C10.",
        "technique": "Coq proof over go2coq-translated definitions + differential correspondence",
    },
    "C01": {
        "level": "proof",
        "n": {"quick": 3000, "thorough": 150000},
        "gen_needs": [],
        "assumptions": [
            "hand-written model (ThriftWire/ThriftGeneric) tied to thrift/generic by differential runs only",
            "I08 map keys are compared through an unsigned byte as the code does (harness uses keys 0..127 for int-key paths)",
            "Node.Index() reports an out-of-range index as a non-not-found error; accepted as an error result",
        ],
        "trusted_base": [],
        "level_text": "Coq proofs that the independent decoder inverts the encoder and that skip advances by exactly the encoded length for every well-formed value (all shapes, sizes, depths), plus byte-level get_by_path and AST-level lookup models evaluated side by side; the implementation's Node/Value GetByPath, Field/Index/GetByStr/GetByInt/GetByRaw and Children are compared with the model on generated values for type, exact byte span, not-found and error class.",
    },
    "C04": {
        "level": "proof",
        "n": {"quick": 4000, "thorough": 200000},
        "gen_needs": [],
        "assumptions": [
            "insertion position is left open by the property: the model inserts at the front as the code does, back insertion is classified as drift",
            "inserted sub values have the type the container declares (API contract); raw map keys are encodings of the key type",
        ],
        "trusted_base": [],
        "level_text": "Edit histories (set / unset, Node and Value variants) are replayed on the decoded AST by a Gallina model; after every step the implementation's bytes must equal the encoding of the model state, 'existed' and error flags must match, failed operations and forks must leave buffers unchanged. Theorems: decoder round trip / well-formedness preservation of the model edits.",
    },
    "C04": {
        "level": "proof",
        "n": {"quick": 4000, "thorough": 200000},
        "gen_needs": [],
        "assumptions": [],
        "trusted_base": [],
    },
    "C19": {
        "level": "proof",
        "n": {"quick": 3000, "thorough": 200000},
        "gen_needs": ["Gen_thrift"],
        "assumptions": [
            "the writer side (malloc + binary.BigEndian.Put*) is not translated by go2coq (aliasing writes); it is tied by differential runs",
            "message type is one byte (0..255), method name shorter than 2^31 in unwrap_wrap",
            "WriteAnyWithDesc/ReadAnyWithDesc are not covered yet (only the descriptor-free WriteAny/ReadAny)",
        ],
        "trusted_base": [],
        "level_text": "Coq proofs: decode(encode v ++ r) = (v, r) and skip advances by exactly |encode v| for every well-formed value of every shape and depth (model of SkipGo incl. its fixed-size fast paths), unwrap(wrap ...) returns name/type/seq/id/body with header++body++footer = wrap, and the model's leaf tables equal the definitions generated from thrift/*.go (typeSize, Type.Valid/IsInt/IsComplex, big-endian decoders). Correspondence: writer/reader for all scalar kinds, strings, SkipGo and SkipNative cursors on generated/truncated/corrupted values, envelopes, WriteAny/ReadAny round trips.",
    },
    "C11": {
        "level": "proof",
        "n": {"quick": 3000, "thorough": 150000},
        "gen_needs": [],
        "assumptions": [
            "only the Thrift half (Value.MarshalTo) is modelled here; the Protobuf half is checked with the Protobuf family (C10)",
            "values conform to the source descriptor up to unknown fields; target descriptors are structural variants (field subsets/supersets at every depth, shared / cloned / separately parsed sub-descriptors)",
        ],
        "trusted_base": [],
        "level_text": "Gallina spec project(from,to,opts) on the decoded AST (ids in both descriptors kept in source order, unknown dropped/error, required check, default zero-fill, raw copy for the same descriptor) with theorems about it; the implementation's MarshalTo output must be byte-identical to the encoding of the projection (error class otherwise) on generated descriptor pairs incl. pointer-equal and separately parsed ones.",
    },
}
