#!/usr/bin/env python3
"""tools/resolve_design.py Cxx [Cyy..] : resolve git conflict hunks in DESIGN.md whose sides are lists of per-property bullets
(`* **Cxx** ...`): for the listed (owned) properties the incoming side's bullet is taken, for all others ours. Fails if a hunk is not of that shape."""
import sys, re
owned = set(sys.argv[1:])
L = open('DESIGN.md').read().split('\n')
out = []; i = 0
def bullets(lines):
    res = []; cur = None
    for l in lines:
        m = re.match(r'\* \*\*(C\d\d)\*\*', l)
        if m: cur = [m.group(1), [l]]; res.append(cur)
        elif cur is None: res.append([None, [l]]); cur = res[-1]
        else: cur[1].append(l)
    return res
while i < len(L):
    if L[i].startswith('<<<<<<< '):
        j = i + 1
        while not L[j].startswith('======='): j += 1
        k = j + 1
        while not L[k].startswith('>>>>>>> '): k += 1
        ours = bullets(L[i+1:j]); theirs = bullets(L[j+1:k])
        # leading continuation lines (None id) belong to the bullet that started before the hunk
        tmap = {b[0]: b[1] for b in theirs}
        omap = {b[0]: b[1] for b in ours}
        order = [b[0] for b in ours]
        for b in theirs:
            if b[0] not in order: order.append(b[0])
        for pid in order:
            if pid is None:
                # continuation of the previous bullet: cannot decide -> keep ours
                out.extend(omap.get(None, tmap.get(None, [])))
            elif pid in owned and pid in tmap: out.extend(tmap[pid])
            elif pid in omap: out.extend(omap[pid])
            else: out.extend(tmap[pid])
        i = k + 1
    else:
        out.append(L[i]); i += 1
open('DESIGN.md', 'w').write('\n'.join(out))
