// go2coq: translator from a small, pure subset of Go to Gallina (Coq 8.16).
//
// It is run on every check against /repo's *current working tree*; the .v files
// it writes (coq/gen/Gen_*.v) are what the (G) theorems quantify over.
//
// Semantics emitted (see coq/model/GoSem.v for the primitives):
//   - every Go integer is a Z; the result of + - * << unary- ^x and of a
//     narrowing/sign-changing conversion is wrapped explicitly by `wrap s k`
//     (s = signedness, k = width), so overflow is written into the model;
//   - >> & | ^ &^ are the Z bit operations (they agree with two's complement on
//     in-range operands and need no wrap);
//   - []byte / string are `list Z`; b[i] is `idx b i` (default 0 when out of
//     range: guard removal is caught by the functional specs, which cover the
//     error results on every byte string);
//   - float32/float64 values are represented by their IEEE bit patterns (Z), so
//     math.Float64bits & co. are the identity;
//   - error values are Z codes: nil = 0, each package-level error variable and
//     io.EOF a distinct constant;
//   - a method with a pointer receiver whose state fields are listed in the
//     target (e.g. BinaryProtocol{Buf, Read}) takes the fields as leading
//     parameters and returns them after its results (state threading);
//   - early returns become nested if/then/else with the continuation
//     duplicated; counted `for i := 0; i < len(x); i++` loops over
//     accumulators become fold_left over `seqZ`.
//
// Anything outside the subset makes the translation of *that function* fail;
// the failure is recorded in report.json and the checks that depend on the
// function report a broken tie.
package main

import (
	"crypto/sha256"
	"encoding/json"
	"fmt"
	"go/ast"
	"go/build"
	"go/constant"
	"go/importer"
	"go/parser"
	"go/printer"
	"go/token"
	"go/types"
	"os"
	"path/filepath"
	"sort"
	"strings"
)

type Target struct {
	Module   string     // Coq module (file) name
	Dir      string     // package dir relative to the repo root
	Funcs    []string   // "F" or "Recv.M"
	Tables   []string   // package-level map / array literals with constant keys
	Dispatch []Dispatch // switch-dispatch extraction
	State    map[string][]string // receiver type -> threaded state fields
	Requires []string   // other generated modules this one refers to
	Mode     string     // "" (classic) | "abs" (abstract environment mode, see abs.go)
	Blocks   []Block    // abs mode: bodies of if-statements extracted by anchor
	Prelude  string     // extra Gallina text emitted after the header (abs mode helpers)
	Consts   []string   // package-level integer constants emitted as `Definition name : Z := value.`
	GOARCH   string     // parse the package's files as for this GOARCH (portable variants that amd64 builds exclude)
}

type Dispatch struct {
	Func  string // "Recv.M"
	Name  string // emitted definition prefix
	Style string // "read" | "write"
}

type FuncReport struct {
	Module string `json:"module"`
	Name   string `json:"name"`
	OK     bool   `json:"ok"`
	Err    string `json:"err,omitempty"`
	Sha    string `json:"sha"`
	Pos    string `json:"pos"`
}

var (
	fset     = token.NewFileSet()
	imp      types.Importer
	reports  []FuncReport
	pkgToMod = map[string]string{} // go package path -> Coq module
	repoRoot string
)

const modPath = "github.com/cloudwego/dynamicgo"

func main() {
	if len(os.Args) < 3 {
		fmt.Fprintln(os.Stderr, "usage: go2coq <repo-root> <out-dir>")
		os.Exit(2)
	}
	repoRoot = os.Args[1]
	outDir := os.Args[2]
	if err := os.Chdir(repoRoot); err != nil {
		panic(err)
	}
	imp = importer.ForCompiler(fset, "source", nil)
	for _, t := range targets {
		if _, dup := pkgToMod[modPath+"/"+t.Dir]; !dup { // several modules may come from one package: the first one owns the package
			pkgToMod[modPath+"/"+t.Dir] = t.Module
		}
	}
	os.MkdirAll(outDir, 0o755)
	for _, t := range targets {
		src, err := translateTarget(t)
		if err != nil {
			reports = append(reports, FuncReport{Module: t.Module, Name: "*", OK: false, Err: err.Error()})
			src = "(* go2coq: target failed: " + strings.ReplaceAll(err.Error(), "*)", "* )") + " *)\n"
		}
		path := filepath.Join(outDir, t.Module+".v")
		old, _ := os.ReadFile(path)
		if string(old) != src { // keep mtime when unchanged: incremental make
			if err := os.WriteFile(path, []byte(src), 0o644); err != nil {
				panic(err)
			}
		}
	}
	rep, _ := json.MarshalIndent(reports, "", " ")
	os.WriteFile(filepath.Join(outDir, "report.json"), rep, 0o644)
	bad := 0
	for _, r := range reports {
		if !r.OK {
			bad++
			fmt.Fprintf(os.Stderr, "go2coq: FAILED %s.%s: %s\n", r.Module, r.Name, r.Err)
		}
	}
	fmt.Printf("go2coq: %d definitions, %d failed\n", len(reports), bad)
}

type pkgInfo struct {
	pkg   *types.Package
	info  *types.Info
	files []*ast.File
	funcs map[string]*ast.FuncDecl // "F" / "Recv.M"
	vars  map[string]*ast.ValueSpec
}

var pkgCache = map[string]*pkgInfo{} // several modules may be translated from one package

func loadPkg(dir string) (*pkgInfo, error) { return loadPkgArch(dir, "") }

func loadPkgArch(dir, arch string) (*pkgInfo, error) {
	if pi, ok := pkgCache[dir+"|"+arch]; ok {
		return pi, nil
	}
	pi, err := loadPkgUncached(dir, arch)
	if err == nil {
		pkgCache[dir+"|"+arch] = pi
	}
	return pi, err
}

func loadPkgUncached(dir, arch string) (*pkgInfo, error) {
	ctx := build.Default
	if arch != "" {
		ctx.GOARCH = arch
	}
	bp, err := ctx.ImportDir(dir, 0)
	if err != nil {
		return nil, err
	}
	pi := &pkgInfo{funcs: map[string]*ast.FuncDecl{}, vars: map[string]*ast.ValueSpec{}}
	for _, f := range bp.GoFiles {
		af, err := parser.ParseFile(fset, filepath.Join(dir, f), nil, parser.ParseComments)
		if err != nil {
			return nil, err
		}
		pi.files = append(pi.files, af)
	}
	pi.info = &types.Info{
		Types: map[ast.Expr]types.TypeAndValue{},
		Defs:  map[*ast.Ident]types.Object{},
		Uses:  map[*ast.Ident]types.Object{},
		Selections: map[*ast.SelectorExpr]*types.Selection{},
	}
	conf := types.Config{Importer: imp, Error: func(error) {}}
	pi.pkg, _ = conf.Check(modPath+"/"+dir, fset, pi.files, pi.info)
	for _, af := range pi.files {
		for _, d := range af.Decls {
			switch d := d.(type) {
			case *ast.FuncDecl:
				name := d.Name.Name
				if d.Recv != nil && len(d.Recv.List) == 1 {
					name = recvTypeName(d.Recv.List[0].Type) + "." + name
				}
				pi.funcs[name] = d
			case *ast.GenDecl:
				for _, s := range d.Specs {
					if vs, ok := s.(*ast.ValueSpec); ok {
						for _, n := range vs.Names {
							pi.vars[n.Name] = vs
						}
					}
				}
			}
		}
	}
	return pi, nil
}

func recvTypeName(e ast.Expr) string {
	switch e := e.(type) {
	case *ast.StarExpr:
		return recvTypeName(e.X)
	case *ast.Ident:
		return e.Name
	}
	return "?"
}

func srcOf(n ast.Node) string {
	var sb strings.Builder
	printer.Fprint(&sb, fset, n)
	return sb.String()
}

func translateTarget(t Target) (string, error) {
	pi, err := loadPkgArch(t.Dir, t.GOARCH)
	if err != nil {
		return "", err
	}
	var sb strings.Builder
	sb.WriteString("(* GENERATED by /verif/tools/go2coq from /repo/" + t.Dir + " — do not edit. *)\n")
	sb.WriteString("From Coq Require Import ZArith List Bool.\nFrom DG Require Import GoSem.\n")
	for _, r := range t.Requires {
		sb.WriteString("From DG Require " + r + ".\n")
	}
	sb.WriteString("Import ListNotations.\nLocal Open Scope Z_scope.\n\n")

	tr := &translator{pi: pi, t: t, errCodes: map[string]int{}, effIdx: map[string]int{}, optFuncs: map[string]bool{}}
	if t.Mode == "abs" {
		if len(t.Blocks) > 0 {
			sb.WriteString(absPrelude)
		}
		sb.WriteString(t.Prelude)
	}
	// error variables of this package: stable codes by sorted name
	var errNames []string
	for name, vs := range pi.vars {
		if obj := pi.pkg.Scope().Lookup(name); obj != nil {
			if isErrorType(obj.Type()) {
				_ = vs
				errNames = append(errNames, name)
			}
		}
	}
	sort.Strings(errNames)
	for i, n := range errNames {
		tr.errCodes[n] = 100 + i
		sb.WriteString(fmt.Sprintf("Definition Err_%s : Z := %d.\n", n, 100+i))
	}
	if len(errNames) > 0 {
		sb.WriteString("\n")
	}

	for _, c := range t.Consts {
		def, err := tr.constant(c)
		tr.report(c, nil, err)
		if err != nil {
			sb.WriteString("(* go2coq: FAILED constant " + c + ": " + cm(err.Error()) + " *)\n\n")
			continue
		}
		sb.WriteString(def)
	}
	if len(t.Consts) > 0 {
		sb.WriteString("\n")
	}
	for _, tb := range t.Tables {
		def, err := tr.table(tb)
		tr.report(tb, pi.vars[tb], err)
		if err != nil {
			sb.WriteString("(* go2coq: FAILED table " + tb + ": " + cm(err.Error()) + " *)\n\n")
			continue
		}
		sb.WriteString(def + "\n")
	}

	// order functions so that callees come first
	order := tr.topo(t.Funcs)
	for _, fn := range order {
		fd := pi.funcs[fn]
		if fd == nil {
			tr.report(fn, nil, fmt.Errorf("function not found in source"))
			sb.WriteString("(* go2coq: FAILED " + fn + ": not found *)\n\n")
			continue
		}
		var def string
		var err error
		if t.Mode == "abs" {
			def, err = tr.absFunction(fn, fd)
		} else {
			def, err = tr.function(fn, fd)
		}
		tr.report(fn, fd, err)
		if err != nil {
			sb.WriteString("(* go2coq: FAILED " + fn + ": " + cm(err.Error()) + " *)\n\n")
			continue
		}
		sb.WriteString(def + "\n")
	}
	for _, b := range t.Blocks {
		fd := pi.funcs[b.Func]
		if fd == nil {
			tr.report(b.Name, nil, fmt.Errorf("function not found in source"))
			sb.WriteString("(* go2coq: FAILED block " + b.Name + ": function not found *)\n\n")
			continue
		}
		var def string
		var err error
		if b.Cond {
			def, err = tr.absCond(b, fd)
		} else {
			def, err = tr.absBlock(b, fd)
		}
		tr.report(b.Name, fd, err)
		if err != nil {
			sb.WriteString("(* go2coq: FAILED block " + b.Name + ": " + cm(err.Error()) + " *)\n\n")
			continue
		}
		sb.WriteString(def + "\n")
	}
	for _, d := range t.Dispatch {
		fd := pi.funcs[d.Func]
		if fd == nil {
			tr.report(d.Name, nil, fmt.Errorf("function not found in source"))
			continue
		}
		def, err := tr.dispatch(d, fd)
		tr.report(d.Name, fd, err)
		if err != nil {
			sb.WriteString("(* go2coq: FAILED dispatch " + d.Name + ": " + cm(err.Error()) + " *)\n\n")
			continue
		}
		sb.WriteString(def + "\n")
	}
	return sb.String(), nil
}

func cm(s string) string { return strings.ReplaceAll(strings.ReplaceAll(s, "(*", "( *"), "*)", "* )") }

func (tr *translator) report(name string, n ast.Node, err error) {
	r := FuncReport{Module: tr.t.Module, Name: name, OK: err == nil}
	if err != nil {
		r.Err = err.Error()
	}
	if n != nil && n != (*ast.FuncDecl)(nil) && n != (*ast.ValueSpec)(nil) {
		h := sha256.Sum256([]byte(srcOf(n)))
		r.Sha = fmt.Sprintf("%x", h[:8])
		r.Pos = fset.Position(n.Pos()).String()
	}
	reports = append(reports, r)
}

func isErrorType(t types.Type) bool {
	if t == nil {
		return false
	}
	if n, ok := t.(*types.Named); ok && n.Obj().Name() == "error" && n.Obj().Pkg() == nil {
		return true
	}
	return false
}

type translator struct {
	pi       *pkgInfo
	t        Target
	errCodes map[string]int
	// per function
	recvName   string   // receiver identifier, "" if none / dropped
	recvState  []string // threaded fields, nil if not threaded
	recvType   string
	results    []string // named results (or r0..)
	resultTys  []types.Type
	alias      map[string]string // unsafe pointer aliases (ks -> k)
	tmp        int
	// abstract environment mode (abs.go)
	abs      *absCtx
	effIdx   map[string]int  // effect constants of this module
	optFuncs map[string]bool // generated definitions whose result is an option (None = panic)
	pending  string          // constant definitions to be emitted before the current definition
}

type trErr struct{ msg string }

func fail(n ast.Node, f string, a ...interface{}) {
	pos := ""
	if n != nil {
		pos = fset.Position(n.Pos()).String() + ": "
	}
	panic(trErr{pos + fmt.Sprintf(f, a...)})
}

func (tr *translator) topo(names []string) []string {
	set := map[string]bool{}
	for _, n := range names {
		set[n] = true
	}
	deps := map[string][]string{}
	for _, n := range names {
		fd := tr.pi.funcs[n]
		if fd == nil || fd.Body == nil {
			continue
		}
		ast.Inspect(fd.Body, func(x ast.Node) bool {
			ce, ok := x.(*ast.CallExpr)
			if !ok {
				return true
			}
			switch f := ce.Fun.(type) {
			case *ast.Ident:
				if set[f.Name] {
					deps[n] = append(deps[n], f.Name)
				}
			case *ast.SelectorExpr:
				if sel := tr.pi.info.Selections[f]; sel != nil {
					rt := sel.Recv()
					if p, ok := rt.(*types.Pointer); ok {
						rt = p.Elem()
					}
					if nm, ok := rt.(*types.Named); ok {
						k := nm.Obj().Name() + "." + f.Sel.Name
						if set[k] {
							deps[n] = append(deps[n], k)
						}
					}
				}
			}
			return true
		})
	}
	var out []string
	seen := map[string]int{}
	var visit func(string)
	visit = func(n string) {
		if seen[n] != 0 {
			return
		}
		seen[n] = 1
		for _, d := range deps[n] {
			visit(d)
		}
		seen[n] = 2
		out = append(out, n)
	}
	for _, n := range names {
		visit(n)
	}
	return out
}

// ---------------------------------------------------------------- types

func under(t types.Type) types.Type { return t.Underlying() }

func intInfo(t types.Type) (signed bool, width int, ok bool) {
	b, isb := under(t).(*types.Basic)
	if !isb {
		return false, 0, false
	}
	switch b.Kind() {
	case types.Int8:
		return true, 8, true
	case types.Int16:
		return true, 16, true
	case types.Int32:
		return true, 32, true
	case types.Int64, types.Int:
		return true, 64, true
	case types.Uint8:
		return false, 8, true
	case types.Uint16:
		return false, 16, true
	case types.Uint32:
		return false, 32, true
	case types.Uint64, types.Uint, types.Uintptr:
		return false, 64, true
	case types.UntypedInt, types.UntypedRune:
		return true, 0, true // unbounded
	}
	return false, 0, false
}

func isFloat(t types.Type) (int, bool) {
	b, isb := under(t).(*types.Basic)
	if !isb {
		return 0, false
	}
	switch b.Kind() {
	case types.Float32:
		return 32, true
	case types.Float64:
		return 64, true
	}
	return 0, false
}

func isBool(t types.Type) bool {
	b, isb := under(t).(*types.Basic)
	return isb && (b.Kind() == types.Bool || b.Kind() == types.UntypedBool)
}

func isBytesLike(t types.Type) bool {
	switch u := under(t).(type) {
	case *types.Basic:
		return u.Kind() == types.String || u.Kind() == types.UntypedString
	case *types.Slice:
		if b, ok := under(u.Elem()).(*types.Basic); ok && b.Kind() == types.Uint8 {
			return true
		}
	}
	return false
}

func (tr *translator) coqType(n ast.Node, t types.Type) string {
	if _, _, ok := intInfo(t); ok {
		return "Z"
	}
	if _, ok := isFloat(t); ok {
		return "Z"
	}
	if isBool(t) {
		return "bool"
	}
	if isBytesLike(t) {
		return "list Z"
	}
	if isErrorType(t) {
		return "Z"
	}
	if st, ok := under(t).(*types.Struct); ok {
		if st.NumFields() == 0 {
			return "unit"
		}
		if nm, ok := t.(*types.Named); ok {
			return "Rec_" + nm.Obj().Name()
		}
	}
	fail(n, "unsupported type %s", t.String())
	return ""
}

func wrapFor(t types.Type) string {
	s, w, ok := intInfo(t)
	if !ok || w == 0 {
		return ""
	}
	if s {
		return fmt.Sprintf("wraps %d", w)
	}
	return fmt.Sprintf("wrapu %d", w)
}

func wrapExpr(t types.Type, e string) string {
	w := wrapFor(t)
	if w == "" {
		return e
	}
	return "(" + w + " " + e + ")"
}

// ---------------------------------------------------------------- idents

var coqKeywords = map[string]bool{"fun": true, "let": true, "in": true, "if": true, "then": true, "else": true, "end": true,
	"match": true, "return": true, "as": true, "at": true, "with": true, "forall": true, "exists": true, "Type": true,
	"Set": true, "Prop": true, "fix": true, "cofix": true, "using": true, "where": true, "for": true, "mod": true, "all": true, "nil": true, "cons": true, "length": true, "app": true}

func lv(name string) string {
	if name == "_" {
		return "_"
	}
	if coqKeywords[name] {
		return name + "_"
	}
	return name
}

func zlit(v constant.Value) string {
	s := v.ExactString()
	if strings.HasPrefix(s, "-") {
		return "(" + s + ")"
	}
	return s
}

func bytesLit(s string) string {
	parts := make([]string, len(s))
	for i := 0; i < len(s); i++ {
		parts[i] = fmt.Sprintf("%d", s[i])
	}
	return "[" + strings.Join(parts, "; ") + "]"
}

// ---------------------------------------------------------------- expressions

func (tr *translator) typeOf(e ast.Expr) types.Type {
	tv, ok := tr.pi.info.Types[e]
	if !ok || tv.Type == nil {
		fail(e, "no type for %s", srcOf(e))
	}
	return tv.Type
}

func (tr *translator) constOf(e ast.Expr) (string, bool) {
	tv, ok := tr.pi.info.Types[e]
	if !ok || tv.Value == nil {
		return "", false
	}
	switch tv.Value.Kind() {
	case constant.Int:
		return zlit(tv.Value), true
	case constant.Bool:
		if constant.BoolVal(tv.Value) {
			return "true", true
		}
		return "false", true
	case constant.String:
		return bytesLit(constant.StringVal(tv.Value)), true
	case constant.Float:
		// only exact integers (e.g. 1<<7 in float context) are accepted
		if iv := constant.ToInt(tv.Value); iv.Kind() == constant.Int {
			if _, isf := isFloat(tv.Type); !isf {
				return zlit(iv), true
			}
		}
	}
	return "", false
}

func (tr *translator) expr(e ast.Expr) string {
	if c, ok := tr.constOf(e); ok {
		return c
	}
	if tr.abs != nil {
		if s, ok := tr.absExpr(e); ok {
			return s
		}
	}
	switch e := e.(type) {
	case *ast.ParenExpr:
		return tr.expr(e.X)
	case *ast.Ident:
		if e.Name == "nil" {
			t := tr.typeOf(e)
			_ = t
			return "NIL"
		}
		if e.Name == "true" || e.Name == "false" {
			return e.Name
		}
		obj := tr.pi.info.Uses[e]
		if obj == nil {
			obj = tr.pi.info.Defs[e]
		}
		if v, ok := obj.(*types.Var); ok && v.Parent() == tr.pi.pkg.Scope() {
			if isErrorType(v.Type()) {
				return "Err_" + v.Name()
			}
			if at, ok := under(v.Type()).(*types.Array); ok && at.Len() == 0 {
				return "(@nil Z)"
			}
			fail(e, "package-level variable %s", e.Name)
		}
		if a, ok := tr.alias[e.Name]; ok {
			return lv(a)
		}
		return lv(e.Name)
	case *ast.SelectorExpr:
		return tr.selector(e)
	case *ast.BinaryExpr:
		return tr.binary(e)
	case *ast.UnaryExpr:
		x := tr.expr(e.X)
		t := tr.typeOf(e)
		switch e.Op {
		case token.NOT:
			return "(negb " + x + ")"
		case token.SUB:
			return wrapExpr(t, "(- "+x+")")
		case token.XOR:
			return wrapExpr(t, "(Z.lnot "+x+")")
		case token.ADD:
			return x
		}
		fail(e, "unary %s", e.Op)
	case *ast.CallExpr:
		return tr.call(e)
	case *ast.IndexExpr:
		bt := tr.typeOf(e.X)
		if isBytesLike(bt) {
			return "(idx " + tr.expr(e.X) + " " + tr.expr(e.Index) + ")"
		}
		// table lookup
		if name, mod, ok := tr.tableRef(e.X); ok {
			return "(" + mod + name + " " + tr.expr(e.Index) + ")"
		}
		fail(e, "index on %s", bt)
	case *ast.SliceExpr:
		if e.Slice3 {
			fail(e, "3-index slice")
		}
		x := tr.expr(e.X)
		switch {
		case e.Low == nil && e.High == nil:
			return x
		case e.Low != nil && e.High == nil:
			return "(slice_from " + x + " " + tr.expr(e.Low) + ")"
		case e.Low == nil && e.High != nil:
			return "(slice_to " + x + " " + tr.expr(e.High) + ")"
		default:
			return "(slice_range " + x + " " + tr.expr(e.Low) + " " + tr.expr(e.High) + ")"
		}
	case *ast.StarExpr:
		// *(*byte)(rt.IndexPtr(ks, byteTypeSize, i))  ==>  idx k i
		if ce, ok := e.X.(*ast.CallExpr); ok && len(ce.Args) == 1 {
			if inner, ok := ce.Args[0].(*ast.CallExpr); ok {
				if se, ok := inner.Fun.(*ast.SelectorExpr); ok && se.Sel.Name == "IndexPtr" && len(inner.Args) == 3 {
					if id, ok := inner.Args[0].(*ast.Ident); ok {
						if a, ok := tr.alias[id.Name]; ok {
							return "(idx " + lv(a) + " " + tr.expr(inner.Args[2]) + ")"
						}
					}
				}
			}
		}
		fail(e, "pointer dereference %s", srcOf(e))
	case *ast.CompositeLit:
		t := tr.typeOf(e)
		if st, ok := under(t).(*types.Struct); ok && st.NumFields() == 0 {
			return "tt"
		}
		fail(e, "composite literal %s", srcOf(e))
	case *ast.BasicLit:
		fail(e, "literal %s without constant value", e.Value)
	}
	fail(e, "unsupported expression %T %s", e, srcOf(e))
	return ""
}

func (tr *translator) tableRef(x ast.Expr) (name, mod string, ok bool) {
	switch x := x.(type) {
	case *ast.Ident:
		if obj, isv := tr.pi.info.Uses[x].(*types.Var); isv && obj.Parent() == tr.pi.pkg.Scope() {
			for _, tb := range tr.t.Tables {
				if tb == x.Name {
					return x.Name, "", true
				}
			}
		}
	case *ast.SelectorExpr:
		if obj, isv := tr.pi.info.Uses[x.Sel].(*types.Var); isv && obj.Pkg() != nil {
			if m, ok := pkgToMod[obj.Pkg().Path()]; ok && obj.Parent() == obj.Pkg().Scope() {
				return x.Sel.Name, m + ".", true
			}
		}
	}
	return "", "", false
}

func (tr *translator) selector(e *ast.SelectorExpr) string {
	// receiver state field
	if id, ok := e.X.(*ast.Ident); ok && tr.recvState != nil && id.Name == tr.recvName {
		for _, f := range tr.recvState {
			if f == e.Sel.Name {
				return lv(tr.recvName + "_" + f)
			}
		}
		fail(e, "receiver field %s is not threaded", e.Sel.Name)
	}
	// package-qualified object
	if obj := tr.pi.info.Uses[e.Sel]; obj != nil {
		if v, ok := obj.(*types.Var); ok && v.Pkg() != nil && v.Parent() == v.Pkg().Scope() {
			if isErrorType(v.Type()) {
				if v.Pkg().Path() == "io" && v.Name() == "EOF" {
					return "Err_io_EOF"
				}
				if m, ok := pkgToMod[v.Pkg().Path()]; ok {
					return m + ".Err_" + v.Name()
				}
			}
			fail(e, "package variable %s", srcOf(e))
		}
		// struct field of a record-typed value
		if v, ok := obj.(*types.Var); ok && v.IsField() {
			xt := tr.typeOf(e.X)
			if nm, ok := xt.(*types.Named); ok {
				return "(" + nm.Obj().Name() + "_" + e.Sel.Name + " " + tr.expr(e.X) + ")"
			}
		}
	}
	fail(e, "unsupported selector %s", srcOf(e))
	return ""
}

func fitsWithout(from, to types.Type) bool {
	fs, fw, ok1 := intInfo(from)
	ts, tw, ok2 := intInfo(to)
	if !ok1 || !ok2 || fw == 0 || tw == 0 {
		return false
	}
	if fs == ts {
		return fw <= tw
	}
	if !fs && ts {
		return fw < tw
	}
	return false
}

func (tr *translator) binary(e *ast.BinaryExpr) string {
	x, y := tr.expr(e.X), tr.expr(e.Y)
	t := tr.typeOf(e)
	xt := tr.typeOf(e.X)
	switch e.Op {
	case token.LAND:
		return "(andb " + x + " " + y + ")"
	case token.LOR:
		return "(orb " + x + " " + y + ")"
	case token.EQL, token.NEQ:
		var r string
		switch {
		case isBool(xt):
			r = "(Bool.eqb " + x + " " + y + ")"
		case isErrorType(xt) || isErrorType(tr.typeOf(e.Y)):
			if x == "NIL" {
				x = "0"
			}
			if y == "NIL" {
				y = "0"
			}
			r = "(" + x + " =? " + y + ")"
		default:
			if _, _, ok := intInfo(xt); !ok {
				fail(e, "== on %s", xt)
			}
			r = "(" + x + " =? " + y + ")"
		}
		if e.Op == token.NEQ {
			return "(negb " + r + ")"
		}
		return r
	case token.LSS:
		return "(" + x + " <? " + y + ")"
	case token.LEQ:
		return "(" + x + " <=? " + y + ")"
	case token.GTR:
		return "(" + x + " >? " + y + ")"
	case token.GEQ:
		return "(" + x + " >=? " + y + ")"
	}
	if _, _, ok := intInfo(t); !ok {
		fail(e, "arithmetic on %s", t)
	}
	switch e.Op {
	case token.ADD:
		return wrapExpr(t, "("+x+" + "+y+")")
	case token.SUB:
		return wrapExpr(t, "("+x+" - "+y+")")
	case token.MUL:
		return wrapExpr(t, "("+x+" * "+y+")")
	case token.QUO:
		return wrapExpr(t, "(Z.quot "+x+" "+y+")")
	case token.REM:
		return "(Z.rem " + x + " " + y + ")"
	case token.SHL:
		return wrapExpr(t, "(Z.shiftl "+x+" "+y+")")
	case token.SHR:
		return "(Z.shiftr " + x + " " + y + ")"
	case token.AND:
		return "(Z.land " + x + " " + y + ")"
	case token.OR:
		return "(Z.lor " + x + " " + y + ")"
	case token.XOR:
		return "(Z.lxor " + x + " " + y + ")"
	case token.AND_NOT:
		return "(Z.land " + x + " (Z.lnot " + y + "))"
	}
	fail(e, "binary op %s", e.Op)
	return ""
}

// qualified name of a translated function for a call, or "" if not translated
func (tr *translator) calleeName(fun ast.Expr) (name string, recvExpr ast.Expr, threaded bool, ok bool) {
	switch f := fun.(type) {
	case *ast.Ident:
		if obj, isf := tr.pi.info.Uses[f].(*types.Func); isf && obj.Pkg() == tr.pi.pkg {
			for _, n := range tr.t.Funcs {
				if n == f.Name {
					return f.Name, nil, false, true
				}
			}
			if m, ok := tr.siblingModule(f.Name); ok {
				return m + "." + f.Name, nil, false, true
			}
		}
	case *ast.SelectorExpr:
		if sel := tr.pi.info.Selections[f]; sel != nil && sel.Kind() == types.MethodVal {
			rt := sel.Recv()
			ptr := false
			if p, ok := rt.(*types.Pointer); ok {
				rt = p.Elem()
				ptr = true
			}
			nm, ok := rt.(*types.Named)
			if !ok {
				return "", nil, false, false
			}
			fobj := sel.Obj().(*types.Func)
			sig := fobj.Type().(*types.Signature)
			_, rptr := sig.Recv().Type().(*types.Pointer)
			_ = ptr
			mod := ""
			pkgPath := nm.Obj().Pkg().Path()
			known := false
			if nm.Obj().Pkg() == tr.pi.pkg {
				for _, n := range tr.t.Funcs {
					if n == nm.Obj().Name()+"."+f.Sel.Name {
						known = true
					}
				}
				if !known {
					if m, ok := tr.siblingModule(nm.Obj().Name() + "." + f.Sel.Name); ok {
						mod = m + "."
						known = true
					}
				}
			} else if m, ok := pkgToMod[pkgPath]; ok {
				mod = m + "."
				known = true
			}
			if !known {
				return "", nil, false, false
			}
			th := false
			if rptr {
				if st, ok := tr.stateOf(pkgPath, nm.Obj().Name()); ok && st != nil {
					th = true
				}
			}
			return mod + nm.Obj().Name() + "_" + f.Sel.Name, f.X, th, true
		}
		// package-qualified function
		if obj, isf := tr.pi.info.Uses[f.Sel].(*types.Func); isf && obj.Pkg() != nil {
			if m, ok := pkgToMod[obj.Pkg().Path()]; ok && obj.Pkg() != tr.pi.pkg {
				return m + "." + f.Sel.Name, nil, false, true
			}
		}
	}
	return "", nil, false, false
}

// siblingModule: a function of the SAME package translated by another module that this one lists in Requires
func (tr *translator) siblingModule(fn string) (string, bool) {
	for _, r := range tr.t.Requires {
		for _, t := range targets {
			if t.Module == r && t.Dir == tr.t.Dir && t.GOARCH == tr.t.GOARCH {
				for _, n := range t.Funcs {
					if n == fn {
						return t.Module, true
					}
				}
			}
		}
	}
	return "", false
}

func (tr *translator) stateOf(pkgPath, typeName string) ([]string, bool) {
	for _, t := range targets {
		if modPath+"/"+t.Dir == pkgPath {
			if st, ok := t.State[typeName]; ok {
				return st, true
			}
		}
	}
	return nil, false
}

func (tr *translator) call(e *ast.CallExpr) string {
	// conversion?
	if tv, ok := tr.pi.info.Types[e.Fun]; ok && tv.IsType() {
		if len(e.Args) != 1 {
			fail(e, "conversion arity")
		}
		from := tr.typeOf(e.Args[0])
		to := tv.Type
		x := tr.expr(e.Args[0])
		if _, _, ok := intInfo(to); ok {
			if _, _, ok := intInfo(from); ok {
				if fitsWithout(from, to) {
					return x
				}
				return wrapExpr(to, x)
			}
			fail(e, "conversion %s -> %s", from, to)
		}
		if isBytesLike(to) && isBytesLike(from) {
			return x
		}
		fail(e, "conversion %s -> %s", from, to)
	}
	// builtins and known library functions
	switch f := e.Fun.(type) {
	case *ast.Ident:
		if _, isb := tr.pi.info.Uses[f].(*types.Builtin); isb {
			switch f.Name {
			case "len":
				return "(blen " + tr.expr(e.Args[0]) + ")"
			case "append":
				base := tr.expr(e.Args[0])
				if e.Ellipsis != token.NoPos {
					return "(" + base + " ++ " + tr.expr(e.Args[1]) + ")"
				}
				var parts []string
				for _, a := range e.Args[1:] {
					parts = append(parts, tr.expr(a))
				}
				return "(" + base + " ++ [" + strings.Join(parts, "; ") + "])"
			}
			fail(e, "builtin %s", f.Name)
		}
	case *ast.SelectorExpr:
		if obj, isf := tr.pi.info.Uses[f.Sel].(*types.Func); isf && obj.Pkg() != nil {
			full := obj.Pkg().Path() + "." + obj.Name()
			switch full {
			case "math/bits.Len64":
				return "(bits_Len64 " + tr.expr(e.Args[0]) + ")"
			case "math.Float32bits", "math.Float64bits", "math.Float32frombits", "math.Float64frombits":
				return tr.expr(e.Args[0])
			case "math.IsNaN", "math.IsInf":
				// abs mode only (the primitives f64_isnan / f64_isinf on IEEE bit patterns come with the module prelude absFloatPrelude)
				if tr.abs != nil {
					if w, isf := isFloat(tr.typeOf(e.Args[0])); isf && w == 64 {
						if full == "math.IsNaN" {
							return "(f64_isnan " + tr.expr(e.Args[0]) + ")"
						}
						return "(f64_isinf " + tr.expr(e.Args[0]) + " " + tr.expr(e.Args[1]) + ")"
					}
				}
			case modPath + "/meta.NewError", "errors.New", "fmt.Errorf":
				return "Err_NewError"
			case "unicode/utf8.ValidString":
				return "(utf8_valid " + tr.expr(e.Args[0]) + ")"
			}
			// binary.BigEndian.UintNN(b)
			if obj.Pkg().Path() == "encoding/binary" {
				if inner, ok := f.X.(*ast.SelectorExpr); ok {
					order := inner.Sel.Name
					fn := map[string]string{"BigEndian": "be", "LittleEndian": "le"}[order]
					switch obj.Name() {
					case "Uint16":
						return "(" + fn + "_get 2 " + tr.expr(e.Args[0]) + ")"
					case "Uint32":
						return "(" + fn + "_get 4 " + tr.expr(e.Args[0]) + ")"
					case "Uint64":
						return "(" + fn + "_get 8 " + tr.expr(e.Args[0]) + ")"
					}
				}
			}
		}
	}
	name, recvX, threaded, ok := tr.calleeName(e.Fun)
	if !ok {
		fail(e, "call to untranslated function %s", srcOf(e.Fun))
	}
	if threaded {
		fail(e, "state-threaded call %s used inside an expression", srcOf(e))
	}
	if tr.abs != nil && recvX != nil {
		if b, _, isBase := tr.absPath(recvX); isBase && !tr.translatable(tr.typeOf(recvX)) {
			fail(e, "call of the translated method %s on the abstract object %s (translate the caller in a module where the callee is not listed)", srcOf(e.Fun), b)
		}
	}
	if tr.optFuncs[name] {
		if tr.abs == nil || !tr.abs.allowOpt {
			fail(e, "call of the panicking function %s in an unsupported position", srcOf(e.Fun))
		}
		tr.abs.allowOpt = false
	}
	var args []string
	if recvX != nil {
		rt := tr.typeOf(recvX)
		if p, ok := rt.(*types.Pointer); ok {
			rt = p.Elem()
		}
		if st, ok := under(rt).(*types.Struct); !(ok && st.NumFields() == 0) {
			args = append(args, tr.expr(recvX))
		}
	}
	for _, a := range e.Args {
		args = append(args, tr.expr(a))
	}
	if len(args) == 0 {
		return name
	}
	return "(" + name + " " + strings.Join(args, " ") + ")"
}

// threaded call: returns the Gallina application and the number of results
func (tr *translator) threadedCall(e *ast.CallExpr) (string, int, bool) {
	name, recvX, threaded, ok := tr.calleeName(e.Fun)
	if !ok || !threaded {
		return "", 0, false
	}
	id, isid := recvX.(*ast.Ident)
	if !isid || id.Name != tr.recvName || tr.recvState == nil {
		fail(e, "threaded call on a receiver other than the current one: %s", srcOf(e))
	}
	var args []string
	for _, f := range tr.recvState {
		args = append(args, lv(tr.recvName+"_"+f))
	}
	for _, a := range e.Args {
		args = append(args, tr.expr(a))
	}
	sig := tr.typeOf(e.Fun).(*types.Signature)
	return "(" + name + " " + strings.Join(args, " ") + ")", sig.Results().Len(), true
}

// ---------------------------------------------------------------- statements

func (tr *translator) statePat() []string {
	var out []string
	for _, f := range tr.recvState {
		out = append(out, lv(tr.recvName+"_"+f))
	}
	return out
}

func (tr *translator) retTuple(vals []string) string {
	if tr.abs != nil {
		return tr.absRet(vals)
	}
	all := append(append([]string{}, vals...), tr.statePat()...)
	if len(all) == 0 {
		return "tt"
	}
	if len(all) == 1 {
		return all[0]
	}
	return "(" + strings.Join(all, ", ") + ")"
}

func terminates(stmts []ast.Stmt) bool {
	if len(stmts) == 0 {
		return false
	}
	switch s := stmts[len(stmts)-1].(type) {
	case *ast.ReturnStmt:
		return true
	case *ast.ExprStmt:
		if ce, ok := s.X.(*ast.CallExpr); ok {
			if id, ok := ce.Fun.(*ast.Ident); ok && id.Name == "panic" {
				return true
			}
		}
	case *ast.BlockStmt:
		return terminates(s.List)
	case *ast.IfStmt:
		if s.Else == nil {
			return false
		}
		var el []ast.Stmt
		switch e := s.Else.(type) {
		case *ast.BlockStmt:
			el = e.List
		default:
			el = []ast.Stmt{e}
		}
		return terminates(s.Body.List) && terminates(el)
	case *ast.SwitchStmt:
		hasDefault := false
		for _, c := range s.Body.List {
			cc := c.(*ast.CaseClause)
			if cc.List == nil {
				hasDefault = true
			}
			if !terminates(cc.Body) {
				return false
			}
		}
		return hasDefault
	}
	return false
}

func (tr *translator) zeroOf(n ast.Node, t types.Type) string {
	switch tr.coqType(n, t) {
	case "Z":
		return "0"
	case "bool":
		return "false"
	case "list Z":
		return "(@nil Z)"
	case "unit":
		return "tt"
	}
	fail(n, "no zero value for %s", t)
	return ""
}

func (tr *translator) stmts(list []ast.Stmt, k func() string) string {
	if len(list) == 0 {
		return k()
	}
	if tr.abs != nil {
		if s, ok := tr.absStmt(list, k); ok {
			return s
		}
	}
	s := list[0]
	rest := func() string { return tr.stmts(list[1:], k) }
	switch s := s.(type) {
	case *ast.ReturnStmt:
		if len(s.Results) == 0 {
			return tr.retTuple(tr.namedResults(s))
		}
		if len(s.Results) == 1 {
			if ce, ok := s.Results[0].(*ast.CallExpr); ok {
				if app, n, ok := tr.threadedCall(ce); ok {
					if n != len(tr.resultTys) {
						fail(s, "result arity mismatch in tail call")
					}
					return app
				}
				// multi-value pure call in return position
				if len(tr.resultTys) > 1 {
					if tr.recvState == nil {
						return tr.expr(ce)
					}
					var ps []string
					for i := range tr.resultTys {
						ps = append(ps, fmt.Sprintf("r%d_", i))
					}
					return "(let '(" + strings.Join(ps, ", ") + ") := " + tr.expr(ce) + " in " + tr.retTuple(ps) + ")"
				}
			}
		}
		var vals []string
		for i, r := range s.Results {
			v := tr.expr(r)
			if v == "NIL" {
				v = tr.zeroOf(r, tr.resultTys[i])
			}
			vals = append(vals, v)
		}
		return tr.retTuple(vals)
	case *ast.BlockStmt:
		return tr.stmts(append(append([]ast.Stmt{}, s.List...), list[1:]...), k)
	case *ast.DeclStmt:
		gd := s.Decl.(*ast.GenDecl)
		if gd.Tok != token.VAR {
			fail(s, "local declaration %s", gd.Tok)
		}
		out := ""
		for _, sp := range gd.Specs {
			vs := sp.(*ast.ValueSpec)
			for i, n := range vs.Names {
				var val string
				if len(vs.Values) > i {
					// unsafe alias: var ks = *(*unsafe.Pointer)(unsafe.Pointer(&k))
					if a, ok := unsafeAlias(vs.Values[i]); ok {
						tr.alias[n.Name] = a
						continue
					}
					val = tr.expr(vs.Values[i])
				} else {
					val = tr.zeroOf(n, tr.pi.info.Defs[n].Type())
				}
				out += "let " + lv(n.Name) + " := " + val + " in\n"
			}
		}
		return out + rest()
	case *ast.AssignStmt:
		return tr.assign(s, rest)
	case *ast.IncDecStmt:
		x := tr.expr(s.X)
		t := tr.typeOf(s.X)
		op := "+"
		if s.Tok == token.DEC {
			op = "-"
		}
		return "let " + tr.lhs(s.X) + " := " + wrapExpr(t, "("+x+" "+op+" 1)") + " in\n" + rest()
	case *ast.ExprStmt:
		ce, ok := s.X.(*ast.CallExpr)
		if !ok {
			fail(s, "expression statement")
		}
		if id, ok := ce.Fun.(*ast.Ident); ok && id.Name == "panic" {
			return tr.panicValue(s)
		}
		if app, n, ok := tr.threadedCall(ce); ok {
			pat := make([]string, n)
			for i := range pat {
				pat[i] = "_"
			}
			pat = append(pat, tr.statePat()...)
			return "let '(" + strings.Join(pat, ", ") + ") := " + app + " in\n" + rest()
		}
		// pure call whose value is dropped (e.g. protowire.AppendVarint(b[:pos], ...) writing in place)
		fail(s, "call for effect: %s", srcOf(s))
	case *ast.IfStmt:
		var pre string
		if s.Init != nil {
			// translate `if init; cond` as init; if cond — names introduced by init stay visible, which is harmless
			return tr.stmts(append([]ast.Stmt{s.Init, &ast.IfStmt{If: s.If, Cond: s.Cond, Body: s.Body, Else: s.Else}}, list[1:]...), k)
		}
		cond := tr.expr(s.Cond)
		restOnce := ""
		restDone := false
		r := func() string {
			if !restDone {
				restOnce = rest()
				restDone = true
			}
			return restOnce
		}
		thenS := tr.stmts(s.Body.List, r)
		var elseS string
		if s.Else == nil {
			elseS = r()
		} else {
			switch e := s.Else.(type) {
			case *ast.BlockStmt:
				elseS = tr.stmts(e.List, r)
			default:
				elseS = tr.stmts([]ast.Stmt{e}, r)
			}
		}
		return pre + "if " + cond + " then (\n" + thenS + ")\nelse (\n" + elseS + ")"
	case *ast.SwitchStmt:
		if s.Init != nil {
			return tr.stmts(append([]ast.Stmt{s.Init, &ast.SwitchStmt{Switch: s.Switch, Tag: s.Tag, Body: s.Body}}, list[1:]...), k)
		}
		restOnce := ""
		restDone := false
		r := func() string {
			if !restDone {
				restOnce = rest()
				restDone = true
			}
			return restOnce
		}
		tag := ""
		var tagT types.Type
		if s.Tag != nil {
			tag = tr.expr(s.Tag)
			tagT = tr.typeOf(s.Tag)
		}
		var def *ast.CaseClause
		var sb strings.Builder
		closes := 0
		for _, c := range s.Body.List {
			cc := c.(*ast.CaseClause)
			if cc.List == nil {
				def = cc
				continue
			}
			for _, st := range cc.Body {
				if b, ok := st.(*ast.BranchStmt); ok {
					fail(b, "branch statement %s in switch", b.Tok)
				}
			}
			var conds []string
			for _, l := range cc.List {
				if s.Tag == nil {
					conds = append(conds, tr.expr(l))
				} else if isBool(tagT) {
					conds = append(conds, "(Bool.eqb "+tag+" "+tr.expr(l)+")")
				} else {
					conds = append(conds, "("+tag+" =? "+tr.expr(l)+")")
				}
			}
			cond := conds[0]
			for _, c := range conds[1:] {
				cond = "(orb " + cond + " " + c + ")"
			}
			sb.WriteString("if " + cond + " then (\n" + tr.stmts(cc.Body, r) + ")\nelse (\n")
			closes++
		}
		if def != nil {
			sb.WriteString(tr.stmts(def.Body, r))
		} else {
			sb.WriteString(r())
		}
		sb.WriteString(strings.Repeat(")", closes))
		return sb.String()
	case *ast.ForStmt:
		return tr.forLoop(s, rest)
	}
	fail(s, "unsupported statement %T", s)
	return ""
}

func unsafeAlias(e ast.Expr) (string, bool) {
	// *(*unsafe.Pointer)(unsafe.Pointer(&k))
	st, ok := e.(*ast.StarExpr)
	if !ok {
		return "", false
	}
	ce, ok := st.X.(*ast.CallExpr)
	if !ok || len(ce.Args) != 1 {
		return "", false
	}
	in, ok := ce.Args[0].(*ast.CallExpr)
	if !ok || len(in.Args) != 1 {
		return "", false
	}
	ue, ok := in.Args[0].(*ast.UnaryExpr)
	if !ok || ue.Op != token.AND {
		return "", false
	}
	id, ok := ue.X.(*ast.Ident)
	if !ok {
		return "", false
	}
	if !strings.Contains(srcOf(ce.Fun), "unsafe.Pointer") {
		return "", false
	}
	return id.Name, true
}

func (tr *translator) namedResults(n ast.Node) []string {
	var out []string
	for _, r := range tr.results {
		if strings.HasPrefix(r, "#") {
			fail(n, "bare return without named results")
		}
		out = append(out, lv(r))
	}
	return out
}

func (tr *translator) panicValue(n ast.Node) string {
	// a panic is modelled as returning zero results with the error result (if any) = Err_PANIC
	if tr.abs != nil && tr.abs.block {
		return tr.blockRet("Out_panic")
	}
	if tr.abs != nil && tr.abs.optPanic {
		return "None"
	}
	var vals []string
	hasErr := false
	for _, t := range tr.resultTys {
		if isErrorType(t) {
			vals = append(vals, "Err_PANIC")
			hasErr = true
		} else {
			vals = append(vals, tr.zeroOf(n, t))
		}
	}
	if !hasErr {
		fail(n, "panic in a function without an error result")
	}
	return tr.retTuple(vals)
}

func (tr *translator) lhs(e ast.Expr) string {
	switch e := e.(type) {
	case *ast.Ident:
		return lv(e.Name)
	case *ast.SelectorExpr:
		if id, ok := e.X.(*ast.Ident); ok && tr.recvState != nil && id.Name == tr.recvName {
			for _, f := range tr.recvState {
				if f == e.Sel.Name {
					return lv(tr.recvName + "_" + f)
				}
			}
		}
	}
	fail(e, "unsupported assignment target %s", srcOf(e))
	return ""
}

var opOfAssign = map[token.Token]token.Token{
	token.ADD_ASSIGN: token.ADD, token.SUB_ASSIGN: token.SUB, token.MUL_ASSIGN: token.MUL,
	token.OR_ASSIGN: token.OR, token.AND_ASSIGN: token.AND, token.XOR_ASSIGN: token.XOR,
	token.SHL_ASSIGN: token.SHL, token.SHR_ASSIGN: token.SHR, token.AND_NOT_ASSIGN: token.AND_NOT,
	token.QUO_ASSIGN: token.QUO, token.REM_ASSIGN: token.REM,
}

func (tr *translator) assign(s *ast.AssignStmt, rest func() string) string {
	if op, ok := opOfAssign[s.Tok]; ok {
		be := &ast.BinaryExpr{X: s.Lhs[0], Op: op, Y: s.Rhs[0], OpPos: s.TokPos}
		// type info for the synthetic node: same as lhs
		tr.pi.info.Types[be] = types.TypeAndValue{Type: tr.typeOf(s.Lhs[0])}
		return "let " + tr.lhs(s.Lhs[0]) + " := " + tr.binary(be) + " in\n" + rest()
	}
	if s.Tok != token.ASSIGN && s.Tok != token.DEFINE {
		fail(s, "assignment %s", s.Tok)
	}
	if len(s.Rhs) == 1 && len(s.Lhs) >= 1 {
		if ce, ok := s.Rhs[0].(*ast.CallExpr); ok {
			if app, n, ok := tr.threadedCall(ce); ok {
				if n != len(s.Lhs) {
					fail(s, "assignment arity")
				}
				var pat []string
				for _, l := range s.Lhs {
					pat = append(pat, tr.lhs(l))
				}
				pat = append(pat, tr.statePat()...)
				return "let '(" + strings.Join(pat, ", ") + ") := " + app + " in\n" + rest()
			}
		}
		if len(s.Lhs) > 1 {
			var pat []string
			for _, l := range s.Lhs {
				pat = append(pat, tr.lhs(l))
			}
			return "let '(" + strings.Join(pat, ", ") + ") := " + tr.expr(s.Rhs[0]) + " in\n" + rest()
		}
	}
	if len(s.Lhs) != len(s.Rhs) {
		fail(s, "assignment arity")
	}
	if len(s.Lhs) == 1 {
		if a, ok := unsafeAlias(s.Rhs[0]); ok {
			if id, ok := s.Lhs[0].(*ast.Ident); ok {
				tr.alias[id.Name] = a
				return rest()
			}
		}
		v := tr.expr(s.Rhs[0])
		if v == "NIL" {
			v = tr.zeroOf(s, tr.typeOf(s.Lhs[0]))
		}
		return "let " + tr.lhs(s.Lhs[0]) + " := " + v + " in\n" + rest()
	}
	// parallel assignment: evaluate all right-hand sides first
	var tmps []string
	out := ""
	for i, r := range s.Rhs {
		tr.tmp++
		t := fmt.Sprintf("tmp%d_", tr.tmp)
		tmps = append(tmps, t)
		out += "let " + t + " := " + tr.expr(r) + " in\n"
		_ = i
	}
	for i, l := range s.Lhs {
		out += "let " + tr.lhs(l) + " := " + tmps[i] + " in\n"
	}
	return out + rest()
}

// for i := 0; i < len(x); i++ { body }   (body: assignments to outer variables, local :=, if without return)
func (tr *translator) forLoop(s *ast.ForStmt, rest func() string) string {
	init, ok := s.Init.(*ast.AssignStmt)
	if !ok || init.Tok != token.DEFINE || len(init.Lhs) != 1 {
		fail(s, "for-loop init not of the form i := e")
	}
	iv := init.Lhs[0].(*ast.Ident).Name
	cond, ok := s.Cond.(*ast.BinaryExpr)
	if !ok || cond.Op != token.LSS {
		fail(s, "for-loop condition not i < e")
	}
	if id, ok := cond.X.(*ast.Ident); !ok || id.Name != iv {
		fail(s, "for-loop condition not on the index variable")
	}
	post, ok := s.Post.(*ast.IncDecStmt)
	if !ok || post.Tok != token.INC {
		fail(s, "for-loop post not i++")
	}
	// accumulators: outer variables assigned in the body
	accSet := map[string]bool{}
	var accs []string
	ast.Inspect(s.Body, func(n ast.Node) bool {
		switch n := n.(type) {
		case *ast.ReturnStmt, *ast.BranchStmt:
			fail(n, "return/break/continue inside a for-loop")
		case *ast.AssignStmt:
			if n.Tok != token.DEFINE {
				for _, l := range n.Lhs {
					name := tr.lhs(l)
					if name == lv(iv) {
						fail(n, "index variable assigned in the loop body")
					}
					if !accSet[name] {
						accSet[name] = true
						accs = append(accs, name)
					}
				}
			}
		case *ast.IncDecStmt:
			name := tr.lhs(n.X)
			if !accSet[name] {
				accSet[name] = true
				accs = append(accs, name)
			}
		}
		return true
	})
	if len(accs) == 0 {
		fail(s, "for-loop without accumulators")
	}
	tup := accs[0]
	if len(accs) > 1 {
		tup = "(" + strings.Join(accs, ", ") + ")"
	}
	pat := tup
	if len(accs) > 1 {
		pat = "'" + tup
	}
	body := tr.stmts(s.Body.List, func() string { return tup })
	return "let " + pat + " := fold_left (fun " + pat + " " + lv(iv) + " =>\n" + body + ") (seqZ " + tr.expr(init.Rhs[0]) + " " + tr.expr(cond.Y) + ") " + tup + " in\n" + rest()
}

// ---------------------------------------------------------------- functions

func (tr *translator) function(name string, fd *ast.FuncDecl) (def string, err error) {
	defer func() {
		if r := recover(); r != nil {
			if te, ok := r.(trErr); ok {
				err = fmt.Errorf("%s", te.msg)
				return
			}
			panic(r)
		}
	}()
	if fd.Body == nil {
		fail(fd, "no body")
	}
	tr.alias = map[string]string{}
	tr.recvName, tr.recvState, tr.recvType = "", nil, ""
	tr.results, tr.resultTys = nil, nil
	tr.tmp = 0
	obj := tr.pi.info.Defs[fd.Name].(*types.Func)
	sig := obj.Type().(*types.Signature)
	var params []string
	coqName := strings.ReplaceAll(name, ".", "_")
	if sig.Recv() != nil {
		rt := sig.Recv().Type()
		ptr := false
		if p, ok := rt.(*types.Pointer); ok {
			rt = p.Elem()
			ptr = true
		}
		nm := rt.(*types.Named)
		tr.recvType = nm.Obj().Name()
		if len(fd.Recv.List[0].Names) > 0 {
			tr.recvName = fd.Recv.List[0].Names[0].Name
		}
		st, isStruct := under(rt).(*types.Struct)
		switch {
		case ptr:
			state, ok := tr.t.State[tr.recvType]
			if !ok {
				fail(fd, "pointer receiver %s without declared state", tr.recvType)
			}
			tr.recvState = state
			if tr.recvName == "" {
				tr.recvName = "self"
			}
			for _, f := range state {
				var ft types.Type
				for i := 0; i < st.NumFields(); i++ {
					if st.Field(i).Name() == f {
						ft = st.Field(i).Type()
					}
				}
				if ft == nil {
					fail(fd, "state field %s not found", f)
				}
				params = append(params, "("+lv(tr.recvName+"_"+f)+" : "+tr.coqType(fd, ft)+")")
			}
		case isStruct && st.NumFields() == 0:
			// dropped
		default:
			params = append(params, "("+lv(tr.recvName)+" : "+tr.coqType(fd, rt)+")")
		}
	}
	for i := 0; i < sig.Params().Len(); i++ {
		p := sig.Params().At(i)
		n := p.Name()
		if n == "" || n == "_" {
			n = fmt.Sprintf("arg%d_", i)
		}
		params = append(params, "("+lv(n)+" : "+tr.coqType(fd, p.Type())+")")
	}
	var retTys []string
	var pre string
	for i := 0; i < sig.Results().Len(); i++ {
		r := sig.Results().At(i)
		tr.resultTys = append(tr.resultTys, r.Type())
		retTys = append(retTys, tr.coqType(fd, r.Type()))
		if r.Name() != "" && r.Name() != "_" {
			tr.results = append(tr.results, r.Name())
			pre += "let " + lv(r.Name()) + " := " + tr.zeroOf(fd, r.Type()) + " in\n"
		} else {
			tr.results = append(tr.results, fmt.Sprintf("#%d", i))
		}
	}
	if tr.recvState != nil {
		rt := sig.Recv().Type().(*types.Pointer).Elem()
		st := under(rt).(*types.Struct)
		for _, f := range tr.recvState {
			for i := 0; i < st.NumFields(); i++ {
				if st.Field(i).Name() == f {
					retTys = append(retTys, tr.coqType(fd, st.Field(i).Type()))
				}
			}
		}
	}
	ret := "unit"
	if len(retTys) > 0 {
		ret = strings.Join(retTys, " * ")
	}
	body := tr.stmts(fd.Body.List, func() string {
		if len(tr.results) == 0 {
			return tr.retTuple(nil)
		}
		return tr.retTuple(tr.namedResults(fd))
	})
	pos := fset.Position(fd.Pos())
	rel := pos.Filename
	hdr := fmt.Sprintf("(* %s:%d  func %s *)\n", rel, pos.Line, name)
	return hdr + "Definition " + coqName + " " + strings.Join(params, " ") + " : " + ret + " :=\n" + pre + body + ".\n", nil
}

// ---------------------------------------------------------------- tables

func (tr *translator) table(name string) (def string, err error) {
	defer func() {
		if r := recover(); r != nil {
			if te, ok := r.(trErr); ok {
				err = fmt.Errorf("%s", te.msg)
				return
			}
			panic(r)
		}
	}()
	vs := tr.pi.vars[name]
	if vs == nil {
		return "", fmt.Errorf("table %s not found", name)
	}
	idx := -1
	for i, n := range vs.Names {
		if n.Name == name {
			idx = i
		}
	}
	if idx < 0 || idx >= len(vs.Values) {
		return "", fmt.Errorf("table %s has no initialiser", name)
	}
	if tv, isc := tr.pi.info.Types[vs.Values[idx]]; isc && tv.Value != nil && tv.Value.Kind() == constant.String && tr.t.Mode == "abs" {
		// a string variable used as a lookup table (abs mode): index -> byte
		str := constant.StringVal(tv.Value)
		var sb strings.Builder
		pos := fset.Position(vs.Pos())
		sb.WriteString(fmt.Sprintf("(* %s:%d  table %s (string) *)\n", pos.Filename, pos.Line, name))
		sb.WriteString("Definition " + name + " (i : Z) : Z :=\n")
		for i := 0; i < len(str); i++ {
			sb.WriteString(fmt.Sprintf("  if i =? %d then %d else\n", i, str[i]))
		}
		sb.WriteString("  0.\n")
		return sb.String(), nil
	}
	cl, ok := vs.Values[idx].(*ast.CompositeLit)
	if !ok {
		return "", fmt.Errorf("table %s is not a composite literal", name)
	}
	t := tr.typeOf(cl)
	var elemT types.Type
	isArray := false
	switch u := under(t).(type) {
	case *types.Map:
		elemT = u.Elem()
	case *types.Array:
		elemT = u.Elem()
		isArray = true
	case *types.Slice:
		elemT = u.Elem()
		isArray = true
	default:
		return "", fmt.Errorf("table %s: unsupported type %s", name, t)
	}
	zero := tr.zeroOf(cl, elemT)
	var sb strings.Builder
	pos := fset.Position(vs.Pos())
	rel := pos.Filename
	sb.WriteString(fmt.Sprintf("(* %s:%d  table %s *)\n", rel, pos.Line, name))
	sb.WriteString("Definition " + name + " (i : Z) : " + tr.coqType(cl, elemT) + " :=\n")
	next := int64(0)
	n := 0
	for _, el := range cl.Elts {
		var key, val string
		if kv, ok := el.(*ast.KeyValueExpr); ok {
			k, ok := tr.constOf(kv.Key)
			if !ok {
				fail(kv, "non-constant table key")
			}
			key = k
			if kvv, ok := tr.pi.info.Types[kv.Key]; ok && kvv.Value != nil {
				if i64, ok := constant.Int64Val(constant.ToInt(kvv.Value)); ok {
					next = i64 + 1
				}
			}
			val = tr.expr(kv.Value)
		} else {
			if !isArray {
				fail(el, "map element without key")
			}
			key = fmt.Sprintf("%d", next)
			next++
			val = tr.expr(el)
		}
		sb.WriteString("  if i =? " + key + " then " + val + " else\n")
		n++
	}
	sb.WriteString("  " + zero + ".\n")
	return sb.String(), nil
}

// ---------------------------------------------------------------- dispatch extraction

// goTypeCode: (class, width): class 0 unsigned int, 1 signed int, 2 bool, 3 float, 4 string, 5 bytes
func goTypeCode(t types.Type) (string, bool) {
	if s, w, ok := intInfo(t); ok && w > 0 {
		if s {
			return fmt.Sprintf("(1, %d)", w), true
		}
		return fmt.Sprintf("(0, %d)", w), true
	}
	if isBool(t) {
		return "(2, 1)", true
	}
	if w, ok := isFloat(t); ok {
		return fmt.Sprintf("(3, %d)", w), true
	}
	if b, ok := under(t).(*types.Basic); ok && b.Kind() == types.String {
		return "(4, 0)", true
	}
	if isBytesLike(t) {
		return "(5, 0)", true
	}
	return "", false
}

func saArgs(state []string) []string {
	var sa []string
	for _, f := range state {
		sa = append(sa, "p_"+f)
	}
	return sa
}

func (tr *translator) dispatch(d Dispatch, fd *ast.FuncDecl) (def string, err error) {
	defer func() {
		if r := recover(); r != nil {
			if te, ok := r.(trErr); ok {
				err = fmt.Errorf("%s", te.msg)
				return
			}
			panic(r)
		}
	}()
	recv := fd.Recv.List[0].Names[0].Name
	state := tr.t.State[recvTypeName(fd.Recv.List[0].Type)]
	var sw *ast.SwitchStmt
	for _, st := range fd.Body.List {
		if s, ok := st.(*ast.SwitchStmt); ok && s.Tag != nil {
			sw = s
			break
		}
	}
	if sw == nil {
		fail(fd, "no tagged switch found")
	}
	type row struct {
		keys   []string
		callee string
		gotype string
		scalar bool
		extra  []string
	}
	var rows []row
	known := map[string]bool{}
	for _, n := range tr.t.Funcs {
		known[n] = true
	}
	for _, c := range sw.Body.List {
		cc := c.(*ast.CaseClause)
		if cc.List == nil {
			continue
		}
		var r row
		for _, l := range cc.List {
			k, ok := tr.constOf(l)
			if !ok {
				fail(l, "non-constant case label")
			}
			r.keys = append(r.keys, k)
		}
		// find the p.ReadXxx / p.WriteXxx call: for "read" the first one, for "write" the last one at top level
		var calls []*ast.CallExpr
		for _, st := range cc.Body {
			ast.Inspect(st, func(n ast.Node) bool {
				if _, ok := n.(*ast.ForStmt); ok {
					return false
				}
				if ce, ok := n.(*ast.CallExpr); ok {
					if se, ok := ce.Fun.(*ast.SelectorExpr); ok {
						if id, ok := se.X.(*ast.Ident); ok && id.Name == recv {
							calls = append(calls, ce)
						}
					}
				}
				return true
			})
		}
		hasLoop := false
		for _, st := range cc.Body {
			ast.Inspect(st, func(n ast.Node) bool {
				if _, ok := n.(*ast.ForStmt); ok {
					hasLoop = true
				}
				return true
			})
		}
		if len(calls) == 0 || hasLoop {
			continue
		}
		var ce *ast.CallExpr
		if d.Style == "read" {
			ce = calls[0]
		} else {
			ce = calls[len(calls)-1]
		}
		m := ce.Fun.(*ast.SelectorExpr).Sel.Name
		full := recvTypeName(fd.Recv.List[0].Type) + "." + m
		if !known[full] {
			continue // complex kinds (message, list...) are not part of the scalar dispatch
		}
		r.callee = strings.ReplaceAll(full, ".", "_")
		sig := tr.typeOf(ce.Fun).(*types.Signature)
		if d.Style == "read" {
			gt, ok := goTypeCode(sig.Results().At(0).Type())
			if !ok {
				continue
			}
			r.gotype = gt
			r.scalar = tr.coqType(ce, sig.Results().At(0).Type()) != "list Z"
			for i := 0; i < sig.Params().Len(); i++ {
				r.extra = append(r.extra, tr.zeroOf(ce, sig.Params().At(i).Type()))
			}
		} else {
			// the asserted dynamic type and the variable it is bound to: first `v, ok := val.(T)` in the clause
			var asserted types.Type
			vname := ""
			for _, st := range cc.Body {
				ast.Inspect(st, func(n ast.Node) bool {
					if as, ok := n.(*ast.AssignStmt); ok && asserted == nil && len(as.Rhs) == 1 {
						if ta, ok := as.Rhs[0].(*ast.TypeAssertExpr); ok && ta.Type != nil {
							asserted = tr.typeOf(ta.Type)
							if id, ok := as.Lhs[0].(*ast.Ident); ok {
								vname = id.Name
							}
						}
					}
					return true
				})
			}
			if asserted == nil || sig.Params().Len() != 1 || vname == "" {
				continue
			}
			gt, ok := goTypeCode(asserted)
			if !ok {
				continue
			}
			r.gotype = gt
			r.scalar = tr.coqType(ce, sig.Params().At(0).Type()) != "list Z"
			bind := "v"
			if isBool(asserted) {
				bind = "(negb (v =? 0))"
			}
			tr.alias = map[string]string{}
			r.extra = []string{"(let " + lv(vname) + " := " + bind + " in " + r.callee + " " + strings.Join(saArgs(state), " ") + " " + tr.expr(ce.Args[0]) + ")"}
		}
		rows = append(rows, r)
	}
	cond := func(keys []string) string {
		c := "(t =? " + keys[0] + ")"
		for _, k := range keys[1:] {
			c = "(orb " + c + " (t =? " + k + "))"
		}
		return c
	}
	var sb strings.Builder
	pos := fset.Position(fd.Pos())
	rel := pos.Filename
	sb.WriteString(fmt.Sprintf("(* %s:%d  dispatch of %s *)\n", rel, pos.Line, d.Func))
	// go type table
	sb.WriteString("Definition " + d.Name + "_gotype (t : Z) : option (Z * Z) :=\n")
	for _, r := range rows {
		sb.WriteString("  if " + cond(r.keys) + " then Some " + r.gotype + " else\n")
	}
	sb.WriteString("  None.\n\n")
	var sp, sa []string
	for _, f := range state {
		sp = append(sp, "(p_"+f+" : "+map[string]string{"Buf": "list Z", "Read": "Z"}[f]+")")
		sa = append(sa, "p_"+f)
	}
	stT := "list Z * Z"
	if d.Style == "read" {
		sb.WriteString("Definition " + d.Name + "_scalar (t : Z) " + strings.Join(sp, " ") + " : option (Z * Z * " + stT + ") :=\n")
		for _, r := range rows {
			if !r.scalar {
				continue
			}
			app := "(" + r.callee + " " + strings.Join(append(append([]string{}, sa...), r.extra...), " ") + ")"
			if r.gotype == "(2, 1)" {
				sb.WriteString("  if " + cond(r.keys) + " then Some (let '(v, e, b, r) := " + app + " in (Z.b2z v, e, b, r)) else\n")
			} else {
				sb.WriteString("  if " + cond(r.keys) + " then Some " + app + " else\n")
			}
		}
		sb.WriteString("  None.\n\n")
		sb.WriteString("Definition " + d.Name + "_bytes (t : Z) " + strings.Join(sp, " ") + " : option (list Z * Z * " + stT + ") :=\n")
		for _, r := range rows {
			if r.scalar {
				continue
			}
			app := "(" + r.callee + " " + strings.Join(append(append([]string{}, sa...), r.extra...), " ") + ")"
			sb.WriteString("  if " + cond(r.keys) + " then Some " + app + " else\n")
		}
		sb.WriteString("  None.\n")
	} else {
		sb.WriteString("Definition " + d.Name + "_scalar (t : Z) " + strings.Join(sp, " ") + " (v : Z) : option (Z * " + stT + ") :=\n")
		for _, r := range rows {
			if !r.scalar {
				continue
			}
			sb.WriteString("  if " + cond(r.keys) + " then Some " + r.extra[0] + " else\n")
		}
		sb.WriteString("  None.\n\n")
		sb.WriteString("Definition " + d.Name + "_bytes (t : Z) " + strings.Join(sp, " ") + " (v : list Z) : option (Z * " + stT + ") :=\n")
		for _, r := range rows {
			if r.scalar {
				continue
			}
			sb.WriteString("  if " + cond(r.keys) + " then Some " + r.extra[0] + " else\n")
		}
		sb.WriteString("  None.\n")
	}
	return sb.String(), nil
}
