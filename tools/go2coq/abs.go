// abs.go: the "abstract environment" mode of go2coq (Target.Mode == "abs").
//
// It is an ADDITIVE extension: targets without Mode are translated exactly as before (their Gen_*.v
// stay byte-identical).  The mode makes small decision functions translatable that talk about
// descriptors / option structs / callbacks, without modelling those objects:
//
//   * a parameter (or receiver) p of struct or pointer-to-struct type becomes a parameter of a
//     generated Record  <Def>_<p>  whose fields are exactly the ATOMS the body reads from p:
//       p.f, p.f.g            field chains whose final type is an integer / bool / byte string
//       p.M(), p.f.M()        nullary method calls (not themselves translated) with such a result, read as pure getters
//                             (a nullary method returning an error or several values is an action: an effect, see below)
//       p == nil, p.M() == nil   nil tests (bool atoms  ..._isnil)
//     (fields are listed in sorted order and addressed by NAME in the theorems, so a harmless
//     re-ordering of statements does not change the statement);
//   * an assignment  p.f = e  threads the atom: the field's previous value is an input (a record
//     field), its final value an additional result;
//   * a call of something that is not translated (a callback, a method of a descriptor, an error
//     constructor) is recorded as an EFFECT: the result carries a trace  eff_ : list (Z * list Z)
//     of (Eff_<name>, integer/bool arguments) in execution order; a local bound to the pointer
//     result of such a call becomes a further Record parameter (the oracle answering the call);
//     the idiom  `if err := call(..); err != nil { return err }`  is an effect followed by the
//     continuation (the callee's own failure is outside the decision that is modelled);
//   * the results of such a call that have an integer / bool / byte-string / error type are ORACLE inputs: further parameters
//     or<k>_<name> of the definition (k = number of the call site in source order, name = the variable they are bound to);
//   * an atom of an object may not be read (nor a threaded atom returned) after the object itself was handed to an untranslated
//     call (receiver or pointer argument) that may have changed it: such a function is rejected (forward data flow, flow.go-style);
//   * in-place writes into a []byte parameter -  b[i] = v,  binary.BigEndian.PutUintNN(b[k:], v),  copy(b[k:], src)  - thread the
//     slice (its final content is an additional result) with Go's bounds checks written out (out of range = panic);
//   * a panic in a function without an error result makes the result an `option` (None = panic);
//     a call of such a function may occur in `return e`, `x := e` under !, && and || (Go's
//     short-circuit order is kept);
//   * an `if`/`switch` whose branches neither return nor panic is translated as a JOIN
//     (let '(vars) := if c then .. else .. in rest) instead of duplicating the continuation;
//   * Target.Blocks: the body of the `if` statement whose condition prints as the given anchor is
//     translated as a definition of its own; its free variables are the parameters, its result is
//     (outcome, outer variables it assigns, threaded atoms, eff_) with outcome one of
//     Out_fall / Out_continue / Out_break / Out_return / Out_panic.
package main

import (
	"fmt"
	"go/ast"
	"go/constant"
	"go/token"
	"go/types"
	"sort"
	"strings"
)

type Block struct {
	Func   string // "Recv.M" or "F"
	Name   string // name of the generated definition
	Anchor string // source text of the condition of the `if` whose body is extracted
	Cond   bool   // extract the CONDITION itself (a boolean function of its free variables) instead of the body
}

type absBase struct {
	name  string
	atoms map[string]string // atom name -> Coq type
}

type absOut struct {
	base, path, ty string
}

type absCtx struct {
	def      string
	bases    map[string]*absBase
	order    []string
	funcs    map[string]bool // func-typed variables (callbacks)
	outs     []absOut
	optPanic bool
	hasPanic bool
	hasEff   bool // an effect was emitted
	hasEffDecl bool // the body contains an effect: the result carries eff_
	allowOpt bool // the call being translated may be a call of a panicking (option) function
	block    bool
	outer    []string // block mode: outer scalar variables assigned inside the block
	lo, hi   token.Pos
	oracles  map[*ast.AssignStmt][]string // results of untranslated calls: oracle parameter per left-hand side ("" = none)
	retOracles map[*ast.ReturnStmt][]string // `return call(..)` of an untranslated call: oracle parameter per result
	oparams  []string                     // oracle parameters "(name : type)" in call-site order
	slices   []string                     // []byte parameters written in place (threaded, returned)
	scalars  map[string]bool              // names of the scalar parameters
	ptrSlices map[string]bool             // parameters of type *[]byte, threaded as the slice they point to
	noJoin    map[ast.Stmt]bool           // switch statements being translated as a join (recursion guard)
	foreign   []absForeign                // state objects of other translated types reached through a field (self.p): threaded
	views     map[string]absView          // locals bound to element idx of a table: s := (*T)(rt.IndexPtr(tbl, size, idx))
	loops     []absLoop                   // enclosing counted loops being translated (innermost last)
	nloop     int
}

// an element of an abstract table: its atoms are function-valued atoms (index -> value) of the table object
type absView struct{ table, idxVar string }

type absLoop struct{ cont, brk string }

// a protocol object reached through a field of an abstract object (self.p) whose type has declared State in its own module:
// its state fields are parameters and trailing results of the definition, and calls of its translated methods are real calls
type absForeign struct {
	base, path string
	fields     []string
	tys        []string
}

func (f absForeign) vars() []string {
	var out []string
	for _, fl := range f.fields {
		out = append(out, lv(f.base+"_"+f.path+"_"+fl))
	}
	return out
}

// foreignCall: ce is  base.path.M(args)  with M a translated, state-threaded method of another type
func (tr *translator) foreignCall(ce *ast.CallExpr) (app string, nres int, f *absForeign, ok bool) {
	if tr.abs == nil {
		return "", 0, nil, false
	}
	name, recvX, threaded, known := tr.calleeName(ce.Fun)
	if !known || !threaded || recvX == nil {
		return "", 0, nil, false
	}
	b, p, isPath := tr.absPath(recvX)
	if !isPath || p == "" {
		return "", 0, nil, false
	}
	for i := range tr.abs.foreign {
		if tr.abs.foreign[i].base == b && tr.abs.foreign[i].path == p {
			f = &tr.abs.foreign[i]
		}
	}
	if f == nil {
		return "", 0, nil, false
	}
	args := append([]string{}, f.vars()...)
	for _, a := range ce.Args {
		args = append(args, tr.expr(a))
	}
	sig := tr.typeOf(ce.Fun).(*types.Signature)
	return "(" + name + " " + strings.Join(args, " ") + ")", sig.Results().Len(), f, true
}

func (a *absCtx) outVar(base, path string) (string, bool) {
	for _, o := range a.outs {
		if o.base == base && o.path == path {
			return lv(base + "_" + path), true
		}
	}
	return "", false
}

func (tr *translator) tryCoqType(t types.Type) (s string, ok bool) {
	defer func() {
		if r := recover(); r != nil {
			if _, is := r.(trErr); is {
				ok = false
				return
			}
			panic(r)
		}
	}()
	if st, isS := under(t).(*types.Struct); isS && st.NumFields() > 0 {
		return "", false
	}
	return tr.coqType(nil, t), true
}

// type of an expression that may be a freshly defined identifier (left-hand side of :=)
func (tr *translator) lhsType(e ast.Expr) types.Type {
	if id, ok := e.(*ast.Ident); ok {
		if d := tr.pi.info.Defs[id]; d != nil {
			return d.Type()
		}
		if u := tr.pi.info.Uses[id]; u != nil {
			return u.Type()
		}
	}
	return tr.typeOf(e)
}

func (tr *translator) translatable(t types.Type) bool {
	_, ok := tr.tryCoqType(t)
	return ok
}

func isNilIdent(e ast.Expr) bool {
	id, ok := e.(*ast.Ident)
	return ok && id.Name == "nil"
}

// absPath: e is  base(.field | .method())*  -> (base, "a_b_c")
func (tr *translator) absPath(e ast.Expr) (base string, path string, ok bool) {
	a := tr.abs
	switch e := e.(type) {
	case *ast.ParenExpr:
		return tr.absPath(e.X)
	case *ast.Ident:
		if _, is := a.bases[e.Name]; is {
			return e.Name, "", true
		}
		if _, is := a.views[e.Name]; is {
			return e.Name, "", true
		}
	case *ast.SelectorExpr:
		b, p, ok := tr.absPath(e.X)
		if !ok {
			return "", "", false
		}
		sel := tr.pi.info.Selections[e]
		if sel == nil || (sel.Kind() != types.FieldVal && sel.Kind() != types.MethodVal) {
			return "", "", false
		}
		if p == "" {
			return b, e.Sel.Name, true
		}
		return b, p + "_" + e.Sel.Name, true
	case *ast.CallExpr:
		if len(e.Args) != 0 {
			return "", "", false
		}
		se, ok := e.Fun.(*ast.SelectorExpr)
		if !ok {
			return "", "", false
		}
		if sel := tr.pi.info.Selections[se]; sel == nil || sel.Kind() != types.MethodVal {
			return "", "", false
		}
		if _, _, _, translated := tr.calleeName(e.Fun); translated {
			return "", "", false
		}
		// a nullary method is read as a pure getter (an atom) unless it returns an error or several values: those are actions (effects)
		if tv, ok := tr.pi.info.Types[e]; ok {
			if _, ist := tv.Type.(*types.Tuple); ist || isErrorType(tv.Type) {
				return "", "", false
			}
		}
		return tr.absPath(se)
	}
	return "", "", false
}

func (tr *translator) atomRef(base, path, ty string) string {
	a := tr.abs
	if v, ok := a.outVar(base, path); ok {
		return v
	}
	if v, isView := a.views[base]; isView {
		tb := a.bases[v.table]
		fty := "Z -> " + ty
		if old, ok := tb.atoms[path]; ok && old != fty {
			fail(nil, "atom %s.%s used at two types", v.table, path)
		}
		tb.atoms[path] = fty
		return "(" + a.def + "_" + v.table + "_" + path + " " + lv(v.table) + " " + v.idxVar + ")"
	}
	b := a.bases[base]
	if old, ok := b.atoms[path]; ok && old != ty {
		fail(nil, "atom %s.%s used at two types", base, path)
	}
	b.atoms[path] = ty
	return "(" + a.def + "_" + base + "_" + path + " " + lv(base) + ")"
}

// viewPattern:  (*T)(rt.IndexPtr(tbl, size, idx))  with tbl an abstract object
func (tr *translator) viewPattern(e ast.Expr) (table string, idx ast.Expr, ok bool) {
	ce, isc := e.(*ast.CallExpr)
	if !isc || len(ce.Args) != 1 {
		return "", nil, false
	}
	if tv, has := tr.pi.info.Types[ce.Fun]; !has || !tv.IsType() {
		return "", nil, false
	}
	in, isc := ce.Args[0].(*ast.CallExpr)
	if !isc || len(in.Args) != 3 {
		return "", nil, false
	}
	se, iss := in.Fun.(*ast.SelectorExpr)
	if !iss || se.Sel.Name != "IndexPtr" {
		return "", nil, false
	}
	id, isid := in.Args[0].(*ast.Ident)
	if !isid {
		return "", nil, false
	}
	return id.Name, in.Args[2], true
}

// expression hook (called by expr after the constant check)
func (tr *translator) absExpr(e ast.Expr) (string, bool) {
	switch e := e.(type) {
	case *ast.BinaryExpr:
		if e.Op == token.EQL || e.Op == token.NEQ {
			var other ast.Expr
			if isNilIdent(e.Y) {
				other = e.X
			} else if isNilIdent(e.X) {
				other = e.Y
			}
			if other != nil {
				if b, p, ok := tr.absPath(other); ok {
					name := "isnil"
					if p != "" {
						name = p + "_isnil"
					}
					s := tr.atomRef(b, name, "bool")
					if e.Op == token.NEQ {
						s = "(negb " + s + ")"
					}
					return s, true
				}
			}
		}
	case *ast.IndexExpr:
		// a string variable of a translated module used as a table: rt.Hex[i]
		if isBytesLike(tr.typeOf(e.X)) {
			if name, mod, ok := tr.tableRef(e.X); ok {
				return "(" + mod + name + " " + tr.expr(e.Index) + ")", true
			}
		}
	case *ast.StarExpr:
		// *e for a parameter e of type *[]byte: the slice is threaded under the name of the pointer
		if id, ok := e.X.(*ast.Ident); ok && tr.abs.ptrSlices[id.Name] {
			return lv(id.Name), true
		}
	case *ast.SelectorExpr, *ast.CallExpr:
		if b, p, ok := tr.absPath(e); ok && p != "" {
			if ty, ok := tr.tryCoqType(tr.typeOf(e)); ok {
				return tr.atomRef(b, p, ty), true
			}
		}
	}
	return "", false
}

// ---------------------------------------------------------------- opaque calls and effects

func (tr *translator) isOpaqueCall(ce *ast.CallExpr) bool {
	if tv, ok := tr.pi.info.Types[ce.Fun]; ok && tv.IsType() {
		return false
	}
	if se, ok := ce.Fun.(*ast.SelectorExpr); ok && se.Sel.Name == "IndexPtr" && len(ce.Args) == 3 {
		if id, isid := ce.Args[0].(*ast.Ident); isid && tr.abs != nil {
			if _, isb := tr.abs.bases[id.Name]; isb {
				return false // element of an abstract table: a read (function-valued atom), not an effect
			}
		}
	}
	switch f := ce.Fun.(type) {
	case *ast.Ident:
		if _, isb := tr.pi.info.Uses[f].(*types.Builtin); isb {
			return false
		}
	case *ast.SelectorExpr:
		if obj, isf := tr.pi.info.Uses[f.Sel].(*types.Func); isf && obj.Pkg() != nil {
			switch obj.Pkg().Path() {
			case "math", "math/bits", "encoding/binary", "unicode/utf8":
				return false
			}
			switch obj.Pkg().Path() + "." + obj.Name() {
			case modPath + "/meta.NewError", "errors.New", "fmt.Errorf":
				return false
			}
		}
	default:
		return false
	}
	if _, _, _, ok := tr.calleeName(ce.Fun); ok {
		return false
	}
	// an atom (nullary method on a base path with a translatable result) is an input, not an effect
	if tr.abs != nil {
		if _, p, ok := tr.absPath(ce); ok && p != "" {
			if _, ok := tr.tryCoqType(tr.typeOf(ce)); ok {
				return false
			}
			// p.M() == nil tests are recognised one level up; a bare nullary call with an opaque result is an effect
		}
	}
	return true
}

func (tr *translator) effConst(name string) string {
	c := "Eff_" + name
	if _, ok := tr.effIdx[c]; !ok {
		tr.effIdx[c] = len(tr.effIdx) + 1
		tr.pending += fmt.Sprintf("Definition %s : Z := %d.\n", c, tr.effIdx[c])
	}
	return c
}

func (tr *translator) effect(ce *ast.CallExpr) string {
	name := ""
	switch f := ce.Fun.(type) {
	case *ast.Ident:
		name = f.Name
	case *ast.SelectorExpr:
		name = f.Sel.Name
	}
	var args []string
	for _, a := range ce.Args {
		t := tr.typeOf(a)
		if _, _, ok := intInfo(t); ok {
			args = append(args, tr.expr(a))
		} else if isBool(t) {
			args = append(args, "(Z.b2z "+tr.expr(a)+")")
		} else if _, isf := isFloat(t); isf {
			// a floating-point constant zero is passed as its IEEE bit pattern; other float arguments are left out
			if tv, ok := tr.pi.info.Types[a]; ok && tv.Value != nil && constant.Sign(tv.Value) == 0 {
				args = append(args, "0")
			}
		}
	}
	tr.abs.hasEff = true
	return "let eff_ := eff_ ++ [(" + tr.effConst(name) + ", [" + strings.Join(args, "; ") + "])] in\n"
}

// ---------------------------------------------------------------- option (panic) expressions

// exprOpt translates e; opt = the Coq term has type `option T` (e contains a call of a function that may panic).
func (tr *translator) exprOpt(e ast.Expr) (s string, opt bool) {
	switch x := e.(type) {
	case *ast.ParenExpr:
		return tr.exprOpt(x.X)
	case *ast.UnaryExpr:
		if x.Op == token.NOT {
			if v, o := tr.exprOpt(x.X); o {
				return "(option_map negb " + v + ")", true
			}
		}
	case *ast.BinaryExpr:
		if x.Op == token.LAND || x.Op == token.LOR {
			l, lo := tr.exprOpt(x.X)
			r, ro := tr.exprOpt(x.Y)
			if !lo && !ro {
				break
			}
			if !ro {
				r = "(Some " + r + ")"
			}
			short := "(Some false)"
			if x.Op == token.LOR {
				short = "(Some true)"
			}
			pick := func(c string) string {
				if x.Op == token.LAND {
					return "(if " + c + " then " + r + " else " + short + ")"
				}
				return "(if " + c + " then " + short + " else " + r + ")"
			}
			if !lo {
				return pick(l), true
			}
			return "(match " + l + " with Some l_ => " + pick("l_") + " | None => None end)", true
		}
	case *ast.CallExpr:
		if name, _, _, ok := tr.calleeName(x.Fun); ok && tr.optFuncs[name] {
			tr.abs.allowOpt = true
			s := tr.call(x)
			tr.abs.allowOpt = false
			return s, true
		}
	}
	return tr.expr(e), false
}

func (tr *translator) containsOptCall(n ast.Node) bool {
	found := false
	ast.Inspect(n, func(x ast.Node) bool {
		if ce, ok := x.(*ast.CallExpr); ok {
			if name, _, _, ok := tr.calleeName(ce.Fun); ok && tr.optFuncs[name] {
				found = true
			}
		}
		return true
	})
	return found
}

// ---------------------------------------------------------------- results

func (tr *translator) absTuple(vals []string) string {
	a := tr.abs
	all := append([]string{}, vals...)
	for _, sl := range a.slices {
		all = append(all, lv(sl))
	}
	for _, o := range a.outs {
		all = append(all, lv(o.base+"_"+o.path))
	}
	if a.hasEffDecl {
		all = append(all, "eff_")
	}
	all = append(all, tr.statePat()...)
	for _, f := range a.foreign {
		all = append(all, f.vars()...)
	}
	if len(all) == 0 {
		return "tt"
	}
	if len(all) == 1 {
		return all[0]
	}
	return "(" + strings.Join(all, ", ") + ")"
}

func (tr *translator) absRet(vals []string) string {
	s := tr.absTuple(vals)
	if tr.abs.optPanic {
		return "(Some " + s + ")"
	}
	return s
}

func (tr *translator) blockRet(outcome string) string {
	vals := []string{outcome}
	for _, v := range tr.abs.outer {
		vals = append(vals, lv(v))
	}
	return tr.absTuple(vals)
}

// ---------------------------------------------------------------- statements

func simpleBranch(n ast.Node) bool {
	ok := true
	ast.Inspect(n, func(x ast.Node) bool {
		switch x := x.(type) {
		case *ast.ReturnStmt, *ast.BranchStmt, *ast.ForStmt, *ast.RangeStmt, *ast.FuncLit:
			ok = false
		case *ast.CallExpr:
			if id, is := x.Fun.(*ast.Ident); is && (id.Name == "panic" || id.Name == "copy") {
				ok = false
			}
			if se, is := x.Fun.(*ast.SelectorExpr); is && strings.HasPrefix(se.Sel.Name, "PutUint") {
				ok = false
			}
		case *ast.AssignStmt:
			for _, l := range x.Lhs {
				if _, is := l.(*ast.IndexExpr); is {
					ok = false // in-place write: has a panic path
				}
			}
		}
		return ok
	})
	return ok
}

// variables (declared before `from`) and threaded atoms assigned inside n, in order of first assignment; eff = n contains an effect
func (tr *translator) assignedIn(n ast.Node, from token.Pos) (vars []string, eff bool) {
	seen := map[string]bool{}
	add := func(e ast.Expr) {
		switch e := e.(type) {
		case *ast.Ident:
			if e.Name == "_" {
				return
			}
			obj := tr.pi.info.Uses[e]
			if obj == nil {
				obj = tr.pi.info.Defs[e]
			}
			if obj != nil && obj.Pos() < from {
				if !seen[lv(e.Name)] {
					seen[lv(e.Name)] = true
					vars = append(vars, lv(e.Name))
				}
			}
		case *ast.StarExpr:
			if id, ok := e.X.(*ast.Ident); ok && tr.abs.ptrSlices[id.Name] {
				if !seen[lv(id.Name)] {
					seen[lv(id.Name)] = true
					vars = append(vars, lv(id.Name))
				}
				return
			}
			fail(e, "assignment target %s inside a branch", srcOf(e))
		case *ast.SelectorExpr:
			if id, ok := e.X.(*ast.Ident); ok && tr.recvState != nil && id.Name == tr.recvName {
				v := tr.lhs(e)
				if !seen[v] {
					seen[v] = true
					vars = append(vars, v)
				}
				return
			}
			if b, p, ok := tr.absPath(e); ok && p != "" {
				if v, ok := tr.abs.outVar(b, p); ok && !seen[v] {
					seen[v] = true
					vars = append(vars, v)
				}
				return
			}
			fail(e, "assignment target %s inside a branch", srcOf(e))
		default:
			fail(e, "assignment target %s inside a branch", srcOf(e))
		}
	}
	ast.Inspect(n, func(x ast.Node) bool {
		switch x := x.(type) {
		case *ast.AssignStmt:
			for _, l := range x.Lhs {
				add(l)
			}
			if len(x.Rhs) == 1 {
				if ce, ok := x.Rhs[0].(*ast.CallExpr); ok && tr.isOpaqueCall(ce) {
					eff = true
				}
			}
		case *ast.IncDecStmt:
			add(x.X)
		case *ast.ExprStmt:
			if ce, ok := x.X.(*ast.CallExpr); ok && tr.isOpaqueCall(ce) {
				eff = true
			}
		}
		return true
	})
	if eff {
		vars = append(vars, "eff_")
	}
	return
}

func tuplePat(vars []string) (pat, tup string) {
	if len(vars) == 1 {
		return vars[0], vars[0]
	}
	t := "(" + strings.Join(vars, ", ") + ")"
	return "'" + t, t
}

// isErrPropagation:  if err := call(..); err != nil { return err }   (also `return <zero values>, err`)
func (tr *translator) isErrPropagation(s *ast.IfStmt) (*ast.CallExpr, bool) {
	as, ok := s.Init.(*ast.AssignStmt)
	if !ok || as.Tok != token.DEFINE || len(as.Lhs) != 1 || len(as.Rhs) != 1 || s.Else != nil {
		return nil, false
	}
	id, ok := as.Lhs[0].(*ast.Ident)
	if !ok || !isErrorType(tr.pi.info.Defs[id].Type()) {
		return nil, false
	}
	ce, ok := as.Rhs[0].(*ast.CallExpr)
	if !ok || !tr.isOpaqueCall(ce) {
		return nil, false
	}
	be, ok := s.Cond.(*ast.BinaryExpr)
	if !ok || be.Op != token.NEQ || !isNilIdent(be.Y) {
		return nil, false
	}
	if x, ok := be.X.(*ast.Ident); !ok || x.Name != id.Name {
		return nil, false
	}
	if len(s.Body.List) != 1 {
		return nil, false
	}
	rs, ok := s.Body.List[0].(*ast.ReturnStmt)
	if !ok || len(rs.Results) == 0 {
		return nil, false
	}
	if x, ok := rs.Results[len(rs.Results)-1].(*ast.Ident); !ok || x.Name != id.Name {
		return nil, false
	}
	return ce, true
}

// statement hook: handles list[0] when the abstract mode has something to say about it
func (tr *translator) absStmt(list []ast.Stmt, k func() string) (string, bool) {
	a := tr.abs
	rest := func() string { return tr.stmts(list[1:], k) }
	switch s := list[0].(type) {
	case *ast.ReturnStmt:
		if a.block {
			pre := ""
			if len(s.Results) > 0 {
				if ce, ok := s.Results[len(s.Results)-1].(*ast.CallExpr); ok && tr.isOpaqueCall(ce) {
					pre = tr.effect(ce)
				}
			}
			return pre + tr.blockRet("Out_return"), true
		}
		if len(s.Results) == 1 && !a.block {
			if ce, isc := s.Results[0].(*ast.CallExpr); isc {
				if app, n, f, ok := tr.foreignCall(ce); ok {
					if n != len(tr.resultTys) {
						fail(s, "result arity mismatch in tail call")
					}
					var rs []string
					for i := 0; i < n; i++ {
						rs = append(rs, fmt.Sprintf("r%d_", i))
					}
					return "let '(" + strings.Join(append(append([]string{}, rs...), f.vars()...), ", ") + ") := " + app + " in\n" + tr.retTuple(rs), true
				}
			}
		}
		if names, ok := a.retOracles[s]; ok {
			return tr.effect(s.Results[0].(*ast.CallExpr)) + tr.retTuple(names), true
		}
		if a.optPanic && len(s.Results) == 1 && tr.containsOptCall(s.Results[0]) {
			v, opt := tr.exprOpt(s.Results[0])
			if !opt {
				fail(s, "call of a panicking function in an unsupported position: %s", srcOf(s))
			}
			if len(a.outs) == 0 && !a.hasEffDecl {
				return v, true
			}
			return "(match " + v + " with Some r_ => Some " + tr.absTuple([]string{"r_"}) + " | None => None end)", true
		}
	case *ast.ForStmt:
		if out, ok := tr.absFor(s, rest); ok {
			return out, true
		}
	case *ast.BranchStmt:
		if len(a.loops) > 0 && s.Label == nil {
			l := a.loops[len(a.loops)-1]
			switch s.Tok {
			case token.BREAK:
				return l.brk, true
			case token.CONTINUE:
				return l.cont, true
			}
		}
		if a.block && s.Label == nil {
			switch s.Tok {
			case token.CONTINUE:
				return tr.blockRet("Out_continue"), true
			case token.BREAK:
				return tr.blockRet("Out_break"), true
			}
		}
	case *ast.ExprStmt:
		if ce, ok := s.X.(*ast.CallExpr); ok {
			if id, ok := ce.Fun.(*ast.Ident); ok && id.Name == "panic" {
				return "", false
			}
			if app, n, f, ok := tr.foreignCall(ce); ok {
				pat := make([]string, n)
				for i := range pat {
					pat[i] = "_"
				}
				pat = append(pat, f.vars()...)
				return "let '(" + strings.Join(pat, ", ") + ") := " + app + " in\n" + rest(), true
			}
			if w, ok := tr.inPlaceCall(ce); ok {
				return w(rest), true
			}
			if tr.isOpaqueCall(ce) {
				return tr.effect(ce) + rest(), true
			}
		}
	case *ast.IncDecStmt:
		if b, p, ok := tr.absPath(s.X); ok && p != "" {
			if v, ok := a.outVar(b, p); ok {
				op := "+"
				if s.Tok == token.DEC {
					op = "-"
				}
				return "let " + v + " := " + wrapExpr(tr.typeOf(s.X), "("+v+" "+op+" 1)") + " in\n" + rest(), true
			}
		}
	case *ast.AssignStmt:
		if len(s.Lhs) == 1 && len(s.Rhs) == 1 && s.Tok == token.DEFINE {
			if id, isid := s.Lhs[0].(*ast.Ident); isid {
				if v, isView := a.views[id.Name]; isView {
					_, idx, _ := tr.viewPattern(s.Rhs[0])
					return "let " + v.idxVar + " := " + tr.expr(idx) + " in\n" + rest(), true
				}
			}
		}
		if len(s.Rhs) == 1 && (s.Tok == token.DEFINE || s.Tok == token.ASSIGN) {
			if ce, isc := s.Rhs[0].(*ast.CallExpr); isc {
				if app, n, f, ok := tr.foreignCall(ce); ok {
					if n != len(s.Lhs) {
						fail(s, "assignment arity")
					}
					var pat []string
					for _, l := range s.Lhs {
						pat = append(pat, tr.lhs(l))
					}
					pat = append(pat, f.vars()...)
					return "let '(" + strings.Join(pat, ", ") + ") := " + app + " in\n" + rest(), true
				}
			}
		}
		if names, ok := a.oracles[s]; ok {
			ce := s.Rhs[0].(*ast.CallExpr)
			out := tr.effect(ce)
			for i, l := range s.Lhs {
				if names[i] == "" {
					continue
				}
				out += "let " + tr.lhs(l) + " := " + names[i] + " in\n"
			}
			return out + rest(), true
		}
		if len(s.Lhs) == 1 && len(s.Rhs) == 1 && s.Tok == token.ASSIGN {
			if st, ok := s.Lhs[0].(*ast.StarExpr); ok {
				if id, ok := st.X.(*ast.Ident); ok && a.ptrSlices[id.Name] {
					return "let " + lv(id.Name) + " := " + tr.expr(s.Rhs[0]) + " in\n" + rest(), true
				}
			}
			// b[i] = v on a threaded slice
			if ie, ok := s.Lhs[0].(*ast.IndexExpr); ok {
				if id, ok := ie.X.(*ast.Ident); ok && tr.isThreadedSlice(id.Name) {
					b, i := lv(id.Name), tr.expr(ie.Index)
					return "if (andb (0 <=? " + i + ") (" + i + " <? blen " + b + ")) then (\nlet " + b + " := (upd_at " + b + " " + i + " " + tr.expr(s.Rhs[0]) + ") in\n" + rest() + ")\nelse (\n" + tr.panicValue(s) + ")", true
				}
			}
		}
		if len(s.Lhs) == 1 && len(s.Rhs) == 1 {
			// threaded atom
			if b, p, ok := tr.absPath(s.Lhs[0]); ok && p != "" {
				v, ok := a.outVar(b, p)
				if !ok {
					fail(s, "assignment to %s which is not a threaded atom", srcOf(s.Lhs[0]))
				}
				var val string
				if op, isop := opOfAssign[s.Tok]; isop {
					be := &ast.BinaryExpr{X: s.Lhs[0], Op: op, Y: s.Rhs[0], OpPos: s.TokPos}
					tr.pi.info.Types[be] = types.TypeAndValue{Type: tr.typeOf(s.Lhs[0])}
					val = tr.binary(be)
				} else {
					val = tr.expr(s.Rhs[0])
				}
				return "let " + v + " := " + val + " in\n" + rest(), true
			}
			if ce, ok := s.Rhs[0].(*ast.CallExpr); ok && tr.isOpaqueCall(ce) {
				id, isid := s.Lhs[0].(*ast.Ident)
				if !isid {
					fail(s, "result of an untranslated call assigned to %s", srcOf(s.Lhs[0]))
				}
				if id.Name == "_" {
					return tr.effect(ce) + rest(), true
				}
				if _, isbase := a.bases[id.Name]; !isbase {
					fail(s, "result of the untranslated call %s is not an abstract object", srcOf(ce))
				}
				return tr.effect(ce) + rest(), true
			}
			if a.optPanic && tr.containsOptCall(s.Rhs[0]) && (s.Tok == token.DEFINE || s.Tok == token.ASSIGN) {
				v, opt := tr.exprOpt(s.Rhs[0])
				if !opt {
					fail(s, "call of a panicking function in an unsupported position: %s", srcOf(s))
				}
				return "match " + v + " with None => None | Some " + tr.lhs(s.Lhs[0]) + " =>\n" + rest() + "\nend", true
			}
		}
	case *ast.IfStmt:
		if ce, ok := tr.isErrPropagation(s); ok {
			return tr.effect(ce) + rest(), true
		}
		if s.Init == nil && simpleBranch(s.Body) && (s.Else == nil || simpleBranch(s.Else)) {
			vars, _ := tr.assignedIn(s, s.Pos())
			if len(vars) == 0 {
				return rest(), true
			}
			pat, tup := tuplePat(vars)
			cond := tr.expr(s.Cond)
			kt := func() string { return tup }
			thenS := tr.stmts(s.Body.List, kt)
			elseS := tup
			if s.Else != nil {
				switch e := s.Else.(type) {
				case *ast.BlockStmt:
					elseS = tr.stmts(e.List, kt)
				default:
					elseS = tr.stmts([]ast.Stmt{e}, kt)
				}
			}
			return "let " + pat + " := if " + cond + " then (\n" + thenS + ")\nelse (\n" + elseS + ") in\n" + rest(), true
		}
	case *ast.SwitchStmt:
		if s.Init == nil && !a.noJoin[s] && simpleBranch(s.Body) {
			vars, _ := tr.assignedIn(s, s.Pos())
			if len(vars) == 0 {
				return rest(), true
			}
			pat, tup := tuplePat(vars)
			if a.noJoin == nil {
				a.noJoin = map[ast.Stmt]bool{}
			}
			a.noJoin[s] = true // the classic translation of this switch, with the tuple as continuation
			inner := tr.stmts([]ast.Stmt{s}, func() string { return tup })
			return "let " + pat + " := (\n" + inner + ") in\n" + rest(), true
		}
	}
	return "", false
}

// ---------------------------------------------------------------- definitions

type absVar struct {
	name string
	typ  types.Type
	pos  token.Pos
}

func (tr *translator) absDefinition(defName, srcName string, fd *ast.FuncDecl, blk *ast.BlockStmt) (def string, err error) {
	defer func() {
		tr.abs = nil
		if r := recover(); r != nil {
			if te, ok := r.(trErr); ok {
				err = fmt.Errorf("%s", te.msg)
				return
			}
			panic(r)
		}
	}()
	if fd.Body == nil {
		fail(fd, "no body")
	}
	tr.alias = map[string]string{}
	tr.recvName, tr.recvState, tr.recvType = "", nil, ""
	tr.results, tr.resultTys = nil, nil
	tr.tmp = 0
	tr.pending = ""
	a := &absCtx{def: defName, bases: map[string]*absBase{}, funcs: map[string]bool{}, block: blk != nil}
	tr.abs = a
	obj := tr.pi.info.Defs[fd.Name].(*types.Func)
	sig := obj.Type().(*types.Signature)

	// variables visible as parameters
	var vars []absVar
	var stateParams, stateTys, foreignTys []string
	body := fd.Body
	if blk == nil {
		if sig.Recv() != nil && len(fd.Recv.List[0].Names) > 0 {
			rt := sig.Recv().Type()
			st, isStruct := under(rt).(*types.Struct)
			stateDone := false
			if pt, isp := rt.(*types.Pointer); isp {
				if nm, isn := pt.Elem().(*types.Named); isn {
					if fields, has := tr.t.State[nm.Obj().Name()]; has {
						// a receiver whose state fields are declared in the target is threaded as in the classic mode
						// (its fields are parameters and trailing results), so that translated methods can call each other
						tr.recvState, tr.recvName, tr.recvType = fields, fd.Recv.List[0].Names[0].Name, nm.Obj().Name()
						sst := under(pt.Elem()).(*types.Struct)
						for _, f := range fields {
							var ft types.Type
							for i := 0; i < sst.NumFields(); i++ {
								if sst.Field(i).Name() == f {
									ft = sst.Field(i).Type()
								}
							}
							if ft == nil {
								fail(fd, "state field %s not found", f)
							}
							stateParams = append(stateParams, "("+lv(tr.recvName+"_"+f)+" : "+tr.coqType(fd, ft)+")")
							stateTys = append(stateTys, tr.coqType(fd, ft))
						}
						stateDone = true
					}
				}
			}
			if !stateDone && !(isStruct && st.NumFields() == 0) {
				vars = append(vars, absVar{fd.Recv.List[0].Names[0].Name, rt, fd.Recv.Pos()})
			}
		}
		for i := 0; i < sig.Params().Len(); i++ {
			p := sig.Params().At(i)
			n := p.Name()
			if n == "" || n == "_" {
				n = fmt.Sprintf("arg%d_", i)
			}
			vars = append(vars, absVar{n, p.Type(), p.Pos()})
		}
	} else {
		body = blk
		seen := map[types.Object]bool{}
		ast.Inspect(blk, func(x ast.Node) bool {
			id, ok := x.(*ast.Ident)
			if !ok {
				return true
			}
			v, ok := tr.pi.info.Uses[id].(*types.Var)
			if !ok || v.IsField() || v.Parent() == tr.pi.pkg.Scope() || v.Pkg() != tr.pi.pkg || seen[v] {
				return true
			}
			if v.Pos() >= blk.Pos() && v.Pos() < blk.End() {
				return true
			}
			if v.Pos() < fd.Pos() || v.Pos() >= fd.End() {
				return true
			}
			seen[v] = true
			vars = append(vars, absVar{id.Name, v.Type(), v.Pos()})
			return true
		})
		sort.Slice(vars, func(i, j int) bool { return vars[i].pos < vars[j].pos })
	}
	a.lo, a.hi = body.Pos(), body.End()

	// locals bound to the opaque result of an untranslated call: oracle bases
	var oracles []absVar
	var viewDefs []*ast.AssignStmt
	ast.Inspect(body, func(x ast.Node) bool {
		as, ok := x.(*ast.AssignStmt)
		if !ok || as.Tok != token.DEFINE || len(as.Lhs) != 1 || len(as.Rhs) != 1 {
			return true
		}
		id, ok := as.Lhs[0].(*ast.Ident)
		if !ok || id.Name == "_" {
			return true
		}
		if _, ok := as.Rhs[0].(*ast.CallExpr); !ok {
			return true
		}
		if _, _, isView := tr.viewPattern(as.Rhs[0]); isView {
			viewDefs = append(viewDefs, as)
			return true
		}
		d := tr.pi.info.Defs[id]
		if d == nil {
			return true
		}
		if _, ok := tr.tryCoqType(d.Type()); ok {
			return true
		}
		oracles = append(oracles, absVar{id.Name, d.Type(), d.Pos()})
		return true
	})

	var params []string
	type pslot struct{ name, ty string; base bool }
	var slots []pslot
	a.ptrSlices = map[string]bool{}
	for _, v := range append(vars, oracles...) {
		if ty, ok := tr.tryCoqType(v.typ); ok {
			slots = append(slots, pslot{v.name, ty, false})
			continue
		}
		if pt, isp := v.typ.(*types.Pointer); isp && isBytesLike(pt.Elem()) {
			a.ptrSlices[v.name] = true
			slots = append(slots, pslot{v.name, "list Z", false})
			continue
		}
		if _, isf := under(v.typ).(*types.Signature); isf {
			a.funcs[v.name] = true
			continue
		}
		if _, dup := a.bases[v.name]; dup {
			fail(fd, "two abstract objects named %s", v.name)
		}
		a.bases[v.name] = &absBase{name: v.name, atoms: map[string]string{}}
		a.order = append(a.order, v.name)
		slots = append(slots, pslot{v.name, "", true})
	}
	a.views = map[string]absView{}
	for _, as := range viewDefs {
		tbl, _, _ := tr.viewPattern(as.Rhs[0])
		if _, isb := a.bases[tbl]; !isb {
			fail(as, "indexed view of %s which is not an abstract object", tbl)
		}
		n := as.Lhs[0].(*ast.Ident).Name
		a.views[n] = absView{table: tbl, idxVar: lv(n + "_idx_")}
	}
	// oracle locals must really be bound by an opaque call (checked now that the bases exist)
	for _, o := range oracles {
		if _, isb := a.bases[o.name]; !isb {
			continue
		}
	}

	// protocol objects reached through a field (self.p) on which translated, state-threaded methods are called
	ast.Inspect(body, func(x ast.Node) bool {
		ce, ok := x.(*ast.CallExpr)
		if !ok {
			return true
		}
		_, recvX, threaded, known := tr.calleeName(ce.Fun)
		if !known || !threaded || recvX == nil {
			return true
		}
		b, p, isPath := tr.absPath(recvX)
		if !isPath || p == "" {
			return true
		}
		for _, f := range a.foreign {
			if f.base == b && f.path == p {
				return true
			}
		}
		rt := tr.typeOf(recvX)
		if pt, isp := rt.(*types.Pointer); isp {
			rt = pt.Elem()
		}
		nm, isn := rt.(*types.Named)
		if !isn {
			return true
		}
		fields, has := tr.stateOf(nm.Obj().Pkg().Path(), nm.Obj().Name())
		if !has {
			return true
		}
		sst := under(rt).(*types.Struct)
		fo := absForeign{base: b, path: p, fields: fields}
		for _, fl := range fields {
			for i := 0; i < sst.NumFields(); i++ {
				if sst.Field(i).Name() == fl {
					fo.tys = append(fo.tys, tr.coqType(fd, sst.Field(i).Type()))
				}
			}
		}
		a.foreign = append(a.foreign, fo)
		return true
	})
	for _, f := range a.foreign {
		for i, v := range f.vars() {
			stateParams = append(stateParams, "("+v+" : "+f.tys[i]+")")
			foreignTys = append(foreignTys, f.tys[i])
		}
	}

	// in-place writes: the written []byte parameters are threaded
	a.scalars = map[string]bool{}
	for _, sl := range slots {
		if !sl.base {
			a.scalars[sl.name] = true
		}
	}
	for _, n := range tr.writtenSlices(body) {
		if !a.scalars[n] {
			fail(fd, "in-place write into %s which is not a []byte parameter", n)
		}
		a.slices = append(a.slices, n)
		a.hasPanic = true
	}
	// results of untranslated calls: oracle parameters
	a.oracles = map[*ast.AssignStmt][]string{}
	site := 0
	idiom := map[ast.Stmt]bool{}
	ast.Inspect(body, func(x ast.Node) bool {
		if is, ok := x.(*ast.IfStmt); ok {
			if _, ok := tr.isErrPropagation(is); ok {
				idiom[is.Init] = true
			}
		}
		return true
	})
	a.retOracles = map[*ast.ReturnStmt][]string{}
	ast.Inspect(body, func(x ast.Node) bool {
		if rs, isr := x.(*ast.ReturnStmt); isr && blk == nil && len(rs.Results) == 1 {
			if ce, isc := rs.Results[0].(*ast.CallExpr); isc && tr.isOpaqueCall(ce) {
				if tup, ist := tr.typeOf(ce).(*types.Tuple); (ist && tup.Len() == sig.Results().Len()) || (!ist && sig.Results().Len() == 1) {
					site++
					var names []string
					for i := 0; i < sig.Results().Len(); i++ {
						ty, ok := tr.tryCoqType(sig.Results().At(i).Type())
						if !ok {
							fail(rs, "result %d of %s is not translatable", i, srcOf(ce))
						}
						n := fmt.Sprintf("or%d_ret%d", site, i)
						names = append(names, n)
						a.oparams = append(a.oparams, "("+n+" : "+ty+")")
					}
					a.retOracles[rs] = names
				}
			}
			return true
		}
		as, ok := x.(*ast.AssignStmt)
		if !ok || idiom[as] || len(as.Rhs) != 1 || (as.Tok != token.DEFINE && as.Tok != token.ASSIGN) {
			return true
		}
		ce, ok := as.Rhs[0].(*ast.CallExpr)
		if !ok || !tr.isOpaqueCall(ce) {
			return true
		}
		names := make([]string, len(as.Lhs))
		any := false
		for i, l := range as.Lhs {
			id, isid := l.(*ast.Ident)
			if !isid || id.Name == "_" {
				continue
			}
			if _, isb := a.bases[id.Name]; isb {
				continue
			}
			ty, ok := tr.tryCoqType(tr.lhsType(l))
			if !ok {
				continue
			}
			if !any {
				site++
				any = true
			}
			names[i] = fmt.Sprintf("or%d_%s", site, id.Name)
			a.oparams = append(a.oparams, "("+names[i]+" : "+ty+")")
		}
		if any {
			a.oracles[as] = names
		}
		return true
	})

	// threaded atoms (assigned fields), panics, effects
	ast.Inspect(body, func(x ast.Node) bool {
		reg := func(e ast.Expr) {
			if b, p, ok := tr.absPath(e); ok && p != "" {
				if _, dup := a.outVar(b, p); !dup {
					ty, ok := tr.tryCoqType(tr.typeOf(e))
					if !ok {
						fail(e, "assigned field %s has an untranslatable type", srcOf(e))
					}
					a.bases[b].atoms[p] = ty
					a.outs = append(a.outs, absOut{b, p, ty})
				}
			}
		}
		switch x := x.(type) {
		case *ast.AssignStmt:
			if x.Tok != token.DEFINE {
				for _, l := range x.Lhs {
					if _, ok := l.(*ast.SelectorExpr); ok {
						reg(l)
					}
				}
			}
		case *ast.IncDecStmt:
			if _, ok := x.X.(*ast.SelectorExpr); ok {
				reg(x.X)
			}
		case *ast.CallExpr:
			if id, ok := x.Fun.(*ast.Ident); ok && id.Name == "panic" {
				a.hasPanic = true
			} else if tr.isOpaqueCall(x) {
				// a nullary method under `== nil` is an atom; anything else is an effect
				a.hasEffDecl = true
			}
			if name, _, _, ok := tr.calleeName(x.Fun); ok && tr.optFuncs[name] {
				a.hasPanic = true
			}
		}
		return true
	})
	// nil-tested nullary calls are atoms, not effects: recompute hasEffDecl precisely
	a.hasEffDecl = false
	nilTested := map[ast.Expr]bool{}
	ast.Inspect(body, func(x ast.Node) bool {
		if be, ok := x.(*ast.BinaryExpr); ok && (be.Op == token.EQL || be.Op == token.NEQ) {
			if isNilIdent(be.Y) {
				nilTested[ast.Unparen(be.X)] = true
			} else if isNilIdent(be.X) {
				nilTested[ast.Unparen(be.Y)] = true
			}
		}
		return true
	})
	ast.Inspect(body, func(x ast.Node) bool {
		if ce, ok := x.(*ast.CallExpr); ok && !nilTested[ce] && tr.isOpaqueCall(ce) {
			if id, ok := ce.Fun.(*ast.Ident); ok && id.Name == "panic" {
				return true
			}
			a.hasEffDecl = true
		}
		return true
	})

	// results
	var retTys []string
	pre := ""
	hasErr := false
	if blk == nil {
		for i := 0; i < sig.Results().Len(); i++ {
			r := sig.Results().At(i)
			tr.resultTys = append(tr.resultTys, r.Type())
			if isErrorType(r.Type()) {
				hasErr = true
			}
			retTys = append(retTys, tr.coqType(fd, r.Type()))
			if r.Name() != "" && r.Name() != "_" {
				tr.results = append(tr.results, r.Name())
				pre += "let " + lv(r.Name()) + " := " + tr.zeroOf(fd, r.Type()) + " in\n"
			} else {
				tr.results = append(tr.results, fmt.Sprintf("#%d", i))
			}
		}
		a.optPanic = a.hasPanic && !hasErr
	} else {
		retTys = append(retTys, "Z")
		// outer scalar variables assigned inside the block
		vs, _ := tr.assignedIn(blk, blk.Pos())
		for _, v := range vs {
			if v == "eff_" {
				continue
			}
			isOut := false
			for _, o := range a.outs {
				if lv(o.base+"_"+o.path) == v {
					isOut = true
				}
			}
			if isOut {
				continue
			}
			found := false
			for _, s := range slots {
				if !s.base && lv(s.name) == v {
					retTys = append(retTys, s.ty)
					found = true
				}
			}
			if !found {
				fail(blk, "block assigns %s which is not one of its scalar free variables", v)
			}
			a.outer = append(a.outer, v)
		}
	}
	for range a.slices {
		retTys = append(retTys, "list Z")
	}
	for _, o := range a.outs {
		retTys = append(retTys, o.ty)
		pre += "let " + lv(o.base+"_"+o.path) + " := (" + a.def + "_" + o.base + "_" + o.path + " " + lv(o.base) + ") in\n"
	}
	if a.hasEffDecl {
		retTys = append(retTys, "list (Z * list Z)")
		pre += "let eff_ := (@nil (Z * list Z)) in\n"
	}
	retTys = append(retTys, stateTys...)
	retTys = append(retTys, foreignTys...)
	ret := "unit"
	if len(retTys) > 0 {
		ret = strings.Join(retTys, " * ")
	}
	if a.optPanic {
		ret = "option (" + ret + ")"
	}

	if d, left := tr.flowStmts(body.List, dirtySet{}); !left {
		tr.flowReturn(body, d)
	}

	bodyS := tr.stmts(body.List, func() string {
		if a.block {
			return tr.blockRet("Out_fall")
		}
		if len(tr.results) == 0 {
			return tr.retTuple(nil)
		}
		return tr.retTuple(tr.namedResults(fd))
	})

	// assemble: records, effect constants, definition
	var sb strings.Builder
	params = append(params, stateParams...)
	for _, s := range slots {
		if !s.base {
			params = append(params, "("+lv(s.name)+" : "+s.ty+")")
			continue
		}
		b := a.bases[s.name]
		if len(b.atoms) == 0 {
			continue
		}
		var names []string
		for n := range b.atoms {
			names = append(names, n)
		}
		sort.Strings(names)
		rec := a.def + "_" + s.name
		var fs []string
		for _, n := range names {
			fs = append(fs, rec+"_"+n+" : "+b.atoms[n])
		}
		sb.WriteString("Record " + rec + " := { " + strings.Join(fs, "; ") + " }.\n")
		params = append(params, "("+lv(s.name)+" : "+rec+")")
	}
	params = append(params, a.oparams...)
	sb.WriteString(tr.pending)
	tr.pending = ""
	pos := fset.Position(fd.Pos())
	what := "func " + srcName
	if blk != nil {
		pos = fset.Position(blk.Pos())
		what = "block of " + srcName
	}
	sb.WriteString(fmt.Sprintf("(* %s:%d  %s *)\n", pos.Filename, pos.Line, what))
	sb.WriteString("Definition " + defName + " " + strings.Join(params, " ") + " : " + ret + " :=\n" + pre + bodyS + ".\n")
	if a.optPanic {
		tr.optFuncs[defName] = true
	}
	return sb.String(), nil
}

func (tr *translator) absFunction(name string, fd *ast.FuncDecl) (string, error) {
	return tr.absDefinition(strings.ReplaceAll(name, ".", "_"), name, fd, nil)
}

func (tr *translator) absBlock(b Block, fd *ast.FuncDecl) (string, error) {
	var found []*ast.IfStmt
	ast.Inspect(fd.Body, func(x ast.Node) bool {
		if is, ok := x.(*ast.IfStmt); ok && srcOf(is.Cond) == b.Anchor {
			found = append(found, is)
		}
		return true
	})
	if len(found) != 1 {
		return "", fmt.Errorf("anchor %q matches %d if-statements in %s", b.Anchor, len(found), b.Func)
	}
	return tr.absDefinition(b.Name, b.Func+" if "+b.Anchor, fd, found[0].Body)
}

const absPrelude = `Definition Out_fall : Z := 0.
Definition Out_continue : Z := 1.
Definition Out_break : Z := 2.
Definition Out_return : Z := 3.
Definition Out_panic : Z := 4.

`

// constant: a package-level integer (or boolean) constant of the target's package
func (tr *translator) constant(name string) (string, error) {
	obj := tr.pi.pkg.Scope().Lookup(name)
	c, ok := obj.(*types.Const)
	if !ok {
		return "", fmt.Errorf("constant %s not found", name)
	}
	v := c.Val()
	pos := fset.Position(c.Pos())
	switch v.Kind() {
	case constant.Int:
		return fmt.Sprintf("(* %s:%d *) Definition %s : Z := %s.\n", pos.Filename, pos.Line, name, zlit(v)), nil
	case constant.Bool:
		return fmt.Sprintf("(* %s:%d *) Definition %s : bool := %v.\n", pos.Filename, pos.Line, name, constant.BoolVal(v)), nil
	}
	return "", fmt.Errorf("constant %s is not an integer", name)
}

// ---------------------------------------------------------------- in-place writes into []byte parameters

const absSlicePrelude = `(* in-place writes into a byte slice (the bounds checks are written out at the call sites) *)
Definition upd_at (b : list Z) (i v : Z) : list Z := firstn (Z.to_nat i) b ++ v :: skipn (Z.to_nat i + 1) b.
Definition put_be_at (b : list Z) (k n v : Z) : list Z := firstn (Z.to_nat k) b ++ be_put n v ++ skipn (Z.to_nat (k + n)) b.
Definition copy_at (b : list Z) (k : Z) (src : list Z) : list Z :=
  let room := Z.to_nat (blen b - k) in
  firstn (Z.to_nat k) b ++ firstn room src ++ skipn (Z.to_nat k + Nat.min room (length src)) b.

`

func (tr *translator) isThreadedSlice(name string) bool {
	for _, s := range tr.abs.slices {
		if s == name {
			return true
		}
	}
	return false
}

// destination of an in-place write:  b  or  b[k:]  with b a threaded slice
func (tr *translator) writeDst(e ast.Expr) (b string, off string, ok bool) {
	switch e := e.(type) {
	case *ast.Ident:
		if tr.isThreadedSlice(e.Name) {
			return lv(e.Name), "0", true
		}
	case *ast.SliceExpr:
		if id, isid := e.X.(*ast.Ident); isid && tr.isThreadedSlice(id.Name) && e.High == nil && !e.Slice3 && e.Low != nil {
			return lv(id.Name), tr.expr(e.Low), true
		}
	}
	return "", "", false
}

func writeDstName(e ast.Expr) string {
	switch e := e.(type) {
	case *ast.Ident:
		return e.Name
	case *ast.SliceExpr:
		if id, ok := e.X.(*ast.Ident); ok {
			return id.Name
		}
	}
	return ""
}

// binary.BigEndian.PutUintNN(dst, v) / copy(dst, src) with dst inside a threaded slice
func (tr *translator) inPlaceCall(ce *ast.CallExpr) (func(rest func() string) string, bool) {
	switch f := ce.Fun.(type) {
	case *ast.Ident:
		if _, isb := tr.pi.info.Uses[f].(*types.Builtin); isb && f.Name == "copy" && len(ce.Args) == 2 {
			if b, off, ok := tr.writeDst(ce.Args[0]); ok {
				src := tr.expr(ce.Args[1])
				return func(rest func() string) string {
					return "if (andb (0 <=? " + off + ") (" + off + " <=? blen " + b + ")) then (\nlet " + b + " := (copy_at " + b + " " + off + " " + src + ") in\n" + rest() + ")\nelse (\n" + tr.panicValue(ce) + ")"
				}, true
			}
		}
	case *ast.SelectorExpr:
		if obj, isf := tr.pi.info.Uses[f.Sel].(*types.Func); isf && obj.Pkg() != nil && obj.Pkg().Path() == "encoding/binary" {
			n := map[string]string{"PutUint16": "2", "PutUint32": "4", "PutUint64": "8"}[obj.Name()]
			inner, isSel := f.X.(*ast.SelectorExpr)
			if n != "" && isSel && inner.Sel.Name == "BigEndian" && len(ce.Args) == 2 {
				if b, off, ok := tr.writeDst(ce.Args[0]); ok {
					v := tr.expr(ce.Args[1])
					return func(rest func() string) string {
						return "if (andb (0 <=? " + off + ") (" + off + " + " + n + " <=? blen " + b + ")) then (\nlet " + b + " := (put_be_at " + b + " " + off + " " + n + " " + v + ") in\n" + rest() + ")\nelse (\n" + tr.panicValue(ce) + ")"
					}, true
				}
			}
		}
	}
	return nil, false
}

// slices written in place by the body (names of []byte variables)
func (tr *translator) writtenSlices(body ast.Node) []string {
	seen := map[string]bool{}
	var out []string
	add := func(n string) {
		if n != "" && !seen[n] {
			seen[n] = true
			out = append(out, n)
		}
	}
	ast.Inspect(body, func(x ast.Node) bool {
		switch x := x.(type) {
		case *ast.AssignStmt:
			for _, l := range x.Lhs {
				if ie, ok := l.(*ast.IndexExpr); ok {
					if id, ok := ie.X.(*ast.Ident); ok && isBytesLike(tr.typeOf(ie.X)) {
						add(id.Name)
					}
				}
			}
		case *ast.CallExpr:
			switch f := x.Fun.(type) {
			case *ast.Ident:
				if _, isb := tr.pi.info.Uses[f].(*types.Builtin); isb && f.Name == "copy" && len(x.Args) == 2 {
					add(writeDstName(x.Args[0]))
				}
			case *ast.SelectorExpr:
				if obj, isf := tr.pi.info.Uses[f.Sel].(*types.Func); isf && obj.Pkg() != nil && obj.Pkg().Path() == "encoding/binary" &&
					strings.HasPrefix(obj.Name(), "PutUint") && len(x.Args) == 2 {
					add(writeDstName(x.Args[0]))
				}
			}
		}
		return true
	})
	return out
}

// ---------------------------------------------------------------- data flow: no atom read after the object escaped

// bases handed to the untranslated call ce: receiver root, or an argument that is the object itself (or is not a plain scalar)
func (tr *translator) escapes(ce *ast.CallExpr) []string {
	a := tr.abs
	seen := map[string]bool{}
	var out []string
	add := func(n string) {
		if _, isb := a.bases[n]; isb && !seen[n] {
			seen[n] = true
			out = append(out, n)
		}
	}
	if se, ok := ce.Fun.(*ast.SelectorExpr); ok {
		if b, _, ok := tr.absPath(se.X); ok {
			add(b)
		}
	}
	for _, arg := range ce.Args {
		if _, ok := tr.tryCoqType(tr.typeOf(arg)); ok {
			if _, isInt, _ := intInfo(tr.typeOf(arg)); isInt > 0 || isBool(tr.typeOf(arg)) {
				continue // a scalar passed by value
			}
		}
		ast.Inspect(arg, func(x ast.Node) bool {
			if id, ok := x.(*ast.Ident); ok {
				add(id.Name)
			}
			return true
		})
	}
	return out
}

type dirtySet map[string]bool

func (d dirtySet) copy() dirtySet {
	n := dirtySet{}
	for k, v := range d {
		n[k] = v
	}
	return n
}

// flowExpr: atoms read in e must belong to clean objects; afterwards the objects handed to untranslated calls in e are dirty
func (tr *translator) flowExpr(e ast.Node, d dirtySet) {
	if e == nil {
		return
	}
	var calls []*ast.CallExpr
	var visit func(n ast.Node)
	visit = func(n ast.Node) {
		ast.Inspect(n, func(x ast.Node) bool {
			switch x := x.(type) {
			case *ast.FuncLit:
				return false
			case *ast.CallExpr:
				if tr.isOpaqueCall(x) {
					calls = append(calls, x)
					for _, a := range x.Args { // the method selector itself is not a read
						visit(a)
					}
					return false
				}
				if b, p, ok := tr.absPath(x); ok && p != "" {
					if d[b] {
						fail(x, "%s is read after %s was handed to an untranslated call that may have changed it", srcOf(x), b)
					}
					return false
				}
			case *ast.SelectorExpr:
				if b, p, ok := tr.absPath(x); ok && p != "" {
					if d[b] {
						fail(x, "%s is read after %s was handed to an untranslated call that may have changed it", srcOf(x), b)
					}
					return false
				}
			}
			return true
		})
	}
	visit(e)
	for _, c := range calls {
		for _, b := range tr.escapes(c) {
			d[b] = true
		}
	}
}

func (tr *translator) flowReturn(n ast.Node, d dirtySet) {
	for _, o := range tr.abs.outs {
		if d[o.base] {
			fail(n, "the threaded field %s.%s is returned after %s was handed to an untranslated call that may have changed it", o.base, o.path, o.base)
		}
	}
}

// flowStmts returns the dirty set at the end and whether the list always leaves (return / panic / continue / break)
func (tr *translator) flowStmts(list []ast.Stmt, d dirtySet) (dirtySet, bool) {
	for _, st := range list {
		switch s := st.(type) {
		case *ast.ReturnStmt:
			for _, r := range s.Results {
				tr.flowExpr(r, d)
			}
			tr.flowReturn(s, d)
			return d, true
		case *ast.BranchStmt:
			tr.flowReturn(s, d)
			return d, true
		case *ast.BlockStmt:
			var t bool
			d, t = tr.flowStmts(s.List, d)
			if t {
				return d, true
			}
		case *ast.IfStmt:
			if s.Init != nil {
				d, _ = tr.flowStmts([]ast.Stmt{s.Init}, d)
			}
			tr.flowExpr(s.Cond, d)
			d1, t1 := tr.flowStmts(s.Body.List, d.copy())
			d2, t2 := d.copy(), false
			if s.Else != nil {
				d2, t2 = tr.flowStmts([]ast.Stmt{s.Else}, d.copy())
			}
			if t1 && t2 {
				return d, true
			}
			nd := dirtySet{}
			if !t1 {
				for k := range d1 {
					nd[k] = true
				}
			}
			if !t2 {
				for k := range d2 {
					nd[k] = true
				}
			}
			d = nd
		case *ast.SwitchStmt:
			if s.Init != nil {
				d, _ = tr.flowStmts([]ast.Stmt{s.Init}, d)
			}
			tr.flowExpr(s.Tag, d)
			nd := dirtySet{}
			all, hasDef := true, false
			for _, c := range s.Body.List {
				cc := c.(*ast.CaseClause)
				if cc.List == nil {
					hasDef = true
				}
				for _, l := range cc.List {
					tr.flowExpr(l, d)
				}
				dc, tc := tr.flowStmts(cc.Body, d.copy())
				if !tc {
					all = false
					for k := range dc {
						nd[k] = true
					}
				}
			}
			if !hasDef {
				all = false
				for k := range d {
					nd[k] = true
				}
			}
			if all {
				return d, true
			}
			d = nd
		case *ast.ForStmt:
			// loop bodies are pure in the accepted subset; treat conservatively: two passes
			tr.flowExpr(s.Init, d)
			tr.flowExpr(s.Cond, d)
			d, _ = tr.flowStmts(s.Body.List, d)
			d, _ = tr.flowStmts(s.Body.List, d)
		case *ast.ExprStmt:
			if ce, ok := s.X.(*ast.CallExpr); ok {
				if id, ok := ce.Fun.(*ast.Ident); ok && id.Name == "panic" {
					return d, true
				}
			}
			tr.flowExpr(s, d)
		default:
			tr.flowExpr(st, d)
		}
	}
	return d, false
}

// ---------------------------------------------------------------- condition extraction

const absFloatPrelude = `(* math.IsNaN / math.IsInf on IEEE-754 binary64 bit patterns (floats are represented by their bits) *)
Definition f64_isnan (b : Z) : bool := (Z.land (Z.shiftr b 52) 2047 =? 2047) && negb (Z.land b 4503599627370495 =? 0).
Definition f64_isinf (b : Z) (sign : Z) : bool :=
  (Z.land (Z.shiftr b 52) 2047 =? 2047) && (Z.land b 4503599627370495 =? 0) &&
  (if sign >? 0 then Z.shiftr b 63 =? 0 else if sign <? 0 then Z.shiftr b 63 =? 1 else true).

`

// absCond: the condition of the `if` whose condition prints as the anchor, as a boolean function of its free variables
func (tr *translator) absCond(b Block, fd *ast.FuncDecl) (def string, err error) {
	defer func() {
		tr.abs = nil
		if r := recover(); r != nil {
			if te, ok := r.(trErr); ok {
				err = fmt.Errorf("%s", te.msg)
				return
			}
			panic(r)
		}
	}()
	var found []*ast.IfStmt
	ast.Inspect(fd.Body, func(x ast.Node) bool {
		if is, ok := x.(*ast.IfStmt); ok && srcOf(is.Cond) == b.Anchor {
			found = append(found, is)
		}
		return true
	})
	if len(found) != 1 {
		return "", fmt.Errorf("anchor %q matches %d if-statements in %s", b.Anchor, len(found), b.Func)
	}
	cond := found[0].Cond
	tr.alias = map[string]string{}
	tr.recvName, tr.recvState, tr.recvType = "", nil, ""
	tr.results, tr.resultTys = nil, nil
	tr.pending = ""
	a := &absCtx{def: b.Name, bases: map[string]*absBase{}, funcs: map[string]bool{}, ptrSlices: map[string]bool{}, scalars: map[string]bool{}}
	tr.abs = a
	var vars []absVar
	seen := map[types.Object]bool{}
	ast.Inspect(cond, func(x ast.Node) bool {
		id, ok := x.(*ast.Ident)
		if !ok {
			return true
		}
		v, ok := tr.pi.info.Uses[id].(*types.Var)
		if !ok || v.IsField() || v.Parent() == tr.pi.pkg.Scope() || v.Pkg() != tr.pi.pkg || seen[v] {
			return true
		}
		seen[v] = true
		vars = append(vars, absVar{id.Name, v.Type(), v.Pos()})
		return true
	})
	sort.Slice(vars, func(i, j int) bool { return vars[i].pos < vars[j].pos })
	var params []string
	for _, v := range vars {
		ty, ok := tr.tryCoqType(v.typ)
		if !ok {
			fail(cond, "free variable %s of the condition has an untranslatable type", v.name)
		}
		params = append(params, "("+lv(v.name)+" : "+ty+")")
	}
	body := tr.expr(cond)
	pos := fset.Position(cond.Pos())
	return fmt.Sprintf("(* %s:%d  condition of %s: if %s *)\nDefinition %s %s : bool :=\n%s.\n", pos.Filename, pos.Line, b.Func, cm(b.Anchor), b.Name,
		strings.Join(params, " "), body), nil
}

// ---------------------------------------------------------------- counted loops with break / continue

// absFor:  for i := a; i < b; i++ { body }  with break / continue (no return inside): a local structural recursion whose fuel is the
// exact iteration bound b - a (b must not be assigned in the body)
func (tr *translator) absFor(s *ast.ForStmt, rest func() string) (string, bool) {
	a := tr.abs
	init, ok := s.Init.(*ast.AssignStmt)
	if !ok || init.Tok != token.DEFINE || len(init.Lhs) != 1 {
		return "", false
	}
	ivId, ok := init.Lhs[0].(*ast.Ident)
	if !ok {
		return "", false
	}
	cond, ok := s.Cond.(*ast.BinaryExpr)
	if !ok || cond.Op != token.LSS {
		return "", false
	}
	if id, ok := cond.X.(*ast.Ident); !ok || id.Name != ivId.Name {
		return "", false
	}
	post, ok := s.Post.(*ast.IncDecStmt)
	if !ok || post.Tok != token.INC {
		return "", false
	}
	hasBranch, hasReturn := false, false
	ast.Inspect(s.Body, func(n ast.Node) bool {
		switch n.(type) {
		case *ast.BranchStmt:
			hasBranch = true
		case *ast.ReturnStmt:
			hasReturn = true
		case *ast.ForStmt:
			if n != ast.Node(s) {
				hasReturn = true // nested loops: not handled here
			}
		}
		return true
	})
	if hasReturn {
		fail(s, "return or nested loop inside a counted loop")
	}
	if !hasBranch {
		// plain accumulating loops keep the fold_left translation
		return "", false
	}
	vars, _ := tr.assignedIn(s.Body, s.Pos())
	iv := lv(ivId.Name)
	for _, v := range vars {
		if v == iv {
			fail(s, "index variable assigned in the loop body")
		}
	}
	// the bound must be loop-invariant
	ast.Inspect(cond.Y, func(n ast.Node) bool {
		if id, ok := n.(*ast.Ident); ok {
			for _, v := range vars {
				if lv(id.Name) == v {
					fail(s, "loop bound %s is assigned in the body", id.Name)
				}
			}
		}
		return true
	})
	if len(vars) == 0 {
		return rest(), true
	}
	a.nloop++
	name := fmt.Sprintf("loop%d_", a.nloop)
	fuel := fmt.Sprintf("fuel%d_", a.nloop)
	pat, tup := tuplePat(vars)
	lo, hi := tr.expr(init.Rhs[0]), tr.expr(cond.Y)
	args := strings.Join(vars, " ")
	a.loops = append(a.loops, absLoop{cont: "(" + name + " " + fuel + " (" + iv + " + 1) " + args + ")", brk: tup})
	body := tr.stmts(s.Body.List, func() string { return "(" + name + " " + fuel + " (" + iv + " + 1) " + args + ")" })
	a.loops = a.loops[:len(a.loops)-1]
	var binders []string
	for _, v := range vars {
		binders = append(binders, "("+v+" : _)")
	}
	out := "let " + pat + " := (fix " + name + " (" + fuel + " : nat) (" + iv + " : Z) " + strings.Join(binders, " ") + " {struct " + fuel + "} :=\n" +
		"match " + fuel + " with O => " + tup + " | S " + fuel + " =>\n" +
		"if (" + iv + " <? " + hi + ") then (\n" + body + ")\nelse (\n" + tup + ") end) (Z.to_nat (" + hi + " - " + lo + ")) " + lo + " " + args + " in\n"
	return out + rest(), true
}
