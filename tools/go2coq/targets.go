package main

// What is translated. Order matters: a module may only Require earlier ones.
var targets = []Target{
	{
		Module: "Gen_protowire",
		Dir:    "proto/protowire",
		Funcs: []string{
			"AppendVarint", "AppendFixed32", "AppendFixed64", "EncodeZigZag", "SizeVarint",
			"ConsumeVarint", "ConsumeFixed32", "ConsumeFixed64", "ConsumeBytes", "DecodeZigZag",
			"BinaryEncoder.EncodeBool", "BinaryEncoder.EncodeByte", "BinaryEncoder.EncodeEnum",
			"BinaryEncoder.EncodeInt32", "BinaryEncoder.EncodeSint32", "BinaryEncoder.EncodeUint32",
			"BinaryEncoder.EncodeInt64", "BinaryEncoder.EncodeSint64", "BinaryEncoder.EncodeUint64",
			"BinaryEncoder.EncodeSfixed32", "BinaryEncoder.EncodeFixed32", "BinaryEncoder.EncodeFloat32",
			"BinaryEncoder.EncodeSfixed64", "BinaryEncoder.EncodeFixed64", "BinaryEncoder.EncodeDouble",
			"BinaryEncoder.EncodeString", "BinaryEncoder.EncodeBytes",
			"BinaryDecoder.DecodeBool", "BinaryDecoder.DecodeByte",
			"BinaryDecoder.DecodeInt32", "BinaryDecoder.DecodeSint32", "BinaryDecoder.DecodeUint32",
			"BinaryDecoder.DecodeInt64", "BinaryDecoder.DecodeSint64", "BinaryDecoder.DecodeUint64",
			"BinaryDecoder.DecodeSfixed32", "BinaryDecoder.DecodeFixed32", "BinaryDecoder.DecodeFloat32",
			"BinaryDecoder.DecodeSfixed64", "BinaryDecoder.DecodeFixed64", "BinaryDecoder.DecodeDouble",
			"BinaryDecoder.DecodeString", "BinaryDecoder.DecodeBytes",
		},
	},
	{
		Module: "Gen_proto",
		Dir:    "proto",
		Tables: []string{"Kind2Wire"},
		Funcs:  []string{"Type.Valid", "Type.NeedVarint", "Type.IsInt", "Type.IsUint", "Type.IsComplex", "FromProtoKindToType"},
	},
	{
		Module:   "Gen_protobinary",
		Dir:      "proto/binary",
		Requires: []string{"Gen_protowire", "Gen_proto"},
		State:    map[string][]string{"BinaryProtocol": {"Buf", "Read"}},
		Funcs: []string{
			"BinaryProtocol.next", "BinaryProtocol.AppendTag", "BinaryProtocol.AppendTagByKind",
			"BinaryProtocol.ConsumeTag", "BinaryProtocol.ConsumeTagWithoutMove",
			"BinaryProtocol.WriteBool", "BinaryProtocol.WriteInt32", "BinaryProtocol.WriteSint32", "BinaryProtocol.WriteUint32",
			"BinaryProtocol.WriteFixed32", "BinaryProtocol.WriteSfixed32", "BinaryProtocol.WriteInt64", "BinaryProtocol.WriteSint64",
			"BinaryProtocol.WriteUint64", "BinaryProtocol.WriteFixed64", "BinaryProtocol.WriteSfixed64", "BinaryProtocol.WriteFloat",
			"BinaryProtocol.WriteDouble", "BinaryProtocol.WriteString", "BinaryProtocol.WriteBytes", "BinaryProtocol.WriteEnum",
			"BinaryProtocol.ReadBool", "BinaryProtocol.ReadInt32", "BinaryProtocol.ReadSint32", "BinaryProtocol.ReadUint32",
			"BinaryProtocol.ReadInt64", "BinaryProtocol.ReadSint64", "BinaryProtocol.ReadUint64", "BinaryProtocol.ReadVarint",
			"BinaryProtocol.ReadFixed32", "BinaryProtocol.ReadSfixed32", "BinaryProtocol.ReadFloat", "BinaryProtocol.ReadFixed64",
			"BinaryProtocol.ReadSfixed64", "BinaryProtocol.ReadDouble", "BinaryProtocol.ReadBytes", "BinaryProtocol.ReadLength",
			"BinaryProtocol.ReadEnum", "BinaryProtocol.ReadInt",
		},
		Dispatch: []Dispatch{
			{Func: "BinaryProtocol.ReadBaseTypeWithDesc", Name: "ReadBase", Style: "read"},
			{Func: "BinaryProtocol.WriteBaseTypeWithDesc", Name: "WriteBase", Style: "write"},
		},
	},
	{
		Module: "Gen_thrift",
		Dir:    "thrift",
		Tables: []string{"typeSize"},
		State:  map[string][]string{"BinaryProtocol": {"Buf", "Read"}},
		Funcs: []string{"TypeSize", "Type.Valid", "Type.IsInt", "Type.IsComplex",
			"BinaryEncoding.DecodeBool", "BinaryEncoding.DecodeByte", "BinaryEncoding.DecodeInt16", "BinaryEncoding.DecodeInt32",
			"BinaryEncoding.DecodeInt64", "BinaryEncoding.DecodeDouble",
			"BinaryProtocol.skipn", "BinaryProtocol.next_nopanic", "BinaryProtocol.skipstr"},
	},
	{
		// C14: bucket function of the field-name trie (internal/caching/trie.go)
		Module: "Gen_caching",
		Dir:    "internal/caching",
		Funcs:  []string{"ascii2Int", "DJBHash32"},
	},
	// ---- abstract-environment mode (abs.go): decision functions over option structs / descriptors ----
	{
		// flag bits shared with native/thrift.h
		Module: "Gen_nativetypes",
		Dir:    "internal/native/types",
		Consts: []string{"F_ALLOW_UNKNOWN", "F_WRITE_DEFAULT", "F_VALUE_MAPPING", "F_HTTP_MAPPING", "F_STRING_INT", "F_WRITE_REQUIRE",
			"F_NO_BASE64", "F_WRITE_OPTIONAL", "F_TRACE_BACK"},
	},
	{
		// C02 / C16 / C17: option -> native flag bits
		Module: "Gen_j2tflags",
		Dir:    "conv/j2t",
		Mode:   "abs",
		Funcs:  []string{"toFlags"},
	},
	{
		// C16 / C11 / C14: requiredness -> bitmap value, and the decisions taken for a marked bit
		Module: "Gen_thriftreq",
		Dir:    "thrift",
		Mode:   "abs",
		Consts: []string{"OptionalRequireness", "DefaultRequireness", "RequiredRequireness"},
		Funcs:  []string{"convertRequireness"},
		Blocks: []Block{
			{Func: "RequiresBitmap.CheckRequires", Name: "CheckRequires_marked", Anchor: "v%2 == 1"},
			{Func: "RequiresBitmap.HandleRequires", Name: "HandleRequires_marked", Anchor: "v%2 == 1"},
		},
	},
	{
		// C15 / C07 / C20: kind tables of the Protobuf descriptors
		Module: "Gen_protokind",
		Dir:    "proto",
		Mode:   "abs",
		Funcs: []string{"Type.TypeToKind", "Type.IsPacked", "TypeDescriptor.IsPacked", "TypeDescriptor.IsMap",
			"TypeDescriptor.IsList", "TypeDescriptor.WireType"},
		Tables: []string{"Kind2Wire"},
	},
	{
		// C19: in-place leaf writers of the Thrift binary encoding, and the call sequences / header arithmetic of the message, field,
		// map, list and set envelopes (the Write* / Read* primitives they call are effects resp. oracle inputs)
		Module:  "Gen_thriftbin",
		Dir:     "thrift",
		Mode:    "abs",
		Prelude: absSlicePrelude,
		Consts:  []string{"VERSION_1", "VERSION_MASK"},
		Funcs: []string{"Type.Valid",
			"BinaryEncoding.EncodeBool", "BinaryEncoding.EncodeByte", "BinaryEncoding.EncodeInt16", "BinaryEncoding.EncodeInt32",
			"BinaryEncoding.EncodeInt64", "BinaryEncoding.EncodeDouble", "BinaryEncoding.EncodeString", "BinaryEncoding.EncodeBinary",
			"BinaryEncoding.EncodeFieldBegin",
			"BinaryProtocol.WriteMessageBegin", "BinaryProtocol.ReadMessageBegin",
			"BinaryProtocol.WriteFieldBegin", "BinaryProtocol.WriteFieldStop", "BinaryProtocol.WriteMapBegin", "BinaryProtocol.WriteListBegin",
			"BinaryProtocol.WriteSetBegin",
			"BinaryProtocol.ReadFieldBegin", "BinaryProtocol.ReadMapBegin", "BinaryProtocol.ReadListBegin", "BinaryProtocol.ReadSetBegin"},
	},
	{
		// C03 / C18: tables of the portable JSON string quoting
		Module: "Gen_rt",
		Dir:    "internal/rt",
		Mode:   "abs",
		Tables: []string{"SafeSet", "Hex"},
	},
	{
		// C02 / C03: JSON whitespace
		Module: "Gen_json",
		Dir:    "internal/json",
		Mode:   "abs",
		Consts: []string{"_blankCharsMask"},
		Funcs:  []string{"IsSpace"},
	},
	{
		// C18 / C03: the per-byte steps of the portable quoteString (internal/json/api_compat.go, excluded from amd64 builds)
		Module:   "Gen_jsonportable",
		Dir:      "internal/json",
		GOARCH:   "arm64",
		Mode:     "abs",
		Requires: []string{"Gen_rt"},
		Blocks: []Block{
			{Func: "quoteString", Name: "quoteString_ascii", Anchor: "b < utf8.RuneSelf"},
			{Func: "quoteString", Name: "quoteString_linesep", Anchor: "c == '\\u2028' || c == '\\u2029'"},
		},
	},
	{
		// C16 / C11: the zero value written for an absent field (WriteEmpty: type dispatch over the write primitives)
		Module: "Gen_thriftempty",
		Dir:    "thrift",
		Mode:   "abs",
		Funcs:  []string{"BinaryProtocol.WriteEmpty"},
	},
	{
		// ... and the primitives it uses that are themselves one call (each level is translated where its callees are effects)
		Module: "Gen_thriftends",
		Dir:    "thrift",
		Mode:   "abs",
		Funcs:  []string{"BinaryProtocol.WriteBool", "BinaryProtocol.WriteStructEnd", "BinaryProtocol.WriteListEnd", "BinaryProtocol.WriteMapEnd"},
	},
	{
		// C06 / C07 / C08 / C10: skipping one wire value (classic mode, state threaded; callees in Gen_protobinary / Gen_protowire)
		Module:   "Gen_protoskip",
		Dir:      "proto/binary",
		Requires: []string{"Gen_protowire", "Gen_proto", "Gen_protobinary"},
		State:    map[string][]string{"BinaryProtocol": {"Buf", "Read"}},
		Funcs:    []string{"BinaryProtocol.SkipFixed32Type", "BinaryProtocol.SkipFixed64Type", "BinaryProtocol.SkipBytesType", "BinaryProtocol.Skip"},
	},
	{
		// C12: what enters the pool (thrift BinaryProtocol.Recycle / Reset)
		Module: "Gen_thriftpool",
		Dir:    "thrift",
		Mode:   "abs",
		State:  map[string][]string{"BinaryProtocol": {"Buf", "Read", "borrowed"}},
		Funcs:  []string{"BinaryProtocol.Reset", "BinaryProtocol.Recycle"},
	},
	{
		// C12: the same for proto/binary
		Module: "Gen_protopool",
		Dir:    "proto/binary",
		Mode:   "abs",
		State:  map[string][]string{"BinaryProtocol": {"Buf", "Read", "borrowed"}},
		Funcs:  []string{"BinaryProtocol.Reset", "BinaryProtocol.Recycle"},
	},
	{
		// C08 / C13: the finite test in front of EncodeFloat64 (JSON has no spelling for NaN and the infinities)
		Module:  "Gen_p2jfinite",
		Dir:     "conv/p2j",
		Mode:    "abs",
		Prelude: absFloatPrelude,
		Funcs:   []string{"checkFinite"},
	},
	{
		// C03 / C13: the same test in conv/t2j (inline in doRecurse, case DOUBLE)
		Module:  "Gen_t2jfinite",
		Dir:     "conv/t2j",
		Mode:    "abs",
		Prelude: absFloatPrelude,
		Blocks:  []Block{{Func: "BinaryConv.doRecurse", Name: "double_not_finite", Anchor: "math.IsNaN(v) || math.IsInf(v, 0)", Cond: true}},
	},
	{
		// C09: JSON object key -> Protobuf map key (which strconv parser with which bit size, which writer)
		Module:   "Gen_j2pkey",
		Dir:      "conv/j2p",
		Mode:     "abs",
		Requires: []string{"Gen_protowire", "Gen_proto", "Gen_protobinary"},
		Funcs:  []string{"visitorUserNode.encodeMapKey"},
	},
	{
		// C05: the probing loop of the DOM hash table (first empty slot for a key)
		Module: "Gen_domhash",
		Dir:    "thrift/generic",
		Mode:   "abs",
		Funcs:  []string{"seekIntHash"},
	},
	{
		// C06 / C01: the fixed-size fast paths of SkipGo (count x width handed to skipn)
		Module: "Gen_thriftskipfast",
		Dir:    "thrift",
		Mode:   "abs",
		Tables: []string{"typeSize"},
		Blocks: []Block{
			{Func: "BinaryProtocol.SkipGo", Name: "SkipGo_list_fast", Anchor: "typeSize[vt] > 0"},
			{Func: "BinaryProtocol.SkipGo", Name: "SkipGo_map_fast", Anchor: "ksz > 0 && vsz > 0"},
		},
	},
}
