#!/usr/bin/env python3
"""Debug aid for C17: pretty-prints case lines of .build/run/C17/cases.txt together with their verdicts.
usage: tools/c17show.py [--bad|--known|--drift|--all] [-n N] [--id 1701|1702]"""
import sys, os
V = os.path.dirname(os.path.dirname(os.path.abspath(__file__)))
run = os.path.join(V, ".build/run/C17")
KN = {1: "query", 2: "path", 3: "header", 4: "cookie", 5: "body", 6: "http_code", 7: "raw_body", 8: "form", 9: "raw_uri", 10: "no_body_struct"}
TN = {2: "bool", 3: "byte", 4: "double", 6: "i16", 8: "i32", 10: "i64", 11: "string"}
OPT = ["WR", "WD", "WO", "RHF", "TB", "NoB64", "WHF", "Omit", "Kitex"]

def fld(tok):
    if tok[0] == "n":
        return int(tok[1:])
    return bytes.fromhex(tok[1:])

def txt(b):
    try:
        return b.decode()
    except Exception:
        return repr(b)

class P:
    def __init__(self, toks): self.t = toks; self.i = 0
    def next(self):
        v = fld(self.t[self.i]); self.i += 1; return v

def ty(p, ind):
    k = p.next()
    if k == 0:
        c = p.next(); b = p.next()
        return "binary" if (c == 11 and b) else TN.get(c, "?%d" % c)
    if k == 1: return "list<%s>" % ty(p, ind)
    if k == 2: return "set<%s>" % ty(p, ind)
    if k == 3:
        a = ty(p, ind); b = ty(p, ind); return "map<%s,%s>" % (a, b)
    if k == 4:
        nf = p.next(); out = "{\n"
        for _ in range(nf):
            fid = p.next(); name = txt(p.next()); req = p.next(); na = p.next()
            anns = []
            for _ in range(na):
                kk = p.next(); key = txt(p.next()); anns.append("%s=%s" % (KN.get(kk, kk), key))
            if nf > 50:
                ty(p, ind + 2); continue
            t = ty(p, ind + 2)
            out += " " * (ind + 2) + "%d: %s %s %s (%s)\n" % (fid, ["default", "required", "optional"][req], t, name, ", ".join(anns))
        return out + " " * ind + "}"
    return "?"

def dec_thrift(b, t, i, ind=0):
    import struct
    if t == 2 or t == 3: return str(struct.unpack(">b", b[i:i+1])[0]), i + 1
    if t == 6: return str(struct.unpack(">h", b[i:i+2])[0]), i + 2
    if t == 8: return str(struct.unpack(">i", b[i:i+4])[0]), i + 4
    if t == 10: return str(struct.unpack(">q", b[i:i+8])[0]), i + 8
    if t == 4: return str(struct.unpack(">d", b[i:i+8])[0]), i + 8
    if t == 11:
        n = struct.unpack(">i", b[i:i+4])[0]; return repr(b[i+4:i+4+n]), i + 4 + n
    if t == 12:
        out = []
        while True:
            ft = b[i]; i += 1
            if ft == 0: break
            fid = struct.unpack(">h", b[i:i+2])[0]; i += 2
            v, i = dec_thrift(b, ft, i)
            out.append("%d:%s" % (fid, v))
        return "{" + ", ".join(out) + "}", i
    if t == 15 or t == 14:
        et = b[i]; n = struct.unpack(">i", b[i+1:i+5])[0]; i += 5; out = []
        for _ in range(n):
            v, i = dec_thrift(b, et, i); out.append(v)
        return "[" + ", ".join(out) + "]", i
    if t == 13:
        kt = b[i]; vt = b[i+1]; n = struct.unpack(">i", b[i+2:i+6])[0]; i += 6; out = []
        for _ in range(n):
            k, i = dec_thrift(b, kt, i); v, i = dec_thrift(b, vt, i); out.append(k + ":" + v)
        return "map{" + ", ".join(out) + "}", i
    raise ValueError("type %d" % t)

def show_thrift(b):
    try:
        s, i = dec_thrift(b, 12, 0)
        return s + ("" if i == len(b) else "  TRAILING %s" % b[i:].hex())
    except Exception as e:
        return "UNDECODABLE(%s) %s" % (e, b.hex())

def show(line, verdict):
    toks = line.split()
    cid = toks[0]; p = P(toks[1:])
    print("=" * 100); print("check", cid, "verdict:", verdict)
    bits = p.next()
    print("opts:", [OPT[i] for i in range(9) if bits >> i & 1])
    if cid in ("1701", "1704"):
        print("impl:", ["native", "portable"][p.next()])
    print("struct", ty(p, 0))
    if cid in ("1701", "1704"):
        nv = p.next()
        for _ in range(nv):
            k = p.next(); key = txt(p.next()); v = txt(p.next())
            print("  %-7s %-10s = %s" % (KN[k], key, v))
        print("raw body:", txt(p.next())); print("uri:", txt(p.next()))
        print("body kind:", ["none", "form", "json", "form(other carrier)"][p.next()])
        ni = p.next()
        for _ in range(ni):
            k = p.next(); key = txt(p.next()); v = txt(p.next())
            print("  put %-7s %-10s = %s" % (KN[k], key, v))
        print("jbody:", txt(p.next()))
        ec = p.next(); ob = p.next()
        print("err class:", ec); print("out:", show_thrift(ob) if ec == 0 else ob.hex())
    elif cid == "1705":
        inb = p.next(); print("in:", show_thrift(inb))
        print("err class:", p.next(), "status:", p.next())
        for _ in range(p.next()):
            print("  cookie", txt(p.next()), "=", txt(p.next()))
        for _ in range(p.next()):
            print("  header", txt(p.next()), "=", txt(p.next()))
        print("raw body set:", p.next())
    else:
        inb = p.next(); print("in:", show_thrift(inb))
        print("err class:", p.next(), "json ok:", p.next())
        nm = p.next()
        for _ in range(nm):
            name = txt(p.next()); ns = p.next(); subs = [txt(p.next()) for _ in range(max(ns, 0))]
            print("  member", name, subs if ns >= 0 else "")
        nc = p.next()
        for _ in range(nc):
            k = p.next(); key = txt(p.next()); v = p.next()
            print("  deliver", KN[k], key, "=", txt(v))
        print("json:", txt(p.next()))
    if verdict.startswith("bad"):
        vt = verdict.split()
        det = [fld(x) for x in vt[2:]]
        print("expected:", [show_thrift(d) if isinstance(d, bytes) and cid in ("1701", "1704") else (txt(d) if isinstance(d, bytes) else d) for d in det])

def main():
    want = "bad"; n = 5; cid = None; skip = 0
    a = sys.argv[1:]
    while a:
        x = a.pop(0)
        if x.startswith("--") and x[2:] in ("bad", "known", "drift", "all", "ok", "skip"): want = x[2:]
        elif x == "-n": n = int(a.pop(0))
        elif x == "--id": cid = a.pop(0)
        elif x == "--skipn": skip = int(a.pop(0))
    cases = open(os.path.join(run, "cases.txt")).read().splitlines()
    verd = open(os.path.join(run, "verdicts.txt")).read().splitlines()
    for c, v in zip(cases, verd):
        if cid and not c.startswith(cid + " "): continue
        if want != "all" and not v.startswith(want): continue
        if skip > 0:
            skip -= 1; continue
        show(c, v); n -= 1
        if n <= 0: break

main()
