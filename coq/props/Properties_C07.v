(* C07 — Protobuf reads return exactly what the reference decoder sees.
   Statements only; every theorem is closed by a lemma of proofs/ProtoMsgProofs.v or
   proofs/ProtoGenericProofs.v and followed by Print Assumptions.
   The models (model/ProtoMsg.v, ProtoGeneric.v) are hand-written; their tie to proto/generic and to the
   reference implementation is the differential check ./check C07 (checks 701-703). *)
From Coq Require Import ZArith List Bool Lia.
From DG Require Import CaseFormat ProtoWireRef ProtoWireRefProofs ProtoMsg ProtoMsgProofs
  ProtoGeneric ProtoGenericAlg ProtoGenericDom ProtoGenericKids ProtoGenericProofs ProtoGenericRefine
  ProtoGenericRefine2 ProtoGenericIface ProtoGenericRefine3.
Import ListNotations.
Local Open Scope Z_scope.

(* wire level: tag / wire type / varint / fixed / length-delimited. One field followed by anything ... *)
Theorem C07_wire_field_roundtrip :
  forall f r, wf_wfield f = true -> wdec_field (wenc_field f ++ r) = Some (f, r).
Proof. exact wdec_field_enc. Qed.
Print Assumptions C07_wire_field_roundtrip.

(* ... and whole wire trees *)
Theorem C07_wire_roundtrip :
  forall w, wf_wire w = true -> wdec (wenc w) = Some w.
Proof. exact wdec_wenc. Qed.
Print Assumptions C07_wire_roundtrip.

(* merging at wire level is concatenation *)
Theorem C07_wire_concat :
  forall a b, wf_wire a = true -> wf_wire b = true -> wdec (wenc a ++ wenc b) = Some (a ++ b).
Proof. exact wdec_wenc_app. Qed.
Print Assumptions C07_wire_concat.

(* every numeric kind (varint, zig-zag, fixed32/64, float bits, bool, enum) reads back from its wire value *)
Theorem C07_scalar_roundtrip :
  forall k v, is_numeric k = true -> scalar_okb k v = true ->
  scalar_of_wire k (scalar_to_wire k v) = Some v /\ wf_wval (scalar_to_wire k v) = true /\
  wt_of_wval (scalar_to_wire k v) = wt_of_kind k.
Proof. exact scalar_rt. Qed.
Print Assumptions C07_scalar_roundtrip.

(* typed level: the schema-directed decoder inverts the canonical encoder for EVERY well-formed message:
   all scalar kinds, strings/bytes, nested and recursive messages (any depth), packed and unpacked
   repeated fields, maps with integer and string keys and scalar or message values *)
Theorem C07_decode_encode_msg :
  forall S name fs fuel, wf_msg S name fs = true -> (depth (VMsg fs) <= fuel)%nat ->
  decode_msg S fuel name (encode_msg fs) = Some fs.
Proof. exact decode_encode_msg. Qed.
Print Assumptions C07_decode_encode_msg.

(* the decoder the checker runs (fuel = input length) is covered *)
Theorem C07_decode_top_encode :
  forall S name fs, wf_msg S name fs = true -> decode_top S name (encode_msg fs) = Some fs.
Proof. exact decode_top_encode. Qed.
Print Assumptions C07_decode_top_encode.

(* lookups on the value decoded from the canonical bytes = lookups on the message, for every path *)
Theorem C07_lookup_after_roundtrip :
  forall S root m p, wf_msg S root m = true ->
  option_map (fun m' => plookup_root S root m' p) (decode_top S root (encode_msg m)) = Some (plookup_root S root m p).
Proof. exact plookup_decode_encode. Qed.
Print Assumptions C07_lookup_after_roundtrip.

(* found iff present: a declared field present in m is found with its value, an absent one is not-found *)
Theorem C07_field_found_iff_present :
  forall S name md fd num0 fs n p,
  find_msg S name = Some md -> find_field md n = Some fd ->
  (forall x, assoc_z (fd_num fd) fs = Some x ->
     plookup S LSingular (TMsg name) num0 (VMsg fs) (PField n :: p) = plookup S (fd_label fd) (fd_type fd) (fd_num fd) x p) /\
  (assoc_z (fd_num fd) fs = None ->
     plookup S LSingular (TMsg name) num0 (VMsg fs) (PField n :: p) = LNotFound (is_nil p)).
Proof.
  intros S name md fd num0 fs n p H1 H2. split.
  - intros x H3. apply (plookup_field_present _ _ _ _ _ _ _ _ _ H1 H2 H3).
  - intros H3. apply (plookup_field_absent _ _ _ _ _ _ _ _ H1 H2 H3).
Qed.
Print Assumptions C07_field_found_iff_present.

Theorem C07_index_found_iff_in_range :
  forall S q q' t n vs i p,
  (forall x, 0 <= i -> nth_error vs (Z.to_nat i) = Some x ->
     plookup S (LRepeated q) t n (VList q' vs) (PIndex i :: p) = plookup S LSingular t n x p) /\
  (i < 0 \/ nth_error vs (Z.to_nat i) = None ->
     plookup S (LRepeated q) t n (VList q' vs) (PIndex i :: p) = LNotFound (is_nil p)).
Proof.
  intros. split.
  - intros x H0 H. apply plookup_index; assumption.
  - apply plookup_index_out_of_range.
Qed.
Print Assumptions C07_index_found_iff_in_range.

(* paths compose *)
Theorem C07_lookup_compose :
  forall S p lbl t n v lbl' t' n' v' q,
  plookup S lbl t n v p = LFound lbl' t' n' v' ->
  plookup S lbl t n v (p ++ q) = plookup S lbl' t' n' v' q.
Proof. exact plookup_app. Qed.
Print Assumptions C07_lookup_compose.

(* the raw bytes the checker expects for a found field are a contiguous slice of the message encoding *)
Theorem C07_found_field_raw_is_slice :
  forall S name md fd fs n x,
  find_msg S name = Some md -> find_field md n = Some fd -> assoc_z (fd_num fd) fs = Some x ->
  plookup S LSingular (TMsg name) 0 (VMsg fs) [PField n] = LFound (fd_label fd) (fd_type fd) (fd_num fd) x /\
  exists pre post, encode_msg fs = pre ++ wenc (wfld (fd_num fd) x) ++ post.
Proof. exact found_field_raw_is_slice. Qed.
Print Assumptions C07_found_field_raw_is_slice.

(* The byte-level algorithm of Value.getByPath AS CODED (model/ProtoGenericAlg.v) does not refine the spec:
   machine-checked witnesses of the recorded findings 701-704 (flags all off = the pinned tree) *)
Theorem C07_getByPath_as_coded_refuted :
  (exists m p, wf_msg S_w [77] m = true /\ (exists l t n v, plookup_root S_w [77] m p = LFound l t n v) /\
               gbp no_fixes S_w [77] (encode_msg m) p = GPanicA) /\
  (exists m p ty raw, wf_msg S_w [77] m = true /\ plookup_root S_w [77] m p = LNotFound true /\
               gbp no_fixes S_w [77] (encode_msg m) p = GFoundA ty raw 0).
Proof.
  split.
  - exists [(1, VList true [VScalar 6 (2 ^ 64 - 1)])], [PField 1].
    pose proof gbp_packed_fixed_refuted as H. cbv zeta in H. destruct H as [H1 [H2 H3]].
    split; [exact H1|]. split; [|exact H3].
    exists (LRepeated true), (TScalar 6), 1, (VList true [VScalar 6 (2 ^ 64 - 1)]). exact H2.
  - exists [(2, VList true [VScalar 5 7; VScalar 5 8]); (3, VList false [VBytes 9 [120]])], [PField 2; PIndex (-1)], 5, [7].
    pose proof gbp_index_bounds_refuted as H. cbv zeta in H. destruct H as [H1 [H2 [H3 _]]].
    split; [exact H1|]. split; [exact H2|exact H3].
Qed.
Print Assumptions C07_getByPath_as_coded_refuted.

(* ... and the same model with every recorded repair applied (the flags of ProtoGenericAlg.fixes mirror the
   proposed fix commits) agrees with the spec on those witnesses *)
Theorem C07_getByPath_repaired_on_witnesses :
  gbp all_fixes S_w [77] (encode_msg [(1, VList true [VScalar 6 (2 ^ 64 - 1)])]) [PField 1]
    = GFoundA 19 (encode_msg [(1, VList true [VScalar 6 (2 ^ 64 - 1)])]) 1 /\
  (let m := [(2, VList true [VScalar 5 7; VScalar 5 8]); (3, VList false [VBytes 9 [120]])] in
   gbp all_fixes S_w [77] (encode_msg m) [PField 2; PIndex (-1)] = GNotFoundA /\
   gbp all_fixes S_w [77] (encode_msg m) [PField 2; PIndex 2] = GNotFoundA /\
   gbp all_fixes S_w [77] (encode_msg m) [PField 2; PIndex 1] = GFoundA 5 [8] 0) /\
  (let m := [(3, VList false [VBytes 9 [120; 121]; VBytes 9 [122]])] in
   gbp all_fixes S_w [77] (encode_msg m) [PField 3; PIndex 0] = GFoundA 9 [2; 120; 121] 0 /\
   gbp all_fixes S_w [77] (encode_msg m) [PField 3; PIndex 2] = GNotFoundA) /\
  (let m' := [(4, VMsg [(3, VList false [VBytes 9 [120]])]); (3, VList false [VBytes 9 [121]])] in
   gbp all_fixes S_w [77] (encode_msg m') [PField 4; PField 3] = GFoundA 19 [26; 1; 120] 1).
Proof. exact gbp_repaired_on_witnesses. Qed.
Print Assumptions C07_getByPath_repaired_on_witnesses.

(* ------------------------------------------------------------------------------------------------------------------
   REFINEMENT (mirror of C01's get_by_path_refines_lookup). Value.getByPath as coded, with every recorded repair
   applied (gbp all_fixes: chained skip over the records of a message, packed payload indexing by element wire type,
   element runs of unpacked lists, map entry scan with the string / Go-int key readers, final slice), computes the
   spec lookup on the encoding of EVERY well-formed message of EVERY schema for EVERY path:
     found      |-> exactly the node type, the span = the encoding of the element (node_raw), and the element count;
     not-found  exactly when the element is absent (field absent, index < 0 or >= size, key absent): the
                not-found-last answer when the absent step is the last one, an error value otherwise;
     a field step the schema does not declare: not-found / error, never a value;
     a step that does not fit the shape of the value (LErr): no claim - the Go code has no such check
                (it dereferences a nil descriptor, or walks into element 0 of a list of messages).
   Domain (computable, ProtoGenericDom.gbp_domain): schema_okb (distinct field numbers per message, map keys of a
   kind ReadInt reads or string), wf_msg (any ORDER of fields - the group-contiguous encodings, ascending or not),
   encoding shorter than 2^63 bytes, integer map keys in the Go int range, a non-empty path.
   Outside the domain: split runs of one repeated field / repeated occurrences of a singular field (the reference
   never emits them): see C07_noncanonical_first_run below for what the code does there; covered by the check only
   as far as the generator permutes whole field groups. *)
Theorem C07_get_by_path_refines_plookup :
  forall S root m p, gbp_domain S root m p = true ->
  match plookup_root S root m p with
  | LFound lbl t num v =>
      gbp all_fixes S root (encode_msg m) p = GFoundA (node_type lbl t) (node_raw lbl num v) (size_of v)
  | LNotFound last => gbp all_fixes S root (encode_msg m) p = (if last then GNotFoundA else GErrA)
  | LUndeclared => gbp all_fixes S root (encode_msg m) p = GNotFoundA \/ gbp all_fixes S root (encode_msg m) p = GErrA
  | LErr => True
  end.
Proof.
  intros S root m p H. pose proof (gbp_refines_plookup S root m p H) as R. unfold refines in R.
  destruct (plookup_root S root m p); cbn [expected_gout In] in R; intuition.
Qed.
Print Assumptions C07_get_by_path_refines_plookup.

(* the same at any base offset and with any tail: a length-prefixed (non-root) message inside a larger buffer *)
Theorem C07_get_by_path_refines_plookup_at_offset :
  forall S root m p pre tail, gbp_domain S root m p = true ->
  plen (pre ++ (varint_enc (plen (encode_msg m)) ++ encode_msg m) ++ tail) < 2 ^ 63 ->
  let g := gbp_loop all_fixes S (pre ++ (varint_enc (plen (encode_msg m)) ++ encode_msg m) ++ tail) p (plen pre) false
                    LSingular (TMsg root) 0 in
  match plookup_root S root m p with
  | LFound lbl t num v => g = GFoundA (node_type lbl t) (node_raw lbl num v) (size_of v)
  | LNotFound last => g = (if last then GNotFoundA else GErrA)
  | LUndeclared => g = GNotFoundA \/ g = GErrA
  | LErr => True
  end.
Proof.
  intros S root m p pre tail H Hl. pose proof (gbp_nested_refines_plookup S root m p pre tail H Hl) as R. unfold refines in R.
  cbv zeta. destruct (plookup_root S root m p); cbn [expected_gout In] in R; intuition.
Qed.
Print Assumptions C07_get_by_path_refines_plookup_at_offset.

(* the span returned for a found element decodes, with the proved decoder, to that element *)
Theorem C07_found_span_decodes :
  forall S root m p lbl t num v fd fuel,
  gbp_domain S root m p = true -> plookup_root S root m p = LFound lbl t num v ->
  fd_label fd = lbl -> fd_type fd = t -> (depth v <= fuel)%nat ->
  gbp all_fixes S root (encode_msg m) p = GFoundA (node_type lbl t) (node_raw lbl num v) (size_of v) /\
  wenc (wfld num v) = match lbl with LSingular => tagb num (elem_wt t) ++ node_raw lbl num v | _ => node_raw lbl num v end /\
  wdec (wenc (wfld num v)) = Some (wfld num v) /\
  dec_field (decode_msg S fuel) fd (map snd (wfld num v)) = Some (Some v).
Proof. exact found_span_decodes. Qed.
Print Assumptions C07_found_span_decodes.

(* non-vacuity of the refinement: the domain predicate holds on a message with every field shape, in NON-ascending
   field order, and the theorem's answers are these *)
Definition S_rf : schema :=
 [mk_mdesc [77] [mk_fdesc 1 [97] [97] LSingular (TScalar 5);
                 mk_fdesc 2 [98] [98] (LRepeated true) (TScalar 17);
                 mk_fdesc 3 [99] [99] LSingular (TMsg [77]);
                 mk_fdesc 4 [100] [100] (LMap 9) (TMsg [77]);
                 mk_fdesc 5 [101] [101] (LRepeated false) (TScalar 9);
                 mk_fdesc 6 [102] [102] (LMap 7) (TScalar 2);
                 mk_fdesc 7 [103] [103] (LRepeated false) (TMsg [77])]].
Definition m_rf : pmsg :=
 [(6, VMap [(KInt 7 4000000000, VScalar 2 1065353216)]);
  (5, VList false [VBytes 9 [104;105]; VBytes 9 []]);
  (2, VList true [VScalar 17 (-1); VScalar 17 300]);
  (7, VList false [VMsg []; VMsg [(1, VScalar 5 9)]]);
  (4, VMap [(KStr [120], VMsg [(1, VScalar 5 1)]); (KStr [], VMsg [])]);
  (1, VScalar 5 (-3));
  (3, VMsg [(3, VMsg []); (1, VScalar 5 7)])].
Example C07_refinement_example :
  gbp_domain S_rf [77] m_rf [PField 4; PStrKey [120]; PName [97]] = true /\
  gbp all_fixes S_rf [77] (encode_msg m_rf) [PField 4; PStrKey [120]; PName [97]] = GFoundA 5 [1] 0 /\
  gbp all_fixes S_rf [77] (encode_msg m_rf) [PField 2; PIndex 1] = GFoundA 17 [216; 4] 0 /\
  gbp all_fixes S_rf [77] (encode_msg m_rf) [PField 2; PIndex 2] = GNotFoundA /\
  gbp all_fixes S_rf [77] (encode_msg m_rf) [PField 2] = GFoundA 19 [18; 3; 1; 216; 4] 2 /\
  gbp all_fixes S_rf [77] (encode_msg m_rf) [PField 5; PIndex 0] = GFoundA 9 [2; 104; 105] 0 /\
  gbp all_fixes S_rf [77] (encode_msg m_rf) [PField 7; PIndex 1; PField 1] = GFoundA 5 [9] 0 /\
  gbp all_fixes S_rf [77] (encode_msg m_rf) [PField 7; PIndex 0; PField 1] = GNotFoundA /\
  gbp all_fixes S_rf [77] (encode_msg m_rf) [PField 6; PIntKey 4000000000] = GFoundA 2 [0; 0; 128; 63] 0 /\
  gbp all_fixes S_rf [77] (encode_msg m_rf) [PField 3; PField 3; PField 1] = GNotFoundA /\
  gbp all_fixes S_rf [77] (encode_msg m_rf) [PField 7; PIndex 0; PField 3; PField 1] = GErrA /\
  gbp_domain S_rf [77] m_rf [PField 6; PIntKey 4000000000] = true.
Proof. vm_compute. repeat split. Qed.

(* outside the domain: a repeated field split into two runs and a singular field written twice. The reference decoder
   (decode_top) merges the runs and lets the last occurrence win; getByPath answers from the FIRST run / occurrence.
   Field 5 = ["hi"], field 1 = 7, field 5 = ["yo"], field 1 = 9. *)
Example C07_noncanonical_first_run :
  let bs := wenc [(5, WBytes [104;105]); (1, WVarint 7); (5, WBytes [121;111]); (1, WVarint 9)] in
  decode_top S_rf [77] bs = Some [(5, VList false [VBytes 9 [104;105]; VBytes 9 [121;111]]); (1, VScalar 5 9)] /\
  gbp all_fixes S_rf [77] bs [PField 5] = GFoundA 19 [42; 2; 104; 105] 1 /\
  gbp all_fixes S_rf [77] bs [PField 1] = GFoundA 5 [7] 0.
Proof. vm_compute. repeat split. Qed.

(* non-vacuity: a concrete well-formed message with every field shape, its encoding, and lookups into it *)
Definition S_ex : schema :=
 [mk_mdesc [77] [mk_fdesc 1 [97] [97] LSingular (TScalar 5);
                 mk_fdesc 2 [98] [98] (LRepeated true) (TScalar 17);
                 mk_fdesc 3 [99] [99] LSingular (TMsg [77]);
                 mk_fdesc 4 [100] [100] (LMap 9) (TMsg [77]);
                 mk_fdesc 5 [101] [101] (LRepeated false) (TScalar 9);
                 mk_fdesc 6 [102] [102] (LMap 5) (TScalar 2)]].
Definition m_ex : pmsg :=
 [(1, VScalar 5 (-3)); (2, VList true [VScalar 17 (-1); VScalar 17 300]);
  (3, VMsg [(1, VScalar 5 7); (3, VMsg [])]);
  (4, VMap [(KStr [120], VMsg [(1, VScalar 5 1)]); (KStr [], VMsg [])]);
  (5, VList false [VBytes 9 [104;105]; VBytes 9 []]);
  (6, VMap [(KInt 5 (-1), VScalar 2 1065353216)])].
Example C07_example :
  wf_msg S_ex [77] m_ex = true /\
  decode_top S_ex [77] (encode_msg m_ex) = Some m_ex /\
  plookup_root S_ex [77] m_ex [PField 4; PStrKey [120]; PName [97]] = LFound LSingular (TScalar 5) 1 (VScalar 5 1) /\
  plookup_root S_ex [77] m_ex [PField 2; PIndex 1] = LFound LSingular (TScalar 17) 2 (VScalar 17 300) /\
  plookup_root S_ex [77] m_ex [PField 2; PIndex 2] = LNotFound true /\
  plookup_root S_ex [77] m_ex [PField 6; PIntKey (-1)] = LFound LSingular (TScalar 2) 6 (VScalar 2 1065353216) /\
  node_raw LSingular 6 (VScalar 2 1065353216) = [0; 0; 128; 63].
Proof. vm_compute. repeat split. Qed.

(* ------------------------------------------------------------------------------------------------------------------
   REFINEMENT OF THE OTHER READ APIs (iteration / children listing, bulk lookup, conversion to Go values), in the same
   style and over the same kind of computable domains as C07_get_by_path_refines_plookup.  As coded = the models of
   model/ProtoGenericAlg.v with every recorded repair applied (all_fixes).
   Domains (model/ProtoGenericKids.v):
     root_domain S root m          = schema_okb S && schema_packed_okb S && wf_msg S root m && |encode_msg m| < 2^63
     node_domain S lbl t num v     = schema_okb S && schema_packed_okb S && wf_fld S lbl t v && label_okb lbl t num
                                     && |node bytes| < 2^63
   schema_packed_okb: no repeated numeric field declared [packed = false] (the listing, Indexes and Interface code decides
   "packed" from the element type alone: outside, see C07_interface_unpacked_numeric_refuted); label_okb: the descriptor's
   packed flag is that default, field number in 1..2^29-1, map keys string or of a kind ReadInt reads.
   node_of lbl t num v is the node every lookup returns for the value (type, bytes, element count as proved for getByPath). *)

(* (1) children_cover (mirror of C01's children_cover and spans lemmas): the as-coded Load(recurse=false) / Children listing of
   the ROOT message, of a LIST node and of a MAP node is exactly the list spec_children (one child per present field /
   element / entry, in wire order, with the node type and the bytes node_raw of that child), the scan ends exactly at the
   end of the payload; the children's spans (kid_field_span / kid_elem_span / kid_entry_span: node bytes behind the tag
   or entry header the parent puts in front) are consecutive and their concatenation IS the payload; and the listed
   children are exactly the elements the one-step spec lookup enumerates: for every step, the child listed under that
   step (find_kid) = the element plookup finds (absent <-> not listed).
   NOT covered: nested MESSAGE nodes - the as-coded scan of a non-root message node starts at the length prefix and
   fails (finding 708, open: no repair in the tree); see C07_children_nested_message_as_coded. *)
Theorem C07_children_cover :
  forall S root m, root_domain S root m = true ->
  a_load all_fixes S false (root_node root (encode_msg m)) =
    TOk (spec_children S LSingular (TMsg root) (VMsg m)) (plen (encode_msg m)) /\
  payload_of_children S LSingular (TMsg root) 0 (VMsg m) = Some (encode_msg m) /\
  (forall n, find_kid (PField n) (spec_children S LSingular (TMsg root) (VMsg m)) =
             child_of_lres (PField n) (plookup_root S root m [PField n])).
Proof. exact c07_children_root. Qed.
Print Assumptions C07_children_cover.

Theorem C07_children_cover_list :
  forall S p t num q vs, node_domain S (LRepeated p) t num (VList q vs) = true ->
  a_load all_fixes S false (node_of (LRepeated p) t num (VList q vs)) =
    TOk (spec_children S (LRepeated p) t (VList q vs)) (plen (node_raw (LRepeated p) num (VList q vs))) /\
  payload_of_children S (LRepeated p) t num (VList q vs) = Some (node_raw (LRepeated p) num (VList q vs)) /\
  (forall i, find_kid (PIndex i) (spec_children S (LRepeated p) t (VList q vs)) =
             child_of_lres (PIndex i) (plookup S (LRepeated p) t num (VList q vs) [PIndex i])).
Proof. exact c07_children_list. Qed.
Print Assumptions C07_children_cover_list.

Theorem C07_children_cover_map :
  forall S kk t num kvs, node_domain S (LMap kk) t num (VMap kvs) = true ->
  a_load all_fixes S false (node_of (LMap kk) t num (VMap kvs)) =
    TOk (spec_children S (LMap kk) t (VMap kvs)) (plen (node_raw (LMap kk) num (VMap kvs))) /\
  payload_of_children S (LMap kk) t num (VMap kvs) = Some (node_raw (LMap kk) num (VMap kvs)) /\
  (forall st, is_key_req st = true ->
             find_kid st (spec_children S (LMap kk) t (VMap kvs)) =
             child_of_lres st (plookup S (LMap kk) t num (VMap kvs) [st])).
Proof. exact c07_children_map. Qed.
Print Assumptions C07_children_cover_map.

(* (2) bulk lookup: GetMany / Node.Fields / Indexes / Gets as coded (Gets with repair 707) = the MAP OF SINGLE LOOKUPS:
   slot i holds the node type and bytes of the element the one-step lookup of request i finds, and stays empty (None)
   exactly when that lookup finds nothing (absent field / index out of range / absent key / undeclared field) - for ANY
   request order.  Requests (reqs_okb): non-empty, all of the node's kind (field numbers / indexes / keys in the Go int
   range) and pairwise DISTINCT: the Go loops (and the model: set_first) fill only the FIRST slot naming a child, so a
   repeated request leaves its later slots empty - C07_get_many_duplicates_as_coded; the check compares those against
   the as-coded model.  Stale results in a recycled tree (ClearDirtyValues, seeded C07-7) are outside this functional
   statement: every call here starts from empty slots; the harness checks freshness on recycled trees (api 7/8). *)
Theorem C07_get_many_is_map_of_lookups :
  forall S root m reqs, root_domain S root m = true -> reqs_okb is_field_req reqs = true ->
  a_getmany all_fixes S (root_node root (encode_msg m)) reqs =
  MOk (map (lookup_out S LSingular (TMsg root) 0 (VMsg m)) reqs).
Proof. exact c07_getmany_root. Qed.
Print Assumptions C07_get_many_is_map_of_lookups.

(* the same on every container node a lookup returns: nested messages (Fields), lists packed or not (Indexes), maps with
   string or integer keys (Gets) *)
Theorem C07_get_many_is_map_of_lookups_node :
  forall S lbl t num v reqs,
  node_domain S lbl t num v = true -> is_container v = true -> reqs_okb (req_kind lbl) reqs = true ->
  a_getmany all_fixes S (node_of lbl t num v) reqs = MOk (map (lookup_out S lbl t num v) reqs).
Proof. exact c07_getmany_node. Qed.
Print Assumptions C07_get_many_is_map_of_lookups_node.

(* (3) conversion: Value.Interface() as coded (repair 709: float) = the Go-value image to_gval of the decoded element, for
   EVERY kind: zig-zag / sign-extended / unsigned / fixed / float / bool scalars, strings, bytes, messages (map by field
   number), packed and unpacked lists, maps with string keys (map[string]) and integer keys (map[int], the key as the Go
   int ReadInt yields), nested to any depth; fuel = nesting height of the value. *)
Theorem C07_interface_refines :
  forall S root m fuel, root_domain S root m = true -> (height (VMsg m) <= fuel)%nat ->
  a_interface fuel all_fixes S (root_node root (encode_msg m)) = IOk (to_gval (VMsg m)).
Proof. exact c07_interface_root. Qed.
Print Assumptions C07_interface_refines.

Theorem C07_interface_refines_node :
  forall S lbl t num v fuel, node_domain S lbl t num v = true -> (height v <= fuel)%nat ->
  a_interface fuel all_fixes S (node_of lbl t num v) = IOk (to_gval v).
Proof. exact c07_interface_node. Qed.
Print Assumptions C07_interface_refines_node.

(* non-vacuity: the message of C07_refinement_example (every field shape, non-ascending order) is in the domain; what the
   three theorems say there *)
Example C07_read_apis_example :
  let buf := encode_msg m_rf in
  let mp := VMap [(KStr [120], VMsg [(1, VScalar 5 1)]); (KStr [], VMsg [])] in
  root_domain S_rf [77] m_rf = true /\
  (match a_load all_fixes S_rf false (root_node [77] buf) with
   | TOk kids rd => Some (map (fun c => match c with ATree st t raw _ => (st, t, plen raw) end) kids, rd)
   | _ => None end) =
    Some ([(PField 6, 20, 12); (PField 5, 19, 6); (PField 2, 19, 5); (PField 7, 19, 6); (PField 4, 20, 15);
           (PField 1, 5, 10); (PField 3, 11, 5)], 61) /\ plen buf = 61 /\
  reqs_okb is_field_req [PField 2; PField 9; PField 1] = true /\
  a_getmany all_fixes S_rf (root_node [77] buf) [PField 2; PField 9; PField 1] =
    MOk [Some (19, [18; 3; 1; 216; 4]); None; Some (5, [253; 255; 255; 255; 255; 255; 255; 255; 255; 1])] /\
  node_domain S_rf (LMap 9) (TMsg [77]) 4 mp = true /\
  a_load all_fixes S_rf false (node_of (LMap 9) (TMsg [77]) 4 mp) =
    TOk [ATree (PStrKey [120]) 11 [2; 8; 1] []; ATree (PStrKey []) 11 [0] []] 15 /\
  a_getmany all_fixes S_rf (node_of (LMap 9) (TMsg [77]) 4 mp) [PStrKey []; PStrKey [121]; PStrKey [120]] =
    MOk [Some (11, [0]); None; Some (11, [2; 8; 1])] /\
  a_getmany all_fixes S_rf (node_of (LRepeated true) (TScalar 17) 2 (VList true [VScalar 17 (-1); VScalar 17 300]))
            [PIndex 1; PIndex 2; PIndex 0] = MOk [Some (17, [216; 4]); None; Some (17, [1])] /\
  height (VMsg m_rf) = 4%nat /\
  a_interface 4 all_fixes S_rf (root_node [77] buf) =
    IOk (GMapI [(6, GMapI [(4000000000, GF32 1065353216)]); (5, GList [GStr [104; 105]; GStr []]);
                (2, GList [GInt (-1); GInt 300]); (7, GList [GMapI []; GMapI [(1, GInt 9)]]);
                (4, GMapS [([120], GMapI [(1, GInt 1)]); ([], GMapI [])]); (1, GInt (-3));
                (3, GMapI [(3, GMapI []); (1, GInt 7)])]).
Proof. vm_compute. repeat split. Qed.

(* the limits, as computed facts: a repeated request is answered in its first slot only; the listing of a NESTED
   message node fails as coded (finding 708) where the spec lists two children; an unpacked numeric list ([packed=false],
   outside schema_packed_okb) is not converted *)
Example C07_get_many_duplicates_as_coded :
  a_getmany all_fixes S_rf (root_node [77] (encode_msg m_rf)) [PField 2; PField 2] =
    MOk [Some (19, [18; 3; 1; 216; 4]); None].
Proof. vm_compute. reflexivity. Qed.
Example C07_children_nested_message_as_coded :
  let sub := VMsg [(3, VMsg []); (1, VScalar 5 7)] in
  a_load all_fixes S_rf false (node_of LSingular (TMsg [77]) 3 sub) = TErr /\
  spec_children S_rf LSingular (TMsg [77]) sub = [ATree (PField 3) 11 [0] []; ATree (PField 1) 5 [7] []].
Proof. vm_compute. split; reflexivity. Qed.
Example C07_interface_unpacked_numeric_refuted :
  let S_u : schema := [mk_mdesc [77] [mk_fdesc 2 [98] [98] (LRepeated false) (TScalar 5)]] in
  let m_u : pmsg := [(2, VList false [VScalar 5 7; VScalar 5 8])] in
  schema_okb S_u = true /\ schema_packed_okb S_u = false /\ wf_msg S_u [77] m_u = true /\
  a_interface 5 all_fixes S_u (root_node [77] (encode_msg m_u)) = IErr /\
  to_gval (VMsg m_u) = GMapI [(2, GList [GInt 7; GInt 8])].
Proof. vm_compute. repeat split. Qed.

(* ================================================================== (G) kind tables from the Go source *)
(* the wire-type / packedness tables the read model uses are the ones of proto/type.go and proto/descriptor.go, translated from the Go
   text on every build (gen/Gen_proto.v, gen/Gen_protokind.v).  model_kind k: k is one of the 17 kinds the models cover. *)
From DG Require Gen_proto Gen_protokind Check20g GenProtokindProofs.

Theorem C07_wt_of_kind_from_source :
  forall k, Check20g.model_kind k = true ->
  Gen_protokind.Kind2Wire k = wt_of_kind k /\ Gen_proto.Kind2Wire k = wt_of_kind k /\
  Gen_protokind.TypeDescriptor_WireType {| Gen_protokind.TypeDescriptor_WireType_f_typ := k |} = Some (wt_of_kind k).
Proof.
  intros k H. destruct (GenProtokindProofs.Kind2Wire_is_wt_of_kind k H) as [A B]. split; [exact A|]. split; [exact B|].
  exact (proj1 GenProtokindProofs.TypeDescriptor_WireType_spec k H).
Qed.
Print Assumptions C07_wt_of_kind_from_source.

Theorem C07_is_numeric_from_source :
  forall k, Check20g.model_kind k = true -> Gen_protokind.Type_IsPacked k = Some (is_numeric k).
Proof. intros k H. exact (proj1 (GenProtokindProofs.Type_IsPacked_is_numeric k H)). Qed.
Print Assumptions C07_is_numeric_from_source.

(* a map descriptor is length-delimited, a list descriptor has no wire type of its own (TypeToKind panics) *)
Theorem C07_container_wire_types_from_source :
  Gen_protokind.TypeDescriptor_WireType {| Gen_protokind.TypeDescriptor_WireType_f_typ := 20 |} = Some 2 /\
  Gen_protokind.TypeDescriptor_WireType {| Gen_protokind.TypeDescriptor_WireType_f_typ := 19 |} = None /\
  (forall k, Check20g.model_kind k = true -> Gen_protokind.Type_TypeToKind k = Some k).
Proof. split; [reflexivity|]. split; [reflexivity|]. exact (proj1 GenProtokindProofs.Type_TypeToKind_spec). Qed.
Print Assumptions C07_container_wire_types_from_source.

(* ================================================================== (G) proto/binary Skip from the Go source *)
(* Skip / SkipFixed32Type / SkipFixed64Type / SkipBytesType are translated from proto/binary/binary_skip.go on every build
   (gen/Gen_protoskip.v).  For the four wire types of proto3 Skip succeeds exactly when the model's wire decoder wdec_val reads one value
   of that type from the cursor, and then stands where wdec_val's rest begins; any other wire type: nil and nothing consumed. *)
From DG Require GoSem Gen_protoskip Check20h GenProtoskipProofs.
Theorem C07_Skip_from_source :
  (forall buf rd wt u, bytes_ok buf -> GenProtoskipProofs.in_buf buf rd -> wt = 0 \/ wt = 1 \/ wt = 2 \/ wt = 5 ->
     Check20h.obs_of (Gen_protoskip.BinaryProtocol_Skip buf rd wt u) = Check20h.skip_obs buf rd wt) /\
  (forall buf rd wt u, wt <> 0 -> wt <> 1 -> wt <> 2 -> wt <> 5 -> Gen_protoskip.BinaryProtocol_Skip buf rd wt u = (0, buf, rd)).
Proof. split; [exact GenProtoskipProofs.Skip_is_wdec_val | exact GenProtoskipProofs.Skip_other]. Qed.
Print Assumptions C07_Skip_from_source.
