(* C15 — Protobuf descriptors mirror the schema.
   Only statements here; every theorem is closed by a lemma of proofs/PIdlProofs.v and followed by
   Print Assumptions. The model (model/PIdl.v) is hand-written from proto/idl.go, proto/descriptor.go and
   internal/util/fieldmap.go and tied to the code by the differential check (model/Check15.v, harness/c15.go). *)
From Coq Require Import ZArith List Bool Lia.
From DG Require Import CaseFormat PIdl Check15 PIdlProofs PIdlMemoProofs.
Import ListNotations.
Local Open Scope Z_scope.

(* ---- the fields exposed for a message are exactly the declared ones -------------------------------- *)

(* For every schema whose message names are unique, every mode and every declared message: the descriptor
   registered under the message's FULL name is the map of [elab_field] over its declared fields — same
   order, same length, nothing added, nothing dropped. *)
Theorem C15_pelab_fields_exact :
  forall mode s f m fds,
    msg_names_unique s -> In f s -> In (DMsg m fds) (pf_decls f) ->
    lookup_msg (pd_msgs (pelab mode s)) m = Some (map (elab_field (symtab_of s f) m) fds).
Proof. exact pelab_fields_exact. Qed.
Print Assumptions C15_pelab_fields_exact.

(* number, name and JSON name (explicit, or the default lowerCamel of the name) column by column *)
Theorem C15_pelab_fields_columns :
  forall tab m fds,
    map mf_num (map (elab_field tab m) fds) = map fd_num fds /\
    map mf_name (map (elab_field tab m) fds) = map fd_name fds /\
    map mf_json (map (elab_field tab m) fds) = map json_of fds.
Proof. exact pelab_fields_columns. Qed.
Print Assumptions C15_pelab_fields_columns.

(* kind / repeated / map / packed per label; proto3 packedness: packable element kind and not [packed=false] *)
Theorem C15_pelab_field_structure :
  forall tab m fd,
    let mf := elab_field tab m fd in
    let ek := fst (elem_of tab m fd) in
    (mf_list mf = (fd_label fd =? 1)) /\
    (fd_label fd = 0 -> mf_kind mf = ek /\ mf_ty mf = ek /\ mf_packed mf = false) /\
    (fd_label fd = 1 -> mf_kind mf = ek /\ mf_ty mf = T_LIST /\ mf_elemty mf = ek /\
                        mf_packed mf = (packable ek && negb (fd_packopt fd =? 2))) /\
    (fd_label fd = 2 -> mf_kind mf = K_MESSAGE /\ mf_ty mf = T_MAP /\ mf_keyty mf = fd_keykind fd /\ mf_elemty mf = ek /\
                        mf_packed mf = false /\ mf_tmsg mf = Some (m ++ [entry_name (fd_name fd)])).
Proof.
  intros tab m fd. cbn zeta. split.
  - pose proof (elab_field_basic tab m fd) as H. cbn zeta in H. tauto.
  - exact (elab_field_kind tab m fd).
Qed.
Print Assumptions C15_pelab_field_structure.

(* nothing but declared messages (and the synthetic entry message of each declared map field) is in the table *)
Theorem C15_pelab_only_declared :
  forall s m mfs, In (m, mfs) (msg_table s) ->
    exists f, In f s /\
      ((exists fds, In (DMsg m fds) (pf_decls f) /\ mfs = map (elab_field (symtab_of s f) m) fds) \/
       (exists m0 fds fd, In (DMsg m0 fds) (pf_decls f) /\ In fd fds /\ is_map_field fd = true /\
          m = m0 ++ [entry_name (fd_name fd)] /\ mfs = entry_fields (symtab_of s f) m0 fd)).
Proof. exact msg_table_only_declared. Qed.
Print Assumptions C15_pelab_only_declared.

(* the synthetic XEntry message of a map field is registered under Msg.XEntry — per enclosing message *)
Theorem C15_pelab_entry_exact :
  forall mode s f m fds fd,
    msg_names_unique s -> In f s -> In (DMsg m fds) (pf_decls f) -> In fd fds -> fd_label fd = 2 ->
    lookup_msg (pd_msgs (pelab mode s)) (m ++ [entry_name (fd_name fd)]) = Some (entry_fields (symtab_of s f) m fd).
Proof. exact pelab_entry_exact. Qed.
Print Assumptions C15_pelab_entry_exact.

(* ---- type identity --------------------------------------------------------------------------------- *)

(* A message-typed field refers to the FULLY-QUALIFIED name that scoping resolution yields, and the descriptor
   registered under that name is the elaboration of that very declaration. *)
Theorem C15_pelab_type_identity :
  forall mode s f m fds fd F,
    msg_names_unique s -> In f s -> In (DMsg m fds) (pf_decls f) -> In fd fds ->
    fd_kind fd = 0 -> resolve (symtab_of s f) m (fd_ref fd) = Some (F, S_MSG) ->
    let mf := elab_field (symtab_of s f) m fd in
    (fd_label fd = 0 -> mf_tmsg mf = Some F) /\
    (fd_label fd = 1 -> mf_tmsg mf = Some F /\ mf_emsg mf = Some F) /\
    (fd_label fd = 2 -> mf_emsg mf = Some F) /\
    (forall g fdsF, In g s -> In (DMsg F fdsF) (pf_decls g) ->
       lookup_msg (pd_msgs (pelab mode s)) F = Some (map (elab_field (symtab_of s g) F) fdsF)).
Proof. exact pelab_type_identity. Qed.
Print Assumptions C15_pelab_type_identity.

(* two messages with the same SIMPLE name in different scopes / packages keep their own descriptors *)
Theorem C15_same_simple_name_own_descriptors :
  forall mode s g1 g2 F1 F2 fds1 fds2,
    msg_names_unique s -> In g1 s -> In g2 s -> In (DMsg F1 fds1) (pf_decls g1) -> In (DMsg F2 fds2) (pf_decls g2) ->
    last_comp F1 = last_comp F2 ->
    lookup_msg (pd_msgs (pelab mode s)) F1 = Some (map (elab_field (symtab_of s g1) F1) fds1) /\
    lookup_msg (pd_msgs (pelab mode s)) F2 = Some (map (elab_field (symtab_of s g2) F2) fds2).
Proof. exact same_simple_name_own_descriptors. Qed.
Print Assumptions C15_same_simple_name_own_descriptors.

(* protobuf scoping: a relative simple name resolves in the INNERMOST enclosing scope declaring a type of that
   name ([l1] = the scopes further inside, none of which declares such a type); the result is a declared type *)
Theorem C15_resolve_innermost_first :
  forall tab sc c r first F k,
    c <> 46 -> split_dots (c :: r) = [first] -> resolve tab sc (c :: r) = Some (F, k) ->
    exists l1 pre l2 post,
      scopes sc = l1 ++ pre :: l2 /\ sc = pre ++ post /\ F = pre ++ [first] /\
      find_sym tab F = Some k /\ is_type k = true /\ Forall (no_type_at tab first) l1.
Proof. exact resolve_relative_simple. Qed.
Print Assumptions C15_resolve_innermost_first.

Theorem C15_resolve_sound :
  forall tab sc ref F k, resolve tab sc ref = Some (F, k) -> find_sym tab F = Some k /\ is_type k = true.
Proof. exact resolve_sound. Qed.
Print Assumptions C15_resolve_sound.

(* a dotted relative name: first component innermost-first, the whole name inside that scope *)
Theorem C15_resolve_in_sound :
  forall tab first rest scs F k,
    resolve_in tab first rest scs = Some (F, k) ->
    find_sym tab F = Some k /\ is_type k = true /\ exists sc, In sc scs /\ F = sc ++ first :: rest.
Proof. exact resolve_in_sound. Qed.
Print Assumptions C15_resolve_in_sound.

(* the memo of proto/idl.go keyed by the SIMPLE name contradicts the specification (finding 1501) *)
Theorem C15_memo_by_simple_name_refuted :
  exists s path root, schema_ok 0 s = true /\
    spec_follow (pd_msgs (pelab 0 s)) path root <>
    (let d := pelab 0 s in
     let '(ms, st) := qmethods key_simple (pd_msgs d) 8 (pd_methods d) in
     match ms with (_, i, _) :: _ => q_follow (q_nodes st) path i | [] => None end).
Proof. exact memo_by_simple_name_refuted. Qed.
Print Assumptions C15_memo_by_simple_name_refuted.

(* ---- the memo of parseMessage (anchor: compilingCache), for ALL schemas, states, fuels -------------- *)

(* Whatever the memo key: the descriptor attached for a requested message type was built from a declaration
   with the SAME memo key (invariant of the traversal: memo hit, miss, recursion, overwrite by the other target). *)
Theorem C15_memo_attaches_same_key :
  forall keyf tbl fuel target m st i st',
    cache_inv keyf st -> qparse keyf tbl fuel target m st = (i, st') -> i <> -1 ->
    exists nm fs, nth_error (q_nodes st') (Z.to_nat i) = Some (nm, fs) /\ keyf nm = keyf m.
Proof. exact qparse_attaches_same_key. Qed.
Print Assumptions C15_memo_attaches_same_key.

(* ... for the request and response root of every method of a whole parse (empty memo at the start) *)
Theorem C15_memo_methods_same_key :
  forall keyf tbl fuel ms,
    let r := qmethods keyf tbl fuel ms in Forall (entry_ok keyf (q_nodes (snd r))) (fst r).
Proof. exact qmethods_attach_same_key. Qed.
Print Assumptions C15_memo_methods_same_key.

(* keyed by the SIMPLE name (the code): only the last component of the attached declaration is the requested one *)
Theorem C15_memo_simple_key_only_simple_name :
  forall tbl fuel target m st i st',
    cache_inv key_simple st -> qparse key_simple tbl fuel target m st = (i, st') -> i <> -1 ->
    exists nm fs, nth_error (q_nodes st') (Z.to_nat i) = Some (nm, fs) /\ last_comp nm = last_comp m.
Proof. exact memo_simple_name_attaches_same_simple_name. Qed.
Print Assumptions C15_memo_simple_key_only_simple_name.

(* keyed by the FULLY-QUALIFIED name (the proposed fix): for every valid schema whose fully-qualified names are
   distinct strings, the attached descriptor is the one built from the requested declaration itself *)
Theorem C15_memo_full_key_attaches_requested :
  forall mode s fuel target m st i st',
    schema_ok mode s = true -> NoDup (map key_full (map fst (msg_table s))) ->
    declared (msg_table s) m -> names_declared (msg_table s) (q_nodes st) -> cache_inv key_full st ->
    qparse key_full (msg_table s) fuel target m st = (i, st') -> i <> -1 ->
    exists fs, nth_error (q_nodes st') (Z.to_nat i) = Some (m, fs).
Proof. exact memo_full_name_attaches_requested. Qed.
Print Assumptions C15_memo_full_key_attaches_requested.

(* the message table of a valid schema is closed: every message reference points to a declared message *)
Theorem C15_msg_table_closed :
  forall mode s, schema_ok mode s = true -> tbl_closed (msg_table s).
Proof. exact msg_table_closed. Qed.
Print Assumptions C15_msg_table_closed.

(* ---- lookups --------------------------------------------------------------------------------------- *)

(* FieldIDMap refinement: the grown slice answers every id >= 0 like the association list
   (holes, repeated Set of an id, any insertion order) *)
Theorem C15_fidmap_refines_assoc :
  forall (A : Type) (kvs : list (Z * A)) id,
    Forall (fun kv => 0 <= fst kv) kvs -> 0 <= id -> fid_get (fid_build kvs) id = LRes (assoc_last id kvs).
Proof. exact fidmap_refines_assoc. Qed.
Print Assumptions C15_fidmap_refines_assoc.

(* ... and a negative id indexes the slice (Go: panic) — finding 1503 *)
Theorem C15_fidmap_negative_panics :
  forall (A : Type) (m : list (option A)) id, id < 0 -> fid_get m id = LPanic.
Proof. exact fid_get_negative. Qed.
Print Assumptions C15_fidmap_negative_panics.

Theorem C15_fnm_refines_assoc :
  forall (A : Type) (kvs : list (bytes * A)) k, fnm_get (fnm_build kvs) k = assocb_last k kvs.
Proof. exact fnm_refines_assoc. Qed.
Print Assumptions C15_fnm_refines_assoc.

(* by number: for EVERY n >= 0, a field is returned iff it is declared with that number *)
Theorem C15_lookup_by_number_exact :
  forall (R : Type) (fs : list (mfield R)) n f, numbers_ok fs -> 0 <= n ->
    (by_number fs n = LRes (Some f) <-> In f fs /\ mf_num f = n).
Proof. intros R. exact lookup_by_number_exact. Qed.
Print Assumptions C15_lookup_by_number_exact.

Theorem C15_lookup_by_number_absent :
  forall (R : Type) (fs : list (mfield R)) n, numbers_ok fs -> 0 <= n ->
    (by_number fs n = LRes None <-> forall f, In f fs -> mf_num f <> n).
Proof. intros R. exact lookup_by_number_absent. Qed.
Print Assumptions C15_lookup_by_number_absent.

(* by name / JSON name (one table in the code): for EVERY byte string k *)
Theorem C15_lookup_by_key_exact :
  forall (R : Type) (fs : list (mfield R)) k f, keys_ok fs ->
    (by_key fs k = Some f <-> In f fs /\ (mf_name f = k \/ mf_json f = k)).
Proof. intros R. exact lookup_by_key_exact. Qed.
Print Assumptions C15_lookup_by_key_exact.

Theorem C15_lookup_by_key_absent :
  forall (R : Type) (fs : list (mfield R)) k,
    (by_key fs k = None <-> forall f, In f fs -> mf_name f <> k /\ mf_json f <> k).
Proof. intros R. exact lookup_by_key_absent. Qed.
Print Assumptions C15_lookup_by_key_absent.

(* the checker evaluates the specification-level lookups; they are the structures' answers *)
Theorem C15_checker_lookups_are_the_structures :
  forall (R : Type) (fs : list (mfield R)),
    Forall (fun f => 1 <= mf_num f) fs ->
    (forall n, by_number fs n = by_number_spec fs n) /\ (forall k, by_key fs k = by_key_spec fs k).
Proof. intros R fs H. split; [intro n; apply by_number_refines; exact H | intro k; apply by_key_refines]. Qed.
Print Assumptions C15_checker_lookups_are_the_structures.

(* MessageDescriptor.FieldsCount() = Size()-1 is the largest declared number *)
Theorem C15_fields_count_is_max_number :
  forall (R : Type) (fs : list (mfield R)), Forall (fun f => 1 <= mf_num f) fs ->
    fields_count fs = fold_left (fun a f => Z.max a (mf_num f)) fs (-1).
Proof. intros R. exact fields_count_is_max. Qed.
Print Assumptions C15_fields_count_is_max_number.

(* ---- services -------------------------------------------------------------------------------------- *)

Theorem C15_pelab_methods_exact :
  forall mode s,
    pd_methods (pelab mode s) =
    flat_map (fun sv => map (elab_method (symtab_of s (main_file s)) (pf_pkg (main_file s))) (sd_methods sv))
             (select_svcs mode (pf_svcs (main_file s))) /\
    (forall x r, select_svcs 1 (x :: r) = [x]) /\ (forall l x, select_svcs 0 (l ++ [x]) = [x]) /\ (forall l, select_svcs 2 l = l) /\
    (forall tab pkg m, let pm := elab_method tab pkg m in pm_name pm = md_name m /\ pm_cs pm = md_cs m /\ pm_ss pm = md_ss m).
Proof.
  intros mode s. split; [apply pelab_methods_exact|]. split; [exact select_svcs_first|].
  split; [exact select_svcs_last|]. split; [exact select_svcs_combine | exact elab_method_flags].
Qed.
Print Assumptions C15_pelab_methods_exact.

Theorem C15_method_lookup_exact :
  forall d k pm, NoDup (map pm_name (pd_methods d)) ->
    (method_by_name d k = Some pm <-> In pm (pd_methods d) /\ pm_name pm = k).
Proof. exact method_lookup_exact. Qed.
Print Assumptions C15_method_lookup_exact.

Theorem C15_method_lookup_absent :
  forall d k, (method_by_name d k = None <-> forall pm, In pm (pd_methods d) -> pm_name pm <> k).
Proof. exact method_lookup_absent. Qed.
Print Assumptions C15_method_lookup_absent.

(* default JSON name: no underscore survives; a name without underscores is its own JSON name *)
Theorem C15_json_default :
  (forall s, ~ In 95 (json_default s)) /\ (forall s, ~ In 95 s -> json_default s = s).
Proof. split; [exact json_default_no_underscore | exact json_default_id]. Qed.
Print Assumptions C15_json_default.

(* ---- every case the checker judges satisfies the hypotheses above ---------------------------------- *)

Theorem C15_judged_cases_satisfy_hypotheses :
  (forall mode s, schema_ok mode s = true -> msg_names_unique s) /\
  (forall tab m fds, decl_ok tab (DMsg m fds) = true ->
     numbers_ok (map (elab_field tab m) fds) /\ keys_ok (map (elab_field tab m) fds)).
Proof.
  split; [exact schema_ok_names_unique|]. intros tab m fds H. split; [apply decl_ok_numbers; exact H|].
  apply decl_ok_keys. cbn in H. apply andb_true_iff in H. destruct H as [H _]. apply andb_true_iff in H. tauto.
Qed.
Print Assumptions C15_judged_cases_satisfy_hypotheses.

(* ---- the hypotheses are satisfiable (witness: two scopes declaring `Item`) -------------------------- *)

Example C15_witness_valid : schema_ok 0 witness_schema = true /\ msg_names_unique witness_schema.
Proof. split; [exact witness_valid | exact (schema_ok_names_unique 0 _ witness_valid)]. Qed.

Example C15_witness_resolution :
  let f := main_file witness_schema in
  resolve (symtab_of witness_schema f) [w_p; w_B] w_Item = Some ([w_p; w_B; w_Item], S_MSG) /\
  resolve (symtab_of witness_schema f) [w_p; w_A] w_Item = Some ([w_p; w_A; w_Item], S_MSG).
Proof. vm_compute. split; reflexivity. Qed.

Example C15_witness_identity :
  spec_follow (pd_msgs (pelab 0 witness_schema)) [2; 1] [w_p; w_Req] = Some [w_p; w_B; w_Item] /\
  witness_follow key_simple = Some [w_p; w_A; w_Item] /\     (* what proto/idl.go builds *)
  witness_follow key_full = Some [w_p; w_B; w_Item].         (* memo keyed by the fully-qualified name *)
Proof. split; [exact witness_spec|]. split; [exact witness_simple_memo | exact witness_full_memo]. Qed.

Example C15_witness_lookups :
  match lookup_msg (pd_msgs (pelab 0 witness_schema)) [w_p; w_Req] with
  | Some fs => numbers_ok fs /\ keys_ok fs /\
               (exists f, by_number fs 2 = LRes (Some f) /\ mf_name f = [98]) /\ by_number fs 3 = LRes None /\
               (exists f, by_key fs [98] = Some f /\ mf_num f = 2) /\ by_key fs [98; 98] = None
  | None => False
  end.
Proof.
  pose proof (C15_judged_cases_satisfy_hypotheses) as [_ H].
  assert (D : decl_ok (symtab_of witness_schema (main_file witness_schema))
                      (DMsg [w_p; w_Req] [w_fd 1 [97] 0 w_A; w_fd 2 [98] 0 w_B]) = true) by (vm_compute; reflexivity).
  destruct (H _ _ _ D) as [N K].
  assert (E : lookup_msg (pd_msgs (pelab 0 witness_schema)) [w_p; w_Req] =
              Some (map (elab_field (symtab_of witness_schema (main_file witness_schema)) [w_p; w_Req])
                        [w_fd 1 [97] 0 w_A; w_fd 2 [98] 0 w_B])) by (vm_compute; reflexivity).
  rewrite E. split; [exact N|]. split; [exact K|]. vm_compute. repeat split; eexists; split; reflexivity.
Qed.

Example C15_witness_memo_hypotheses :
  NoDup (map key_full (map fst (msg_table witness_schema))) /\
  declared (msg_table witness_schema) [w_p; w_Req] /\
  names_declared (msg_table witness_schema) (q_nodes {| q_cache := []; q_nodes := [] |}) /\
  cache_inv key_full {| q_cache := []; q_nodes := [] |}.
Proof.
  split; [apply (nodupb_sound _ _ bytes_eqb_eq); vm_compute; reflexivity|].
  split; [vm_compute; tauto|]. split; [intros i nm fs H; destruct i; discriminate | apply cache_inv_empty].
Qed.

(* ================================================================== (G) kind tables from the Go source *)
(* proto/type.go Type.IsPacked / FromProtoKindToType and proto/descriptor.go TypeDescriptor.IsPacked are translated from the Go text on
   every build (gen/Gen_protokind.v, gen/Gen_proto.v); the panics of IsPacked / TypeToKind are explicit (result None). *)
From DG Require Gen_proto Gen_protokind Check20g GenProtokindProofs.

(* the model's [packable] is Type.IsPacked on every protoreflect kind 1..18; IsPacked panics exactly on LIST and MAP *)
Theorem C15_packable_from_source :
  (forall k, 1 <= k <= 18 -> Gen_protokind.Type_IsPacked k = Some (packable k)) /\
  (forall t, 0 <= t < 256 -> (Gen_protokind.Type_IsPacked t = None <-> t = 19 \/ t = 20)).
Proof. split; [exact GenProtokindProofs.Type_IsPacked_is_packable | exact GenProtokindProofs.Type_IsPacked_panics_iff]. Qed.
Print Assumptions C15_packable_from_source.

(* TypeDescriptor.IsPacked, on the atoms of the field the model elaborates (typ = mf_ty, elem.typ = mf_elemty, unpacked = the declaration
   says [packed = false]), does not panic and answers the model's mf_packed - for singular, repeated and map fields *)
Theorem C15_mf_packed_from_source :
  forall tab m fd, (fd_label fd = 0 \/ fd_label fd = 1 \/ fd_label fd = 2) -> 1 <= fst (elem_of tab m fd) <= 18 ->
  Gen_protokind.TypeDescriptor_IsPacked (GenProtokindProofs.td_of (elab_field tab m fd) fd) = Some (mf_packed (elab_field tab m fd)).
Proof. exact GenProtokindProofs.TypeDescriptor_IsPacked_is_mf_packed. Qed.
Print Assumptions C15_mf_packed_from_source.

(* the type byte of an elaborated field is FromProtoKindToType(kind, isList, isMap) *)
Theorem C15_mf_ty_from_source :
  forall tab m fd, (fd_label fd = 0 \/ fd_label fd = 1 \/ fd_label fd = 2) -> 0 <= fst (elem_of tab m fd) < 256 ->
  mf_ty (elab_field tab m fd) = Gen_proto.FromProtoKindToType (mf_kind (elab_field tab m fd)) (fd_label fd =? 1) (fd_label fd =? 2).
Proof. exact GenProtokindProofs.FromProtoKindToType_is_mf_ty. Qed.
Print Assumptions C15_mf_ty_from_source.

(* ==================================================================================================== *)
(* The traversal as coded after b3482e7 / 80a31e9 (memo keyed by the fully-qualified name, [packed=false]
   honoured): model/PIdlParse.v [parse_service]; proofs/PIdlParseProofs.v                                *)
From DG Require Import PIdlParse PIdlParseProofs.

(* parse_refines_pelab. For EVERY valid schema (schema_ok: references resolvable, numbers / keys distinct;
   fully-qualified names unique) and every ParseServiceMode the graph built by the memoising traversal is
   pelab's descriptor: one entry per selected method in order; every request / response root is a node built
   from the declared type; EVERY node — so every node reachable through any chain of recursive or mutually
   recursive references, where the memo hands out the descriptor still under construction — carries exactly the
   elaborated field list of its declaration ([frel]: number, name, JSON name, kind, type, list, map, packed,
   key / element type) and every message-typed field points to a node built from the declaration of the
   resolved FULL name; no node is built from anything undeclared. Fuel = |message table| + 1 always suffices. *)
Theorem C15_parse_refines_pelab :
  forall mode s,
    schema_ok mode s = true -> NoDup (map key_full (map fst (msg_table s))) ->
    let d := pelab mode s in
    let r := parse_service mode s in
    let nodes := q_nodes (snd r) in
    map (fun e => fst (fst e)) (fst r) = pd_methods d /\
    Forall (entry_named nodes) (fst r) /\
    (forall i nm fs, nth_error nodes i = Some (nm, fs) ->
       exists mfs, lookup_msg (pd_msgs d) nm = Some mfs /\ Forall2 (frel nodes) mfs fs) /\
    names_declared (pd_msgs d) nodes.
Proof. exact parse_refines_pelab. Qed.
Print Assumptions C15_parse_refines_pelab.

(* what [frel] fixes: every attribute the accessors expose *)
Theorem C15_frel_attributes :
  forall nodes f g, frel nodes f g ->
    mf_num g = mf_num f /\ mf_name g = mf_name f /\ mf_json g = mf_json f /\ mf_kind g = mf_kind f /\ mf_ty g = mf_ty f /\
    mf_list g = mf_list f /\ mf_map g = mf_map f /\ mf_packed g = mf_packed f /\ mf_keyty g = mf_keyty f /\ mf_elemty g = mf_elemty f.
Proof. exact frel_attrs. Qed.
Print Assumptions C15_frel_attributes.

(* the same for ANY memo key that separates the declared messages (the invariant behind the theorem above) *)
Theorem C15_traversal_graph :
  forall keyf tbl,
    NoDup (map keyf (map fst tbl)) -> tbl_closed tbl ->
    (forall m fs f, In (m, fs) tbl -> In f fs -> field_shaped f) ->
    forall B ms, (length tbl <= B)%nat -> Forall (method_roots_declared tbl) ms ->
    let r := qmethods keyf tbl (S B) ms in
    map (fun e => fst (fst e)) (fst r) = ms /\
    Forall (entry_named (q_nodes (snd r))) (fst r) /\
    (forall i nm fs, nth_error (q_nodes (snd r)) i = Some (nm, fs) -> node_done tbl (q_nodes (snd r)) nm fs) /\
    names_declared tbl (q_nodes (snd r)).
Proof. exact qmethods_graph. Qed.
Print Assumptions C15_traversal_graph.

(* one call of parseMessage with descriptors under construction (open set O): memo hit or miss, recursion,
   fuel: post-condition incl. "nodes outside O are never touched again" *)
Theorem C15_parse_message_spec :
  forall keyf tbl,
    NoDup (map keyf (map fst tbl)) -> tbl_closed tbl ->
    (forall m fs f, In (m, fs) tbl -> In f fs -> field_shaped f) ->
    forall B target, rec_spec keyf tbl target B (qparse keyf tbl (S B) target).
Proof. exact qparse_spec. Qed.
Print Assumptions C15_parse_message_spec.

(* a node built from a declared message carries the elaboration of THAT declaration *)
Theorem C15_parse_node_is_declaration :
  forall mode s f nm fds i fs,
    schema_ok mode s = true -> NoDup (map key_full (map fst (msg_table s))) ->
    In f s -> In (DMsg nm fds) (pf_decls f) ->
    nth_error (q_nodes (snd (parse_service mode s))) i = Some (nm, fs) ->
    Forall2 (frel (q_nodes (snd (parse_service mode s)))) (map (elab_field (symtab_of s f) nm) fds) fs.
Proof. exact parse_node_is_declaration. Qed.
Print Assumptions C15_parse_node_is_declaration.

(* lookup corollaries on the traversal's output *)
Theorem C15_parse_lookup_by_number_exact :
  forall mode s f nm fds i fs n g,
    schema_ok mode s = true -> NoDup (map key_full (map fst (msg_table s))) ->
    In f s -> In (DMsg nm fds) (pf_decls f) ->
    nth_error (q_nodes (snd (parse_service mode s))) i = Some (nm, fs) -> 0 <= n ->
    (by_number fs n = LRes (Some g) <-> In g fs /\ mf_num g = n).
Proof. exact parse_lookup_by_number_exact. Qed.
Print Assumptions C15_parse_lookup_by_number_exact.

Theorem C15_parse_lookups_refine_pelab :
  forall mode s i nm fs,
    schema_ok mode s = true -> NoDup (map key_full (map fst (msg_table s))) ->
    nth_error (q_nodes (snd (parse_service mode s))) i = Some (nm, fs) ->
    exists mfs, lookup_msg (pd_msgs (pelab mode s)) nm = Some mfs /\
      (forall n, match by_number_spec mfs n, by_number_spec fs n with
                 | LRes a, LRes b => opt_frel (q_nodes (snd (parse_service mode s))) a b | LPanic, LPanic => True | _, _ => False end) /\
      (forall k, opt_frel (q_nodes (snd (parse_service mode s))) (by_key_spec mfs k) (by_key_spec fs k)).
Proof. exact parse_lookups_refine_pelab. Qed.
Print Assumptions C15_parse_lookups_refine_pelab.

(* every path of message-typed fields from a root ends in the node of the declaration pelab names *)
Theorem C15_parse_follow_eq :
  forall mode s path i q,
    schema_ok mode s = true -> NoDup (map key_full (map fst (msg_table s))) ->
    named (q_nodes (snd (parse_service mode s))) i q ->
    q_follow (q_nodes (snd (parse_service mode s))) path i = spec_follow (pd_msgs (pelab mode s)) path q.
Proof. exact parse_follow_eq. Qed.
Print Assumptions C15_parse_follow_eq.

Example C15_witness_parse_service :
  let r := parse_service 0 witness_schema in
  NoDup (map key_full (map fst (msg_table witness_schema))) /\
  match fst r with (_, i, _) :: _ => q_follow (q_nodes (snd r)) [2; 1] i | [] => None end = Some [w_p; w_B; w_Item].
Proof. exact witness_parse_service. Qed.

(* The memo is PER CALL: a parse starts from the empty memo table and the empty node list (proto/idl.go parse():
   `structsCache := compilingCache{}`), so the descriptor returned by a call is a function of the mode and of THAT
   call's content only — nothing parsed earlier (same path, same includes map, other entry point) can influence it.
   Together with C15_parse_refines_pelab: every call of a sequence yields pelab of its own content (check 1507). *)
Theorem C15_parse_memo_is_per_call :
  forall mode s,
    parse_service mode s =
    fold_left (qmethod_step key_full (msg_table s) (parse_fuel s)) (pd_methods (pelab mode s))
              ([], {| q_cache := []; q_nodes := [] |}).
Proof. reflexivity. Qed.
Print Assumptions C15_parse_memo_is_per_call.
