From Coq Require Import ZArith List Bool.
From DG Require Import PIdl.
Theorem C15_placeholder : True. Proof. exact I. Qed.
Print Assumptions C15_placeholder.
