(* C20 — Protobuf wire codec agrees with the reference implementation.
   Only statements here; every theorem is closed by [exact] of a lemma proved in proofs/ and is
   followed by Print Assumptions. All theorems are about the definitions GENERATED from
   proto/protowire/{encode,decode}.go and proto/binary/binary.go on this run (gen/Gen_*.v). *)
From Coq Require Import ZArith List Bool Lia.
From DG Require Import GoSem ProtoWireRef ProtoWireRefProofs Gen_protowire Gen_proto Gen_protobinary
  GenProtowireProofs GenProtobinaryProofs.
Import ListNotations.
Local Open Scope Z_scope.

(* varints of every length: the unrolled encoder is the base-128 reference encoder, for all uint64 *)
Theorem C20_AppendVarint_is_reference :
  forall b v, 0 <= v < 2 ^ 64 -> AppendVarint b v = b ++ varint_enc v.
Proof. exact AppendVarint_ref. Qed.
Print Assumptions C20_AppendVarint_is_reference.

(* the unrolled decoder is the reference decoder on EVERY byte string (value, consumed length, -1 truncated, -3 overflow) *)
Theorem C20_ConsumeVarint_is_reference :
  forall bs, bytes_ok bs -> ConsumeVarint bs = varint_dec bs.
Proof. exact ConsumeVarint_ref. Qed.
Print Assumptions C20_ConsumeVarint_is_reference.

(* decode after encode, with any tail, returns the value and the exact number of bytes *)
Theorem C20_varint_roundtrip :
  forall v r, 0 <= v < 2 ^ 64 -> bytes_ok r ->
  ConsumeVarint (AppendVarint [] v ++ r) = (v, Z.of_nat (length (varint_enc v))).
Proof.
  intros v r Hv Hr. rewrite AppendVarint_ref by exact Hv. cbn [app].
  rewrite ConsumeVarint_ref.
  - apply varint_dec_enc. exact Hv.
  - apply Forall_app. split; [apply varint_enc_bytes_ok; exact Hv | exact Hr].
Qed.
Print Assumptions C20_varint_roundtrip.

(* the decoder never reports more bytes than it was given, and at most 10 *)
Theorem C20_ConsumeVarint_consumed_in_bounds :
  forall bs v n, bytes_ok bs -> ConsumeVarint bs = (v, n) ->
  (n = -1 /\ v = 0) \/ (n = -3 /\ v = 0) \/ (1 <= n <= Z.of_nat (length bs) /\ n <= 10 /\ 0 <= v < 2 ^ 64).
Proof.
  intros bs v n Hb H. rewrite ConsumeVarint_ref in H by exact Hb.
  pose proof (varint_dec_result _ _ _ H) as [A|[A|A]]; auto.
  right; right. pose proof (varint_dec_value _ _ _ Hb H). intuition.
Qed.
Print Assumptions C20_ConsumeVarint_consumed_in_bounds.

Theorem C20_SizeVarint_exact :
  forall v, 0 <= v < 2 ^ 64 -> SizeVarint v = Z.of_nat (length (varint_enc v)).
Proof. exact SizeVarint_ref. Qed.
Print Assumptions C20_SizeVarint_exact.

(* zig-zag: generated = reference on the full range, and the reference pair is inverse both ways *)
Theorem C20_zigzag :
  (forall v, - 2 ^ 63 <= v < 2 ^ 63 -> EncodeZigZag v = zigzag_enc v /\ DecodeZigZag (EncodeZigZag v) = v) /\
  (forall x, 0 <= x < 2 ^ 64 -> DecodeZigZag x = zigzag_dec x /\ EncodeZigZag (DecodeZigZag x) = x).
Proof.
  split.
  - intros v Hv. split; [apply EncodeZigZag_ref; exact Hv|].
    rewrite EncodeZigZag_ref by exact Hv. rewrite DecodeZigZag_ref by (apply zigzag_enc_range; exact Hv).
    apply zigzag_dec_enc.
  - intros x Hx. split; [apply DecodeZigZag_ref; exact Hx|].
    rewrite DecodeZigZag_ref by exact Hx. rewrite EncodeZigZag_ref by (apply zigzag_dec_range; exact Hx).
    apply zigzag_enc_dec. lia.
Qed.
Print Assumptions C20_zigzag.

(* fixed32 / fixed64: little endian, decoder reports 4 / 8 or -1 *)
Theorem C20_fixed :
  (forall b v, 0 <= v -> AppendFixed32 b v = b ++ le_enc 4 v) /\
  (forall b v, 0 <= v -> AppendFixed64 b v = b ++ le_enc 8 v) /\
  (forall b, bytes_ok b -> ConsumeFixed32 b = if blen b <? 4 then (0, -1) else (le_dec 4 b, 4)) /\
  (forall b, bytes_ok b -> ConsumeFixed64 b = if blen b <? 8 then (0, -1) else (le_dec 8 b, 8)) /\
  (forall v r, 0 <= v < 2 ^ 32 -> le_dec 4 (le_enc 4 v ++ r) = v) /\
  (forall v r, 0 <= v < 2 ^ 64 -> le_dec 8 (le_enc 8 v ++ r) = v).
Proof.
  repeat split.
  - exact AppendFixed32_ref.
  - exact AppendFixed64_ref.
  - exact ConsumeFixed32_ref.
  - exact ConsumeFixed64_ref.
  - intros v r H. apply le_dec_enc. exact H.
  - intros v r H. apply le_dec_enc. exact H.
Qed.
Print Assumptions C20_fixed.

(* length-delimited: exact value, prefix length and total length, or an error *)
Theorem C20_ConsumeBytes_exact :
  forall b, bytes_ok b -> blen b < 2 ^ 63 ->
  ConsumeBytes b =
  let '(m, n) := varint_dec b in
  if n <? 0 then ([], n, n)
  else if m >? blen b - n then ([], -1, -1)
  else (firstn (Z.to_nat m) (skipn (Z.to_nat n) b), n, n + m).
Proof. exact ConsumeBytes_ref. Qed.
Print Assumptions C20_ConsumeBytes_exact.

(* descriptor-driven scalar writer/reader: for EVERY scalar kind the reader selected by
   ReadBaseTypeWithDesc inverts the writer selected by WriteBaseTypeWithDesc, for every value of the Go
   type the writer asserts, and both sides agree on that Go type. *)
Theorem C20_dispatch_inverse :
  forall t g v buf,
  In t scalar_kinds -> bytes_ok buf -> blen buf < 2 ^ 62 ->
  WriteBase_gotype t = Some g -> in_gotype g v ->
  exists buf', WriteBase_scalar t buf 0 v = Some (0, buf', 0) /\ bytes_ok buf' /\
    ReadBase_gotype t = Some g /\
    ReadBase_scalar t buf' (blen buf) = Some (v, 0, buf', blen buf').
Proof. exact dispatch_inverse. Qed.
Print Assumptions C20_dispatch_inverse.

(* non-vacuity: the hypotheses are met by concrete non-trivial instances *)
Example C20_dispatch_example :
  In 18 scalar_kinds /\ WriteBase_gotype 18 = Some (1, 64) /\ in_gotype (1, 64) (-3) /\
  WriteBase_scalar 18 [8] 0 (-3) = Some (0, [8; 5], 0) /\
  ReadBase_scalar 18 [8; 5] 1 = Some (-3, 0, [8; 5], 2).
Proof.
  split; [unfold scalar_kinds; cbn [In]; intuition|].
  split; [reflexivity|]. split; [cbn; lia|]. split; vm_compute; reflexivity.
Qed.

Example C20_varint_example : AppendVarint [] 300 = [172; 2] /\ ConsumeVarint [172; 2; 9] = (300, 2).
Proof. split; vm_compute; reflexivity. Qed.

(* length-delimited framing: the speculative-length shifting algorithm (proto/binary FinishSpeculativeLength,
   modelled statement by statement in model/ProtoSpecLen.v) writes exactly varint(|payload|) in front of the
   payload, for EVERY prefix, payload and content of the spare capacity — all sizes, hence every 127/128,
   16383/16384, ... boundary at every nesting depth at once *)
From DG Require Import ProtoSpecLen ProtoSpecLenProofs.
Theorem C20_speculative_length_correct :
  forall prefix x payload junk, (length payload < 2 ^ 31)%nat -> (9 <= length junk)%nat ->
  finish_spec (prefix ++ [x] ++ payload) junk (length prefix) = prefix ++ varint_enc (Z.of_nat (length payload)) ++ payload.
Proof. exact finish_spec_correct. Qed.
Print Assumptions C20_speculative_length_correct.

Theorem C20_speculative_length_nested :
  forall p1 x1 p2 x2 payload j1 j2,
  let inner := varint_enc (Z.of_nat (length payload)) ++ payload in
  (length payload < 2 ^ 31)%nat -> (length (p2 ++ inner) < 2 ^ 31)%nat -> (9 <= length j1)%nat -> (9 <= length j2)%nat ->
  finish_spec (finish_spec ((p1 ++ [x1] ++ p2) ++ [x2] ++ payload) j1 (length (p1 ++ [x1] ++ p2))) j2 (length p1)
  = p1 ++ varint_enc (Z.of_nat (length (p2 ++ inner))) ++ p2 ++ inner.
Proof. exact finish_spec_nested. Qed.
Print Assumptions C20_speculative_length_nested.

Example C20_speculative_length_example :
  finish_spec ([8; 1] ++ [0] ++ repeat 7 200) (repeat 255 9) 2 = [8; 1] ++ [200; 1] ++ repeat 7 200.
Proof. vm_compute. reflexivity. Qed.

(* ================================================================== (G) kind predicates from the Go source *)
(* proto/type.go NeedVarint / IsInt / IsPacked / TypeToKind against the models' kind tables (ProtoMsg.wt_of_kind, J2P.is_int_kind) *)
From DG Require ProtoMsg J2P Gen_protokind Check20g GenProtokindProofs.

Theorem C20_kind_predicates_from_source :
  (forall k, Check20g.model_kind k = true -> Type_NeedVarint k = (ProtoMsg.wt_of_kind k =? 0)) /\
  (forall t, 0 <= t < 256 -> Type_IsInt t = J2P.is_int_kind t) /\
  (forall k, Check20g.model_kind k = true -> Kind2Wire k = ProtoMsg.wt_of_kind k).
Proof.
  split; [exact GenProtokindProofs.Type_NeedVarint_is_wt0|]. split; [exact GenProtokindProofs.Type_IsInt_is_int_kind|].
  intros k H. exact (proj2 (GenProtokindProofs.Kind2Wire_is_wt_of_kind k H)).
Qed.
Print Assumptions C20_kind_predicates_from_source.

Theorem C20_TypeToKind_from_source :
  (forall k, Check20g.model_kind k = true -> Gen_protokind.Type_TypeToKind k = Some k) /\
  Gen_protokind.Type_TypeToKind 20 = Some 11 /\ Gen_protokind.Type_TypeToKind 0 = Some 0 /\ Gen_protokind.Type_TypeToKind 255 = Some 0 /\
  Gen_protokind.Type_TypeToKind 19 = None.
Proof. exact GenProtokindProofs.Type_TypeToKind_spec. Qed.
Print Assumptions C20_TypeToKind_from_source.
