(* C20 — Protobuf wire codec agrees with the reference implementation.
   Only statements here; every theorem is closed by [exact] of a lemma proved in proofs/ and is
   followed by Print Assumptions. All theorems are about the definitions GENERATED from
   proto/protowire/{encode,decode}.go and proto/binary/binary.go on this run (gen/Gen_*.v). *)
From Coq Require Import ZArith List Bool Lia.
From DG Require Import GoSem ProtoWireRef ProtoWireRefProofs Gen_protowire Gen_proto Gen_protobinary
  GenProtowireProofs GenProtobinaryProofs.
Import ListNotations.
Local Open Scope Z_scope.

(* varints of every length: the unrolled encoder is the base-128 reference encoder, for all uint64 *)
Theorem C20_AppendVarint_is_reference :
  forall b v, 0 <= v < 2 ^ 64 -> AppendVarint b v = b ++ varint_enc v.
Proof. exact AppendVarint_ref. Qed.
Print Assumptions C20_AppendVarint_is_reference.

(* the unrolled decoder is the reference decoder on EVERY byte string (value, consumed length, -1 truncated, -3 overflow) *)
Theorem C20_ConsumeVarint_is_reference :
  forall bs, bytes_ok bs -> ConsumeVarint bs = varint_dec bs.
Proof. exact ConsumeVarint_ref. Qed.
Print Assumptions C20_ConsumeVarint_is_reference.

(* decode after encode, with any tail, returns the value and the exact number of bytes *)
Theorem C20_varint_roundtrip :
  forall v r, 0 <= v < 2 ^ 64 -> bytes_ok r ->
  ConsumeVarint (AppendVarint [] v ++ r) = (v, Z.of_nat (length (varint_enc v))).
Proof.
  intros v r Hv Hr. rewrite AppendVarint_ref by exact Hv. cbn [app].
  rewrite ConsumeVarint_ref.
  - apply varint_dec_enc. exact Hv.
  - apply Forall_app. split; [apply varint_enc_bytes_ok; exact Hv | exact Hr].
Qed.
Print Assumptions C20_varint_roundtrip.

(* the decoder never reports more bytes than it was given, and at most 10 *)
Theorem C20_ConsumeVarint_consumed_in_bounds :
  forall bs v n, bytes_ok bs -> ConsumeVarint bs = (v, n) ->
  (n = -1 /\ v = 0) \/ (n = -3 /\ v = 0) \/ (1 <= n <= Z.of_nat (length bs) /\ n <= 10 /\ 0 <= v < 2 ^ 64).
Proof.
  intros bs v n Hb H. rewrite ConsumeVarint_ref in H by exact Hb.
  pose proof (varint_dec_result _ _ _ H) as [A|[A|A]]; auto.
  right; right. pose proof (varint_dec_value _ _ _ Hb H). intuition.
Qed.
Print Assumptions C20_ConsumeVarint_consumed_in_bounds.

Theorem C20_SizeVarint_exact :
  forall v, 0 <= v < 2 ^ 64 -> SizeVarint v = Z.of_nat (length (varint_enc v)).
Proof. exact SizeVarint_ref. Qed.
Print Assumptions C20_SizeVarint_exact.

(* zig-zag: generated = reference on the full range, and the reference pair is inverse both ways *)
Theorem C20_zigzag :
  (forall v, - 2 ^ 63 <= v < 2 ^ 63 -> EncodeZigZag v = zigzag_enc v /\ DecodeZigZag (EncodeZigZag v) = v) /\
  (forall x, 0 <= x < 2 ^ 64 -> DecodeZigZag x = zigzag_dec x /\ EncodeZigZag (DecodeZigZag x) = x).
Proof.
  split.
  - intros v Hv. split; [apply EncodeZigZag_ref; exact Hv|].
    rewrite EncodeZigZag_ref by exact Hv. rewrite DecodeZigZag_ref by (apply zigzag_enc_range; exact Hv).
    apply zigzag_dec_enc.
  - intros x Hx. split; [apply DecodeZigZag_ref; exact Hx|].
    rewrite DecodeZigZag_ref by exact Hx. rewrite EncodeZigZag_ref by (apply zigzag_dec_range; exact Hx).
    apply zigzag_enc_dec. lia.
Qed.
Print Assumptions C20_zigzag.

(* fixed32 / fixed64: little endian, decoder reports 4 / 8 or -1 *)
Theorem C20_fixed :
  (forall b v, 0 <= v -> AppendFixed32 b v = b ++ le_enc 4 v) /\
  (forall b v, 0 <= v -> AppendFixed64 b v = b ++ le_enc 8 v) /\
  (forall b, bytes_ok b -> ConsumeFixed32 b = if blen b <? 4 then (0, -1) else (le_dec 4 b, 4)) /\
  (forall b, bytes_ok b -> ConsumeFixed64 b = if blen b <? 8 then (0, -1) else (le_dec 8 b, 8)) /\
  (forall v r, 0 <= v < 2 ^ 32 -> le_dec 4 (le_enc 4 v ++ r) = v) /\
  (forall v r, 0 <= v < 2 ^ 64 -> le_dec 8 (le_enc 8 v ++ r) = v).
Proof.
  repeat split.
  - exact AppendFixed32_ref.
  - exact AppendFixed64_ref.
  - exact ConsumeFixed32_ref.
  - exact ConsumeFixed64_ref.
  - intros v r H. apply le_dec_enc. exact H.
  - intros v r H. apply le_dec_enc. exact H.
Qed.
Print Assumptions C20_fixed.

(* length-delimited: exact value, prefix length and total length, or an error *)
Theorem C20_ConsumeBytes_exact :
  forall b, bytes_ok b -> blen b < 2 ^ 63 ->
  ConsumeBytes b =
  let '(m, n) := varint_dec b in
  if n <? 0 then ([], n, n)
  else if m >? blen b - n then ([], -1, -1)
  else (firstn (Z.to_nat m) (skipn (Z.to_nat n) b), n, n + m).
Proof. exact ConsumeBytes_ref. Qed.
Print Assumptions C20_ConsumeBytes_exact.

(* descriptor-driven scalar writer/reader: for EVERY scalar kind the reader selected by
   ReadBaseTypeWithDesc inverts the writer selected by WriteBaseTypeWithDesc, for every value of the Go
   type the writer asserts, and both sides agree on that Go type. *)
Theorem C20_dispatch_inverse :
  forall t g v buf,
  In t scalar_kinds -> bytes_ok buf -> blen buf < 2 ^ 62 ->
  WriteBase_gotype t = Some g -> in_gotype g v ->
  exists buf', WriteBase_scalar t buf 0 v = Some (0, buf', 0) /\ bytes_ok buf' /\
    ReadBase_gotype t = Some g /\
    ReadBase_scalar t buf' (blen buf) = Some (v, 0, buf', blen buf').
Proof. exact dispatch_inverse. Qed.
Print Assumptions C20_dispatch_inverse.

(* non-vacuity: the hypotheses are met by concrete non-trivial instances *)
Example C20_dispatch_example :
  In 18 scalar_kinds /\ WriteBase_gotype 18 = Some (1, 64) /\ in_gotype (1, 64) (-3) /\
  WriteBase_scalar 18 [8] 0 (-3) = Some (0, [8; 5], 0) /\
  ReadBase_scalar 18 [8; 5] 1 = Some (-3, 0, [8; 5], 2).
Proof.
  split; [unfold scalar_kinds; cbn [In]; intuition|].
  split; [reflexivity|]. split; [cbn; lia|]. split; vm_compute; reflexivity.
Qed.

Example C20_varint_example : AppendVarint [] 300 = [172; 2] /\ ConsumeVarint [172; 2; 9] = (300, 2).
Proof. split; vm_compute; reflexivity. Qed.

(* length-delimited framing: the speculative-length shifting algorithm (proto/binary FinishSpeculativeLength,
   modelled statement by statement in model/ProtoSpecLen.v) writes exactly varint(|payload|) in front of the
   payload, for EVERY prefix, payload and content of the spare capacity — all sizes, hence every 127/128,
   16383/16384, ... boundary at every nesting depth at once *)
From DG Require Import ProtoSpecLen ProtoSpecLenProofs.
Theorem C20_speculative_length_correct :
  forall prefix x payload junk, (length payload < 2 ^ 31)%nat -> (9 <= length junk)%nat ->
  finish_spec (prefix ++ [x] ++ payload) junk (length prefix) = prefix ++ varint_enc (Z.of_nat (length payload)) ++ payload.
Proof. exact finish_spec_correct. Qed.
Print Assumptions C20_speculative_length_correct.

Theorem C20_speculative_length_nested :
  forall p1 x1 p2 x2 payload j1 j2,
  let inner := varint_enc (Z.of_nat (length payload)) ++ payload in
  (length payload < 2 ^ 31)%nat -> (length (p2 ++ inner) < 2 ^ 31)%nat -> (9 <= length j1)%nat -> (9 <= length j2)%nat ->
  finish_spec (finish_spec ((p1 ++ [x1] ++ p2) ++ [x2] ++ payload) j1 (length (p1 ++ [x1] ++ p2))) j2 (length p1)
  = p1 ++ varint_enc (Z.of_nat (length (p2 ++ inner))) ++ p2 ++ inner.
Proof. exact finish_spec_nested. Qed.
Print Assumptions C20_speculative_length_nested.

Example C20_speculative_length_example :
  finish_spec ([8; 1] ++ [0] ++ repeat 7 200) (repeat 255 9) 2 = [8; 1] ++ [200; 1] ++ repeat 7 200.
Proof. vm_compute. reflexivity. Qed.

(* ================================================================== (G) kind predicates from the Go source *)
(* proto/type.go NeedVarint / IsInt / IsPacked / TypeToKind against the models' kind tables (ProtoMsg.wt_of_kind, J2P.is_int_kind) *)
From DG Require ProtoMsg J2P Gen_protokind Check20g GenProtokindProofs.

Theorem C20_kind_predicates_from_source :
  (forall k, Check20g.model_kind k = true -> Type_NeedVarint k = (ProtoMsg.wt_of_kind k =? 0)) /\
  (forall t, 0 <= t < 256 -> Type_IsInt t = J2P.is_int_kind t) /\
  (forall k, Check20g.model_kind k = true -> Kind2Wire k = ProtoMsg.wt_of_kind k).
Proof.
  split; [exact GenProtokindProofs.Type_NeedVarint_is_wt0|]. split; [exact GenProtokindProofs.Type_IsInt_is_int_kind|].
  intros k H. exact (proj2 (GenProtokindProofs.Kind2Wire_is_wt_of_kind k H)).
Qed.
Print Assumptions C20_kind_predicates_from_source.

Theorem C20_TypeToKind_from_source :
  (forall k, Check20g.model_kind k = true -> Gen_protokind.Type_TypeToKind k = Some k) /\
  Gen_protokind.Type_TypeToKind 20 = Some 11 /\ Gen_protokind.Type_TypeToKind 0 = Some 0 /\ Gen_protokind.Type_TypeToKind 255 = Some 0 /\
  Gen_protokind.Type_TypeToKind 19 = None.
Proof. exact GenProtokindProofs.Type_TypeToKind_spec. Qed.
Print Assumptions C20_TypeToKind_from_source.

(* ================================================================== second sentence of the property: descriptor-driven writer / reader *)
(* algorithm level: model/ProtoAny.v transcribes WriteAnyWithDesc / ReadAnyWithDesc and callees AS CODED over byte lists
   (tied to the code by checks 2009 / 2010: byte-for-byte equality on generated schemas and values); the theorems refine
   it to the typed codec of ProtoMsg.v, whose round trip is re-exported first. *)
From DG Require Import ProtoMsgProofs ProtoAny ProtoAnyProofs.

Theorem C20_message_roundtrip :
  forall S name fs, ProtoMsg.wf_msg S name fs = true -> ProtoMsg.decode_top S name (ProtoMsg.encode_msg fs) = Some fs.
Proof. exact decode_top_encode. Qed.
Print Assumptions C20_message_roundtrip.

(* (T1) the writer, on the Go value of a well-formed typed message - fields, map entries and the fields of sub-messages
   delivered by the Go map iteration in ANY order (the order of the lists of fs) - returns nil and leaves exactly
   encode_msg fs in the buffer, which the proved decoder reads as fs. Every kind, zig-zag, unsigned, fixed, packed and
   [packed=false] lists, maps of every key kind, nested messages with speculative length prefixes of every size < 2^31. *)
Theorem C20_write_any_refines_encode :
  forall S cast disallow byname junk, (9 <= length junk)%nat ->
  (byname = true -> forall name md n fd, ProtoMsg.find_msg S name = Some md -> ProtoMsg.find_field md n = Some fd ->
                    ProtoMsg.find_field_name md (ProtoMsg.fd_name fd) = Some fd) ->
  forall name fs fuel,
  ProtoMsg.wf_msg S name fs = true -> strs_ok (ProtoMsg.VMsg fs) = true -> sizes_ok (ProtoMsg.VMsg fs) = true ->
  (ProtoMsg.depth (ProtoMsg.VMsg fs) < fuel)%nat ->
  write_any_desc S cast disallow byname junk true fuel 0 ProtoMsg.LSingular (ProtoMsg.TMsg name) false
                 (gtop S byname false name fs) = (ProtoMsg.encode_msg fs, 0) /\
  ProtoMsg.decode_top S name (ProtoMsg.encode_msg fs) = Some fs.
Proof. exact write_any_refines_encode. Qed.
Print Assumptions C20_write_any_refines_encode.

(* (T2) the reader, on the canonical (reference) encoding, answers the Go value of the message: Go maps as association
   lists in WIRE order (fields in the order of fs, map entries in the order of the entries), empty sub-messages as nil,
   and no byte is left *)
Theorem C20_read_any_refines_decode :
  forall S disallow byname,
  (byname = true -> forall name md n fd, ProtoMsg.find_msg S name = Some md -> ProtoMsg.find_field md n = Some fd ->
                    ProtoMsg.find_field_name md (ProtoMsg.fd_name fd) = Some fd) ->
  forall name fs fuel,
  ProtoMsg.wf_msg S name fs = true -> sizes_ok (ProtoMsg.VMsg fs) = true -> (ProtoMsg.depth (ProtoMsg.VMsg fs) < fuel)%nat ->
  read_any_desc S disallow byname fuel ProtoMsg.LSingular (ProtoMsg.TMsg name) false (ProtoMsg.encode_msg fs)
  = Some (gtop S byname true name fs, []).
Proof. exact read_any_refines_decode. Qed.
Print Assumptions C20_read_any_refines_decode.

(* (T3) the sentence of the property *)
Theorem C20_read_write_any :
  forall S cast dis_w dis_r byname junk name fs fuel,
  (9 <= length junk)%nat -> (byname = true -> names_okb S = true) ->
  ProtoMsg.wf_msg S name fs = true -> strs_ok (ProtoMsg.VMsg fs) = true -> sizes_ok (ProtoMsg.VMsg fs) = true ->
  (ProtoMsg.depth (ProtoMsg.VMsg fs) < fuel)%nat ->
  exists bytes,
    write_any_desc S cast dis_w byname junk true fuel 0 ProtoMsg.LSingular (ProtoMsg.TMsg name) false
                   (gtop S byname false name fs) = (bytes, 0) /\
    read_any_desc S dis_r byname fuel ProtoMsg.LSingular (ProtoMsg.TMsg name) false bytes
    = Some (gtop S byname true name fs, []) /\
    ProtoMsg.decode_top S name bytes = Some fs /\
    (forallb (fun nv => no_empty (snd nv)) fs = true -> gtop S byname true name fs = gtop S byname false name fs).
Proof. exact read_write_any. Qed.
Print Assumptions C20_read_write_any.

(* (T4) error side: without cast a Go integer of another dynamic type than the kind asks for is refused, nothing is written *)
Theorem C20_write_scalar_mismatch :
  forall k ty z b, In k [3; 4; 5; 6; 7; 13; 14; 15; 16; 17; 18] -> ty <> gotype_of_kind k ->
  write_scalar false k b (GInt ty z) = (b, 1).
Proof. exact write_scalar_mismatch. Qed.
Print Assumptions C20_write_scalar_mismatch.

(* non-vacuity: a schema with a sint64, a packed uint32 list, a map<string, N> with an empty-string key and an empty
   message value, a [packed = false] int32 list and a string list; N holds a fixed32 *)
Definition ex_schema : ProtoMsg.schema :=
  [ ProtoMsg.mk_mdesc [77] [ ProtoMsg.mk_fdesc 1 [97] [97] ProtoMsg.LSingular (ProtoMsg.TScalar 18);
                             ProtoMsg.mk_fdesc 2 [108] [108] (ProtoMsg.LRepeated true) (ProtoMsg.TScalar 13);
                             ProtoMsg.mk_fdesc 3 [109] [109] (ProtoMsg.LMap 9) (ProtoMsg.TMsg [78]);
                             ProtoMsg.mk_fdesc 4 [117] [117] (ProtoMsg.LRepeated false) (ProtoMsg.TScalar 5);
                             ProtoMsg.mk_fdesc 5 [115] [115] (ProtoMsg.LRepeated false) (ProtoMsg.TScalar 9) ];
    ProtoMsg.mk_mdesc [78] [ ProtoMsg.mk_fdesc 1 [120] [120] ProtoMsg.LSingular (ProtoMsg.TScalar 7) ] ].
Definition ex_msg : ProtoMsg.pmsg :=
  [ (3, ProtoMsg.VMap [ (ProtoMsg.KStr [107], ProtoMsg.VMsg [(1, ProtoMsg.VScalar 7 4294967295)]);
                        (ProtoMsg.KStr [], ProtoMsg.VMsg []) ]);
    (1, ProtoMsg.VScalar 18 (-3));
    (2, ProtoMsg.VList true [ProtoMsg.VScalar 13 1; ProtoMsg.VScalar 13 300]);
    (4, ProtoMsg.VList false [ProtoMsg.VScalar 5 (-1); ProtoMsg.VScalar 5 7]);
    (5, ProtoMsg.VList false [ProtoMsg.VBytes 9 [104; 105]]) ].

Example C20_any_example :
  ProtoMsg.wf_msg ex_schema [77] ex_msg = true /\ strs_ok (ProtoMsg.VMsg ex_msg) = true /\
  sizes_ok (ProtoMsg.VMsg ex_msg) = true /\ (ProtoMsg.depth (ProtoMsg.VMsg ex_msg) < 3)%nat /\ names_okb ex_schema = true /\
  gtop ex_schema false false [77] ex_msg =
    GMsgN [ (3, GMapA [ (GStr [107], GMsgN [(1, GInt GT_I32 (-1))]); (GStr [], GMsgN []) ]);
            (1, GInt GT_I64 (-3)); (2, GList [GInt GT_U32 1; GInt GT_U32 300]);
            (4, GList [GInt GT_I32 (-1); GInt GT_I32 7]); (5, GList [GStr [104; 105]]) ] /\
  write_any_desc ex_schema false false false (repeat 0 9) true 3 0 ProtoMsg.LSingular (ProtoMsg.TMsg [77]) false
                 (gtop ex_schema false false [77] ex_msg)
  = ([26; 10; 10; 1; 107; 18; 5; 13; 255; 255; 255; 255; 26; 4; 10; 0; 18; 0; 8; 5; 18; 3; 1; 172; 2;
      32; 255; 255; 255; 255; 255; 255; 255; 255; 255; 1; 32; 7; 42; 2; 104; 105], 0) /\
  read_any_desc ex_schema false true 3 ProtoMsg.LSingular (ProtoMsg.TMsg [77]) false (ProtoMsg.encode_msg ex_msg)
  = Some (GMapS [ ([109], GMapA [ (GStr [107], GMapS [([120], GInt GT_I32 (-1))]); (GStr [], GNil) ]);
                  ([97], GInt GT_I64 (-3)); ([108], GList [GInt GT_U32 1; GInt GT_U32 300]);
                  ([117], GList [GInt GT_I32 (-1); GInt GT_I32 7]); ([115], GList [GStr [104; 105]]) ], []).
Proof. repeat split; vm_compute; try reflexivity; lia. Qed.

Example C20_write_scalar_mismatch_example :
  In 5 [3; 4; 5; 6; 7; 13; 14; 15; 16; 17; 18] /\ GT_I64 <> gotype_of_kind 5 /\ write_scalar false 5 [8] (GInt GT_I64 1) = ([8], 1) /\
  write_scalar true 5 [8] (GInt GT_I64 4294967297) = ([8; 1], 0).
Proof. repeat split; try (cbn; intuition); vm_compute; try reflexivity; discriminate. Qed.

(* ================================================================== skipping all the elements of a list field *)
(* proto/binary SkipAllElements / SkipAllElementsOf (model/ProtoSkipAll.v, tied to the code by check 2011): exact element count
   and exact number of bytes consumed, or an error *)
From DG Require Import ProtoSkipAll ProtoSkipAllProofs.

Theorem C20_skip_all_packed_exact :
  forall n k xs rest,
  1 <= n <= ProtoMsg.MAX_FIELD_NUMBER -> ProtoMsg.is_numeric k = true -> Forall (fun x => ProtoMsg.scalar_okb k x = true) xs ->
  ProtoMsg.plen (flat_map (fun x => ProtoMsg.wenc_val (ProtoMsg.scalar_to_wire k x)) xs) < 2 ^ 63 ->
  let field := ProtoMsg.wenc [(n, ProtoMsg.WBytes (flat_map (fun x => ProtoMsg.wenc_val (ProtoMsg.scalar_to_wire k x)) xs))] in
  skip_all_elements n true (ProtoMsg.wt_of_kind k) (field ++ rest) = Some (Z.of_nat (length xs), ProtoMsg.plen field).
Proof. exact skip_all_packed_exact. Qed.
Print Assumptions C20_skip_all_packed_exact.

(* a packed fixed32 / fixed64 (float / double / sfixed) payload whose declared length is not a multiple of the element
   width is an error, whatever bytes follow *)
Theorem C20_skip_all_fixed_misaligned :
  forall n ewt w l payload rest,
  (ewt = 5 /\ w = 4) \/ (ewt = 1 /\ w = 8) -> 1 <= n <= ProtoMsg.MAX_FIELD_NUMBER -> 0 <= l < 2 ^ 63 -> l mod w <> 0 ->
  skip_all_elements n true ewt (varint_enc (n * 8 + 2) ++ varint_enc l ++ payload ++ rest) = None.
Proof. exact skip_all_fixed_misaligned. Qed.
Print Assumptions C20_skip_all_fixed_misaligned.

Example C20_skip_all_example :
  skip_all_elements 4 true 5 ([34; 8; 1; 0; 0; 0; 2; 0; 0; 0] ++ [40; 7]) = Some (2, 10) /\
  skip_all_elements 4 true 5 ([34; 7; 1; 0; 0; 0; 2; 0; 0] ++ [40; 7]) = None /\
  skip_all_elements 1 true 0 [10; 3; 172; 2; 5; 16; 1] = Some (2, 5) /\
  skip_all_elements 11 false 2 [90; 1; 97; 90; 0; 16; 1] = Some (2, 5).
Proof. repeat split; vm_compute; reflexivity. Qed.
