(* C19 — Thrift protocol codec: write/read inverse, skip exact, envelope faithful. *)
From Coq Require Import ZArith List Bool Lia.
From DG Require Import GoSem ProtoWireRef ThriftWire ThriftWireProofs ThriftGeneric ThriftEnvelope ThriftEnvelopeProofs Gen_thrift GenThriftProofs.
Import ListNotations.
Local Open Scope Z_scope.

(* reader inverts writer (model level), for every well-formed value of every type shape, any tail *)
Theorem C19_decode_encode :
  forall v, wf v = true -> forall d r, (depth v <= d)%nat -> decode d (type_of v) (encode v ++ r) = Some (v, r).
Proof. exact decode_encode. Qed.
Print Assumptions C19_decode_encode.

(* skipping a well-formed value advances the cursor by exactly its encoded length (the remaining input is returned untouched) *)
Theorem C19_skip_exact :
  forall v, wf v = true -> forall d r, (depth v <= d)%nat -> skip d (type_of v) (encode v ++ r) = Some r.
Proof. exact skip_encode. Qed.
Print Assumptions C19_skip_exact.

(* scalars over their full range: big-endian two's complement, width = fixed size *)
Theorem C19_scalar_roundtrip :
  forall n z, (0 < n)%nat -> - 2 ^ (8 * Z.of_nat n - 1) <= z < 2 ^ (8 * Z.of_nat n - 1) ->
  dec_int (enc_int n z) = z /\ length (enc_int n z) = n.
Proof. intros n z Hn Hz. split; [apply dec_int_enc_int; assumption | apply enc_int_length]. Qed.
Print Assumptions C19_scalar_roundtrip.

(* envelope: unwrap inverts wrap, incl. negative sequence ids; header ++ body ++ footer is the wrapped form *)
Theorem C19_unwrap_wrap :
  forall body name ty id seq,
  0 <= ty < 256 -> zlen name < 2 ^ 31 -> - 2 ^ 31 <= seq < 2 ^ 31 -> - 2 ^ 15 <= id < 2 ^ 15 ->
  unwrap (wrap body name ty id seq) = Some (name, ty, seq, id, body) /\
  wrap body name ty id seq = env_header name ty id seq ++ body ++ env_footer.
Proof. intros. split; [apply unwrap_wrap; assumption | reflexivity]. Qed.
Print Assumptions C19_unwrap_wrap.

(* (G) the model's tables are the code's tables *)
Theorem C19_tables_from_source :
  forall t, 0 <= t < 256 ->
  typeSize t = fixed_size t /\ Type_IsInt t = is_int_type t /\ Type_IsComplex t = is_container t /\ Type_Valid t = type_valid t.
Proof.
  intros t H. split; [apply typeSize_is_fixed_size; exact H|].
  split; [apply Type_IsInt_is_int_type; exact H|].
  split; [apply Type_IsComplex_is_container; exact H | apply Type_Valid_is_type_valid; exact H].
Qed.
Print Assumptions C19_tables_from_source.

Theorem C19_decoders_from_source :
  forall bs, bytes_ok bs ->
  (length bs = 2%nat -> BinaryEncoding_DecodeInt16 bs = dec_int bs) /\
  (length bs = 4%nat -> BinaryEncoding_DecodeInt32 bs = dec_int bs) /\
  (length bs = 8%nat -> BinaryEncoding_DecodeInt64 bs = dec_int bs).
Proof.
  intros bs Hb. split; [intros Hl; apply DecodeInt16_is_dec_int; assumption|].
  split; intros Hl; [apply DecodeInt32_is_dec_int | apply DecodeInt64_is_dec_int]; assumption.
Qed.
Print Assumptions C19_decoders_from_source.

Example C19_example :
  let v := VStruct [(1, VList T_I32 [VI32 (-2); VI32 7]); (300, VMap T_STRING T_DOUBLE [(VString [107], VDouble 4607182418800017408)])] in
  wf v = true /\ (depth v <= 3)%nat /\ skip 3 T_STRUCT (encode v ++ [9; 9]) = Some [9; 9] /\
  unwrap (wrap (encode v) [109] 1 0 (-5)) = Some ([109], 1, -5, 0, encode v).
Proof. vm_compute. repeat split; try reflexivity; lia. Qed.

(* ---- generic Go values with a descriptor: ReadAnyWithDesc then WriteAnyWithDesc is the identity on well-formed values,
   for both byte representations (int8 / uint8) and for string / binary (model/ThriftAny.v; Go maps as association lists,
   the comparison with the implementation is modulo map order) ---- *)
From DG Require Import ThriftAny ThriftAnyProofs.

Theorem C19_read_any_write_any : forall u8 bin v, wf v = true -> write_any (read_any u8 bin v) = v.
Proof. exact write_read_any. Qed.
Print Assumptions C19_read_any_write_any.

Theorem C19_read_any_write_any_decodes : forall u8 bin v r, wf v = true ->
  decode (depth v) (type_of v) (encode (write_any (read_any u8 bin v)) ++ r) = Some (v, r).
Proof. exact write_read_any_decodes. Qed.
Print Assumptions C19_read_any_write_any_decodes.

Example ex_any_v : tval :=
  VStruct [ (1, VMap T_DOUBLE T_STRING [ (VDouble 4607182418800017408, VString [97]) ]);
            (2, VMap T_BYTE T_BYTE [ (VByte (-1), VByte (-128)) ]);
            (3, VSet T_I16 []) ].
Example ex_any_wf : wf ex_any_v = true. Proof. vm_compute. reflexivity. Qed.
Example ex_any_u8 : read_any true false (VByte (-1)) = GInt T_BYTE 255. Proof. vm_compute. reflexivity. Qed.
