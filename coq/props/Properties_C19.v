(* C19 — Thrift protocol codec: write/read inverse, skip exact, envelope faithful. *)
From Coq Require Import ZArith List Bool Lia.
From DG Require Import GoSem ProtoWireRef ThriftWire ThriftWireProofs ThriftGeneric ThriftEnvelope ThriftEnvelopeProofs Gen_thrift GenThriftProofs.
Import ListNotations.
Local Open Scope Z_scope.

(* reader inverts writer (model level), for every well-formed value of every type shape, any tail *)
Theorem C19_decode_encode :
  forall v, wf v = true -> forall d r, (depth v <= d)%nat -> decode d (type_of v) (encode v ++ r) = Some (v, r).
Proof. exact decode_encode. Qed.
Print Assumptions C19_decode_encode.

(* skipping a well-formed value advances the cursor by exactly its encoded length (the remaining input is returned untouched) *)
Theorem C19_skip_exact :
  forall v, wf v = true -> forall d r, (depth v <= d)%nat -> skip d (type_of v) (encode v ++ r) = Some r.
Proof. exact skip_encode. Qed.
Print Assumptions C19_skip_exact.

(* scalars over their full range: big-endian two's complement, width = fixed size *)
Theorem C19_scalar_roundtrip :
  forall n z, (0 < n)%nat -> - 2 ^ (8 * Z.of_nat n - 1) <= z < 2 ^ (8 * Z.of_nat n - 1) ->
  dec_int (enc_int n z) = z /\ length (enc_int n z) = n.
Proof. intros n z Hn Hz. split; [apply dec_int_enc_int; assumption | apply enc_int_length]. Qed.
Print Assumptions C19_scalar_roundtrip.

(* envelope: unwrap inverts wrap, incl. negative sequence ids; header ++ body ++ footer is the wrapped form *)
Theorem C19_unwrap_wrap :
  forall body name ty id seq,
  0 <= ty < 256 -> zlen name < 2 ^ 31 -> - 2 ^ 31 <= seq < 2 ^ 31 -> - 2 ^ 15 <= id < 2 ^ 15 ->
  unwrap (wrap body name ty id seq) = Some (name, ty, seq, id, body) /\
  wrap body name ty id seq = env_header name ty id seq ++ body ++ env_footer.
Proof. intros. split; [apply unwrap_wrap; assumption | reflexivity]. Qed.
Print Assumptions C19_unwrap_wrap.

(* (G) the model's tables are the code's tables *)
Theorem C19_tables_from_source :
  forall t, 0 <= t < 256 ->
  typeSize t = fixed_size t /\ Type_IsInt t = is_int_type t /\ Type_IsComplex t = is_container t /\ Type_Valid t = type_valid t.
Proof.
  intros t H. split; [apply typeSize_is_fixed_size; exact H|].
  split; [apply Type_IsInt_is_int_type; exact H|].
  split; [apply Type_IsComplex_is_container; exact H | apply Type_Valid_is_type_valid; exact H].
Qed.
Print Assumptions C19_tables_from_source.

Theorem C19_decoders_from_source :
  forall bs, bytes_ok bs ->
  (length bs = 2%nat -> BinaryEncoding_DecodeInt16 bs = dec_int bs) /\
  (length bs = 4%nat -> BinaryEncoding_DecodeInt32 bs = dec_int bs) /\
  (length bs = 8%nat -> BinaryEncoding_DecodeInt64 bs = dec_int bs).
Proof.
  intros bs Hb. split; [intros Hl; apply DecodeInt16_is_dec_int; assumption|].
  split; intros Hl; [apply DecodeInt32_is_dec_int | apply DecodeInt64_is_dec_int]; assumption.
Qed.
Print Assumptions C19_decoders_from_source.

Example C19_example :
  let v := VStruct [(1, VList T_I32 [VI32 (-2); VI32 7]); (300, VMap T_STRING T_DOUBLE [(VString [107], VDouble 4607182418800017408)])] in
  wf v = true /\ (depth v <= 3)%nat /\ skip 3 T_STRUCT (encode v ++ [9; 9]) = Some [9; 9] /\
  unwrap (wrap (encode v) [109] 1 0 (-5)) = Some ([109], 1, -5, 0, encode v).
Proof. vm_compute. repeat split; try reflexivity; lia. Qed.

(* ---- generic Go values with a descriptor: ReadAnyWithDesc then WriteAnyWithDesc is the identity on well-formed values,
   for both byte representations (int8 / uint8) and for string / binary (model/ThriftAny.v; Go maps as association lists,
   the comparison with the implementation is modulo map order) ---- *)
From DG Require Import ThriftAny ThriftAnyProofs.

Theorem C19_read_any_write_any : forall u8 bin v, wf v = true -> write_any (read_any u8 bin v) = v.
Proof. exact write_read_any. Qed.
Print Assumptions C19_read_any_write_any.

Theorem C19_read_any_write_any_decodes : forall u8 bin v r, wf v = true ->
  decode (depth v) (type_of v) (encode (write_any (read_any u8 bin v)) ++ r) = Some (v, r).
Proof. exact write_read_any_decodes. Qed.
Print Assumptions C19_read_any_write_any_decodes.

Example ex_any_v : tval :=
  VStruct [ (1, VMap T_DOUBLE T_STRING [ (VDouble 4607182418800017408, VString [97]) ]);
            (2, VMap T_BYTE T_BYTE [ (VByte (-1), VByte (-128)) ]);
            (3, VSet T_I16 []) ].
Example ex_any_wf : wf ex_any_v = true. Proof. vm_compute. reflexivity. Qed.
Example ex_any_u8 : read_any true false (VByte (-1)) = GInt T_BYTE 255. Proof. vm_compute. reflexivity. Qed.

(* ================================================================== (G) thrift/binary.go from the Go source *)
(* gen/Gen_thriftbin.v is regenerated from thrift/binary.go on every build (go2coq abstract-environment mode): the in-place leaf writers
   BinaryEncoding.Encode* with Go's bounds checks written out (None = panic), and the envelope functions with the Write* / Read*
   primitives they call as an effect trace resp. oracle inputs. *)
From DG Require Import Check20g GenThriftbinProofs.
From DG Require Gen_thriftbin.

(* every leaf writer puts the canonical encoding (ThriftWire.enc_int / encode) over the first bytes of the buffer, keeps the rest,
   and panics exactly when the fixed part does not fit (strings: as much of the text as fits is copied) *)
Theorem C19_Encode_from_source :
  (forall b v, Gen_thriftbin.BinaryEncoding_EncodeBool b v = model_encode 0 b (Z.b2z v) 0 []) /\
  (forall b v, 0 <= v < 256 -> Gen_thriftbin.BinaryEncoding_EncodeByte b v = model_encode 1 b v 0 []) /\
  (forall b v, Gen_thriftbin.BinaryEncoding_EncodeInt16 b v = model_encode 2 b v 0 []) /\
  (forall b v, Gen_thriftbin.BinaryEncoding_EncodeInt32 b v = model_encode 3 b v 0 []) /\
  (forall b v, Gen_thriftbin.BinaryEncoding_EncodeInt64 b v = model_encode 4 b v 0 []) /\
  (forall b v, Gen_thriftbin.BinaryEncoding_EncodeDouble b v = model_encode 5 b v 0 []) /\
  (forall b s, Gen_thriftbin.BinaryEncoding_EncodeString b s = model_encode 6 b 0 0 s) /\
  (forall b s, Gen_thriftbin.BinaryEncoding_EncodeBinary b s = model_encode 7 b 0 0 s) /\
  (forall b t id, 0 <= t < 256 -> Gen_thriftbin.BinaryEncoding_EncodeFieldBegin b t id = model_encode 8 b t id []).
Proof.
  repeat split; [exact EncodeBool_is_byte | exact EncodeByte_is_enc_int | exact EncodeInt16_is_enc_int | exact EncodeInt32_is_enc_int |
    exact EncodeInt64_is_enc_int | exact EncodeDouble_is_enc_int | exact EncodeString_is_enc | exact EncodeBinary_is_enc | exact EncodeFieldBegin_is_enc].
Qed.
Print Assumptions C19_Encode_from_source.

Theorem C19_Encode_canonical :
  (forall b v, (4 <= length b)%nat -> Gen_thriftbin.BinaryEncoding_EncodeInt32 b v = Some (enc_int 4 v ++ skipn 4 b)) /\
  (forall b s, (4 + length s <= length b)%nat -> Gen_thriftbin.BinaryEncoding_EncodeString b s = Some (encode (VString s) ++ skipn (4 + length s) b)).
Proof. split; [exact EncodeInt32_canonical | exact EncodeString_canonical]. Qed.
Print Assumptions C19_Encode_canonical.

(* WriteMessageBegin = WriteI32(VERSION_1 | type), WriteString(name), WriteI32(seq); together with WriteFieldBegin(STRUCT, id) these are
   the bytes of the model's envelope header; a failing primitive stops the sequence and its error is returned *)
Theorem C19_envelope_header_from_source :
  forall name ty id seq, 0 <= ty < 256 ->
  env_header name ty id seq =
    writes_bytes name (snd (Gen_thriftbin.BinaryProtocol_WriteMessageBegin name ty seq 0 0 0)) ++
    writes_bytes [] (snd (Gen_thriftbin.BinaryProtocol_WriteFieldBegin [] T_STRUCT id 0 0)).
Proof. exact env_header_is_begin_calls. Qed.
Print Assumptions C19_envelope_header_from_source.

Theorem C19_WriteMessageBegin_errors_from_source :
  forall name ty seq e1 e2 e3,
  fst (Gen_thriftbin.BinaryProtocol_WriteMessageBegin name ty seq e1 e2 e3) = (if negb (e1 =? 0) then e1 else if negb (e2 =? 0) then e2 else e3) /\
  Z.of_nat (length (snd (Gen_thriftbin.BinaryProtocol_WriteMessageBegin name ty seq e1 e2 e3))) = (if negb (e1 =? 0) then 1 else if negb (e2 =? 0) then 2 else 3).
Proof. exact WriteMessageBegin_errors. Qed.
Print Assumptions C19_WriteMessageBegin_errors_from_source.

(* field / stop / map / list / set headers are the bytes ThriftWire.encode puts there *)
Theorem C19_container_headers_from_source :
  (forall name t id, 0 <= t < 256 -> writes_bytes [] (snd (Gen_thriftbin.BinaryProtocol_WriteFieldBegin name t id 0 0)) = t :: enc_int 2 id) /\
  writes_bytes [] (snd (Gen_thriftbin.BinaryProtocol_WriteFieldStop 0)) = [0] /\
  (forall k v n, 0 <= k < 256 -> 0 <= v < 256 -> writes_bytes [] (snd (Gen_thriftbin.BinaryProtocol_WriteMapBegin k v n 0 0 0)) = k :: v :: enc_int 4 n) /\
  (forall t n, 0 <= t < 256 -> writes_bytes [] (snd (Gen_thriftbin.BinaryProtocol_WriteListBegin t n 0 0)) = t :: enc_int 4 n) /\
  (forall t n, 0 <= t < 256 -> writes_bytes [] (snd (Gen_thriftbin.BinaryProtocol_WriteSetBegin t n 0 0)) = t :: enc_int 4 n).
Proof. exact WriteBegin_bytes. Qed.
Print Assumptions C19_container_headers_from_source.

(* ReadMessageBegin accepts exactly the headers the model's [unwrap] accepts (mask check on the first word), takes the message type
   from its low byte, and reads nothing further from a rejected header *)
Theorem C19_ReadMessageBegin_from_source :
  (forall c size name seq, header_ok size = true ->
     Gen_thriftbin.BinaryProtocol_ReadMessageBegin c size 0 name 0 seq 0 =
       (name, Z.land size 255, seq, 0, [(Gen_thriftbin.Eff_ReadI32, []); (Gen_thriftbin.Eff_ReadString, [Z.b2z c]); (Gen_thriftbin.Eff_ReadI32, [])])) /\
  (forall c size name e2 seq e3, header_ok size = false ->
     let '(_, _, _, err, eff) := Gen_thriftbin.BinaryProtocol_ReadMessageBegin c size 0 name e2 seq e3 in
     err = Gen_thriftbin.Err_errInvalidVersion /\ eff = [(Gen_thriftbin.Eff_ReadI32, [])]) /\
  (forall bs vb r1, take 4 bs = Some (vb, r1) -> header_ok (dec_int vb) = false -> unwrap bs = None).
Proof. split; [exact ReadMessageBegin_accepts|]. split; [exact ReadMessageBegin_rejects | exact unwrap_header_ok]. Qed.
Print Assumptions C19_ReadMessageBegin_from_source.

(* the container headers validate the element types (thrift.Type.Valid = the model's type_valid) and reject negative sizes *)
Theorem C19_ReadBegin_from_source :
  (forall k v n, 0 <= k < 256 -> 0 <= v < 256 ->
     Gen_thriftbin.BinaryProtocol_ReadMapBegin k 0 v 0 n 0 =
       if negb (type_valid k) then (0, 0, 0, Gen_thriftbin.Err_errInvalidDataType, [(Gen_thriftbin.Eff_ReadByte, [])])
       else if negb (type_valid v) then (0, 0, 0, Gen_thriftbin.Err_errInvalidDataType, [(Gen_thriftbin.Eff_ReadByte, []); (Gen_thriftbin.Eff_ReadByte, [])])
       else if n <? 0 then (k, v, 0, Gen_thriftbin.Err_errInvalidDataSize, [(Gen_thriftbin.Eff_ReadByte, []); (Gen_thriftbin.Eff_ReadByte, []); (Gen_thriftbin.Eff_ReadI32, [])])
       else (k, v, n, 0, [(Gen_thriftbin.Eff_ReadByte, []); (Gen_thriftbin.Eff_ReadByte, []); (Gen_thriftbin.Eff_ReadI32, [])])) /\
  (forall t x, 0 <= t < 256 ->
     Gen_thriftbin.BinaryProtocol_ReadFieldBegin t 0 x 0 =
       if negb (type_valid t) then ([], 0, 0, Gen_thriftbin.Err_errInvalidDataType, [(Gen_thriftbin.Eff_ReadByte, [])])
       else if t =? 0 then ([], 0, 0, 0, [(Gen_thriftbin.Eff_ReadByte, [])])
       else ([], t, wrapu 16 x, 0, [(Gen_thriftbin.Eff_ReadByte, []); (Gen_thriftbin.Eff_ReadI16, [])])).
Proof. split; [exact ReadMapBegin_spec | intros; apply ReadFieldBegin_spec; assumption]. Qed.
Print Assumptions C19_ReadBegin_from_source.

(* ================================================================== generic Go values WITH a descriptor, algorithm level *)
(* model/ThriftAnyDesc.v transcribes BinaryProtocol.WriteAnyWithDesc / ReadAnyWithDesc AS CODED (type dispatch on the descriptor,
   internal/primitive conversions of the cast mode, struct members by id or by name, unknown members, container headers from the
   descriptor, Go maps as association lists in iteration order, map keys as the code produces them); checks 1925 / 1926 compare
   it with the implementation byte for byte and value for value. [gval_of u8 byname d v] is the Go value that stands for the wire
   value v under descriptor d: a BYTE is int8 (uint8 when u8), a struct is map[FieldID] (map[string] keyed by field key when
   byname), string-keyed maps are map[string], integer-keyed maps map[int] (a BYTE key as 0..255), other maps
   map[interface{}] with container keys behind pointers. The theorems hold for every order of members / entries because the
   order of v IS the iteration order. *)
From DG Require Import ThriftAnyDesc ThriftAnyDescProofs.
From DG Require Requireness RequirenessProofs.

(* (T1) the written bytes are the standard encoding: for every conforming value, every option setting, every member order *)
Theorem C19_write_any_desc_refines_encode :
  forall cast dis byname u8 v d n b,
  wf v = true -> conf true d v = true -> bools01 v = true -> (byname = true -> names_ok d = true) -> (depth v <= n)%nat ->
  write_any_desc cast dis byname n d b (gval_of u8 byname d v) = (b ++ encode v, 0).
Proof. exact write_any_desc_refines_encode. Qed.
Print Assumptions C19_write_any_desc_refines_encode.

(* (T2) the reader answers that Go value and stands right behind the value; fields the descriptor does not declare are
   skipped (conf false) unless disallowUnknown (conf true); [gfresh]: no map of the answer holds a key twice *)
Theorem C19_read_any_desc_refines_decode :
  forall u8 dis byname v d n r,
  wf v = true -> conf dis d v = true -> gfresh (gval_of u8 byname d v) = true ->
  (depth v <= n)%nat -> (depth v <= S max_skip_depth)%nat ->
  read_any_desc u8 dis byname n d (encode v ++ r) = Some (gval_of u8 byname d v, r).
Proof. exact read_any_desc_refines_decode. Qed.
Print Assumptions C19_read_any_desc_refines_decode.

(* (T3) reader after writer is the identity on Go values; the options change the presentation only in that a BYTE comes back
   as uint8 iff byteAsUint8, whatever it was written from (u8w / u8r); useFieldName is the same on both sides *)
Theorem C19_read_write_any_desc :
  forall cast dis_w dis_r byname u8w u8r v d n r,
  wf v = true -> conf true d v = true -> bools01 v = true -> (byname = true -> names_ok d = true) ->
  gfresh (gval_of u8r byname d v) = true -> (depth v <= n)%nat -> (depth v <= S max_skip_depth)%nat ->
  exists out, write_any_desc cast dis_w byname n d [] (gval_of u8w byname d v) = (out, 0) /\ out = encode v /\
              read_any_desc u8r dis_r byname n d (out ++ r) = Some (gval_of u8r byname d v, r).
Proof. exact read_write_any_desc. Qed.
Print Assumptions C19_read_write_any_desc.

(* (T4) the error side: a Go value of a kind the descriptor's case does not accept (cast off) is an error and nothing is
   written; a member / field the descriptor does not declare is an error iff disallowUnknown *)
Theorem C19_write_kind_mismatch :
  forall dis byname n d b g, gkind_ok byname d g = false -> write_any_desc false dis byname (S n) d b g = (b, 1).
Proof. exact write_kind_mismatch. Qed.
Print Assumptions C19_write_kind_mismatch.

Theorem C19_unknown_member :
  (forall cast dis n fs b id x ms, afby_id id fs = None ->
     write_any_desc cast dis false (S n) (AStruct fs) b (GStructN ((id, x) :: ms)) =
     if dis then (b, 1) else write_any_desc cast dis false (S n) (AStruct fs) b (GStructN ms)) /\
  (forall cast dis n fs b nm x ms, afby_name nm fs = None ->
     write_any_desc cast dis true (S n) (AStruct fs) b (GMapS ((nm, x) :: ms)) =
     if dis then (b, 1) else write_any_desc cast dis true (S n) (AStruct fs) b (GMapS ms)) /\
  (forall u8 byname n dfs t id rest, type_valid t = true -> t <> 0 -> in_sb 16 id = true -> afby_id (id mod 65536) dfs = None ->
     read_any_desc u8 true byname (S n) (AStruct dfs) (t :: enc_int 2 id ++ rest) = None).
Proof.
  split; [exact write_unknown_member_id|]. split; [exact write_unknown_member_name | exact read_unknown_field_disallowed].
Qed.
Print Assumptions C19_unknown_member.

(* (T5) WriteDefaultOrEmpty writes the encoding of the declared default, else of the zero value (model and proof shared with C16) *)
Theorem C19_write_default_or_empty :
  forall p f v, Requireness.default_or_zero p f = Some v -> Requireness.write_default_or_empty p f = Some (encode v).
Proof. exact RequirenessProofs.write_default_or_empty_encode. Qed.
Print Assumptions C19_write_default_or_empty.

Example ex_ad_desc : adesc :=
  AStruct [ (1, [97], AScalar T_I32);
            (2, [98], AMap (AScalar T_BYTE) (AList (AString true)));
            (3, [99], AMap (AStruct [(1, [107], AScalar T_BOOL)]) (AScalar T_DOUBLE));
            (4, [100], ASet (AScalar T_BYTE)) ].
(* members in an order that is not the declaration order, a negative BYTE key, a struct key, an undeclared field (id 9) *)
Example ex_ad_val (unknown : bool) : tval :=
  VStruct ([ (3, VMap T_STRUCT T_DOUBLE [(VStruct [(1, VBool 1)], VDouble 4607182418800017408)]);
             (2, VMap T_BYTE T_LIST [(VByte (-1), VList T_STRING [VString [104; 105]]); (VByte 7, VList T_STRING [])]) ]
           ++ (if unknown then [(9, VList T_I64 [VI64 5])] else []) ++
           [ (4, VSet T_BYTE [VByte (-128)]); (1, VI32 (-7)) ]).
Example ex_ad_hyps :
  wf (ex_ad_val false) = true /\ conf true ex_ad_desc (ex_ad_val false) = true /\ bools01 (ex_ad_val false) = true /\
  names_ok ex_ad_desc = true /\ gfresh (gval_of true true ex_ad_desc (ex_ad_val false)) = true /\
  conf true ex_ad_desc (ex_ad_val true) = false /\ conf false ex_ad_desc (ex_ad_val true) = true.
Proof. vm_compute. repeat split; reflexivity. Qed.
Example ex_ad_gval :
  gval_of false false ex_ad_desc (ex_ad_val true) =
  GStructN [ (3, GMapA [(GPtr (GStructN [(1, GBool true)]), GF64 4607182418800017408)]);
             (2, GMapI GT_INT [(255, GList [GBytes [104; 105]]); (7, GList [])]);
             (4, GList [GInt GT_I8 (-128)]); (1, GInt GT_I32 (-7)) ].
Proof. vm_compute. reflexivity. Qed.
Example ex_ad_write :
  write_any_desc false true true 4 ex_ad_desc [] (gval_of true true ex_ad_desc (ex_ad_val false)) = (encode (ex_ad_val false), 0).
Proof. vm_compute. reflexivity. Qed.
Example ex_ad_read_skips_unknown :
  read_any_desc false false false 4 ex_ad_desc (encode (ex_ad_val true) ++ [1; 2]) =
    Some (gval_of false false ex_ad_desc (ex_ad_val true), [1; 2]) /\
  read_any_desc false true false 4 ex_ad_desc (encode (ex_ad_val true) ++ [1; 2]) = None.
Proof. vm_compute. split; reflexivity. Qed.
(* cast mode: a non-zero fraction is true, a float is truncated toward zero, an integer is rounded to the nearest double *)
Example ex_ad_cast :
  write_any_desc true false false 2 (AScalar T_BOOL) [] (GF64 4602678819172646912) = ([1], 0) /\
  write_any_desc true false false 2 (AScalar T_I16) [] (GF64 13832806255468478464) = ([255; 255], 0) /\
  write_any_desc true false false 2 (AScalar T_DOUBLE) [] (GInt GT_I64 9007199254740993) = ([67; 64; 0; 0; 0; 0; 0; 0], 0) /\
  write_any_desc false false false 2 (AScalar T_BOOL) [] (GF64 4602678819172646912) = ([], 1).
Proof. vm_compute. repeat split; reflexivity. Qed.

(* ================================================================== generic Go values WITHOUT a descriptor, algorithm level *)
(* model/ThriftAnyFree.v transcribes BinaryProtocol.WriteAny / ReadAny / GoType2ThriftType as coded (Go type dispatch: bool, the
   integer kinds, float32/float64, string, []byte, []interface{}, map[string] / map[intN] / map[interface{}] with pointer keys,
   map[FieldID] structs; header types taken from the first element; empty containers refused; options strAsBinary / byteAsInt8;
   sliceAsSet changes no byte); checks 1927 / 1928 compare it with the implementation. *)
From DG Require Import ThriftAnyFree ThriftAnyFreeProofs.

(* ReadAny on the encoding of EVERY well-formed value answers its Go presentation and stands right behind it *)
Theorem C19_read_free_refines_decode :
  forall strbin i8 v n r,
  wf v = true -> hdrs_ok v = true -> gfresh (gval_free strbin i8 v) = true -> (depth v <= n)%nat ->
  read_any_free strbin i8 n (type_of v) (encode v ++ r) = Some (gval_free strbin i8 v, r).
Proof. exact read_free_refines_decode. Qed.
Print Assumptions C19_read_free_refines_decode.

(* WriteAny of that presentation appends exactly the standard encoding, for the values WriteAny can express (free_ok: no empty
   container, no set below the top, integer-keyed maps with I64 keys), every member / entry order *)
Theorem C19_write_free_refines_encode :
  forall sb i8 v n b,
  wf v = true -> free_ok v = true -> bools01 v = true -> (depth v <= n)%nat ->
  write_free n b (gval_free sb i8 v) = (b ++ encode v, 0).
Proof. exact write_free_refines_encode. Qed.
Print Assumptions C19_write_free_refines_encode.

Theorem C19_read_write_free :
  forall sb i8 v n r,
  wf v = true -> free_ok v = true -> hdrs_ok v = true -> bools01 v = true -> gfresh (gval_free sb i8 v) = true -> (depth v <= n)%nat ->
  exists out, write_free n [] (gval_free sb i8 v) = (out, 0) /\ out = encode v /\
              read_any_free sb i8 n (type_of v) (out ++ r) = Some (gval_free sb i8 v, r).
Proof. exact read_write_free. Qed.
Print Assumptions C19_read_write_free.

Example ex_free_val : tval :=
  VStruct [ (2, VMap T_I64 T_LIST [(VI64 (-5), VList T_STRING [VString [120]])]);
            (1, VMap T_STRUCT T_BYTE [(VStruct [(7, VDouble 0)], VByte (-2))]); (300, VBool 1) ].
Example ex_free_hyps :
  wf ex_free_val = true /\ free_ok ex_free_val = true /\ hdrs_ok ex_free_val = true /\ bools01 ex_free_val = true /\
  gfresh (gval_free false true ex_free_val) = true /\
  gval_free false true ex_free_val =
    GStructN [ (2, GMapI GT_INT [(-5, GList [GStr [120]])]); (1, GMapA [(GPtr (GStructN [(7, GF64 0)]), GInt GT_I8 (-2))]); (300, GBool true) ] /\
  write_free 4 [] (gval_free false true ex_free_val) = (encode ex_free_val, 0).
Proof. vm_compute. repeat split; reflexivity. Qed.
(* as coded: an empty slice is refused, a nil element panics (status 3), map[int] keys are written as I64 whatever the reader saw *)
Example ex_free_quirks :
  write_free 3 [] (GList []) = ([], 1) /\ write_free 3 [] (GList [GNil]) = ([], 3) /\
  write_free 3 [] (GMapI GT_INT [(1, GBool true)]) = ([10; 2; 0; 0; 0; 1; 0; 0; 0; 0; 0; 0; 0; 1; 1], 0).
Proof. vm_compute. repeat split; reflexivity. Qed.
