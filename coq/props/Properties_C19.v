(* C19 — Thrift protocol codec: write/read inverse, skip exact, envelope faithful. *)
From Coq Require Import ZArith List Bool Lia.
From DG Require Import GoSem ProtoWireRef ThriftWire ThriftWireProofs ThriftGeneric ThriftEnvelope ThriftEnvelopeProofs Gen_thrift GenThriftProofs.
Import ListNotations.
Local Open Scope Z_scope.

(* reader inverts writer (model level), for every well-formed value of every type shape, any tail *)
Theorem C19_decode_encode :
  forall v, wf v = true -> forall d r, (depth v <= d)%nat -> decode d (type_of v) (encode v ++ r) = Some (v, r).
Proof. exact decode_encode. Qed.
Print Assumptions C19_decode_encode.

(* skipping a well-formed value advances the cursor by exactly its encoded length (the remaining input is returned untouched) *)
Theorem C19_skip_exact :
  forall v, wf v = true -> forall d r, (depth v <= d)%nat -> skip d (type_of v) (encode v ++ r) = Some r.
Proof. exact skip_encode. Qed.
Print Assumptions C19_skip_exact.

(* scalars over their full range: big-endian two's complement, width = fixed size *)
Theorem C19_scalar_roundtrip :
  forall n z, (0 < n)%nat -> - 2 ^ (8 * Z.of_nat n - 1) <= z < 2 ^ (8 * Z.of_nat n - 1) ->
  dec_int (enc_int n z) = z /\ length (enc_int n z) = n.
Proof. intros n z Hn Hz. split; [apply dec_int_enc_int; assumption | apply enc_int_length]. Qed.
Print Assumptions C19_scalar_roundtrip.

(* envelope: unwrap inverts wrap, incl. negative sequence ids; header ++ body ++ footer is the wrapped form *)
Theorem C19_unwrap_wrap :
  forall body name ty id seq,
  0 <= ty < 256 -> zlen name < 2 ^ 31 -> - 2 ^ 31 <= seq < 2 ^ 31 -> - 2 ^ 15 <= id < 2 ^ 15 ->
  unwrap (wrap body name ty id seq) = Some (name, ty, seq, id, body) /\
  wrap body name ty id seq = env_header name ty id seq ++ body ++ env_footer.
Proof. intros. split; [apply unwrap_wrap; assumption | reflexivity]. Qed.
Print Assumptions C19_unwrap_wrap.

(* (G) the model's tables are the code's tables *)
Theorem C19_tables_from_source :
  forall t, 0 <= t < 256 ->
  typeSize t = fixed_size t /\ Type_IsInt t = is_int_type t /\ Type_IsComplex t = is_container t /\ Type_Valid t = type_valid t.
Proof.
  intros t H. split; [apply typeSize_is_fixed_size; exact H|].
  split; [apply Type_IsInt_is_int_type; exact H|].
  split; [apply Type_IsComplex_is_container; exact H | apply Type_Valid_is_type_valid; exact H].
Qed.
Print Assumptions C19_tables_from_source.

Theorem C19_decoders_from_source :
  forall bs, bytes_ok bs ->
  (length bs = 2%nat -> BinaryEncoding_DecodeInt16 bs = dec_int bs) /\
  (length bs = 4%nat -> BinaryEncoding_DecodeInt32 bs = dec_int bs) /\
  (length bs = 8%nat -> BinaryEncoding_DecodeInt64 bs = dec_int bs).
Proof.
  intros bs Hb. split; [intros Hl; apply DecodeInt16_is_dec_int; assumption|].
  split; intros Hl; [apply DecodeInt32_is_dec_int | apply DecodeInt64_is_dec_int]; assumption.
Qed.
Print Assumptions C19_decoders_from_source.

Example C19_example :
  let v := VStruct [(1, VList T_I32 [VI32 (-2); VI32 7]); (300, VMap T_STRING T_DOUBLE [(VString [107], VDouble 4607182418800017408)])] in
  wf v = true /\ (depth v <= 3)%nat /\ skip 3 T_STRUCT (encode v ++ [9; 9]) = Some [9; 9] /\
  unwrap (wrap (encode v) [109] 1 0 (-5)) = Some ([109], 1, -5, 0, encode v).
Proof. vm_compute. repeat split; try reflexivity; lia. Qed.

(* ---- generic Go values with a descriptor: ReadAnyWithDesc then WriteAnyWithDesc is the identity on well-formed values,
   for both byte representations (int8 / uint8) and for string / binary (model/ThriftAny.v; Go maps as association lists,
   the comparison with the implementation is modulo map order) ---- *)
From DG Require Import ThriftAny ThriftAnyProofs.

Theorem C19_read_any_write_any : forall u8 bin v, wf v = true -> write_any (read_any u8 bin v) = v.
Proof. exact write_read_any. Qed.
Print Assumptions C19_read_any_write_any.

Theorem C19_read_any_write_any_decodes : forall u8 bin v r, wf v = true ->
  decode (depth v) (type_of v) (encode (write_any (read_any u8 bin v)) ++ r) = Some (v, r).
Proof. exact write_read_any_decodes. Qed.
Print Assumptions C19_read_any_write_any_decodes.

Example ex_any_v : tval :=
  VStruct [ (1, VMap T_DOUBLE T_STRING [ (VDouble 4607182418800017408, VString [97]) ]);
            (2, VMap T_BYTE T_BYTE [ (VByte (-1), VByte (-128)) ]);
            (3, VSet T_I16 []) ].
Example ex_any_wf : wf ex_any_v = true. Proof. vm_compute. reflexivity. Qed.
Example ex_any_u8 : read_any true false (VByte (-1)) = GInt T_BYTE 255. Proof. vm_compute. reflexivity. Qed.

(* ================================================================== (G) thrift/binary.go from the Go source *)
(* gen/Gen_thriftbin.v is regenerated from thrift/binary.go on every build (go2coq abstract-environment mode): the in-place leaf writers
   BinaryEncoding.Encode* with Go's bounds checks written out (None = panic), and the envelope functions with the Write* / Read*
   primitives they call as an effect trace resp. oracle inputs. *)
From DG Require Import Check20g GenThriftbinProofs.
From DG Require Gen_thriftbin.

(* every leaf writer puts the canonical encoding (ThriftWire.enc_int / encode) over the first bytes of the buffer, keeps the rest,
   and panics exactly when the fixed part does not fit (strings: as much of the text as fits is copied) *)
Theorem C19_Encode_from_source :
  (forall b v, Gen_thriftbin.BinaryEncoding_EncodeBool b v = model_encode 0 b (Z.b2z v) 0 []) /\
  (forall b v, 0 <= v < 256 -> Gen_thriftbin.BinaryEncoding_EncodeByte b v = model_encode 1 b v 0 []) /\
  (forall b v, Gen_thriftbin.BinaryEncoding_EncodeInt16 b v = model_encode 2 b v 0 []) /\
  (forall b v, Gen_thriftbin.BinaryEncoding_EncodeInt32 b v = model_encode 3 b v 0 []) /\
  (forall b v, Gen_thriftbin.BinaryEncoding_EncodeInt64 b v = model_encode 4 b v 0 []) /\
  (forall b v, Gen_thriftbin.BinaryEncoding_EncodeDouble b v = model_encode 5 b v 0 []) /\
  (forall b s, Gen_thriftbin.BinaryEncoding_EncodeString b s = model_encode 6 b 0 0 s) /\
  (forall b s, Gen_thriftbin.BinaryEncoding_EncodeBinary b s = model_encode 7 b 0 0 s) /\
  (forall b t id, 0 <= t < 256 -> Gen_thriftbin.BinaryEncoding_EncodeFieldBegin b t id = model_encode 8 b t id []).
Proof.
  repeat split; [exact EncodeBool_is_byte | exact EncodeByte_is_enc_int | exact EncodeInt16_is_enc_int | exact EncodeInt32_is_enc_int |
    exact EncodeInt64_is_enc_int | exact EncodeDouble_is_enc_int | exact EncodeString_is_enc | exact EncodeBinary_is_enc | exact EncodeFieldBegin_is_enc].
Qed.
Print Assumptions C19_Encode_from_source.

Theorem C19_Encode_canonical :
  (forall b v, (4 <= length b)%nat -> Gen_thriftbin.BinaryEncoding_EncodeInt32 b v = Some (enc_int 4 v ++ skipn 4 b)) /\
  (forall b s, (4 + length s <= length b)%nat -> Gen_thriftbin.BinaryEncoding_EncodeString b s = Some (encode (VString s) ++ skipn (4 + length s) b)).
Proof. split; [exact EncodeInt32_canonical | exact EncodeString_canonical]. Qed.
Print Assumptions C19_Encode_canonical.

(* WriteMessageBegin = WriteI32(VERSION_1 | type), WriteString(name), WriteI32(seq); together with WriteFieldBegin(STRUCT, id) these are
   the bytes of the model's envelope header; a failing primitive stops the sequence and its error is returned *)
Theorem C19_envelope_header_from_source :
  forall name ty id seq, 0 <= ty < 256 ->
  env_header name ty id seq =
    writes_bytes name (snd (Gen_thriftbin.BinaryProtocol_WriteMessageBegin name ty seq 0 0 0)) ++
    writes_bytes [] (snd (Gen_thriftbin.BinaryProtocol_WriteFieldBegin [] T_STRUCT id 0 0)).
Proof. exact env_header_is_begin_calls. Qed.
Print Assumptions C19_envelope_header_from_source.

Theorem C19_WriteMessageBegin_errors_from_source :
  forall name ty seq e1 e2 e3,
  fst (Gen_thriftbin.BinaryProtocol_WriteMessageBegin name ty seq e1 e2 e3) = (if negb (e1 =? 0) then e1 else if negb (e2 =? 0) then e2 else e3) /\
  Z.of_nat (length (snd (Gen_thriftbin.BinaryProtocol_WriteMessageBegin name ty seq e1 e2 e3))) = (if negb (e1 =? 0) then 1 else if negb (e2 =? 0) then 2 else 3).
Proof. exact WriteMessageBegin_errors. Qed.
Print Assumptions C19_WriteMessageBegin_errors_from_source.

(* field / stop / map / list / set headers are the bytes ThriftWire.encode puts there *)
Theorem C19_container_headers_from_source :
  (forall name t id, 0 <= t < 256 -> writes_bytes [] (snd (Gen_thriftbin.BinaryProtocol_WriteFieldBegin name t id 0 0)) = t :: enc_int 2 id) /\
  writes_bytes [] (snd (Gen_thriftbin.BinaryProtocol_WriteFieldStop 0)) = [0] /\
  (forall k v n, 0 <= k < 256 -> 0 <= v < 256 -> writes_bytes [] (snd (Gen_thriftbin.BinaryProtocol_WriteMapBegin k v n 0 0 0)) = k :: v :: enc_int 4 n) /\
  (forall t n, 0 <= t < 256 -> writes_bytes [] (snd (Gen_thriftbin.BinaryProtocol_WriteListBegin t n 0 0)) = t :: enc_int 4 n) /\
  (forall t n, 0 <= t < 256 -> writes_bytes [] (snd (Gen_thriftbin.BinaryProtocol_WriteSetBegin t n 0 0)) = t :: enc_int 4 n).
Proof. exact WriteBegin_bytes. Qed.
Print Assumptions C19_container_headers_from_source.

(* ReadMessageBegin accepts exactly the headers the model's [unwrap] accepts (mask check on the first word), takes the message type
   from its low byte, and reads nothing further from a rejected header *)
Theorem C19_ReadMessageBegin_from_source :
  (forall c size name seq, header_ok size = true ->
     Gen_thriftbin.BinaryProtocol_ReadMessageBegin c size 0 name 0 seq 0 =
       (name, Z.land size 255, seq, 0, [(Gen_thriftbin.Eff_ReadI32, []); (Gen_thriftbin.Eff_ReadString, [Z.b2z c]); (Gen_thriftbin.Eff_ReadI32, [])])) /\
  (forall c size name e2 seq e3, header_ok size = false ->
     let '(_, _, _, err, eff) := Gen_thriftbin.BinaryProtocol_ReadMessageBegin c size 0 name e2 seq e3 in
     err = Gen_thriftbin.Err_errInvalidVersion /\ eff = [(Gen_thriftbin.Eff_ReadI32, [])]) /\
  (forall bs vb r1, take 4 bs = Some (vb, r1) -> header_ok (dec_int vb) = false -> unwrap bs = None).
Proof. split; [exact ReadMessageBegin_accepts|]. split; [exact ReadMessageBegin_rejects | exact unwrap_header_ok]. Qed.
Print Assumptions C19_ReadMessageBegin_from_source.

(* the container headers validate the element types (thrift.Type.Valid = the model's type_valid) and reject negative sizes *)
Theorem C19_ReadBegin_from_source :
  (forall k v n, 0 <= k < 256 -> 0 <= v < 256 ->
     Gen_thriftbin.BinaryProtocol_ReadMapBegin k 0 v 0 n 0 =
       if negb (type_valid k) then (0, 0, 0, Gen_thriftbin.Err_errInvalidDataType, [(Gen_thriftbin.Eff_ReadByte, [])])
       else if negb (type_valid v) then (0, 0, 0, Gen_thriftbin.Err_errInvalidDataType, [(Gen_thriftbin.Eff_ReadByte, []); (Gen_thriftbin.Eff_ReadByte, [])])
       else if n <? 0 then (k, v, 0, Gen_thriftbin.Err_errInvalidDataSize, [(Gen_thriftbin.Eff_ReadByte, []); (Gen_thriftbin.Eff_ReadByte, []); (Gen_thriftbin.Eff_ReadI32, [])])
       else (k, v, n, 0, [(Gen_thriftbin.Eff_ReadByte, []); (Gen_thriftbin.Eff_ReadByte, []); (Gen_thriftbin.Eff_ReadI32, [])])) /\
  (forall t x, 0 <= t < 256 ->
     Gen_thriftbin.BinaryProtocol_ReadFieldBegin t 0 x 0 =
       if negb (type_valid t) then ([], 0, 0, Gen_thriftbin.Err_errInvalidDataType, [(Gen_thriftbin.Eff_ReadByte, [])])
       else if t =? 0 then ([], 0, 0, 0, [(Gen_thriftbin.Eff_ReadByte, [])])
       else ([], t, wrapu 16 x, 0, [(Gen_thriftbin.Eff_ReadByte, []); (Gen_thriftbin.Eff_ReadI16, [])])).
Proof. split; [exact ReadMapBegin_spec | intros; apply ReadFieldBegin_spec; assumption]. Qed.
Print Assumptions C19_ReadBegin_from_source.

(* ================================================================== generic Go values WITH a descriptor, algorithm level *)
(* model/ThriftAnyDesc.v transcribes BinaryProtocol.WriteAnyWithDesc / ReadAnyWithDesc AS CODED (type dispatch on the descriptor,
   internal/primitive conversions of the cast mode, struct members by id or by name, unknown members, container headers from the
   descriptor, Go maps as association lists in iteration order, map keys as the code produces them); checks 1925 / 1926 compare
   it with the implementation byte for byte and value for value. [gval_of u8 byname d v] is the Go value that stands for the wire
   value v under descriptor d: a BYTE is int8 (uint8 when u8), a struct is map[FieldID] (map[string] keyed by field key when
   byname), string-keyed maps are map[string], integer-keyed maps map[int] (a BYTE key as 0..255), other maps
   map[interface{}] with container keys behind pointers. The theorems hold for every order of members / entries because the
   order of v IS the iteration order. *)
From DG Require Import ThriftAnyDesc ThriftAnyDescProofs.
From DG Require Requireness RequirenessProofs.

(* (T1) the written bytes are the standard encoding: for every conforming value, every option setting, every member order *)
Theorem C19_write_any_desc_refines_encode :
  forall cast dis byname u8 v d n b,
  wf v = true -> conf true d v = true -> bools01 v = true -> (byname = true -> names_ok d = true) -> (depth v <= n)%nat ->
  write_any_desc cast dis byname n d b (gval_of u8 byname d v) = (b ++ encode v, 0).
Proof. exact write_any_desc_refines_encode. Qed.
Print Assumptions C19_write_any_desc_refines_encode.

(* (T2) the reader answers that Go value and stands right behind the value; fields the descriptor does not declare are
   skipped (conf false) unless disallowUnknown (conf true); [gfresh]: no map of the answer holds a key twice *)
Theorem C19_read_any_desc_refines_decode :
  forall u8 dis byname v d n r,
  wf v = true -> conf dis d v = true -> gfresh (gval_of u8 byname d v) = true ->
  (depth v <= n)%nat -> (depth v <= S max_skip_depth)%nat ->
  read_any_desc u8 dis byname n d (encode v ++ r) = Some (gval_of u8 byname d v, r).
Proof. exact read_any_desc_refines_decode. Qed.
Print Assumptions C19_read_any_desc_refines_decode.

(* (T3) reader after writer is the identity on Go values; the options change the presentation only in that a BYTE comes back
   as uint8 iff byteAsUint8, whatever it was written from (u8w / u8r); useFieldName is the same on both sides *)
Theorem C19_read_write_any_desc :
  forall cast dis_w dis_r byname u8w u8r v d n r,
  wf v = true -> conf true d v = true -> bools01 v = true -> (byname = true -> names_ok d = true) ->
  gfresh (gval_of u8r byname d v) = true -> (depth v <= n)%nat -> (depth v <= S max_skip_depth)%nat ->
  exists out, write_any_desc cast dis_w byname n d [] (gval_of u8w byname d v) = (out, 0) /\ out = encode v /\
              read_any_desc u8r dis_r byname n d (out ++ r) = Some (gval_of u8r byname d v, r).
Proof. exact read_write_any_desc. Qed.
Print Assumptions C19_read_write_any_desc.

(* (T4) the error side: a Go value of a kind the descriptor's case does not accept (cast off) is an error and nothing is
   written; a member / field the descriptor does not declare is an error iff disallowUnknown *)
Theorem C19_write_kind_mismatch :
  forall dis byname n d b g, gkind_ok byname d g = false -> write_any_desc false dis byname (S n) d b g = (b, 1).
Proof. exact write_kind_mismatch. Qed.
Print Assumptions C19_write_kind_mismatch.

Theorem C19_unknown_member :
  (forall cast dis n fs b id x ms, afby_id id fs = None ->
     write_any_desc cast dis false (S n) (AStruct fs) b (GStructN ((id, x) :: ms)) =
     if dis then (b, 1) else write_any_desc cast dis false (S n) (AStruct fs) b (GStructN ms)) /\
  (forall cast dis n fs b nm x ms, afby_name nm fs = None ->
     write_any_desc cast dis true (S n) (AStruct fs) b (GMapS ((nm, x) :: ms)) =
     if dis then (b, 1) else write_any_desc cast dis true (S n) (AStruct fs) b (GMapS ms)) /\
  (forall u8 byname n dfs t id rest, type_valid t = true -> t <> 0 -> in_sb 16 id = true -> afby_id (id mod 65536) dfs = None ->
     read_any_desc u8 true byname (S n) (AStruct dfs) (t :: enc_int 2 id ++ rest) = None).
Proof.
  split; [exact write_unknown_member_id|]. split; [exact write_unknown_member_name | exact read_unknown_field_disallowed].
Qed.
Print Assumptions C19_unknown_member.

(* (T5) WriteDefaultOrEmpty writes the encoding of the declared default, else of the zero value (model and proof shared with C16) *)
Theorem C19_write_default_or_empty :
  forall p f v, Requireness.default_or_zero p f = Some v -> Requireness.write_default_or_empty p f = Some (encode v).
Proof. exact RequirenessProofs.write_default_or_empty_encode. Qed.
Print Assumptions C19_write_default_or_empty.

Example ex_ad_desc : adesc :=
  AStruct [ (1, [97], AScalar T_I32);
            (2, [98], AMap (AScalar T_BYTE) (AList (AString true)));
            (3, [99], AMap (AStruct [(1, [107], AScalar T_BOOL)]) (AScalar T_DOUBLE));
            (4, [100], ASet (AScalar T_BYTE)) ].
(* members in an order that is not the declaration order, a negative BYTE key, a struct key, an undeclared field (id 9) *)
Example ex_ad_val (unknown : bool) : tval :=
  VStruct ([ (3, VMap T_STRUCT T_DOUBLE [(VStruct [(1, VBool 1)], VDouble 4607182418800017408)]);
             (2, VMap T_BYTE T_LIST [(VByte (-1), VList T_STRING [VString [104; 105]]); (VByte 7, VList T_STRING [])]) ]
           ++ (if unknown then [(9, VList T_I64 [VI64 5])] else []) ++
           [ (4, VSet T_BYTE [VByte (-128)]); (1, VI32 (-7)) ]).
Example ex_ad_hyps :
  wf (ex_ad_val false) = true /\ conf true ex_ad_desc (ex_ad_val false) = true /\ bools01 (ex_ad_val false) = true /\
  names_ok ex_ad_desc = true /\ gfresh (gval_of true true ex_ad_desc (ex_ad_val false)) = true /\
  conf true ex_ad_desc (ex_ad_val true) = false /\ conf false ex_ad_desc (ex_ad_val true) = true.
Proof. vm_compute. repeat split; reflexivity. Qed.
Example ex_ad_gval :
  gval_of false false ex_ad_desc (ex_ad_val true) =
  GStructN [ (3, GMapA [(GPtr (GStructN [(1, GBool true)]), GF64 4607182418800017408)]);
             (2, GMapI GT_INT [(255, GList [GBytes [104; 105]]); (7, GList [])]);
             (4, GList [GInt GT_I8 (-128)]); (1, GInt GT_I32 (-7)) ].
Proof. vm_compute. reflexivity. Qed.
Example ex_ad_write :
  write_any_desc false true true 4 ex_ad_desc [] (gval_of true true ex_ad_desc (ex_ad_val false)) = (encode (ex_ad_val false), 0).
Proof. vm_compute. reflexivity. Qed.
Example ex_ad_read_skips_unknown :
  read_any_desc false false false 4 ex_ad_desc (encode (ex_ad_val true) ++ [1; 2]) =
    Some (gval_of false false ex_ad_desc (ex_ad_val true), [1; 2]) /\
  read_any_desc false true false 4 ex_ad_desc (encode (ex_ad_val true) ++ [1; 2]) = None.
Proof. vm_compute. split; reflexivity. Qed.
(* cast mode: a non-zero fraction is true, a float is truncated toward zero, an integer is rounded to the nearest double *)
Example ex_ad_cast :
  write_any_desc true false false 2 (AScalar T_BOOL) [] (GF64 4602678819172646912) = ([1], 0) /\
  write_any_desc true false false 2 (AScalar T_I16) [] (GF64 13832806255468478464) = ([255; 255], 0) /\
  write_any_desc true false false 2 (AScalar T_DOUBLE) [] (GInt GT_I64 9007199254740993) = ([67; 64; 0; 0; 0; 0; 0; 0], 0) /\
  write_any_desc false false false 2 (AScalar T_BOOL) [] (GF64 4602678819172646912) = ([], 1).
Proof. vm_compute. repeat split; reflexivity. Qed.

(* ================================================================== generic Go values WITHOUT a descriptor, algorithm level *)
(* model/ThriftAnyFree.v transcribes BinaryProtocol.WriteAny / ReadAny / GoType2ThriftType as coded (Go type dispatch: bool, the
   integer kinds, float32/float64, string, []byte, []interface{}, map[string] / map[intN] / map[interface{}] with pointer keys,
   map[FieldID] structs; header types taken from the first element; empty containers refused; options strAsBinary / byteAsInt8;
   sliceAsSet changes no byte); checks 1927 / 1928 compare it with the implementation. *)
From DG Require Import ThriftAnyFree ThriftAnyFreeProofs.

(* ReadAny on the encoding of EVERY well-formed value answers its Go presentation and stands right behind it *)
Theorem C19_read_free_refines_decode :
  forall strbin i8 v n r,
  wf v = true -> hdrs_ok v = true -> gfresh (gval_free strbin i8 v) = true -> (depth v <= n)%nat ->
  read_any_free strbin i8 n (type_of v) (encode v ++ r) = Some (gval_free strbin i8 v, r).
Proof. exact read_free_refines_decode. Qed.
Print Assumptions C19_read_free_refines_decode.

(* WriteAny of that presentation appends exactly the standard encoding, for the values WriteAny can express (free_ok: no empty
   container, no set below the top, integer-keyed maps with I64 keys), every member / entry order *)
Theorem C19_write_free_refines_encode :
  forall sb i8 v n b,
  wf v = true -> free_ok v = true -> bools01 v = true -> (depth v <= n)%nat ->
  write_free n b (gval_free sb i8 v) = (b ++ encode v, 0).
Proof. exact write_free_refines_encode. Qed.
Print Assumptions C19_write_free_refines_encode.

Theorem C19_read_write_free :
  forall sb i8 v n r,
  wf v = true -> free_ok v = true -> hdrs_ok v = true -> bools01 v = true -> gfresh (gval_free sb i8 v) = true -> (depth v <= n)%nat ->
  exists out, write_free n [] (gval_free sb i8 v) = (out, 0) /\ out = encode v /\
              read_any_free sb i8 n (type_of v) (out ++ r) = Some (gval_free sb i8 v, r).
Proof. exact read_write_free. Qed.
Print Assumptions C19_read_write_free.

Example ex_free_val : tval :=
  VStruct [ (2, VMap T_I64 T_LIST [(VI64 (-5), VList T_STRING [VString [120]])]);
            (1, VMap T_STRUCT T_BYTE [(VStruct [(7, VDouble 0)], VByte (-2))]); (300, VBool 1) ].
Example ex_free_hyps :
  wf ex_free_val = true /\ free_ok ex_free_val = true /\ hdrs_ok ex_free_val = true /\ bools01 ex_free_val = true /\
  gfresh (gval_free false true ex_free_val) = true /\
  gval_free false true ex_free_val =
    GStructN [ (2, GMapI GT_INT [(-5, GList [GStr [120]])]); (1, GMapA [(GPtr (GStructN [(7, GF64 0)]), GInt GT_I8 (-2))]); (300, GBool true) ] /\
  write_free 4 [] (gval_free false true ex_free_val) = (encode ex_free_val, 0).
Proof. vm_compute. repeat split; reflexivity. Qed.
(* as coded: an empty slice is refused, a nil element panics (status 3), map[int] keys are written as I64 whatever the reader saw *)
Example ex_free_quirks :
  write_free 3 [] (GList []) = ([], 1) /\ write_free 3 [] (GList [GNil]) = ([], 3) /\
  write_free 3 [] (GMapI GT_INT [(1, GBool true)]) = ([10; 2; 0; 0; 0; 1; 0; 0; 0; 0; 0; 0; 0; 1; 1], 0).
Proof. vm_compute. repeat split; reflexivity. Qed.

(* ================================================================== (T4 generalised) an undeclared member anywhere in a struct *)
(* writer, by id and by name: with disallowUnknown the call fails wherever the member sits among the others (status exactly 1 =
   error when the members before it are written without error); without it the output is the output without that member.
   reader: an undeclared field after any declared ones is an error under disallowUnknown (without it: skipped, T2) *)
Theorem C19_unknown_member_anywhere :
  forall cast n fs b,
  (forall id x pre post, afby_id id fs = None ->
     snd (write_any_desc cast true false (S n) (AStruct fs) b (GStructN (pre ++ (id, x) :: post))) <> 0 /\
     (snd (write_any_desc cast true false (S n) (AStruct fs) b (GStructN pre)) = 0 ->
      snd (write_any_desc cast true false (S n) (AStruct fs) b (GStructN (pre ++ (id, x) :: post))) = 1) /\
     write_any_desc cast false false (S n) (AStruct fs) b (GStructN (pre ++ (id, x) :: post)) =
     write_any_desc cast false false (S n) (AStruct fs) b (GStructN (pre ++ post))) /\
  (forall nm x pre post, afby_name nm fs = None ->
     snd (write_any_desc cast true true (S n) (AStruct fs) b (GMapS (pre ++ (nm, x) :: post))) <> 0 /\
     (snd (write_any_desc cast true true (S n) (AStruct fs) b (GMapS pre)) = 0 ->
      snd (write_any_desc cast true true (S n) (AStruct fs) b (GMapS (pre ++ (nm, x) :: post))) = 1) /\
     write_any_desc cast false true (S n) (AStruct fs) b (GMapS (pre ++ (nm, x) :: post)) =
     write_any_desc cast false true (S n) (AStruct fs) b (GMapS (pre ++ post))).
Proof. exact write_unknown_member_anywhere. Qed.
Print Assumptions C19_unknown_member_anywhere.

Theorem C19_unknown_field_anywhere :
  forall u8 byname n dfs pre t id rest,
  wf (VStruct pre) = true -> conf true (AStruct dfs) (VStruct pre) = true ->
  gfresh (gval_of u8 byname (AStruct dfs) (VStruct pre)) = true ->
  (depth (VStruct pre) <= S n)%nat -> (depth (VStruct pre) <= S max_skip_depth)%nat ->
  type_valid t = true -> t <> 0 -> in_sb 16 id = true -> afby_id (id mod 65536) dfs = None ->
  read_any_desc u8 true byname (S n) (AStruct dfs)
    (flat_map (fun f => type_of (snd f) :: enc_int 2 (fst f) ++ encode (snd f)) pre ++ t :: enc_int 2 id ++ rest) = None.
Proof. exact read_unknown_field_anywhere. Qed.
Print Assumptions C19_unknown_field_anywhere.

(* ================================================================== WriteStringWithDesc / ReadStringWithDesc (text form), algorithm level *)
(* model/ThriftText.v transcribes WriteStringWithDesc (= DecodeText(..., useFieldName, asJson = false)) and ReadStringWithDesc
   (= EncodeText) as coded; checks 1929 / 1930 compare it with the implementation. [canon_text fd b64 d v] is the spelling the
   reader prints: true / false, decimal integers (a BYTE as 0..255), fd bits for a double, the string itself, base64 for a binary
   field under base64Binary. Outside the model: spellings of doubles beyond the JSON number grammar (status 2), the JSON path of
   DecodeText (asJson = true, never taken by WriteStringWithDesc), the STRUCT case of EncodeText. *)
From DG Require Import Num ThriftText ThriftTextProofs.

(* the canonical spelling of every conforming scalar / string value is written as the standard encoding; so is the signed
   spelling of a BYTE; so is a comma-joined non-empty list / set of such spellings *)
Theorem C19_write_string_with_desc :
  (forall fd b64 d v b,
     is_leaf v = true -> wf v = true -> conf true d v = true -> bools01 v = true -> doubles_ok fd v = true ->
     write_string_desc b64 d b (canon_text fd b64 d v) = (b ++ encode v, 0)) /\
  (forall b64 z b, in_sb 8 z = true -> write_string_desc b64 (AScalar T_BYTE) b (fmt_int z) = (b ++ encode (VByte z), 0)) /\
  (forall fd b64 (set : bool) e es b,
     es <> [] -> Forall (fun x => is_leaf x = true /\ wf x = true /\ conf true e x = true /\ bools01 x = true /\
                                  doubles_ok fd x = true /\ no_comma (canon_text fd b64 e x) = true) es ->
     write_string_desc b64 (if set then ASet e else AList e) b (join_with 44 (map (canon_text fd b64 e) es))
     = (b ++ encode (if set then VSet (dtype e) es else VList (dtype e) es), 0)).
Proof.
  split; [exact write_string_desc_canonical|]. split; [exact write_string_desc_byte_signed | exact write_string_desc_list].
Qed.
Print Assumptions C19_write_string_with_desc.

(* the error side. On a scalar / string (and map / struct) descriptor every text that is not accepted leaves the buffer untouched;
   which texts are errors: ParseInt (syntax, or beyond int64), ParseBool, a double beyond the largest double, base64 that does not
   decode, every text for a map or a struct. AS CODED a text beyond the WIDTH of the integer type is not an error: it is
   truncated (last statement) - reported to the lead as an observation, the property text does not speak about it *)
Theorem C19_write_string_with_desc_errors :
  (forall b64 d b s, match d with AScalar _ | AString _ | AMap _ _ | AStruct _ => True | _ => False end ->
     snd (write_string_desc b64 d b s) <> 0 -> fst (write_string_desc b64 d b s) = b) /\
  (forall b64 b s,
     (forall t, is_int_type t = true -> text_int s = None -> write_string_desc b64 (AScalar t) b s = (b, 1)) /\
     (text_bool s = None -> write_string_desc b64 (AScalar T_BOOL) b s = (b, 1)) /\
     (text_f64 s = Some None -> write_string_desc b64 (AScalar T_DOUBLE) b s = (b, 1)) /\
     (text_b64 s = None -> write_string_desc true (AString true) b s = (b, 1)) /\
     (forall k e, write_string_desc b64 (AMap k e) b s = (b, 1)) /\ (forall fs, write_string_desc b64 (AStruct fs) b s = (b, 1))) /\
  (forall b64 b s z, text_int s = Some z ->
     write_string_desc b64 (AScalar T_BYTE) b s = (b ++ [z mod 256], 0) /\
     write_string_desc b64 (AScalar T_I16) b s = (b ++ enc_int 2 z, 0) /\
     write_string_desc b64 (AScalar T_I32) b s = (b ++ enc_int 4 z, 0)).
Proof.
  split; [exact write_string_desc_leaf_error|]. split; [exact write_string_desc_errors | exact write_string_desc_truncates].
Qed.
Print Assumptions C19_write_string_with_desc_errors.

(* ReadStringWithDesc prints the canonical spelling, and WriteStringWithDesc of what it printed reproduces the bytes *)
Theorem C19_write_read_string_with_desc :
  forall fd b64 d v n r b,
  is_leaf v = true -> wf v = true -> conf true d v = true -> bools01 v = true -> doubles_ok fd v = true ->
  read_string_desc fd b64 (S n) d (encode v ++ r) = Some (canon_text fd b64 d v, r) /\
  write_string_desc b64 d b (canon_text fd b64 d v) = (b ++ encode v, 0).
Proof.
  intros. split; [apply read_string_desc_canonical; assumption | apply write_string_desc_canonical; assumption].
Qed.
Print Assumptions C19_write_read_string_with_desc.

Example ex_text :
  write_string_desc false (AScalar T_I16) [] [45; 51; 50; 55; 54; 56] = (encode (VI16 (-32768)), 0) /\       (* "-32768" *)
  write_string_desc false (AScalar T_I16) [] [51; 50; 55; 54; 56] = (encode (VI16 (-32768)), 0) /\           (* "32768": truncated, as coded *)
  write_string_desc false (AScalar T_I64) [] [57;50;50;51;51;55;50;48;51;54;56;53;52;55;55;53;56;48;56] = ([], 1) /\   (* 2^63 *)
  write_string_desc false (AScalar T_BOOL) [] [84; 114; 117; 101] = ([1], 0) /\                                (* "True" *)
  write_string_desc false (AScalar T_BOOL) [] [121; 101; 115] = ([], 1) /\                                     (* "yes" *)
  write_string_desc false (AScalar T_DOUBLE) [] [48; 46; 53] = (encode (VDouble 4602678819172646912), 0) /\    (* "0.5" *)
  write_string_desc false (AScalar T_DOUBLE) [] [49; 101; 52; 48; 48] = ([], 1) /\                             (* "1e400" *)
  write_string_desc false (AScalar T_DOUBLE) [] [46; 53] = ([], 2) /\                                          (* ".5": outside the model *)
  write_string_desc true (AString true) [] [81; 85; 73; 61] = (encode (VString [65; 66]), 0) /\                (* "QUI=" *)
  write_string_desc true (AString true) [] [81; 85; 73] = ([], 1) /\
  write_string_desc false (AList (AScalar T_BYTE)) [] [49; 44; 45; 49; 44; 50; 53; 53] = (encode (VList T_BYTE [VByte 1; VByte (-1); VByte (-1)]), 0) /\
  write_string_desc false (AList (AScalar T_BYTE)) [] [49; 44; 120] = ([3; 0; 0; 0; 2; 1], 1).                 (* "1,x": header and first piece stay *)
Proof. vm_compute. repeat split; reflexivity. Qed.

(* ================================================================== container headers with a provisional count, patched in place *)
(* Write{List,Map}BeginWithSizePos record the position of the count; ModifyI32 at that position replaces the count whatever follows
   it - also nothing (the count is then the LAST i32 of the buffer); with the number of elements it yields the encoded list; a
   position that leaves fewer than four bytes is an error and changes nothing (model/ThriftSizePos.v, check 1931) *)
From DG Require Import ThriftSizePos ThriftSizePosProofs.

Theorem C19_size_pos_patch :
  (forall pre et prov n elems,
     let '(buf, pos) := list_begin_pos pre et prov in modify_i32 pos n (buf ++ elems) = (pre ++ list_begin et n ++ elems, 0)) /\
  (forall pre kt vt prov n elems,
     let '(buf, pos) := map_begin_pos pre kt vt prov in modify_i32 pos n (buf ++ elems) = (pre ++ map_begin kt vt n ++ elems, 0)) /\
  (forall pre et prov es,
     let '(buf, pos) := list_begin_pos pre et prov in
     modify_i32 pos (zlen es) (buf ++ flat_map encode es) = (pre ++ encode (VList et es), 0)) /\
  (forall pos v buf, zlen buf < pos + 4 -> modify_i32 pos v buf = (buf, 1)).
Proof.
  split; [exact list_size_patch|]. split; [exact map_size_patch|]. split; [exact list_written_with_patched_count | exact modify_i32_out_of_range].
Qed.
Print Assumptions C19_size_pos_patch.

Example ex_size_pos :
  modify_i32 1 0 (fst (list_begin_pos [] T_I32 7)) = ([8; 0; 0; 0; 0], 0) /\              (* empty list: the count is the last i32 *)
  modify_i32 2 0 (fst (list_begin_pos [] T_I32 7)) = ([8; 0; 0; 0; 7], 1) /\
  modify_i32 (-1) 0 (fst (list_begin_pos [] T_I32 7)) = ([8; 0; 0; 0; 7], 3).            (* as coded: p.Buf[:-1] panics *)
Proof. vm_compute. repeat split; reflexivity. Qed.
