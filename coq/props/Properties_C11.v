(* C11 - cutting (thrift generic Value.MarshalTo). Statements only; proofs are in proofs/ThriftCutProofs.v.
   project = spec-level projection of the decoded value; cut = byte-level walker mirroring marshalTo;
   pe = "these two sub-descriptors are the same *TypeDescriptor" (the raw-copy shortcut), an arbitrary parameter. *)
From Coq Require Import ZArith List Bool Lia.
From DG Require Import ProtoWireRef ThriftWire ThriftWireProofs ThriftCut ThriftCutProofs.
Import ListNotations.
Local Open Scope Z_scope.

(* (1) the byte-level algorithm (struct loop with Skip of unknown / untargeted fields, raw copy of read.Buf[e:s] on
   pointer-equal sub-descriptors, handleUnsets at STOP, list / map element loops) yields exactly the encoding of the
   projection, consumes exactly the source value and fails with the same error class - all values, descriptors, options *)
Theorem C11_cut_refines_project :
  forall d o pe fuel from to v r,
  wf v = true -> (depth v <= max_skip_depth)%nat -> conf d fuel from v = true ->
  cut d o pe false fuel from to (encode v ++ r) =
  match project d o pe fuel from to v with COk v' => COk (encode v', r) | CErr c => CErr c end.
Proof. exact cut_refines_project. Qed.
Print Assumptions C11_cut_refines_project.

(* (2) identical descriptors reproduce the input: for every fully conforming value, whether or not the implementation
   notices that the descriptors are the same (any pe) *)
Theorem C11_identical_descriptor_reproduces_input :
  forall d o pe fuel t v, full d o fuel t v = true -> project d o pe fuel t t v = COk v.
Proof. exact project_id. Qed.
Print Assumptions C11_identical_descriptor_reproduces_input.

Theorem C11_identical_descriptor_bytes :
  forall d o pe fuel t v,
  wf v = true -> (depth v <= max_skip_depth)%nat -> conf d fuel t v = true -> full d o fuel t v = true ->
  cut d o pe false fuel t t (encode v) = COk (encode v, []).
Proof.
  intros d o pe fuel t v Hw Hd Hc Hf. rewrite <- (app_nil_r (encode v)) at 1.
  rewrite cut_refines_project by assumption. rewrite project_id by exact Hf. reflexivity.
Qed.
Print Assumptions C11_identical_descriptor_bytes.

(* (3) exactness: at a struct level the output is kept ++ filled where kept = the source fields whose id is declared
   by BOTH descriptors, in source order (a subsequence of the source ids), each value being the projection of the
   source value; filled = the zero-filled target fields (none when checking is disabled); required target fields
   are all present when checking is enabled *)
Theorem C11_project_struct_exact :
  forall d o pe f a b ffs tfs fs out,
  struct_def d a = Some ffs -> struct_def d b = Some tfs -> tys_ok tfs -> pe (TStruct a) (TStruct b) = false ->
  project d o pe (S f) (TStruct a) (TStruct b) (VStruct fs) = COk (VStruct out) ->
  exists kept,
    Forall2 (fun p q => fst q = fst p /\ exists ff tf, find_fld (fst p) ffs = Some ff /\ find_fld (fst p) tfs = Some tf /\
                                                   project d o pe f (fld_ty ff) (fld_ty tf) (snd p) = COk (snd q))
            (filter (fun p => in_both ffs tfs (fst p)) fs) kept /\
    map fst kept = filter (in_both ffs tfs) (map fst fs) /\
    out = kept ++ (if o_not_check_req o then []
                   else map (fun tf => (fld_id tf, zero_or (fld_ty tf))) (filter (is_filled o (map fst kept)) (sort_flds tfs))) /\
    (o_not_check_req o = false -> forall tf, In tf tfs -> fld_req tf = 1 -> In (fld_id tf) (map fst kept)).
Proof. exact project_struct_exact. Qed.
Print Assumptions C11_project_struct_exact.

Theorem C11_project_scalar_unchanged :
  forall d o pe fuel from c v v', project d o pe fuel from (TScalar c) v = COk v' -> v' = v.
Proof. exact project_scalar_unchanged. Qed.
Print Assumptions C11_project_scalar_unchanged.

Theorem C11_project_list_elementwise :
  forall d o pe f fe te et es v',
  pe fe te = false -> project d o pe (S f) (TList fe) (TList te) (VList et es) = COk v' ->
  exists l, v' = VList et l /\ Forall2 (fun x x' => project d o pe f fe te x = COk x') es l.
Proof. exact project_list_exact. Qed.
Print Assumptions C11_project_list_elementwise.

Theorem C11_project_map_entrywise :
  forall d o pe f fk tk fe te kt vt es v',
  pe fe te && pe fk tk = false -> project d o pe (S f) (TMap fk fe) (TMap tk te) (VMap kt vt es) = COk v' ->
  exists l, v' = VMap kt vt l /\
    Forall2 (fun p q => project d o pe f fk tk (fst p) = COk (fst q) /\ project d o pe f fe te (snd p) = COk (snd q)) es l.
Proof. exact project_map_exact. Qed.
Print Assumptions C11_project_map_entrywise.

(* (4) the output is a well-formed value: it decodes back to the projection *)
Theorem C11_output_wellformed :
  forall d o, defs_okb d = true -> forall pe fuel from to v v',
  wf v = true -> project d o pe fuel from to v = COk v' ->
  wf v' = true /\ forall dd r, (depth v' <= dd)%nat -> decode dd (type_of v') (encode v' ++ r) = Some (v', r).
Proof.
  intros d o Hd pe fuel from to v v' Hw Hp. pose proof (project_wf d o Hd pe fuel from to v v' Hw Hp) as Hw'.
  split; [exact Hw'|]. intros dd r Hdd. apply decode_encode; assumption.
Qed.
Print Assumptions C11_output_wellformed.

(* (5) a required target field that is not produced is an error exactly when requiredness checking is enabled
   (and that is the only error the STOP handling can raise) *)
Theorem C11_missing_required_iff_checking :
  forall d o pe f a b ffs tfs fs kept,
  struct_def d a = Some ffs -> struct_def d b = Some tfs -> tys_ok tfs -> pe (TStruct a) (TStruct b) = false ->
  proj_fields o (project d o pe f) ffs tfs fs = COk kept ->
  (project d o pe (S f) (TStruct a) (TStruct b) (VStruct fs) = CErr 3 <->
   o_not_check_req o = false /\ exists tf, In tf tfs /\ fld_req tf = 1 /\ ~ In (fld_id tf) (map fst kept)) /\
  (forall c, project d o pe (S f) (TStruct a) (TStruct b) (VStruct fs) = CErr c -> c = 3).
Proof. exact project_missing_required. Qed.
Print Assumptions C11_missing_required_iff_checking.

(* (6) default-requiredness target fields that the source does not provide are zero-filled exactly under WriteDefault *)
Theorem C11_default_zero_fill_iff_write_default :
  forall d o pe f a b ffs tfs fs out tf,
  struct_def d a = Some ffs -> struct_def d b = Some tfs -> tys_ok tfs -> pe (TStruct a) (TStruct b) = false ->
  project d o pe (S f) (TStruct a) (TStruct b) (VStruct fs) = COk (VStruct out) ->
  o_not_check_req o = false ->
  In tf tfs -> fld_req tf = 0 -> ~ In (fld_id tf) (filter (in_both ffs tfs) (map fst fs)) ->
  (In (fld_id tf) (map fst out) <-> o_write_default o = true) /\
  (o_write_default o = true -> In (fld_id tf, zero_or (fld_ty tf)) out).
Proof. exact project_default_fill. Qed.
Print Assumptions C11_default_zero_fill_iff_write_default.

(* (7) the raw-copy shortcut is sound: whichever sub-descriptor pairs are recognised as identical (any two predicates
   that only hold for equal descriptors - pointer equality inside one parse, none across parses), a fully conforming
   value is projected onto a kind-compatible target in the same way; in particular as by the plain recursive walk *)
Theorem C11_shortcut_sound :
  forall d o pe1 pe2,
  (forall a b, pe1 a b = true -> a = b) -> (forall a b, pe2 a b = true -> a = b) ->
  forall fuel from to v, compat d fuel from to = true -> full d o fuel from v = true ->
  project d o pe1 fuel from to v = project d o pe2 fuel from to v.
Proof. exact shortcut_sound. Qed.
Print Assumptions C11_shortcut_sound.

Lemma pe_parse_sound s a b : pe_parse s a b = true -> a = b.
Proof.
  destruct a, b; cbn [pe_parse]; try discriminate.
  - intros H. apply Z.eqb_eq in H. congruence.
  - intros H. apply andb_true_iff in H. destruct H as [_ H]. apply Z.eqb_eq in H. congruence.
Qed.
Theorem C11_pointer_equality_cannot_change_result :
  forall d o s fuel from to v, compat d fuel from to = true -> full d o fuel from v = true ->
  project d o (pe_parse s) fuel from to v = project d o pe_none fuel from to v.
Proof. intros. apply shortcut_sound; auto; [apply pe_parse_sound|discriminate]. Qed.
Print Assumptions C11_pointer_equality_cannot_change_result.

(* ---- non-vacuity and the recorded defect ---- *)
Definition ex_defs : defs :=
  [ [(1, 0, TScalar T_I32); (2, 1, TStruct 1); (3, 2, TList (TStruct 1))];     (* S0 *)
    [(1, 0, TScalar T_I32); (5, 0, TScalar T_STRING)];                        (* S1 *)
    [(2, 1, TStruct 1); (3, 2, TList (TStruct 3)); (9, 0, TScalar T_I64)];     (* S2: variant of S0 *)
    [(5, 0, TScalar T_STRING)] ].                                             (* S3: variant of S1 *)
Definition ex_opts : cut_opts := {| o_disallow_unknown := false; o_not_check_req := false; o_write_default := true; o_opt_bitmap := false |}.
Definition ex_val : tval :=
  VStruct [(1, VI32 7); (2, VStruct [(1, VI32 1); (5, VString [104])]); (3, VList T_STRUCT [VStruct [(1, VI32 2); (5, VString [])]])].

Example ex_hyps : defs_okb ex_defs = true /\ wf ex_val = true /\ conf ex_defs 5 (TStruct 0) ex_val = true /\
                  full ex_defs ex_opts 5 (TStruct 0) ex_val = true /\ compat ex_defs 5 (TStruct 0) (TStruct 2) = true.
Proof. vm_compute. repeat split; reflexivity. Qed.

(* S0 -> S2: field 1 dropped, shared struct S1 under field 2 raw-copied, list elements cut to S3, field 9 zero-filled *)
Example ex_cut :
  project ex_defs ex_opts (pe_parse true) 5 (TStruct 0) (TStruct 2) ex_val =
  COk (VStruct [(2, VStruct [(1, VI32 1); (5, VString [104])]); (3, VList T_STRUCT [VStruct [(5, VString [])]]); (9, VI64 0)]).
Proof. vm_compute. reflexivity. Qed.

(* finding 1101: the unrepaired `if from == to { return nil }` (quirk = true) yields an empty output for the identical
   descriptor, where the property (and the repaired code) demand the input itself *)
Example C11_quirk_1101_refuted :
  cut ex_defs ex_opts (pe_parse true) true 5 (TStruct 0) (TStruct 0) (encode ex_val) = COk ([], encode ex_val) /\
  cut ex_defs ex_opts (pe_parse true) false 5 (TStruct 0) (TStruct 0) (encode ex_val) = COk (encode ex_val, []).
Proof. vm_compute. split; reflexivity. Qed.

(* ================= Protobuf half (proto/generic Value.MarshalTo) ================= *)
From DG Require Import CaseFormat ProtoCut ProtoCutProofs.

(* at every message level the output holds exactly the source fields whose NUMBER is declared by both schemas, in
   source order; scalar-kind fields keep their raw bytes, message-kind fields hold the projection of their payload *)
Theorem C11_proto_fields_exact :
  forall dis rec ffs tfs fs out, pproj_fields dis rec ffs tfs fs = COk out ->
  Forall2 (fun f t => match f with WF num wt raw =>
             exists ff tf, pfind num ffs = Some ff /\ pfind num tfs = Some tf /\ pf_kind ff = pf_kind tf /\
               ((pf_kind ff <> K_MESSAGE /\ t = TLeaf num wt raw) \/
                (pf_kind ff = K_MESSAGE /\ wt = 2 /\ exists kids, rec (pf_sub ff) (pf_sub tf) (payload raw) = COk kids /\ t = TMsg num wt kids)) end)
          (filter (fun f => p_in_both ffs tfs (wf_num f)) fs) out.
Proof. exact pproj_fields_exact. Qed.
Print Assumptions C11_proto_fields_exact.

Theorem C11_proto_numbers_are_intersection_in_source_order :
  forall dis rec ffs tfs fs out, pproj_fields dis rec ffs tfs fs = COk out ->
  map tree_num out = filter (p_in_both ffs tfs) (map wf_num fs).
Proof. exact pproj_fields_numbers. Qed.
Print Assumptions C11_proto_numbers_are_intersection_in_source_order.

Theorem C11_proto_unknown_is_error_when_disallowed :
  forall dis rec ffs tfs fs, (exists f, In f fs /\ pfind (wf_num f) ffs = None) -> dis = true ->
  forall out, pproj_fields dis rec ffs tfs fs <> COk out.
Proof. exact pproj_fields_unknown. Qed.
Print Assumptions C11_proto_unknown_is_error_when_disallowed.

(* the generic wire decoder the check judges with reads back every canonically encoded field sequence *)
Theorem C11_proto_wire_decoder_roundtrip :
  forall fs, Forall wfield_ok fs -> forall fuel, (length fs < fuel)%nat -> wire_fields fuel (flat_map enc_wfield fs) = Some fs.
Proof. exact wire_fields_enc. Qed.
Print Assumptions C11_proto_wire_decoder_roundtrip.

(* the byte-level walker (mirror of marshalTo: ConsumeTag, Skip per wire type, ReadLength, speculative length, inner errors
   propagated) computes exactly the encoding of the projected wire tree - tags re-encoded, lengths recomputed - for every
   message whose projection exists, at every nesting depth *)
From DG Require Import ProtoCutRefine.
Theorem C11_proto_cut_refines_projection :
  forall d dis fuel fi ti bs forest, small bs -> pproject d dis fuel fi ti bs = COk forest ->
  pbcut d dis false fuel fi ti bs 0 = (0, [], enc_forest forest).
Proof. exact pbcut_whole_message. Qed.
Print Assumptions C11_proto_cut_refines_projection.

(* FULL REFINEMENT (mirror of C11_cut_refines_project for Protobuf). [pspec] is the projection with the order in which errors
   surface, on frames: complete ones and truncated ones (inc = true: the declared length exceeded the bytes left), with
   be = "nothing follows the frame in the buffer". For EVERY frame in the domain - all inputs except those pspec marks with
   code 5: group / reserved wire types, a message-kind field not arriving length-delimited, a length >= 2^63, a record
   or sub message overrunning its frame while other bytes follow in the buffer - at every nesting depth (message fields,
   elements of repeated messages, map entries and their message values; packed and unpacked scalars are copied as records):
     spec succeeds  =>  the walker returns nil error, has consumed exactly the frame, and its output is exactly the encoding of
                        the projected tree (tags re-encoded, lengths recomputed);
     spec fails with 1 (unknown field, disallowed) / 2 (descriptor kinds differ) / 4 (malformed or truncated)
                    =>  the walker fails with the same class.
   So the byte-level cut fails exactly when the spec does. *)
Theorem C11_proto_cut_refines_spec_full :
  forall d dis fuel fi ti frame beyond inc stop,
  small (frame ++ beyond) -> (inc = true -> beyond = [] /\ stop < 0) -> (inc = false -> stop = Z.of_nat (length beyond)) ->
  match pspec d dis fuel fi ti frame inc (nilb beyond) with
  | COk forest => pbcut d dis false fuel fi ti (frame ++ beyond) stop = (0, beyond, enc_forest forest)
  | CErr c => c = 5 \/ (cls (pbcut d dis false fuel fi ti (frame ++ beyond) stop) = c /\ c <> 0)
  end.
Proof.
  intros d dis fuel fi ti frame beyond inc stop Hs Hi Hc.
  pose proof (pbcut_refines_pspec d dis fuel fi ti frame beyond inc stop Hs Hi Hc) as H. unfold agrees in H.
  destruct (pspec d dis fuel fi ti frame inc (nilb beyond)); exact H.
Qed.
Print Assumptions C11_proto_cut_refines_spec_full.

(* the whole buffer as MarshalTo sees it (one complete frame, nothing beyond): success iff success, same error class *)
Theorem C11_proto_MarshalTo_fails_exactly_when_spec_fails :
  forall d dis fuel fi ti bs, small bs -> pspec d dis fuel fi ti bs false true <> CErr 5 ->
  (forall forest, pspec d dis fuel fi ti bs false true = COk forest -> pbcut d dis false fuel fi ti bs 0 = (0, [], enc_forest forest)) /\
  (forall c, pspec d dis fuel fi ti bs false true = CErr c -> cls (pbcut d dis false fuel fi ti bs 0) = c /\ c <> 0) /\
  (cls (pbcut d dis false fuel fi ti bs 0) = 0 <-> exists forest, pspec d dis fuel fi ti bs false true = COk forest).
Proof.
  intros d dis fuel fi ti bs Hs H5.
  pose proof (pbcut_refines_pspec d dis fuel fi ti bs [] false 0) as H. rewrite app_nil_r in H.
  specialize (H Hs ltac:(discriminate) ltac:(reflexivity)). cbn [nilb] in H. unfold agrees in H.
  destruct (pspec d dis fuel fi ti bs false true) as [l|c] eqn:E.
  - split; [|split].
    + intros forest Ef. inversion Ef; subst. exact H.
    + discriminate.
    + rewrite H. split; [intros _; exists l; reflexivity|reflexivity].
  - destruct H as [->|[Hc Hc0]]; [contradiction|]. split; [|split].
    + discriminate.
    + intros c' Ec. inversion Ec; subst. auto.
    + split; [intros H0; congruence|intros [forest Ef]; discriminate].
Qed.
Print Assumptions C11_proto_MarshalTo_fails_exactly_when_spec_fails.

(* an incomplete (truncated) frame never succeeds *)
Theorem C11_proto_truncated_frame_never_succeeds :
  forall d dis fuel fi ti bs be l, pspec d dis fuel fi ti bs true be <> COk l.
Proof. exact pspec_inc_never_ok. Qed.
Print Assumptions C11_proto_truncated_frame_never_succeeds.

(* the two specs agree on success: whenever the sequential spec succeeds on a complete frame, the declarative projection
   (decode the level, keep the numbers declared by both schemas in source order, project message-kind payloads recursively)
   yields the SAME tree - so C11_proto_fields_exact / C11_proto_numbers_are_intersection_in_source_order describe what the
   walker outputs for every input it accepts *)
Theorem C11_proto_spec_success_is_projection :
  forall d dis fuel fi ti bs be l, bytes_ok bs ->
  pspec d dis fuel fi ti bs false be = COk l -> pproject d dis fuel fi ti bs = COk l.
Proof. exact pspec_ok_pproject. Qed.
Print Assumptions C11_proto_spec_success_is_projection.

(* F{x=7, m={a=10, b="x"}} cut from FU{1:int32, 2:InU{2:string}, 7:string} to itself with DisallowUnknown: the nested
   field 1 is unknown -> the specification demands an error; the unrepaired walker (quirk) drops the inner error *)
Definition ex_pdefs : pdefs := [ [(1, 5, -1); (2, 11, 1); (7, 9, -1)]; [(2, 9, -1)] ].
Definition ex_pmsg : list Z := [8; 7; 18; 5; 8; 10; 18; 1; 120].
Example C11_proto_example_spec : pproject ex_pdefs true 10 0 0 ex_pmsg = CErr 1.
Proof. vm_compute. reflexivity. Qed.
Example C11_proto_example_allowed :
  pproject ex_pdefs false 10 0 0 ex_pmsg = COk [TLeaf 1 0 [7]; TMsg 2 2 [TLeaf 2 2 [1; 120]]] /\
  pbcut ex_pdefs false false 10 0 0 ex_pmsg 0 = (0, [], [8; 7; 18; 3; 18; 1; 120]).
Proof. vm_compute. split; reflexivity. Qed.
Example C11_quirk_1102_refuted :
  fst (fst (pbcut ex_pdefs true false 10 0 0 ex_pmsg 0)) = 1 /\
  pbcut ex_pdefs true true 10 0 0 ex_pmsg 0 <> pbcut ex_pdefs true false 10 0 0 ex_pmsg 0.
Proof. vm_compute. split; [reflexivity|discriminate]. Qed.

(* ================================================================== (G) thrift/utils.go CheckRequires from the source *)
(* the decision RequiresBitmap.CheckRequires takes for a marked bit (gen/Gen_thriftreq.v, regenerated from the Go text on every
   build) is the decision of the cutting model's [owed]: required -> error, otherwise skip unless WriteDefault, then the handler
   (handleUnsets writes the zero value); a marked bit without a field is an error *)
From DG Require Requireness.
From DG Require Import Gen_thriftreq Check20g GenThriftreqProofs.

Theorem C11_CheckRequires_source_is_decision :
  forall wd f i v j, (Requireness.f_req f = 0 \/ Requireness.f_req f = 1 \/ Requireness.f_req f = 2) ->
  CheckRequires_marked wd i v j (ck_f f) = marked_result (blk_id i j) v (Requireness.check_requires_decision wd f).
Proof. exact CheckRequires_marked_is_decision. Qed.
Print Assumptions C11_CheckRequires_source_is_decision.

Theorem C11_CheckRequires_source_nil_field :
  forall wd i v j r,
  CheckRequires_marked wd i v j {| CheckRequires_marked_f_Required := r; CheckRequires_marked_f_isnil := true |}
    = (Out_return, v, [(Eff_FieldById, [blk_id i j]); (Eff_errInvalidBitmapId, [blk_id i j])]).
Proof. exact CheckRequires_marked_nil. Qed.
Print Assumptions C11_CheckRequires_source_nil_field.

(* ... and [owed] (ThriftCut.v) takes exactly that decision for a tracked target field that was not written *)
Theorem C11_owed_step_is_CheckRequires_decision :
  forall o f r w, mem_id (fld_id f) w = false -> tracked o f = true ->
  owed o (f :: r) w =
    match Requireness.check_requires_decision (o_write_default o) {| Requireness.f_id := fld_id f; Requireness.f_req := fld_req f; Requireness.f_hasdef := false |} with
    | Requireness.AMissing => CErr 3
    | Requireness.ASkip => owed o r w
    | _ => match zero_of (fld_ty f), owed o r w with
           | Some z, COk l => COk ((fld_id f, z) :: l)
           | None, _ => CErr 4
           | _, CErr c => CErr c
           end
    end.
Proof. exact owed_step_is_check_requires_decision. Qed.
Print Assumptions C11_owed_step_is_CheckRequires_decision.

(* the zero value handleUnsets writes for an owed field (BinaryProtocol.WriteEmpty, gen/Gen_thriftempty.v from the Go source) is the
   encoding of the model's zero_of *)
From DG Require Gen_thriftempty GenThriftemptyProofs.
Theorem C11_WriteEmpty_source_writes_zero :
  forall t z, zero_of t = Some z -> 0 <= GenThriftemptyProofs.key_code t < 256 -> 0 <= GenThriftemptyProofs.elem_code t < 256 ->
  fst (Gen_thriftempty.BinaryProtocol_WriteEmpty (GenThriftemptyProofs.desc_of_ty t) 0 0 0 0 0 0 0 0 0 0) = 0 /\
  empty_bytes (snd (Gen_thriftempty.BinaryProtocol_WriteEmpty (GenThriftemptyProofs.desc_of_ty t) 0 0 0 0 0 0 0 0 0 0)) = encode z.
Proof. exact GenThriftemptyProofs.WriteEmpty_writes_zero. Qed.
Print Assumptions C11_WriteEmpty_source_writes_zero.
