(* C11 — cutting. Theorem set extended in later commits. *)
From Coq Require Import ZArith List Bool Lia.
From DG Require Import ProtoWireRef ThriftWire ThriftWireProofs ThriftCut.
Import ListNotations.
Local Open Scope Z_scope.

(* cutting with the identical (same) descriptor reproduces the input, whatever the other options say *)
Theorem C11_identical_descriptor_reproduces_input :
  forall d o fuel a fs, o_shared o = true ->
  project d o (S fuel) (TStruct a) (TStruct a) (VStruct fs) = COk (VStruct fs).
Proof. intros d o fuel a fs Hs. cbn [project]. rewrite Hs, Z.eqb_refl. reflexivity. Qed.
Print Assumptions C11_identical_descriptor_reproduces_input.

(* and the re-encoded result decodes back (the output is a well-formed value) *)
Theorem C11_output_wellformed_roundtrip :
  forall v, wf v = true -> forall dd r, (depth v <= dd)%nat -> decode dd (type_of v) (encode v ++ r) = Some (v, r).
Proof. exact decode_encode. Qed.
Print Assumptions C11_output_wellformed_roundtrip.
