(* C11 — cutting. *)
From Coq Require Import ZArith List Bool Lia.
From DG Require Import ProtoWireRef ThriftWire ThriftWireProofs ThriftCut.
Import ListNotations.
Local Open Scope Z_scope.

(* and the re-encoded result decodes back (the output is a well-formed value) *)
Theorem C11_output_wellformed_roundtrip :
  forall v, wf v = true -> forall dd r, (depth v <= dd)%nat -> decode dd (type_of v) (encode v ++ r) = Some (v, r).
Proof. exact decode_encode. Qed.
Print Assumptions C11_output_wellformed_roundtrip.
