(* C16 - requiredness, defaults and unknown-field options. Statements only; proofs in proofs/RequirenessProofs.v and
   proofs/Check16Proofs.v. *)
From Coq Require Import ZArith List Bool Lia.
From DG Require Import CaseFormat ThriftWire ThriftCut Requireness RequirenessProofs Check16 Check16Proofs.
Import ListNotations.
Local Open Scope Z_scope.

(* (1) the pooled, possibly dirty bitmap implements the set of owed ids: for every content of the pool memory, after
   CopyTo and any sequence of Set - including growth beyond the copied length (ids beyond 64, 256, ...) - IsSet answers
   exactly as function update on ids does *)
Theorem C16_bitmap_refines_set :
  forall src pool ops, (forall op, In op ops -> 0 <= fst op) ->
  forall id, 0 <= id ->
  bm_is_set (fold_left (fun b op => bm_set b (fst op) (snd op)) ops (bm_copy_to src pool)) id =
  fold_left set_sem ops (fun x => bm_is_set {| words := src; spare := [] |} x) id.
Proof. exact bitmap_refines_set. Qed.
Print Assumptions C16_bitmap_refines_set.

Theorem C16_bitmap_pool_independent :
  forall src pool1 pool2 ops, (forall op, In op ops -> 0 <= fst op) ->
  forall id, 0 <= id ->
  bm_is_set (fold_left (fun b op => bm_set b (fst op) (snd op)) ops (bm_copy_to src pool1)) id =
  bm_is_set (fold_left (fun b op => bm_set b (fst op) (snd op)) ops (bm_copy_to src pool2)) id.
Proof. exact bitmap_pool_independent. Qed.
Print Assumptions C16_bitmap_pool_independent.

(* the scan of HandleRequires / CheckRequires / j2t_write_unset_fields visits exactly the marked ids *)
Theorem C16_scan_visits_marked_ids : forall b id, In id (bm_scan b) <-> 0 <= id /\ bm_is_set b id = true.
Proof. exact bm_scan_in. Qed.
Print Assumptions C16_scan_visits_marked_ids.

(* (2) the truth table of the property: all requiredness values x 2^3 write options x SetOptionalBitmap x
   UseDefaultValue x declared / undeclared default *)
Theorem C16_rule_truth_table :
  forall p w f, (f_req f = 0 \/ f_req f = 1 \/ f_req f = 2) ->
  (rule p w f = AMissing <-> f_req f = 1 /\ w_require w = false) /\
  (is_write (rule p w f) <->
     (f_req f = 1 /\ w_require w = true) \/ (f_req f = 0 /\ w_default w = true) \/
     (f_req f = 2 /\ p_opt_bitmap p = true /\ (w_optional w = true \/ (p_use_default p = true /\ f_hasdef f = true)))) /\
  (is_write (rule p w f) -> (rule p w f = AWriteDefault <-> p_use_default p = true /\ f_hasdef f = true)).
Proof. exact rule_truth_table. Qed.
Print Assumptions C16_rule_truth_table.

(* the decision conditions of the implementations against the rule *)
Theorem C16_HandleRequires_is_rule :
  forall p w f, tracked p f = true -> (f_req f = 0 \/ f_req f = 1 \/ f_req f = 2) -> handle_requires_decision p w f = rule p w f.
Proof. exact handle_requires_is_rule. Qed.
Print Assumptions C16_HandleRequires_is_rule.

Theorem C16_native_decision_vs_rule :
  forall p w f, tracked p f = true -> (f_req f = 0 \/ f_req f = 1 \/ f_req f = 2) ->
  native_decision p w f = if (f_req f =? 2) && negb (w_optional w) && parsed_default p f then ASkip else rule p w f.
Proof. exact native_decision_vs_rule. Qed.
Print Assumptions C16_native_decision_vs_rule.

(* (3) end to end for one struct instance (descriptor bitmap built by convertRequireness, CopyTo into dirty pooled memory,
   one Set(Optional) per field seen, scan, decision per marked bit): for all descriptors (distinct non-negative ids, any
   size), all sets of present fields, all options, all pool contents *)
Theorem C16_requires_truth_table :
  forall p w fs present pool,
  NoDup (map f_id fs) -> (forall f, In f fs -> 0 <= f_id f) ->
  (forall f, In f fs -> f_req f = 0 \/ f_req f = 1 \/ f_req f = 2) -> (forall i, In i present -> 0 <= i) ->
  let R := run_struct (handle_requires_decision p w) p fs present pool in
  R <> HNil /\
  (R = HMissing <-> exists f, In f fs /\ ~ In (f_id f) present /\ rule p w f = AMissing) /\
  (forall l, R = HOk l ->
     (forall f a, In f fs -> (In (f_id f, a) l <-> ~ In (f_id f) present /\ rule p w f = a /\ is_write a)) /\
     (forall id a, In (id, a) l -> exists f, In f fs /\ f_id f = id)).
Proof. exact requires_truth_table. Qed.
Print Assumptions C16_requires_truth_table.

(* (4) frame: no option alters or drops a present field; unknown members fail exactly when disallowed *)
Theorem C16_present_fields_untouched :
  forall d disallow decide trk null_seen fu si ms l,
  expect16 d disallow decide trk null_seen (S fu) si ms = EOk l ->
  exists fs, cstruct d si = Some fs /\
  (forall id b j, In (PVal id b j) ms -> exists f, cfind id fs = Some f /\ In (OVal f (SGiven b j)) l) /\
  (forall id kids, In (PSub id kids) ms ->
     exists f ks, cfind id fs = Some f /\ expect16 d disallow decide trk null_seen fu (c_sub f) kids = EOk ks /\ In (OSub f ks) l) /\
  (forall f s, In (OVal f s) l -> (exists b j, s = SGiven b j /\ In (PVal (c_id f) b j) ms) \/ s = SDefault \/ s = SZero).
Proof. exact present_fields_untouched. Qed.
Print Assumptions C16_present_fields_untouched.

Theorem C16_unknown_member_needs_permission :
  forall d disallow decide trk null_seen fu si ms l,
  In PUnknown ms -> expect16 d disallow decide trk null_seen (S fu) si ms = EOk l -> disallow = false.
Proof. exact unknown_member_error. Qed.
Print Assumptions C16_unknown_member_needs_permission.

(* ---- non-vacuity ---- *)
Definition ex_fs : list fld :=
  [ {| f_id := 1; f_req := 1; f_hasdef := false |}; {| f_id := 64; f_req := 0; f_hasdef := true |};
    {| f_id := 257; f_req := 2; f_hasdef := true |}; {| f_id := 4000; f_req := 2; f_hasdef := false |} ].
Definition ex_p : popts := {| p_opt_bitmap := true; p_use_default := true |}.
Definition ex_w : wopts := {| w_require := true; w_default := false; w_optional := false; w_disallow_unknown := false |}.

(* a dirty pool (all bits set, 70 words) changes nothing; ids 257 and 4000 lie beyond the 4 words of make(len(fields)) *)
Example ex_run : run_struct (handle_requires_decision ex_p ex_w) ex_p ex_fs [64] (repeat (2 ^ 64 - 1) 70)
                 = HOk [(1, AWriteZero); (257, AWriteDefault)].
Proof. vm_compute. reflexivity. Qed.
Example ex_missing : run_struct (handle_requires_decision ex_p {| w_require := false; w_default := true; w_optional := true; w_disallow_unknown := false |})
                       ex_p ex_fs [64; 257] [5; 6] = HMissing.
Proof. vm_compute. reflexivity. Qed.
Example ex_hyps : NoDup (map f_id ex_fs) /\ (forall f, In f ex_fs -> 0 <= f_id f).
Proof.
  split.
  - cbn. repeat constructor; cbn; intuition discriminate.
  - intros f H. cbn in H. intuition (subst; cbn; lia).
Qed.

(* ================================================================== (G) ties to the Go source (regenerated on every build) *)
(* (G1) conv/j2t toFlags (gen/Gen_j2tflags.v): the write options and DisallowUnknownField reach the native converter as the
   model's option record, for every setting of all nine options *)
From DG Require Import NativeFlags Gen_nativetypes Gen_j2tflags Check20g GenJ2tflagsProofs.

Theorem C16_toFlags_denotes_wopts :
  forall o, wopts_of_flags (toFlags o) =
  {| w_require := toFlags_opts_WriteRequireField o; w_default := toFlags_opts_WriteDefaultField o;
     w_optional := toFlags_opts_WriteOptionalField o; w_disallow_unknown := toFlags_opts_DisallowUnknownField o |}.
Proof. exact toFlags_wopts. Qed.
Print Assumptions C16_toFlags_denotes_wopts.

(* DisallowUnknownField is the absence of F_ALLOW_UNKNOWN; each write option is its own bit *)
Theorem C16_toFlags_tests :
  forall o,
  flag_on (toFlags o) NF_WRITE_DEFAULT = toFlags_opts_WriteDefaultField o /\
  flag_on (toFlags o) NF_ALLOW_UNKNOWN = negb (toFlags_opts_DisallowUnknownField o) /\
  flag_on (toFlags o) NF_VALUE_MAPPING = toFlags_opts_EnableValueMapping o /\
  flag_on (toFlags o) NF_HTTP_MAPPING = toFlags_opts_EnableHttpMapping o /\
  flag_on (toFlags o) NF_STRING_INT = toFlags_opts_String2Int64 o /\
  flag_on (toFlags o) NF_WRITE_REQUIRE = toFlags_opts_WriteRequireField o /\
  flag_on (toFlags o) NF_NO_BASE64 = toFlags_opts_NoBase64Binary o /\
  flag_on (toFlags o) NF_WRITE_OPTIONAL = toFlags_opts_WriteOptionalField o /\
  flag_on (toFlags o) NF_TRACE_BACK = (toFlags_opts_ReadHttpValueFallback o || (toFlags_opts_EnableHttpMapping o && toFlags_opts_TracebackRequredOrRootFields o)).
Proof. exact toFlags_tests. Qed.
Print Assumptions C16_toFlags_tests.

Theorem C16_flags_of_wopts_from_source :
  forall w : wopts, flags_of_wopts w = toFlags (opts_of_wopts w) /\ wopts_of_flags (toFlags (opts_of_wopts w)) = w.
Proof. intro w. split; [apply flags_of_wopts_is_toFlags | apply wopts_flags_roundtrip]. Qed.
Print Assumptions C16_flags_of_wopts_from_source.

Example ex_toFlags_wopts : toFlags (opts_of_wopts {| w_require := true; w_default := false; w_optional := true; w_disallow_unknown := true |}) = 160.
Proof. reflexivity. Qed.

(* (G2) thrift/idl.go convertRequireness and the marked-bit decision of thrift/utils.go HandleRequires, translated from the Go source
   (gen/Gen_thriftreq.v).  C16_HandleRequires_is_rule above speaks about the hand mirror handle_requires_decision; the theorems below
   state the same about the GENERATED definitions. *)
From DG Require Import Gen_thriftreq GenThriftreqProofs.

(* convertRequireness on an ordinary field: f.required becomes the IDL requiredness and the ONE call requires.Set(f.id, v) marks the
   bit exactly when the model says the field is tracked (required / default always, optional iff SetOptionalBitmap) *)
Theorem C16_convertRequireness_source_is_tracked :
  forall p f old, (f_req f = 0 \/ f_req f = 1 \/ f_req f = 2) ->
  convertRequireness (f_req f) (cr_f (f_id f) false false old) (cr_o p)
    = Some (go_req (f_req f), [(Eff_Set, [f_id f; bitmap_value p (f_req f)])]) /\
  set_marks (bitmap_value p (f_req f)) = tracked p f.
Proof. exact convertRequireness_ordinary. Qed.
Print Assumptions C16_convertRequireness_source_is_tracked.

(* thrift base fields are never tracked; any requiredness outside default / required / optional panics *)
Theorem C16_convertRequireness_source_base_and_invalid :
  (forall r id rb sb old o, (r = 0 \/ r = 1 \/ r = 2) -> rb || sb = true ->
     convertRequireness r (cr_f id rb sb old) o = Some (go_req r, [(Eff_Set, [id; OptionalRequireness])]) /\ set_marks OptionalRequireness = false) /\
  (forall r f o, r <> 0 -> r <> 1 -> r <> 2 -> convertRequireness r f o = None).
Proof. split; [exact convertRequireness_base | exact convertRequireness_invalid]. Qed.
Print Assumptions C16_convertRequireness_source_base_and_invalid.

(* HandleRequires, decision for a marked bit, from the source: for the descriptor field the model describes (hr_f: Required() is the IDL
   requiredness, DefaultValue() == nil iff there is no parsed default) the block looks up id = 64 i + j and then does exactly what the
   RULE says - error, skip (shifting the word), or the handler - for every option set, word index, bit index and word content *)
Theorem C16_HandleRequires_source_is_rule :
  forall p w f i v j, tracked p f = true -> (f_req f = 0 \/ f_req f = 1 \/ f_req f = 2) ->
  HandleRequires_marked (w_require w) (w_default w) (w_optional w) i v j (hr_f p f) = marked_result (blk_id i j) v (rule p w f).
Proof. exact HandleRequires_marked_is_rule. Qed.
Print Assumptions C16_HandleRequires_source_is_rule.

(* ... the hand mirror is the generated decision (so every theorem above about handle_requires_decision is about the source) *)
Theorem C16_HandleRequires_source_is_mirror :
  forall p w f i v j, (f_req f = 0 \/ f_req f = 1 \/ f_req f = 2) ->
  HandleRequires_marked (w_require w) (w_default w) (w_optional w) i v j (hr_f p f)
    = marked_result (blk_id i j) v (handle_requires_decision p w f).
Proof. exact HandleRequires_marked_is_decision. Qed.
Print Assumptions C16_HandleRequires_source_is_mirror.

(* the id looked up is the one the model's scan reports for that position, and the caller-visible outcome is the rule's *)
Theorem C16_HandleRequires_source_observed :
  forall p w f id v, tracked p f = true -> (f_req f = 0 \/ f_req f = 1 \/ f_req f = 2) -> 0 <= id < 65536 ->
  blk_id (id / 64) (id mod 64) = id /\
  decode_marked (HandleRequires_marked (w_require w) (w_default w) (w_optional w) (id / 64) v (id mod 64) (hr_f p f))
    = Some (obs_of_action (rule p w f) id).
Proof. intros. split; [apply blk_id_of_id; assumption | apply HandleRequires_marked_observed; assumption]. Qed.
Print Assumptions C16_HandleRequires_source_observed.

Example ex_HandleRequires_source :
  let p := {| p_opt_bitmap := true; p_use_default := true |} in
  let f := {| f_id := 65; f_req := 2; f_hasdef := true |} in
  let w := {| w_require := false; w_default := false; w_optional := false; w_disallow_unknown := false |} in
  HandleRequires_marked false false false 1 1 1 (hr_f p f) = (Out_fall, 1, [(Eff_FieldById, [65]); (Eff_handler, [])]) /\ rule p w f = AWriteDefault.
Proof. split; reflexivity. Qed.

(* (G3) thrift/binary.go WriteEmpty from the source (gen/Gen_thriftempty.v): the "zero value" the rule's AWriteZero stands for.
   For every type the models fill (ThriftCut.zero_of t = Some z) the call sequence of WriteEmpty, read through the lower generated levels
   (WriteListBegin / WriteMapBegin / WriteFieldStop / WriteBool of gen/Gen_thriftbin.v, gen/Gen_thriftends.v), writes no error and exactly
   ThriftWire.encode z; every other type byte is an error with nothing written. *)
From DG Require Gen_thriftempty Gen_thriftends Gen_thriftbin ThriftCut GenThriftemptyProofs.

Theorem C16_WriteEmpty_source_writes_zero :
  forall t z, ThriftCut.zero_of t = Some z -> 0 <= GenThriftemptyProofs.key_code t < 256 -> 0 <= GenThriftemptyProofs.elem_code t < 256 ->
  fst (Gen_thriftempty.BinaryProtocol_WriteEmpty (GenThriftemptyProofs.desc_of_ty t) 0 0 0 0 0 0 0 0 0 0) = 0 /\
  empty_bytes (snd (Gen_thriftempty.BinaryProtocol_WriteEmpty (GenThriftemptyProofs.desc_of_ty t) 0 0 0 0 0 0 0 0 0 0)) = encode z.
Proof. exact GenThriftemptyProofs.WriteEmpty_writes_zero. Qed.
Print Assumptions C16_WriteEmpty_source_writes_zero.

Theorem C16_WriteEmpty_source_invalid_type :
  forall typ key elem, ~ In typ [2; 3; 6; 8; 10; 4; 11; 15; 14; 13; 12] -> gen_write_empty typ key elem = (GoSem.Err_NewError, []).
Proof. exact GenThriftemptyProofs.WriteEmpty_invalid. Qed.
Print Assumptions C16_WriteEmpty_source_invalid_type.

Theorem C16_WriteEmpty_source_layers :
  (forall t n, 0 <= t < 256 ->
     empty_eff_bytes (Gen_thriftempty.Eff_WriteListBegin, [t; n]) = writes_bytes [] (snd (Gen_thriftbin.BinaryProtocol_WriteListBegin t n 0 0))) /\
  (forall k v n, 0 <= k < 256 -> 0 <= v < 256 ->
     empty_eff_bytes (Gen_thriftempty.Eff_WriteMapBegin, [k; v; n]) = writes_bytes [] (snd (Gen_thriftbin.BinaryProtocol_WriteMapBegin k v n 0 0 0))) /\
  (Gen_thriftends.BinaryProtocol_WriteStructEnd 0 = (0, [(Gen_thriftends.Eff_WriteFieldStop, [])]) /\
   empty_eff_bytes (Gen_thriftempty.Eff_WriteStructEnd, []) = writes_bytes [] (snd (Gen_thriftbin.BinaryProtocol_WriteFieldStop 0))) /\
  (forall b, Gen_thriftends.BinaryProtocol_WriteBool b 0 0 = (0, [(Gen_thriftends.Eff_WriteByte, [Z.b2z b])])) /\
  Gen_thriftends.BinaryProtocol_WriteListEnd = 0 /\ Gen_thriftends.BinaryProtocol_WriteMapEnd = 0.
Proof. exact GenThriftemptyProofs.WriteEmpty_calls_layered. Qed.
Print Assumptions C16_WriteEmpty_source_layers.

(* ================================================================== (G) cutting: thrift/utils.go CheckRequires from the source *)
(* the hand mirror check_requires_decision (used by check 1604 and by the cutting model's [owed]) is the generated block *)
Theorem C16_CheckRequires_source_is_mirror :
  forall wd f i v j, (f_req f = 0 \/ f_req f = 1 \/ f_req f = 2) ->
  CheckRequires_marked wd i v j (ck_f f) = marked_result (blk_id i j) v (check_requires_decision wd f).
Proof. exact CheckRequires_marked_is_decision. Qed.
Print Assumptions C16_CheckRequires_source_is_mirror.

(* the END-TO-END truth table with the per-bit decision READ OFF THE GENERATED HandleRequires block (no hand mirror between the
   source text and the theorem): source_decision decodes what the block does (return with the missing-required error / continue /
   fall through to the handler) *)
Definition source_decision (p : popts) (w : wopts) (f : fld) : action :=
  let '(out, _, _) := HandleRequires_marked (w_require w) (w_default w) (w_optional w) 0 0 0 (hr_f p f) in
  if out =? Out_return then AMissing else if out =? Out_continue then ASkip else write_action p f.

Lemma source_decision_is_mirror p w f : (f_req f = 0 \/ f_req f = 1 \/ f_req f = 2) -> source_decision p w f = handle_requires_decision p w f.
Proof.
  intros H. unfold source_decision. rewrite HandleRequires_marked_is_decision by exact H.
  unfold marked_result. unfold handle_requires_decision, write_action.
  destruct ((f_req f =? 1) && negb (w_require w)); [reflexivity|].
  destruct (((f_req f =? 0) && negb (w_default w)) || ((f_req f =? 2) && negb (w_optional w) && negb (parsed_default p f))); [reflexivity|].
  destruct (parsed_default p f); reflexivity.
Qed.

Theorem C16_requires_truth_table_source :
  forall p w fs present pool,
  NoDup (map f_id fs) -> (forall f, In f fs -> 0 <= f_id f) ->
  (forall f, In f fs -> f_req f = 0 \/ f_req f = 1 \/ f_req f = 2) -> (forall i, In i present -> 0 <= i) ->
  let R := run_struct (source_decision p w) p fs present pool in
  R <> HNil /\
  (R = HMissing <-> exists f, In f fs /\ ~ In (f_id f) present /\ rule p w f = AMissing) /\
  (forall l, R = HOk l ->
     (forall f a, In f fs -> (In (f_id f, a) l <-> ~ In (f_id f) present /\ rule p w f = a /\ is_write a)) /\
     (forall id a, In (id, a) l -> exists f, In f fs /\ f_id f = id)).
Proof.
  intros p w fs present pool Hnd Hpos Hreq Hpres.
  assert (E : run_struct (source_decision p w) p fs present pool = run_struct (handle_requires_decision p w) p fs present pool).
  { unfold run_struct. apply handle_ids_ext. intros id f _ Hf. apply source_decision_is_mirror. apply Hreq.
    apply find_fld16_some in Hf. apply Hf. }
  cbv zeta. rewrite E. exact (requires_truth_table p w fs present pool Hnd Hpos Hreq Hpres).
Qed.
Print Assumptions C16_requires_truth_table_source.

(* HAND MIRRORS THAT REMAIN (no Go text the translator accepts, or not Go at all), tied by the correspondence checks only:
     - RequiresBitmap.Set / IsSet / CopyTo / malloc (unsafe pointer arithmetic on the slice header) : Requireness.bm_set / bm_is_set /
       bm_copy_to / bm_grow - checks 1601-1604 with ids up to 4000 and pool reuse; proved to implement the set;
     - the word / bit loop of HandleRequires and CheckRequires (a general loop with early exit) : Requireness.bm_scan / handle_ids;
     - native/thrift.c j2t_write_unset_fields : Requireness.native_decision (C, not Go) - check 1601, finding 1623;
     - conv/j2t writeStringValue's filter of optional / default fields after HandleRequires let them through : folded into
       native_decision for the portable engine - check 1602;
     - thrift/idl.go makeDefaultValue (parser AST, interfaces) : Requireness.make_default_bytes - the harness's independent encoding of
       every declared default must equal it (check 1601-1604, verdict 99 otherwise) and the engines must write it. *)

(* ================================================================== the VALUE written for an unmet field *)
(* makeDefaultValue stores exactly the encoding of the declared default as a value of the field's own type (byte, i16, i32, i64,
   double, string, bool; enum-member and constant identifiers are integers) *)
Theorem C16_default_bytes_are_encoding :
  forall tc l v, lit_value tc l = Some v -> make_default_bytes tc l = Some (encode v).
Proof. exact default_bytes_encode. Qed.
Print Assumptions C16_default_bytes_are_encoding.

(* WriteDefaultOrEmpty: the parsed IDL default when there is one, else the zero value (empty struct for structs) - as bytes *)
Theorem C16_WriteDefaultOrEmpty_writes_default_or_zero :
  forall p f v, default_or_zero p f = Some v -> write_default_or_empty p f = Some (encode v).
Proof. exact write_default_or_empty_encode. Qed.
Print Assumptions C16_WriteDefaultOrEmpty_writes_default_or_zero.

(* what a handler appends for an unmet field it writes (under WriteRequireField / WriteDefaultField / WriteOptionalField, whichever
   the rule selected): exactly that field of a struct holding default_or_zero - header with the field's own type, then the value *)
Theorem C16_unmet_field_written_bytes :
  forall p a f v, is_write a -> default_or_zero p f = Some v ->
  unmet_field_bytes p a f = Some (type_of v :: enc_int 2 (f_id (v_f f)) ++ encode v) /\
  (forall bs, unmet_field_bytes p a f = Some bs -> encode (VStruct [(f_id (v_f f), v)]) = bs ++ [0]).
Proof. exact unmet_field_bytes_encode. Qed.
Print Assumptions C16_unmet_field_written_bytes.

(* which of the two: the declared default exactly when the rule answers AWriteDefault (default parsing enabled and one declared) *)
Theorem C16_unmet_value_by_rule :
  forall p w f,
  (rule p w (v_f f) = AWriteDefault -> default_or_zero p f = match v_lit f with Some l => lit_value (type_code (v_ty f)) l | None => None end) /\
  (rule p w (v_f f) = AWriteZero -> default_or_zero p f = zero_of (v_ty f)) /\
  (is_write (rule p w (v_f f)) -> (rule p w (v_f f) = AWriteDefault <-> parsed_default p (v_f f) = true)).
Proof. exact unmet_value_by_rule. Qed.
Print Assumptions C16_unmet_value_by_rule.

Theorem C16_unmet_value_exists :
  forall p f, vfld_ok f = true -> ty_valid (v_ty f) = true -> exists v, default_or_zero p f = Some v.
Proof. exact default_or_zero_total. Qed.
Print Assumptions C16_unmet_value_exists.

(* `2: i64 L = Color.BLUE` (BLUE = 3) under UseDefaultValue: eight bytes of the field's own type, not the enum's four *)
Example ex_enum_default_on_i64 :
  make_default_bytes T_I64 (DInt 3) = Some [0; 0; 0; 0; 0; 0; 0; 3] /\ lit_value T_I64 (DInt 3) = Some (VI64 3) /\
  unmet_field_bytes {| p_opt_bitmap := false; p_use_default := true |} AWriteDefault
    {| v_f := {| f_id := 2; f_req := 0; f_hasdef := true |}; v_ty := TScalar T_I64; v_lit := Some (DInt 3) |}
  = Some [10; 0; 2; 0; 0; 0; 0; 0; 0; 0; 3].
Proof. vm_compute. repeat split; reflexivity. Qed.
