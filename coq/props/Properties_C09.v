(* C09 — JSON -> Protobuf (conv/j2p) encodes exactly the value the JSON denotes.
   Statements only; proofs are in proofs/J2PProofs.v.  Model: model/J2P.v
     pdenote       the message a JSON document denotes for a schema (three-valued: ROk / RErr must be rejected / RUndef outside the property)
     j2p_spec      = encode_msg o pdenote
     sax_run       conv/j2p/decode.go as it stands (after the repairs of findings 901..906): SAX callbacks over the event
                   stream, stack of 256 frames, speculative length bytes
     denote_top true ...   the strict domain = the property's domain minus the decidable residue the converter does not
                   reproduce byte for byte: a float32 lexeme that suffers double rounding, an empty array of a packed
                   field (written as an empty run), payloads >= 2^31 bytes, field numbers out of range (see leaf_agrees /
                   key_agrees in J2P.v; the checker evaluates them per case)
     frames_needed the exact number of stack frames a document uses (1 root + 1 per message / array + 2 per map level) *)
From Coq Require Import ZArith List Bool String Ascii.
From DG Require Import CaseFormat ProtoWireRef ProtoSpecLen ProtoMsg Json Num J2P J2PProofs.
Import ListNotations.
Local Open Scope Z_scope.

(* REFINEMENT.  The SAX machine, run over the event stream of a strict-domain document that fits the visitor's 256-frame
   stack, yields exactly encode_msg of the denoted message: all tags, packed runs, map pairs and length prefixes at
   every depth and for every size, whatever the spare capacity of the buffer contains. *)
Theorem C09_sax_refines_spec :
  forall disallow S root j m junk,
  (9 <= List.length junk)%nat ->
  denote_top true disallow S root j = ROk m ->
  (frames_needed S root j <= 256)%nat ->
  sax_run disallow S root junk (events j) = OOk (encode_msg m).
Proof. exact sax_refines_spec. Qed.
Print Assumptions C09_sax_refines_spec.

(* ERROR SIDE.  Where the denotation is an error (JSON kind contradicting the field at member / element / map value
   level, string-spelled numbers, a member name that is no literal of the map's key kind or a map whose key kind the
   converter does not support, unknown member under DisallowUnknownField, non-object document), at any depth and after
   any correct prefix, the machine fails. *)
Theorem C09_sax_error_sound :
  forall disallow S root j junk,
  (9 <= List.length junk)%nat ->
  denote_top true disallow S root j = RErr ->
  (frames_needed S root j <= 256)%nat ->
  sax_run disallow S root junk (events j) = OErr.
Proof. exact sax_error_sound. Qed.
Print Assumptions C09_sax_error_sound.

(* ... and conversely: on the strict domain the machine fails IFF the property's denotation is an error, and yields the
   specified bytes IFF it is a message *)
Theorem C09_sax_error_iff :
  forall d S root j junk,
  (9 <= List.length junk)%nat -> denote_top true d S root j <> RUndef -> (frames_needed S root j <= 256)%nat ->
  (sax_run d S root junk (events j) = OErr <-> pdenote d S root j = RErr) /\
  (forall m, pdenote d S root j = ROk m -> sax_run d S root junk (events j) = OOk (encode_msg m)).
Proof. exact sax_error_iff. Qed.
Print Assumptions C09_sax_error_iff.

(* the strict domain lies inside the property's domain: same message, same error *)
Theorem C09_strict_in_domain :
  forall d S root j,
  (forall m, denote_top true d S root j = ROk m -> pdenote d S root j = ROk m) /\
  (denote_top true d S root j = RErr -> pdenote d S root j = RErr).
Proof. intros. split; [intro m; apply strict_in_domain | apply strict_error_in_domain]. Qed.
Print Assumptions C09_strict_in_domain.

(* DEPTH.  256 frames is the code's real limit (push fails when 256 frames are in use: sp is a uint8 that wraps);
   frames_needed is exact, and at most two frames per JSON nesting level, so depth <= 128 always fits *)
Theorem C09_stack_limit :
  (forall st fr, List.length (m_stk st) = 256%nat -> push st fr = MErr) /\
  (forall S root j, (frames_needed S root j <= 2 * json_depth j)%nat).
Proof. split; [exact push_full | exact frames_le_depth]. Qed.
Print Assumptions C09_stack_limit.

Theorem C09_sax_refines_spec_depth :
  forall disallow S root j m junk,
  (9 <= List.length junk)%nat -> denote_top true disallow S root j = ROk m -> (json_depth j <= 128)%nat ->
  sax_run disallow S root junk (events j) = OOk (encode_msg m).
Proof. exact sax_refines_spec_depth. Qed.
Print Assumptions C09_sax_refines_spec_depth.

(* the decidable leaf test of the strict domain is automatically true for every integer kind and every in-range plain
   integer lexeme below 2^63 in magnitude *)
Theorem C09_int_leaf_agrees :
  forall k lex z,
  is_int_kind k = true -> lex_is_plain_int lex = true -> parse_int lex = Some z ->
  scalar_okb k z = true -> in_sb 64 z = true ->
  leaf_agrees true k (EvNum lex) (LScalar z) = true.
Proof. exact int_leaf_agrees. Qed.
Print Assumptions C09_int_leaf_agrees.

(* "accepted by the reference and decodes to exactly that message", on the model *)
Theorem C09_j2p_output_decodes :
  forall d S root j m fuel,
  pdenote d S root j = ROk m -> (depth (VMsg m) <= fuel)%nat ->
  j2p_spec d S root j = ROk (encode_msg m) /\ decode_msg S fuel root (encode_msg m) = Some m.
Proof. exact j2p_output_decodes. Qed.
Print Assumptions C09_j2p_output_decodes.

Theorem C09_sax_output_decodes :
  forall d S root j m junk fuel,
  (9 <= List.length junk)%nat ->
  denote_top true d S root j = ROk m ->
  (frames_needed S root j <= 256)%nat -> (depth (VMsg m) <= fuel)%nat ->
  exists b, sax_run d S root junk (events j) = OOk b /\
            j2p_spec d S root j = ROk b /\ decode_msg S fuel root b = Some m.
Proof. exact sax_refines_spec_decodes. Qed.
Print Assumptions C09_sax_output_decodes.

(* a known member whose JSON kind contradicts its field makes the denotation an error (never another message) *)
Theorem C09_j2p_rejects_kind_mismatch :
  forall strict d S rec md k v r fd,
  find_field_name md k = Some fd ->
  (strict = false \/ num_ok (fd_num fd)) ->
  json_kind v <> 0 -> json_kind v <> expected_kind fd ->
  (match fd_label fd, fd_type fd with LSingular, TScalar kd => known_kind kd = true | _, _ => True end) ->
  den_members strict d S rec md ((k, v) :: r) = RErr.
Proof. exact j2p_rejects_kind_mismatch. Qed.
Print Assumptions C09_j2p_rejects_kind_mismatch.

(* unknown members: skipped <-> allowed, error <-> disallowed; at both levels *)
Theorem C09_j2p_unknown_member :
  forall strict S rec md k v r,
  find_field_name md k = None ->
  den_members strict false S rec md ((k, v) :: r) = den_members strict false S rec md r /\
  den_members strict true S rec md ((k, v) :: r) = RErr.
Proof. exact j2p_unknown_member. Qed.
Print Assumptions C09_j2p_unknown_member.

Theorem C09_sax_unknown_member :
  forall S junk md k v stk glob buf top,
  obj_frame S top md -> find_field_name md k = None ->
  J2P.run false S junk (member_events (k, v)) (mk_st (top :: stk) glob false O buf) = MOk (mk_st (top :: stk) glob false O buf) /\
  J2P.run true S junk (member_events (k, v)) (mk_st (top :: stk) glob false O buf) = MErr.
Proof. exact sax_unknown_member. Qed.
Print Assumptions C09_sax_unknown_member.

(* ------------------------------------------------------------------ witnesses *)
Definition asc (s : string) : list Z := map (fun c => Z.of_nat (nat_of_ascii c)) (list_ascii_of_string s).
Definition exIn := mk_mdesc (asc "I") [mk_fdesc 1 (asc "a") (asc "a") LSingular (TScalar 5);
                                        mk_fdesc 2 (asc "s") (asc "s") LSingular (TScalar 9);
                                        mk_fdesc 3 (asc "in_f") (asc "inF") LSingular (TMsg (asc "I"));
                                        mk_fdesc 4 (asc "x") (asc "x") LSingular (TScalar 5)].
Definition exM := mk_mdesc (asc "M") [mk_fdesc 1 (asc "a") (asc "a") LSingular (TScalar 5);
                                       mk_fdesc 3 (asc "in_f") (asc "inF") LSingular (TMsg (asc "I"));
                                       mk_fdesc 4 (asc "u") (asc "u") LSingular (TScalar 4);
                                       mk_fdesc 5 (asc "l") (asc "l") (LRepeated true) (TScalar 5);
                                       mk_fdesc 6 (asc "mu") (asc "mu") (LMap 13) (TScalar 5);
                                       mk_fdesc 7 (asc "mm") (asc "mm") (LMap 9) (TMsg (asc "I"));
                                       mk_fdesc 8 (asc "e") (asc "e") LSingular (TScalar 14);
                                       mk_fdesc 9 (asc "by") (asc "by") LSingular (TScalar 12);
                                       mk_fdesc 10 (asc "lm") (asc "lm") (LRepeated false) (TMsg (asc "I"));
                                       mk_fdesc 11 (asc "x") (asc "x") LSingular (TScalar 5);
                                       mk_fdesc 12 (asc "f") (asc "f") LSingular (TScalar 2);
                                       mk_fdesc 13 (asc "lu") (asc "lu") (LRepeated false) (TScalar 5);
                                       mk_fdesc 14 (asc "si") (asc "si") LSingular (TScalar 17)].
Definition exS : schema := [exM; exIn].
Definition num (s : string) := JNum (asc s).
Definition obj (l : list (string * json)) := JObj (map (fun kv => (asc (fst kv), snd kv)) l).
Definition M := asc "M".
(* property denotation, strict denotation, machine outcome, and what the proved decoder makes of the machine's output *)
Definition both (j : json) :=
  (pdenote false exS M j, denote_top true false exS M j, j2p_machine false exS M j,
   match j2p_machine false exS M j with OOk b => decode_top exS M b | _ => None end).
Local Open Scope string_scope.

(* non-vacuity of the refinement theorems: scalar, zig-zag, nested, packed, repeated-message, map (scalar and
   message values), enum, bytes, null and unknown members in one document *)
Definition exDoc := obj [("a", num "150"); ("unknown", JArr [JNull; obj [("q", JNull)]]); ("x", JNull);
                         ("inF", obj [("s", JStr (asc "hi")); ("a", num "-1"); ("inF", obj [])]); ("si", num "-3");
                         ("l", JArr [num "1"; num "300"]);
                         ("lm", JArr [obj [("a", num "1")]; obj []]);
                         ("mu", obj [("7", num "1"); ("3000000000", num "-2")]);
                         ("mm", obj [("k", obj [("a", num "1")]); ("", obj [])]);
                         ("e", num "2"); ("by", JStr (asc "AQI=")); ("u", num "18446744073709551615")].
Example C09_refinement_hypotheses_satisfiable :
  frames_needed exS M exDoc = 4%nat /\
  match denote_top true false exS M exDoc, j2p_machine false exS M exDoc with
  | ROk m, OOk b => bytes_eqb b (encode_msg m) && (Nat.eqb (List.length m) 10) &&
                    match decode_top exS M b with Some m' => pval_eqv (VMsg m) (VMsg m') | None => false end
  | _, _ => false
  end = true.
Proof. vm_compute. split; reflexivity. Qed.

(* non-vacuity of the error theorems: the error sits three levels down, after correct members *)
Example C09_error_hypotheses_satisfiable :
  denote_top true false exS M (obj [("a", num "1"); ("mm", obj [("k", obj [("a", num "1"); ("inF", obj [("s", num "5")])])])]) = RErr /\
  j2p_machine false exS M (obj [("a", num "1"); ("mm", obj [("k", obj [("a", num "1"); ("inF", obj [("s", num "5")])])])]) = OErr /\
  denote_top true true exS M (obj [("a", num "1"); ("lm", JArr [obj [("nosuch", JNull)]])]) = RErr /\
  j2p_machine true exS M (obj [("a", num "1"); ("lm", JArr [obj [("nosuch", JNull)]])]) = OErr /\
  j2p_machine false exS M (obj [("a", num "1"); ("lm", JArr [obj [("nosuch", JNull)]])]) = OOk [8; 1; 82; 0].
Proof. vm_compute. repeat split; reflexivity. Qed.

(* the six repaired findings: machine = specification now (regression witnesses of 901..906) *)
Example C09_fixed_901_null :
  both (obj [("a", JNull)]) = (ROk [], ROk [], OOk [], Some []) /\
  j2p_machine false exS M (obj [("a", num "1"); ("x", JNull); ("inF", obj [("a", num "1")])]) = OOk [8; 1; 26; 2; 8; 1].
Proof. vm_compute. split; reflexivity. Qed.
Example C09_fixed_902_empty :
  both (obj [("inF", obj []); ("x", num "1")])
  = (ROk [(3, VMsg []); (11, VScalar 5 1)], ROk [(3, VMsg []); (11, VScalar 5 1)], OOk [26; 0; 88; 1], Some [(3, VMsg []); (11, VScalar 5 1)]) /\
  both (obj [("lm", JArr []); ("mu", obj []); ("x", num "1")])
  = (ROk [(11, VScalar 5 1)], ROk [(11, VScalar 5 1)], OOk [88; 1], Some [(11, VScalar 5 1)]).
Proof. vm_compute. split; reflexivity. Qed.
Example C09_fixed_903_mapkey :
  j2p_machine false exS M (obj [("mu", obj [("3000000000", num "1")])]) = OOk [50; 8; 8; 128; 188; 193; 150; 11; 16; 1] /\
  j2p_spec false exS M (obj [("mu", obj [("3000000000", num "1")])]) = ROk [50; 8; 8; 128; 188; 193; 150; 11; 16; 1] /\
  both (obj [("mu", obj [("abc", num "1")])]) = (RErr, RErr, OErr, None).
Proof. vm_compute. repeat split; reflexivity. Qed.
Example C09_fixed_904_uint64 :
  j2p_machine false exS M (obj [("u", num "18446744073709551615")]) = OOk [32; 255; 255; 255; 255; 255; 255; 255; 255; 255; 1] /\
  j2p_spec false exS M (obj [("u", num "18446744073709551615")]) = ROk [32; 255; 255; 255; 255; 255; 255; 255; 255; 255; 1].
Proof. vm_compute. split; reflexivity. Qed.
Example C09_fixed_905_kind :
  both (obj [("a", JBool true)]) = (RErr, RErr, OErr, None) /\ both (obj [("l", num "1")]) = (RErr, RErr, OErr, None) /\
  both (obj [("a", obj [("q", num "1")])]) = (RErr, RErr, OErr, None) /\ both (JArr [num "1"]) = (RErr, RErr, OErr, None) /\
  both (obj [("a", JStr (asc "1"))]) = (RErr, RErr, OErr, None).       (* string-spelled number: an error on both sides *)
Proof. vm_compute. repeat split; reflexivity. Qed.
Example C09_fixed_906_enum :
  both (obj [("e", num "1")]) = (ROk [(8, VScalar 14 1)], ROk [(8, VScalar 14 1)], OOk [64; 1], Some [(8, VScalar 14 1)]).
Proof. vm_compute. reflexivity. Qed.

(* QUIRKS: documents outside the property's domain (pdenote = RUndef) on which the code is laxer or stricter than the
   protobuf JSON mapping.  Each line is replayed on the implementation by the checker (hand-written documents of class
   9x: the converter must do exactly what the machine does here, verdict 107 otherwise). *)
Example C09_quirk_integers_wrapped_or_truncated :       (* laxer: out-of-range / fractional numbers for int32 are converted with Go casts *)
  both (obj [("a", num "4294967297")]) = (RUndef, RUndef, OOk [8; 1], Some [(1, VScalar 5 1)]) /\
  both (obj [("a", num "1.5")]) = (RUndef, RUndef, OOk [8; 1], Some [(1, VScalar 5 1)]) /\
  both (obj [("u", num "1e2")]) = (RUndef, RUndef, OErr, None).                               (* stricter: exponent spelling only for int32/int64 *)
Proof. vm_compute. repeat split; reflexivity. Qed.
Example C09_quirk_null_element_and_map_value :          (* laxer: a null element is dropped, a null map value is the default value *)
  both (obj [("l", JArr [num "1"; JNull; num "2"])]) = (RUndef, RUndef, OOk [42; 2; 1; 2], Some [(5, VList true [VScalar 5 1; VScalar 5 2])]) /\
  both (obj [("mu", obj [("1", JNull)])]) = (RUndef, RUndef, OOk [50; 2; 8; 1], Some [(6, VMap [(KInt 13 1, VScalar 5 0)])]).
Proof. vm_compute. split; reflexivity. Qed.
Example C09_quirk_duplicate_members :                   (* every occurrence is emitted; the decoder's rules decide: last wins / merge / concatenate, as protobuf-go *)
  both (obj [("a", num "1"); ("a", num "2")]) = (RUndef, RUndef, OOk [8; 1; 8; 2], Some [(1, VScalar 5 2)]) /\
  both (obj [("inF", obj [("a", num "1")]); ("inF", obj [("s", JStr (asc "x"))])])
  = (RUndef, RUndef, OOk [26; 2; 8; 1; 26; 3; 18; 1; 120], Some [(3, VMsg [(1, VScalar 5 1); (2, VBytes 9 [120])])]) /\
  both (obj [("l", JArr [num "1"]); ("l", JArr [num "2"])]) = (RUndef, RUndef, OOk [42; 1; 1; 42; 1; 2], Some [(5, VList true [VScalar 5 1; VScalar 5 2])]).
Proof. vm_compute. repeat split; reflexivity. Qed.
Example C09_quirk_enum_by_name_and_base64_variants :    (* stricter: enum names, unpadded and URL-safe base64 are rejected *)
  both (obj [("e", JStr (asc "E1"))]) = (RUndef, RUndef, OErr, None) /\
  both (obj [("by", JStr (asc "AQI="))]) = (ROk [(9, VBytes 12 [1; 2])], ROk [(9, VBytes 12 [1; 2])], OOk [74; 2; 1; 2], Some [(9, VBytes 12 [1; 2])]) /\
  both (obj [("by", JStr (asc "AQI"))]) = (RUndef, RUndef, OErr, None) /\
  both (obj [("by", JStr (asc "-_-_"))]) = (RUndef, RUndef, OErr, None).
Proof. vm_compute. repeat split; reflexivity. Qed.
(* MAP KEY level of the error theorems: a member name that is no literal of the key kind (non-numeric, fractional, empty,
   out of range for the key width, signed for an unsigned key) must be an error and is one *)
Example C09_error_illegal_map_keys :
  (forall k, In k ["abc"; "1.5"; ""; "4294967296"; "-1"; "+5"; "1e2"; " 1"] ->
     both (obj [("mu", obj [(k, num "1")])]) = (RErr, RErr, OErr, None)) /\
  both (obj [("a", num "1"); ("mm", obj [("k", obj [("inF", obj [("x", num "1")])])]); ("mu", obj [("7", num "1"); ("x7", num "2")])])
  = (RErr, RErr, OErr, None).
Proof.
  split; [|vm_compute; reflexivity].
  intros k Hk. cbn [In] in Hk. repeat (destruct Hk as [<-|Hk]; [vm_compute; reflexivity|]). contradiction.
Qed.

Example C09_quirk_map_key_spelling :                    (* laxer: strconv accepts leading zeros *)
  both (obj [("mu", obj [("007", num "1")])]) = (RUndef, RUndef, OOk [50; 4; 8; 7; 16; 1], Some [(6, VMap [(KInt 13 7, VScalar 5 1)])]).
Proof. vm_compute. reflexivity. Qed.
Example C09_quirk_declared_unpacked :                   (* outside the modelled schemas: a numeric list declared [packed=false] is written one record per element *)
  both (obj [("lu", JArr [num "1"; num "300"])])
  = (RUndef, RUndef, OOk [104; 1; 104; 172; 2], Some [(13, VList false [VScalar 5 1; VScalar 5 300])]).
Proof. vm_compute. reflexivity. Qed.
(* the residue of the strict domain: same message, other bytes / other rounding (drift 1 / 21 in the checker) *)
Example C09_residue_empty_packed_and_float_rounding :
  both (obj [("l", JArr []); ("x", num "1")]) = (ROk [(11, VScalar 5 1)], RUndef, OOk [42; 0; 88; 1], Some [(11, VScalar 5 1)]) /\
  both (obj [("f", num "1.00000005960464477539062500001")])
  = (ROk [(12, VScalar 2 1065353217)], RUndef, OOk [101; 0; 0; 128; 63], Some [(12, VScalar 2 1065353216)]).
Proof. vm_compute. split; reflexivity. Qed.

(* THE STACK LIMIT is the code's: a chain of nested messages uses 1 + n frames; 255 levels convert, the 256th push fails *)
Fixpoint chain (n : nat) : json := match n with O => obj [("a", num "1")] | Datatypes.S k => obj [("inF", chain k)] end.
Example C09_stack_limit_exact :
  frames_needed exS M (chain 255) = 256%nat /\ frames_needed exS M (chain 256) = 257%nat /\
  match denote_top true false exS M (chain 255), j2p_machine false exS M (chain 255) with
  | ROk m, OOk b => bytes_eqb b (encode_msg m) | _, _ => false end = true /\
  match denote_top true false exS M (chain 256) with ROk _ => true | _ => false end = true /\
  j2p_machine false exS M (chain 256) = OErr.
Proof. vm_compute. repeat split; reflexivity. Qed.

(* size boundaries: a nested payload of 127 / 128 / 16383 / 16384 bytes at depth 2 gets the 1 / 2 / 2 / 3-byte prefix *)
Definition pad (n : Z) : json := JStr (repeat 97 (Z.to_nat n)).
Definition nest2 (n : Z) := obj [("inF", obj [("s", pad n)])].
Example C09_length_prefix_boundaries :
  (forall n, In n [125; 126; 127; 128; 16380; 16381; 16382; 16383]%Z ->
     match denote_top true false exS M (nest2 n), j2p_machine false exS M (nest2 n) with
     | ROk m, OOk b => bytes_eqb b (encode_msg m) && match decode_top exS M b with Some m' => pval_eqv (VMsg m) (VMsg m') | None => false end
     | _, _ => false
     end = true).
Proof. intros n Hn. cbn [In] in Hn. repeat (destruct Hn as [<-|Hn]; [vm_compute; reflexivity|]). contradiction. Qed.

(* ================================================================== (G) encodeMapKey from the Go source *)
(* conv/j2p/decode.go encodeMapKey is translated from the Go text on every build (gen/Gen_j2pkey.v): the strconv parsers are oracle
   inputs (gen_key feeds them with the model's go_parse_int / go_parse_uint / go_parse_bool), the writes go through the generated
   proto/binary writers.  It IS the model's encode_map_key: same success / failure for every key text and key kind, the same bytes
   appended on success, the buffer untouched on failure. *)
From DG Require GoSem Gen_j2pkey Check20h GenJ2pkeyProofs.
Theorem C09_encodeMapKey_from_source :
  forall buf rd key kk, ProtoMsg.plen key < 2 ^ 64 -> (kk = 9 -> GoSem.utf8_valid key = Json.utf8_valid key) ->
  match encode_map_key buf key kk with
  | Some b => exists eff, Check20h.gen_key buf rd key kk = (0, eff, b, rd)
  | None => exists e eff, Check20h.gen_key buf rd key kk = (e, eff, buf, rd) /\ e <> 0
  end.
Proof. exact GenJ2pkeyProofs.encodeMapKey_is_model. Qed.
Print Assumptions C09_encodeMapKey_from_source.

(* int32 / int64 keys are parsed by ParseInt(key, 10, 32 / 64), uint32 / uint64 keys by ParseUint(key, 10, 32 / 64) *)
Theorem C09_encodeMapKey_parsers_from_source :
  forall buf rd key,
  (forall kk, kk = 5 \/ kk = 3 -> exists r, snd (fst (fst (Check20h.gen_key buf rd key kk))) = [(Gen_j2pkey.Eff_ParseInt, [10; if Z.eqb kk 5 then 32 else 64])] /\ r = tt) /\
  (forall kk, kk = 13 \/ kk = 4 -> exists r, snd (fst (fst (Check20h.gen_key buf rd key kk))) = [(Gen_j2pkey.Eff_ParseUint, [10; if Z.eqb kk 13 then 32 else 64])] /\ r = tt).
Proof. exact GenJ2pkeyProofs.encodeMapKey_parsers. Qed.
Print Assumptions C09_encodeMapKey_parsers_from_source.
