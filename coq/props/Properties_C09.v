(* C09 — JSON -> Protobuf (conv/j2p) encodes exactly the value the JSON denotes.
   Statements only; proofs are in proofs/J2PProofs.v.  Model: model/J2P.v
     pdenote      the message a JSON document denotes for a schema (three-valued: ROk / RErr must be rejected / RUndef outside the property)
     j2p_spec     = encode_msg o pdenote
     sax_run      conv/j2p/decode.go as coded: SAX callbacks over the event stream, stack of frames, speculative length bytes
     denote_top true ...   the strict domain: documents on which the converter as coded is correct (decidable; the
                           checker evaluates it per case and classifies what falls outside as known findings 901..906) *)
From Coq Require Import ZArith List Bool String Ascii.
From DG Require Import CaseFormat ProtoWireRef ProtoSpecLen ProtoMsg Json Num J2P J2PProofs.
Import ListNotations.
Local Open Scope Z_scope.

(* REFINEMENT.  The SAX machine as coded, run over the event stream of a document of the strict domain nested at most
   to the converter's stack limit (256 frames: one per message / list level, two per map level), yields exactly
   encode_msg of the denoted message: all tags, packed runs, map pairs and length prefixes at every depth and for every
   size, whatever the spare capacity of the buffer contains. *)
Theorem C09_sax_refines_spec :
  forall disallow S root ms m junk,
  (9 <= List.length junk)%nat ->
  denote_top true disallow S root (JObj ms) = ROk m ->
  (json_depth (JObj ms) <= 128)%nat ->
  sax_run disallow S root junk (events (JObj ms)) = OOk (encode_msg m).
Proof. exact sax_refines_spec. Qed.
Print Assumptions C09_sax_refines_spec.

(* without map fields every level costs one frame: nesting up to 256 *)
Theorem C09_sax_refines_spec_nomap :
  forall disallow S root ms m junk,
  nomap_schema S = true -> (9 <= List.length junk)%nat ->
  denote_top true disallow S root (JObj ms) = ROk m ->
  (json_depth (JObj ms) <= 256)%nat ->
  sax_run disallow S root junk (events (JObj ms)) = OOk (encode_msg m).
Proof. exact sax_refines_spec_nomap. Qed.
Print Assumptions C09_sax_refines_spec_nomap.

(* the strict domain lies inside the property's domain and denotes the same message there *)
Theorem C09_strict_in_domain :
  forall d S root j m, denote_top true d S root j = ROk m -> pdenote d S root j = ROk m.
Proof. exact strict_in_domain. Qed.
Print Assumptions C09_strict_in_domain.

(* the decidable leaf test of the strict domain is automatically true for every integer kind and every in-range plain
   integer lexeme below 2^63 in magnitude (so it hides no arithmetic hypothesis there; floats: equality of the two
   roundings, checked per case) *)
Theorem C09_int_leaf_agrees :
  forall k lex z,
  is_int_kind k = true -> lex_is_plain_int lex = true -> parse_int lex = Some z ->
  scalar_okb k z = true -> in_sb 64 z = true ->
  leaf_agrees true k (EvNum lex) (LScalar z) = true.
Proof. exact int_leaf_agrees. Qed.
Print Assumptions C09_int_leaf_agrees.

(* "accepted by the reference and decodes to exactly that message", on the model: the specified output decodes,
   with the decoder proved in ProtoMsgProofs, to the denoted message *)
Theorem C09_j2p_output_decodes :
  forall d S root j m fuel,
  pdenote d S root j = ROk m -> (depth (VMsg m) <= fuel)%nat ->
  j2p_spec d S root j = ROk (encode_msg m) /\ decode_msg S fuel root (encode_msg m) = Some m.
Proof. exact j2p_output_decodes. Qed.
Print Assumptions C09_j2p_output_decodes.

(* machine output = specified output, and it decodes to the denoted message *)
Theorem C09_sax_output_decodes :
  forall d S root ms m junk fuel,
  (9 <= List.length junk)%nat ->
  denote_top true d S root (JObj ms) = ROk m ->
  (json_depth (JObj ms) <= 128)%nat -> (depth (VMsg m) <= fuel)%nat ->
  exists b, sax_run d S root junk (events (JObj ms)) = OOk b /\
            j2p_spec d S root (JObj ms) = ROk b /\ decode_msg S fuel root b = Some m.
Proof. exact sax_refines_spec_decodes. Qed.
Print Assumptions C09_sax_output_decodes.

(* a known member whose JSON kind contradicts its field makes the denotation an error (never another message) *)
Theorem C09_j2p_rejects_kind_mismatch :
  forall strict d S rec md k v r fd,
  find_field_name md k = Some fd ->
  (strict = false \/ num_ok (fd_num fd)) ->
  json_kind v <> 0 -> json_kind v <> expected_kind fd ->
  (match fd_label fd, fd_type fd with LSingular, TScalar kd => known_kind kd = true | _, _ => True end) ->
  den_members strict d S rec md ((k, v) :: r) = RErr.
Proof. exact j2p_rejects_kind_mismatch. Qed.
Print Assumptions C09_j2p_rejects_kind_mismatch.

(* unknown members: skipped <-> allowed, error <-> disallowed; at both levels *)
Theorem C09_j2p_unknown_member :
  forall strict S rec md k v r,
  find_field_name md k = None ->
  den_members strict false S rec md ((k, v) :: r) = den_members strict false S rec md r /\
  den_members strict true S rec md ((k, v) :: r) = RErr.
Proof. exact j2p_unknown_member. Qed.
Print Assumptions C09_j2p_unknown_member.

Theorem C09_sax_unknown_member :
  forall S junk md k v stk glob buf top,
  obj_frame S top md -> find_field_name md k = None ->
  J2P.run false S junk (member_events (k, v)) (mk_st (top :: stk) glob false O buf) = MOk (mk_st (top :: stk) glob false O buf) /\
  J2P.run true S junk (member_events (k, v)) (mk_st (top :: stk) glob false O buf) = MErr.
Proof. exact sax_unknown_member. Qed.
Print Assumptions C09_sax_unknown_member.

(* ------------------------------------------------------------------ witnesses *)
Definition asc (s : string) : list Z := map (fun c => Z.of_nat (nat_of_ascii c)) (list_ascii_of_string s).
Definition exIn := mk_mdesc (asc "I") [mk_fdesc 1 (asc "a") (asc "a") LSingular (TScalar 5);
                                        mk_fdesc 2 (asc "s") (asc "s") LSingular (TScalar 9);
                                        mk_fdesc 4 (asc "x") (asc "x") LSingular (TScalar 5)].
Definition exM := mk_mdesc (asc "M") [mk_fdesc 1 (asc "a") (asc "a") LSingular (TScalar 5);
                                       mk_fdesc 3 (asc "in_f") (asc "inF") LSingular (TMsg (asc "I"));
                                       mk_fdesc 4 (asc "u") (asc "u") LSingular (TScalar 4);
                                       mk_fdesc 5 (asc "l") (asc "l") (LRepeated true) (TScalar 5);
                                       mk_fdesc 10 (asc "lm") (asc "lm") (LRepeated false) (TMsg (asc "I"));
                                       mk_fdesc 11 (asc "x") (asc "x") LSingular (TScalar 5);
                                       mk_fdesc 14 (asc "si") (asc "si") LSingular (TScalar 17)].
Definition exS : schema := [exM; exIn].
(* the same with maps and an enum field *)
Definition exM2 := mk_mdesc (asc "M") (md_fields exM ++ [mk_fdesc 6 (asc "mu") (asc "mu") (LMap 13) (TScalar 5);
                                                          mk_fdesc 7 (asc "mm") (asc "mm") (LMap 9) (TMsg (asc "I"));
                                                          mk_fdesc 8 (asc "e") (asc "e") LSingular (TScalar 14)]).
Definition exS2 : schema := [exM2; exIn].
Definition num (s : string) := JNum (asc s).
Definition obj (l : list (string * json)) := JObj (map (fun kv => (asc (fst kv), snd kv)) l).

(* non-vacuity of the refinement theorems: a document with scalar, zig-zag, nested, packed and repeated-message members *)
Definition exDoc := obj [("a", num "150"); ("unknown", JArr [JNull; obj [("q", JNull)]]);
                         ("inF", obj [("s", JStr (asc "hi")); ("a", num "-1")]); ("si", num "-3");
                         ("l", JArr [num "1"; num "300"]); ("lm", JArr [obj [("a", num "1")]; obj [("x", num "2")]])]%string.
Example C09_refinement_hypotheses_satisfiable :
  nomap_schema exS = true /\
  denote_top true false exS (asc "M") exDoc
  = ROk [(1, VScalar 5 150); (3, VMsg [(2, VBytes 9 [104; 105]); (1, VScalar 5 (-1))]); (14, VScalar 17 (-3));
         (5, VList true [VScalar 5 1; VScalar 5 300]); (10, VList false [VMsg [(1, VScalar 5 1)]; VMsg [(4, VScalar 5 2)]])] /\
  j2p_machine false exS (asc "M") exDoc
  = OOk [8; 150; 1; 26; 15; 18; 2; 104; 105; 8; 255; 255; 255; 255; 255; 255; 255; 255; 255; 1; 112; 5; 42; 3; 1; 172; 2; 82; 2; 8; 1; 82; 2; 32; 2].
Proof. vm_compute. repeat split; reflexivity. Qed.

(* ... and one with maps (scalar and message values) *)
Definition exDocMap := obj [("mu", obj [("7", num "1"); ("300", num "-2")]);
                            ("mm", obj [("k", obj [("a", num "1")]); ("", obj [("s", JStr (asc "v"))])]); ("a", num "5")]%string.
Example C09_refinement_with_maps :
  nomap_schema exS2 = false /\
  match denote_top true false exS2 (asc "M") exDocMap, j2p_machine false exS2 (asc "M") exDocMap with
  | ROk m, OOk b => bytes_eqb b (encode_msg m) && (Nat.eqb (List.length m) 3) &&
                    match decode_top exS2 (asc "M") b with Some m' => pval_eqv (VMsg m) (VMsg m') | None => false end
  | _, _ => false
  end = true /\
  j2p_machine false exS2 (asc "M") exDocMap
  = OOk [50; 4; 8; 7; 16; 1; 50; 14; 8; 172; 2; 16; 254; 255; 255; 255; 255; 255; 255; 255; 255; 1;
         58; 7; 10; 1; 107; 18; 2; 8; 1; 58; 7; 10; 0; 18; 3; 18; 1; 118; 8; 5].
Proof. vm_compute. repeat split; reflexivity. Qed.

(* the recorded defects really contradict the specification (machine as coded vs. denotation), one witness each *)
Example C09_finding_901_null_refuted :
  pdenote false exS (asc "M") (obj [("a", JNull)]%string) = ROk [] /\
  j2p_machine false exS (asc "M") (obj [("a", JNull)]%string) = OErr /\
  j2p_machine false exS (asc "M") (obj [("a", num "1"); ("x", JNull); ("inF", obj [("a", num "1")])]%string) = OPanic.
Proof. vm_compute. repeat split; reflexivity. Qed.

Example C09_finding_902_empty_refuted :
  j2p_spec false exS (asc "M") (obj [("inF", obj []); ("x", num "1")]%string) = ROk [26; 0; 88; 1] /\
  j2p_machine false exS (asc "M") (obj [("inF", obj []); ("x", num "1")]%string) = OOk [26; 2; 32; 1] /\
  j2p_spec false exS (asc "M") (obj [("l", JArr []); ("x", num "1")]%string) = ROk [88; 1] /\
  j2p_machine false exS (asc "M") (obj [("l", JArr []); ("x", num "1")]%string) = OOk [42; 1; 1] /\
  j2p_machine false exS2 (asc "M") (obj [("mu", obj [])]%string) = OPanic.
Proof. vm_compute. repeat split; reflexivity. Qed.

Example C09_finding_903_mapkey_refuted :
  j2p_spec false exS2 (asc "M") (obj [("mu", obj [("3000000000", num "1")])]%string) = ROk [50; 8; 8; 128; 188; 193; 150; 11; 16; 1] /\
  j2p_machine false exS2 (asc "M") (obj [("mu", obj [("3000000000", num "1")])]%string) = OOk [50; 8; 8; 255; 255; 255; 255; 7; 16; 1].
Proof. vm_compute. repeat split; reflexivity. Qed.

Example C09_finding_904_uint64_refuted :
  j2p_spec false exS (asc "M") (obj [("u", num "18446744073709551615")]%string) = ROk [32; 255; 255; 255; 255; 255; 255; 255; 255; 255; 1] /\
  j2p_machine false exS (asc "M") (obj [("u", num "18446744073709551615")]%string) = OErr.
Proof. vm_compute. repeat split; reflexivity. Qed.

Example C09_finding_905_kind_refuted :
  pdenote false exS (asc "M") (obj [("a", JBool true)]%string) = RErr /\
  j2p_machine false exS (asc "M") (obj [("a", JBool true)]%string) = OOk [8; 1] /\
  pdenote false exS (asc "M") (obj [("l", num "1")]%string) = RErr /\
  j2p_machine false exS (asc "M") (obj [("l", num "1")]%string) = OOk [1] /\
  j2p_machine false exS (asc "M") (obj [("a", obj [("q", num "1")])]%string) = OPanic /\
  j2p_machine false exS (asc "M") (JArr [num "1"]) = OPanic.
Proof. vm_compute. repeat split; reflexivity. Qed.

Example C09_finding_906_enum_refuted :
  j2p_spec false exS2 (asc "M") (obj [("e", num "1")]%string) = ROk [64; 1] /\
  j2p_machine false exS2 (asc "M") (obj [("e", num "1")]%string) = OErr.
Proof. vm_compute. repeat split; reflexivity. Qed.

(* size boundaries: a nested payload of 127 / 128 / 16383 / 16384 bytes at depth 2 gets the 1 / 2 / 2 / 3-byte prefix *)
Definition pad (n : Z) : json := JStr (repeat 97 (Z.to_nat n)).
Definition nest2 (n : Z) := obj [("inF", obj [("s", pad n)])]%string.
Example C09_length_prefix_boundaries :
  (forall n, In n [125; 126; 127; 128; 16380; 16381; 16382; 16383] ->
     match denote_top true false exS (asc "M") (nest2 n), j2p_machine false exS (asc "M") (nest2 n) with
     | ROk m, OOk b => bytes_eqb b (encode_msg m) && match decode_top exS (asc "M") b with Some m' => pval_eqv (VMsg m) (VMsg m') | None => false end
     | _, _ => false
     end = true).
Proof. intros n Hn. cbn [In] in Hn. repeat (destruct Hn as [<-|Hn]; [vm_compute; reflexivity|]). contradiction. Qed.
