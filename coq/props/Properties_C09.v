(* C09 — placeholder while the proofs are being written *)
From Coq Require Import ZArith List Bool.
From DG Require Import J2P.
Example C09_placeholder : True. Proof. exact I. Qed.
