From DG Require Import J2P.
Example C09_placeholder : True. Proof. exact I. Qed.
