(* C02 — JSON -> Thrift binary (conv/j2t): theorem set over model/J2T.v.  Proofs are in proofs/J2TProofs.v.
   Note: [conf] (J2T.v, Section Denote) does not mention the options, so after the section closes it is
   [conf dlex D t v] (no [o] argument); [json_of] is [json_of dlex D o t v]. *)
From Coq Require Import ZArith List Bool Lia.
From DG Require Import ProtoWireRef ThriftWire Json Num Base64 J2T J2TProofs J2TWalk J2TWalkTok J2TWalkProofs.
Import ListNotations.
Local Open Scope Z_scope.

(* ================================================================== (1) the encoder inverts the canonical JSON *)

Theorem j2t_encodes_denoted :
  forall dlex D o v t s, conf dlex D t v = true -> s + Z.of_nat (depth v) - 1 <= max_level ->
    j2t_val strict D o t s (json_of dlex D o t v) = Ok (encode v).
Proof. intros dlex D o v t s. exact (j2t_val_encodes_denoted dlex D o v t s). Qed.
Print Assumptions j2t_encodes_denoted.

Theorem j2t_encodes_denoted_top :
  forall dlex D o v t, conf dlex D t v = true -> Z.of_nat (depth v) <= max_level ->
    j2t D o t (json_of dlex D o t v) = Ok (encode v).
Proof. exact J2TProofs.j2t_encodes_denoted_top. Qed.
Print Assumptions j2t_encodes_denoted_top.

(* api.js_conv under the strict policy agrees with the plain conversion on canonical JSON (used by (1) for o_vm o = true) *)
Theorem j2t_vm_val_denoted :
  forall dlex D o t x, vm_ty_ok t = true -> conf dlex D t x = true ->
    vm_val strict t (json_of dlex D o t x) = Ok (encode x).
Proof. exact vm_val_denoted. Qed.
Print Assumptions j2t_vm_val_denoted.

(* ================================================================== (2) text level *)

(* the result depends on the text only through the parsed AST (white space, escapes, member spelling are irrelevant) *)
Theorem j2t_text_ast_only :
  forall P D o t t1 t2, option_map fst (json_parse_prefix t1) = option_map fst (json_parse_prefix t2) ->
    j2t_text P D o t t1 = j2t_text P D o t t2.
Proof. exact j2t_text_ast_only_lemma. Qed.
Print Assumptions j2t_text_ast_only.

Theorem j2t_text_print :
  forall P D o t j r, json_wf j = true -> stop r = true ->
    j2t_text P D o t (json_print j ++ r) = j2t_val P D o t 1 j.
Proof. exact j2t_text_print_lemma. Qed.
Print Assumptions j2t_text_print.

(* the canonical JSON of a conforming value is a well-formed AST *)
Theorem j2t_json_of_wf :
  forall dlex D o v t, conf dlex D t v = true -> json_wf (json_of dlex D o t v) = true.
Proof. exact json_of_wf. Qed.
Print Assumptions j2t_json_of_wf.

(* full statement (no restriction needed: conf already carries the byte-range facts about keys and strings) *)
Theorem j2t_text_encodes_denoted :
  forall dlex D o v t r, conf dlex D t v = true -> Z.of_nat (depth v) <= max_level -> stop r = true ->
    j2t_text strict D o t (json_print (json_of dlex D o t v) ++ r) = Ok (encode v).
Proof. exact j2t_text_encodes_denoted_lemma. Qed.
Print Assumptions j2t_text_encodes_denoted.

(* ================================================================== (3) kind mismatches are rejected *)

Theorem j2t_rejects_kind_mismatch :
  forall P D o t s j, kind_ok o t j = false -> exists c, j2t_val P D o t s j = Err c.
Proof. exact j2t_rejects_kind_mismatch_lemma. Qed.
Print Assumptions j2t_rejects_kind_mismatch.

(* a plain member (no api.js_conv value mapping in effect for it) *)
Theorem j2t_member_mismatch_rejected :
  forall P D o i sd s ms k x f, nth_error D i = Some sd -> In (k, x) ms -> find_field sd k = Some f ->
    o_vm o && f_vm f = false -> is_null x = false -> kind_ok o (f_ty f) x = false ->
    exists c, j2t_val P D o (TStruct i) s (JObj ms) = Err c.
Proof. exact j2t_member_mismatch_rejected_lemma. Qed.
Print Assumptions j2t_member_mismatch_rejected.

(* an api.js_conv member (EnableValueMapping set): only strings and numbers are looked at *)
Theorem j2t_vm_member_mismatch_rejected :
  forall P D o i sd s ms k x f, nth_error D i = Some sd -> In (k, x) ms -> find_field sd k = Some f ->
    o_vm o && f_vm f = true -> is_null x = false -> vm_kind_ok x = false ->
    exists c, j2t_val P D o (TStruct i) s (JObj ms) = Err c.
Proof. exact j2t_vm_member_mismatch_rejected_lemma. Qed.
Print Assumptions j2t_vm_member_mismatch_rejected.

(* api.js_conv on a field type it does not support (bool, struct, containers) rejects every non-null value *)
Theorem j2t_vm_member_type_unsupported :
  forall P D o i sd s ms k x f, nth_error D i = Some sd -> In (k, x) ms -> find_field sd k = Some f ->
    o_vm o && f_vm f = true -> is_null x = false -> vm_ty_ok (f_ty f) = false -> f_ty f <> TBinary ->
    exists c, j2t_val P D o (TStruct i) s (JObj ms) = Err c.
Proof. exact j2t_vm_member_type_unsupported_lemma. Qed.
Print Assumptions j2t_vm_member_type_unsupported.

Theorem j2t_list_elem_mismatch_rejected :
  forall P D o e s xs x, In x xs -> is_null x = false -> kind_ok o e x = false ->
    exists c, j2t_val P D o (TList e) s (JArr xs) = Err c.
Proof. exact j2t_list_elem_mismatch_rejected_lemma. Qed.
Print Assumptions j2t_list_elem_mismatch_rejected.

Theorem j2t_set_elem_mismatch_rejected :
  forall P D o e s xs x, In x xs -> is_null x = false -> kind_ok o e x = false ->
    exists c, j2t_val P D o (TSet e) s (JArr xs) = Err c.
Proof. exact j2t_set_elem_mismatch_rejected_lemma. Qed.
Print Assumptions j2t_set_elem_mismatch_rejected.

Theorem j2t_map_value_mismatch_rejected :
  forall P D o k v s ms kk x, In (kk, x) ms -> is_null x = false -> kind_ok o v x = false ->
    exists c, j2t_val P D o (TMap k v) s (JObj ms) = Err c.
Proof. exact j2t_map_value_mismatch_rejected_lemma. Qed.
Print Assumptions j2t_map_value_mismatch_rejected.

(* propagation: an error in a known non-null member / element / map value / map key is an error of the container,
   so the rejections above compose to any depth *)
Theorem j2t_child_error :
  forall P D o i sd s ms k x f c, nth_error D i = Some sd -> In (k, x) ms -> find_field sd k = Some f ->
    o_vm o && f_vm f = false -> is_null x = false -> j2t_val P D o (f_ty f) (s + 1) x = Err c ->
    exists c', j2t_val P D o (TStruct i) s (JObj ms) = Err c'.
Proof. exact j2t_child_error_lemma. Qed.
Print Assumptions j2t_child_error.

Theorem j2t_vm_child_error :
  forall P D o i sd s ms k x f c, nth_error D i = Some sd -> In (k, x) ms -> find_field sd k = Some f ->
    o_vm o && f_vm f = true -> is_null x = false -> vm_val P (f_ty f) x = Err c ->
    exists c', j2t_val P D o (TStruct i) s (JObj ms) = Err c'.
Proof. exact j2t_vm_child_error_lemma. Qed.
Print Assumptions j2t_vm_child_error.

Theorem j2t_elem_error_list :
  forall P D o e s xs x c, In x xs -> is_null x = false -> j2t_val P D o e (s + 1) x = Err c ->
    exists c', j2t_val P D o (TList e) s (JArr xs) = Err c'.
Proof. exact j2t_elem_error_list_lemma. Qed.
Print Assumptions j2t_elem_error_list.

Theorem j2t_elem_error_set :
  forall P D o e s xs x c, In x xs -> is_null x = false -> j2t_val P D o e (s + 1) x = Err c ->
    exists c', j2t_val P D o (TSet e) s (JArr xs) = Err c'.
Proof. exact j2t_elem_error_set_lemma. Qed.
Print Assumptions j2t_elem_error_set.

Theorem j2t_map_value_error :
  forall P D o k v s ms kk x c, In (kk, x) ms -> is_null x = false -> j2t_val P D o v (s + 1) x = Err c ->
    exists c', j2t_val P D o (TMap k v) s (JObj ms) = Err c'.
Proof. exact j2t_map_value_error_lemma. Qed.
Print Assumptions j2t_map_value_error.

Theorem j2t_map_key_error :
  forall P D o k v s ms kk x c, In (kk, x) ms -> key_bytes P k kk = Err c ->
    exists c', j2t_val P D o (TMap k v) s (JObj ms) = Err c'.
Proof. exact j2t_map_key_error_lemma. Qed.
Print Assumptions j2t_map_key_error.

(* the composition spelled out for two levels *)
Theorem j2t_member_mismatch_rejected_nested :
  forall P D o i sd s ms k f i' sd' ms' k' x' f',
    nth_error D i = Some sd -> In (k, JObj ms') ms -> find_field sd k = Some f -> o_vm o && f_vm f = false ->
    f_ty f = TStruct i' ->
    nth_error D i' = Some sd' -> In (k', x') ms' -> find_field sd' k' = Some f' -> o_vm o && f_vm f' = false ->
    is_null x' = false ->
    kind_ok o (f_ty f') x' = false -> exists c, j2t_val P D o (TStruct i) s (JObj ms) = Err c.
Proof. exact j2t_member_mismatch_rejected_nested_lemma. Qed.
Print Assumptions j2t_member_mismatch_rejected_nested.

(* ================================================================== (4) nulls / unknown members contribute nothing *)

(* s < max_level: otherwise the depth test (taken only for NON-EMPTY objects) can differ when ms1 ++ ms2 = [] *)
(* p_vm_quirks P = false: the property's reading (a null api.js_conv member is omitted like any other);
   the code's behaviour under the quirk is [j2t_vm_null_quirk_rejected] below *)
Theorem j2t_null_omitted :
  forall P D o i sd s ms1 ms2 k, nth_error D i = Some sd ->
    (find_field sd k <> None \/ o_disallow_unknown o = false) -> p_vm_quirks P = false -> s < max_level ->
    j2t_val P D o (TStruct i) s (JObj (ms1 ++ (k, JNull) :: ms2)) = j2t_val P D o (TStruct i) s (JObj (ms1 ++ ms2)).
Proof. exact j2t_null_omitted_lemma. Qed.
Print Assumptions j2t_null_omitted.

(* without EnableValueMapping the policy does not matter *)
Theorem j2t_null_omitted_novm :
  forall P D o i sd s ms1 ms2 k, nth_error D i = Some sd ->
    (find_field sd k <> None \/ o_disallow_unknown o = false) -> o_vm o = false -> s < max_level ->
    j2t_val P D o (TStruct i) s (JObj (ms1 ++ (k, JNull) :: ms2)) = j2t_val P D o (TStruct i) s (JObj (ms1 ++ ms2)).
Proof. exact j2t_null_omitted_novm_lemma. Qed.
Print Assumptions j2t_null_omitted_novm.

(* finding: under the code's quirk a null api.js_conv member is an error *)
Theorem j2t_vm_null_quirk_rejected :
  forall P D o i sd s ms k f, nth_error D i = Some sd -> In (k, JNull) ms -> find_field sd k = Some f ->
    o_vm o && f_vm f = true -> p_vm_quirks P = true ->
    exists c, j2t_val P D o (TStruct i) s (JObj ms) = Err c.
Proof. exact j2t_vm_null_quirk_rejected_lemma. Qed.
Print Assumptions j2t_vm_null_quirk_rejected.

Theorem j2t_unknown_skipped :
  forall P D o i sd s ms1 ms2 k x, nth_error D i = Some sd -> find_field sd k = None ->
    o_disallow_unknown o = false -> s < max_level ->
    j2t_val P D o (TStruct i) s (JObj (ms1 ++ (k, x) :: ms2)) = j2t_val P D o (TStruct i) s (JObj (ms1 ++ ms2)).
Proof. exact j2t_unknown_skipped_lemma. Qed.
Print Assumptions j2t_unknown_skipped.

Theorem j2t_null_map_entry_omitted :
  forall P D o k v s ms1 ms2 kk kb, key_bytes P k kk = Ok kb -> s < max_level ->
    j2t_val P D o (TMap k v) s (JObj (ms1 ++ (kk, JNull) :: ms2)) = j2t_val P D o (TMap k v) s (JObj (ms1 ++ ms2)).
Proof. exact j2t_null_map_entry_omitted_lemma. Qed.
Print Assumptions j2t_null_map_entry_omitted.

Theorem j2t_null_elem_omitted_list :
  forall P D o e s xs1 xs2, s < max_level ->
    j2t_val P D o (TList e) s (JArr (xs1 ++ JNull :: xs2)) = j2t_val P D o (TList e) s (JArr (xs1 ++ xs2)).
Proof. exact j2t_null_elem_omitted_list_lemma. Qed.
Print Assumptions j2t_null_elem_omitted_list.

Theorem j2t_null_elem_omitted_set :
  forall P D o e s xs1 xs2, s < max_level ->
    j2t_val P D o (TSet e) s (JArr (xs1 ++ JNull :: xs2)) = j2t_val P D o (TSet e) s (JArr (xs1 ++ xs2)).
Proof. exact j2t_null_elem_omitted_set_lemma. Qed.
Print Assumptions j2t_null_elem_omitted_set.

(* ================================================================== (5) unknown members under DisallowUnknownField *)

Theorem j2t_unknown_rejected :
  forall P D o i sd s ms k x, nth_error D i = Some sd -> find_field sd k = None ->
    o_disallow_unknown o = true -> In (k, x) ms ->
    exists c, j2t_val P D o (TStruct i) s (JObj ms) = Err c.
Proof. exact j2t_unknown_rejected_lemma. Qed.
Print Assumptions j2t_unknown_rejected.

(* ================================================================== examples: the hypotheses are satisfiable *)

(* struct 0 { 1: optional i32 a; 2: optional list<string> b; 300: map<i64, S1> m; 4: double d; 5: optional binary x;
              6: i64 v (api.js_conv); 7: i16 w (api.js_conv) }
   struct 1 { 1: optional bool x } *)
Definition exD : defs :=
  [[mkFld 1 [[97]] TI32 2 false; mkFld 2 [[98]] (TList TString) 2 false; mkFld 300 [[109]] (TMap TI64 (TStruct 1)) 0 false;
    mkFld 4 [[100]] TDouble 0 false; mkFld 5 [[120]] TBinary 2 false;
    mkFld 6 [[118]] TI64 0 true; mkFld 7 [[119]] TI16 0 true];
   [mkFld 1 [[120]] TBool 2 false]].

(* a (partial) double printer: 1.0 -> "1", 0.1 -> "0.1", everything else "0" (conf accepts only what round-trips) *)
Definition exdlex (b : Z) : list Z :=
  if b =? 4607182418800017408 then [49] else if b =? 4591870180066957722 then [48; 46; 49] else [48].

Definition exo : jopts := mkOpts false false false false.       (* allow unknown, no String2Int64, base64 binary, no value mapping *)
Definition exo_strict : jopts := mkOpts true false false false. (* DisallowUnknownField *)
Definition exo_vm : jopts := mkOpts false false false true.     (* EnableValueMapping *)
Definition code_vm : policy := mkPolicy num_strict false true.  (* strict numbers, but the code's api.js_conv quirks *)

Definition exv : tval :=
  VStruct [(1, VI32 (-5));
           (2, VList 11 [VString [104; 105]; VString []]);
           (300, VMap 10 12 [(VI64 7, VStruct [(1, VBool 1)]); (VI64 (-1), VStruct [])]);
           (4, VDouble 4591870180066957722);
           (5, VString [1; 2; 3; 255])].

Example ex_conf : conf exdlex exD (TStruct 0) exv = true.
Proof. vm_compute. reflexivity. Qed.

Example ex_depth : 1 + Z.of_nat (depth exv) - 1 <= max_level.
Proof. vm_compute. discriminate. Qed.

Example ex_dbl_rejected : conf exdlex exD TDouble (VDouble 4611686018427387904) = false.  (* 2.0 is not round-tripped by exdlex *)
Proof. vm_compute. reflexivity. Qed.

(* {"a":-5,"b":["hi",""],"m":{"7":{"x":true},"-1":{}},"d":0.1,"x":"AQID/w=="} *)
Example ex_json_text :
  json_print (json_of exdlex exD exo (TStruct 0) exv) =
  [123; 34; 97; 34; 58; 45; 53; 44; 34; 98; 34; 58; 91; 34; 104; 105; 34; 44; 34; 34; 93; 44; 34; 109; 34; 58; 123; 34; 55;
   34; 58; 123; 34; 120; 34; 58; 116; 114; 117; 101; 125; 44; 34; 45; 49; 34; 58; 123; 125; 125; 44; 34; 100; 34; 58; 48;
   46; 49; 44; 34; 120; 34; 58; 34; 65; 81; 73; 68; 47; 119; 61; 61; 34; 125].
Proof. vm_compute. reflexivity. Qed.

(* the conclusion of (1), computed *)
Example ex_encodes : j2t exD exo (TStruct 0) (json_of exdlex exD exo (TStruct 0) exv) = Ok (encode exv).
Proof. vm_compute. reflexivity. Qed.

Example ex_encodes_bytes :
  j2t exD exo (TStruct 0) (json_of exdlex exD exo (TStruct 0) exv) =
  Ok [8; 0; 1; 255; 255; 255; 251;
      15; 0; 2; 11; 0; 0; 0; 2; 0; 0; 0; 2; 104; 105; 0; 0; 0; 0;
      13; 1; 44; 10; 12; 0; 0; 0; 2; 0; 0; 0; 0; 0; 0; 0; 7; 2; 0; 1; 1; 0; 255; 255; 255; 255; 255; 255; 255; 255; 0;
      4; 0; 4; 63; 185; 153; 153; 153; 153; 153; 154;
      11; 0; 5; 0; 0; 0; 4; 1; 2; 3; 255;
      0].
Proof. vm_compute. reflexivity. Qed.

(* ... and obtained from the theorem (the instance is not vacuous) *)
Example ex_encodes_by_thm : j2t exD exo (TStruct 0) (json_of exdlex exD exo (TStruct 0) exv) = Ok (encode exv).
Proof. apply j2t_encodes_denoted_top; [exact ex_conf | vm_compute; discriminate]. Qed.

(* text level, with trailing bytes " ]x" that are never looked at *)
Example ex_text_encodes :
  j2t_text strict exD exo (TStruct 0) (json_print (json_of exdlex exD exo (TStruct 0) exv) ++ [32; 93; 120]) = Ok (encode exv).
Proof. vm_compute. reflexivity. Qed.

Example ex_text_encodes_by_thm :
  j2t_text strict exD exo (TStruct 0) (json_print (json_of exdlex exD exo (TStruct 0) exv) ++ [32; 93; 120]) = Ok (encode exv).
Proof. apply j2t_text_encodes_denoted; [exact ex_conf | vm_compute; discriminate | reflexivity]. Qed.

(* (2) same AST, different spelling:  { "a" : 1 }  vs  {"a":1} *)
Example ex_ast_only_hyp :
  option_map fst (json_parse_prefix [123; 32; 34; 97; 34; 32; 58; 32; 49; 32; 125]) =
  option_map fst (json_parse_prefix [123; 34; 92; 117; 48; 48; 54; 49; 34; 58; 49; 125]).
Proof. vm_compute. reflexivity. Qed.

Example ex_ast_only :
  j2t_text strict exD exo (TStruct 0) [123; 32; 34; 97; 34; 32; 58; 32; 49; 32; 125] = Ok [8; 0; 1; 0; 0; 0; 1; 0] /\
  j2t_text strict exD exo (TStruct 0) [123; 34; 92; 117; 48; 48; 54; 49; 34; 58; 49; 125] = Ok [8; 0; 1; 0; 0; 0; 1; 0].
Proof. vm_compute. split; reflexivity. Qed.

(* (3)  {"a":"x"} : string for an i32 field *)
Example ex_mismatch_hyp :
  nth_error exD 0 = Some (nth 0 exD []) /\ find_field (nth 0 exD []) [97] = Some (mkFld 1 [[97]] TI32 2 false) /\
  o_vm exo && false = false /\ is_null (JStr [120]) = false /\ kind_ok exo TI32 (JStr [120]) = false.
Proof. vm_compute. repeat split; reflexivity. Qed.

Example ex_mismatch_text : j2t_text strict exD exo (TStruct 0) [123; 34; 97; 34; 58; 34; 120; 34; 125] = Err E_KIND.
Proof. vm_compute. reflexivity. Qed.

(* (3) two levels down:  {"a":1,"m":{"1":{"x":1}}} : number for the bool field of the map's struct value *)
Example ex_mismatch_deep_text :
  j2t_text strict exD exo (TStruct 0)
    [123; 34; 97; 34; 58; 49; 44; 34; 109; 34; 58; 123; 34; 49; 34; 58; 123; 34; 120; 34; 58; 49; 125; 125; 125] = Err E_KIND.
Proof. vm_compute. reflexivity. Qed.

(* (3) list element:  {"b":["s",true]} *)
Example ex_mismatch_elem_text :
  j2t_text strict exD exo (TStruct 0) [123; 34; 98; 34; 58; 91; 34; 115; 34; 44; 116; 114; 117; 101; 93; 125] = Err E_KIND.
Proof. vm_compute. reflexivity. Qed.

(* (4)  {"a":null,"d":1}  converts like  {"d":1} *)
Example ex_null_omitted_text :
  j2t_text strict exD exo (TStruct 0) [123; 34; 97; 34; 58; 110; 117; 108; 108; 44; 34; 100; 34; 58; 49; 125] =
  j2t_text strict exD exo (TStruct 0) [123; 34; 100; 34; 58; 49; 125] /\
  j2t_text strict exD exo (TStruct 0) [123; 34; 100; 34; 58; 49; 125] = Ok [4; 0; 4; 63; 240; 0; 0; 0; 0; 0; 0; 0].
Proof. vm_compute. split; reflexivity. Qed.

(* (4) null list element and null map value:  {"b":["s",null],"m":{"3":null}}  converts like  {"b":["s"],"m":{}} *)
Example ex_null_nested_text :
  j2t_text strict exD exo (TStruct 0)
    [123; 34; 98; 34; 58; 91; 34; 115; 34; 44; 110; 117; 108; 108; 93; 44; 34; 109; 34; 58; 123; 34; 51; 34; 58; 110; 117; 108; 108; 125; 125] =
  j2t_text strict exD exo (TStruct 0) [123; 34; 98; 34; 58; 91; 34; 115; 34; 93; 44; 34; 109; 34; 58; 123; 125; 125] /\
  j2t_text strict exD exo (TStruct 0) [123; 34; 98; 34; 58; 91; 34; 115; 34; 93; 44; 34; 109; 34; 58; 123; 125; 125] =
  Ok [15; 0; 2; 11; 0; 0; 0; 1; 0; 0; 0; 1; 115; 13; 1; 44; 10; 12; 0; 0; 0; 0; 0].
Proof. vm_compute. split; reflexivity. Qed.

(* (4)/(5) unknown member "zz":  {"zz":[1,{}],"a":1}  — skipped by default, an error under DisallowUnknownField *)
Example ex_unknown_hyp : find_field (nth 0 exD []) [122; 122] = None /\ o_disallow_unknown exo = false /\ o_disallow_unknown exo_strict = true.
Proof. vm_compute. repeat split; reflexivity. Qed.

Example ex_unknown_skipped_text :
  j2t_text strict exD exo (TStruct 0) [123; 34; 122; 122; 34; 58; 91; 49; 44; 123; 125; 93; 44; 34; 97; 34; 58; 49; 125] =
  Ok [8; 0; 1; 0; 0; 0; 1; 0].
Proof. vm_compute. reflexivity. Qed.

Example ex_unknown_rejected_text :
  j2t_text strict exD exo_strict (TStruct 0) [123; 34; 122; 122; 34; 58; 91; 49; 44; 123; 125; 93; 44; 34; 97; 34; 58; 49; 125] =
  Err E_UNKNOWN.
Proof. vm_compute. reflexivity. Qed.

(* the strict number policy at work: 2147483648 does not fit i32, 1.5 is not an integer, 1e2 is one *)
Example ex_num_range :
  j2t_text strict exD exo (TStruct 0) [123; 34; 97; 34; 58; 50; 49; 52; 55; 52; 56; 51; 54; 52; 56; 125] = Err E_NUM /\
  j2t_text strict exD exo (TStruct 0) [123; 34; 97; 34; 58; 49; 46; 53; 125] = Err E_NUM /\
  j2t_text strict exD exo (TStruct 0) [123; 34; 97; 34; 58; 49; 101; 50; 125] = Ok [8; 0; 1; 0; 0; 0; 100; 0].
Proof. vm_compute. repeat split; reflexivity. Qed.

(* ---- api.js_conv (value mapping) ---- *)
Definition exv_vm : tval := VStruct [(1, VI32 3); (6, VI64 7); (7, VI16 (-2))].

Example ex_vm_conf : conf exdlex exD (TStruct 0) exv_vm = true.
Proof. vm_compute. reflexivity. Qed.

(* (1) holds with EnableValueMapping too: {"a":3,"v":7,"w":-2} *)
Example ex_vm_encodes :
  j2t exD exo_vm (TStruct 0) (json_of exdlex exD exo_vm (TStruct 0) exv_vm) = Ok (encode exv_vm) /\
  encode exv_vm = [8; 0; 1; 0; 0; 0; 3; 10; 0; 6; 0; 0; 0; 0; 0; 0; 0; 7; 6; 0; 7; 255; 254; 0].
Proof. vm_compute. split; reflexivity. Qed.

Example ex_vm_encodes_by_thm :
  j2t exD exo_vm (TStruct 0) (json_of exdlex exD exo_vm (TStruct 0) exv_vm) = Ok (encode exv_vm).
Proof. apply j2t_encodes_denoted_top; [exact ex_vm_conf | vm_compute; discriminate]. Qed.

(* {"v":"7"} and {"v":7} both give the i64 7; {"v":""} gives zero; {"v":true} is an error *)
Example ex_vm_text :
  j2t_text strict exD exo_vm (TStruct 0) [123; 34; 118; 34; 58; 34; 55; 34; 125] = Ok [10; 0; 6; 0; 0; 0; 0; 0; 0; 0; 7; 0] /\
  j2t_text strict exD exo_vm (TStruct 0) [123; 34; 118; 34; 58; 55; 125] = Ok [10; 0; 6; 0; 0; 0; 0; 0; 0; 0; 7; 0] /\
  j2t_text strict exD exo_vm (TStruct 0) [123; 34; 118; 34; 58; 34; 34; 125] = Ok [10; 0; 6; 0; 0; 0; 0; 0; 0; 0; 0; 0] /\
  j2t_text strict exD exo_vm (TStruct 0) [123; 34; 118; 34; 58; 116; 114; 117; 101; 125] = Err E_KIND.
Proof. vm_compute. repeat split; reflexivity. Qed.

(* without EnableValueMapping the annotation is inert: {"v":"7"} is a kind mismatch (no String2Int64 either) *)
Example ex_vm_off_text :
  j2t_text strict exD exo (TStruct 0) [123; 34; 118; 34; 58; 34; 55; 34; 125] = Err E_KIND /\
  j2t_text strict exD exo (TStruct 0) [123; 34; 118; 34; 58; 55; 125] = Ok [10; 0; 6; 0; 0; 0; 0; 0; 0; 0; 7; 0].
Proof. vm_compute. split; reflexivity. Qed.

Example ex_vm_mismatch_hyp :
  find_field (nth 0 exD []) [118] = Some (mkFld 6 [[118]] TI64 0 true) /\ o_vm exo_vm && true = true /\
  is_null (JBool true) = false /\ vm_kind_ok (JBool true) = false.
Proof. vm_compute. repeat split; reflexivity. Qed.

(* finding 208: under the code's quirk the i16 api.js_conv field gets one extra byte ({"w":5}: 00 05 05), and a null member is an error *)
Example ex_vm_quirk_i16 :
  j2t_text code_vm exD exo_vm (TStruct 0) [123; 34; 119; 34; 58; 53; 125] = Ok [6; 0; 7; 0; 5; 5; 0] /\
  j2t_text strict  exD exo_vm (TStruct 0) [123; 34; 119; 34; 58; 53; 125] = Ok [6; 0; 7; 0; 5; 0].
Proof. vm_compute. split; reflexivity. Qed.

Example ex_vm_quirk_null :
  j2t_text code_vm exD exo_vm (TStruct 0) [123; 34; 119; 34; 58; 110; 117; 108; 108; 125] = Err E_KIND /\
  j2t_text strict  exD exo_vm (TStruct 0) [123; 34; 119; 34; 58; 110; 117; 108; 108; 125] = Ok [0].
Proof. vm_compute. split; reflexivity. Qed.

(* ---- BinaryConv.do (j2t_do): what sits in front of the converter ---- *)
(* a text that is JSON for the converter (not string-typed root, or starting with the quote) is handled by the prefix parse alone:
   leading blanks skipped, nothing after the top-level value is looked at (see j2t_text_print), truncation inside the value = parse error *)
Theorem j2t_do_is_text :
  forall P D o t c r, (is_str_ty t = false \/ c = 34) -> j2t_do P D o t (c :: r) = j2t_text P D o t (c :: r).
Proof. exact j2t_do_text. Qed.
Print Assumptions j2t_do_is_text.

(* the documented unquoted-string special case: the whole text is the string *)
Theorem j2t_do_unquoted_string :
  forall P D o t c r, is_str_ty t = true -> c <> 34 -> j2t_do P D o t (c :: r) = j2t_val P D o t 1 (JStr (c :: r)).
Proof. exact j2t_do_unquoted. Qed.
Print Assumptions j2t_do_unquoted_string.

Theorem j2t_do_encodes_denoted :
  forall dlex D o v t r, conf dlex D t v = true -> Z.of_nat (depth v) <= max_level -> stop r = true ->
  j2t_do strict D o t (json_print (json_of dlex D o t v) ++ r) = Ok (encode v).
Proof. exact j2t_do_encodes_denoted_lemma. Qed.
Print Assumptions j2t_do_encodes_denoted.

(* top-level STRING descriptor: the literal abc in quotes followed by blanks is the 3-byte string; the same literal without its closing
   quote is an error; abc without any quote is the documented raw text *)
Example ex_do_string_root :
  j2t_do strict [] (mkOpts false false false false) TString [34; 97; 98; 99; 34; 10] = Ok [0; 0; 0; 3; 97; 98; 99] /\
  j2t_do strict [] (mkOpts false false false false) TString [34; 97; 98; 99] = Err E_PARSE /\
  j2t_do strict [] (mkOpts false false false false) TString [97; 98; 99] = Ok [0; 0; 0; 3; 97; 98; 99] /\
  j2t_do strict [] (mkOpts false false false false) (TList TI32) [32; 91; 49; 93; 32] = Ok [8; 0; 0; 0; 1; 0; 0; 0; 1] /\
  j2t_do strict [] (mkOpts false false false false) (TList TI32) [91; 49] = Err E_PARSE /\
  j2t_do strict [] (mkOpts false false false false) (TList TI32) [] = Err E_PARSE.
Proof. vm_compute. repeat split; reflexivity. Qed.

(* ================================================================== (G) the flag word of the native converter *)
(* conv/j2t toFlags is translated from the Go source on every build (gen/Gen_j2tflags.v; the constants types.F_* in
   gen/Gen_nativetypes.v).  A change of the Go text re-states these theorems about the new text. *)
From DG Require Import NativeFlags Gen_nativetypes Gen_j2tflags Check20g GenJ2tflagsProofs.

(* the Go constants are the single, pairwise distinct bits 0..8 declared in native/thrift.h *)
Theorem C02_flag_constants :
  [F_ALLOW_UNKNOWN; F_WRITE_DEFAULT; F_VALUE_MAPPING; F_HTTP_MAPPING; F_STRING_INT; F_WRITE_REQUIRE; F_NO_BASE64; F_WRITE_OPTIONAL; F_TRACE_BACK]
    = native_flag_list /\
  map Z.log2 [F_ALLOW_UNKNOWN; F_WRITE_DEFAULT; F_VALUE_MAPPING; F_HTTP_MAPPING; F_STRING_INT; F_WRITE_REQUIRE; F_NO_BASE64; F_WRITE_OPTIONAL; F_TRACE_BACK]
    = [0; 1; 2; 3; 4; 5; 6; 7; 8].
Proof. split; [exact go_flag_constants_are_native | exact (proj1 go_flag_constants_single_bits)]. Qed.
Print Assumptions C02_flag_constants.

(* each option sets exactly its bit (DisallowUnknownField: the ABSENCE of F_ALLOW_UNKNOWN), nothing else is set *)
Theorem C02_toFlags_exact :
  forall o, toFlags o =
    bit_if (toFlags_opts_WriteDefaultField o) F_WRITE_DEFAULT + bit_if (negb (toFlags_opts_DisallowUnknownField o)) F_ALLOW_UNKNOWN +
    bit_if (toFlags_opts_EnableValueMapping o) F_VALUE_MAPPING + bit_if (toFlags_opts_EnableHttpMapping o) F_HTTP_MAPPING +
    bit_if (toFlags_opts_String2Int64 o) F_STRING_INT + bit_if (toFlags_opts_WriteRequireField o) F_WRITE_REQUIRE +
    bit_if (toFlags_opts_NoBase64Binary o) F_NO_BASE64 + bit_if (toFlags_opts_WriteOptionalField o) F_WRITE_OPTIONAL +
    bit_if (toFlags_opts_ReadHttpValueFallback o || (toFlags_opts_EnableHttpMapping o && toFlags_opts_TracebackRequredOrRootFields o)) F_TRACE_BACK.
Proof. exact toFlags_exact. Qed.
Print Assumptions C02_toFlags_exact.

(* for EVERY setting of the nine options: the option record the native converter reads off the word (flags & F_X as in
   native/thrift.c) is the option record of the J2T model *)
Theorem C02_toFlags_denotes_jopts :
  forall o, jopts_of_flags (toFlags o) =
  mkOpts (toFlags_opts_DisallowUnknownField o) (toFlags_opts_String2Int64 o) (toFlags_opts_NoBase64Binary o) (toFlags_opts_EnableValueMapping o).
Proof. exact toFlags_jopts. Qed.
Print Assumptions C02_toFlags_denotes_jopts.

(* flags_of_model_opts = toFlags (the conv.Options the harness builds from the model's options), and back *)
Theorem C02_flags_of_jopts_from_source :
  forall o : jopts, flags_of_jopts o = toFlags (opts_of_jopts o) /\ jopts_of_flags (toFlags (opts_of_jopts o)) = o.
Proof. intro o. split; [apply flags_of_jopts_is_toFlags | apply jopts_flags_roundtrip]. Qed.
Print Assumptions C02_flags_of_jopts_from_source.

(* check 291 compares the real function with the generated definition AND with the native word: the two expectations coincide *)
Theorem C02_check_291_expectations :
  forall b flags, (toFlags (opts_of_bits b) =? flags) = (nflags_of_bits b =? flags).
Proof. exact check_toflags_codes. Qed.
Print Assumptions C02_check_291_expectations.

Example ex_toFlags_default : toFlags (opts_of_jopts (mkOpts false false false false)) = 1 /\ toFlags (opts_of_jopts (mkOpts true true true true)) = 84.
Proof. split; reflexivity. Qed.

(* (G) JSON whitespace: internal/json IsSpace (the blank mask the converter's front end skips with), from the Go source
   (gen/Gen_json.v), is the whitespace of the Json.v grammar *)
From DG Require Gen_json GenJsonProofs.
Theorem C02_IsSpace_from_source : forall c, 0 <= c < 256 -> Gen_json.IsSpace c = is_ws c.
Proof. exact GenJsonProofs.IsSpace_is_ws. Qed.
Print Assumptions C02_IsSpace_from_source.

(* ================= algorithm level: J2TWalk = the PORTABLE converter's doRecurse (conv/j2t/impl_fallback.go) as coded =================
   j2t_walk is tied to the portable converter by check 211 (bytes and error class on every generated document).  The native flavours
   inherit the theorem below only through the differential checks that tie native = portable = the spec on conforming inputs
   (C02 check 201 for the native path, C18 checks 1801 / 1807). *)

(* HEADLINE: on the canonical text of every JSON AST in the spec's domain (the strict spec returns Ok b), the walk over the raw text —
   tokeniser, whitespace skipping, member lookup, unknown-member skipping by bracket counting, null unwinding, list / map count
   back-patch, string unquoting, base64, String2Int64, requires bitmap — produces exactly b and leaves exactly the rest r.
   Hypotheses: write options and value mapping off (walk_ok_opts), no required fields (defs_plain: C16's subject),
   strings valid UTF-8, and wdom: integer positions (values, String2Int64 strings, integer map keys) hold PLAIN integer lexemes
   (an integer spelled with fraction / exponent goes through a double in the code: the drift class), and a double position does not
   hold the plain integer lexeme -0 (the code reads +0.0).  Unknown members, nulls, nesting, escapes and all other doubles are covered. *)
Theorem j2t_walk_refines_spec :
  forall D o, walk_ok_opts o = true -> defs_plain D = true ->
  forall j t s r b fuel,
  json_wf j = true -> json_utf8 j = true -> wdom D t j = true ->
  j2t_val strict D (jopts_of o) t s j = Ok b -> stop r = true ->
  (length (json_print j ++ r) < fuel)%nat ->
  walk D o fuel t (json_print j ++ r) = WOk b r.
Proof. exact J2TWalkProofs.j2t_walk_refines_spec. Qed.
Print Assumptions j2t_walk_refines_spec.

Theorem j2t_walk_top_refines_spec :
  forall D o, walk_ok_opts o = true -> defs_plain D = true ->
  forall j t s b,
  json_wf j = true -> json_utf8 j = true -> wdom D t j = true ->
  j2t_val strict D (jopts_of o) t s j = Ok b ->
  j2t_walk D o t (json_print j) = TOk b.
Proof. exact J2TWalkProofs.j2t_walk_top_refines_spec. Qed.
Print Assumptions j2t_walk_top_refines_spec.

(* composed with j2t_encodes_denoted: the portable walk over the canonical document of a conforming value yields its Thrift encoding *)
Theorem j2t_walk_encodes_denoted :
  forall D o, walk_ok_opts o = true -> defs_plain D = true ->
  forall dlex v t,
  conf dlex D t v = true -> Z.of_nat (depth v) <= max_level ->
  json_utf8 (json_of dlex D (jopts_of o) t v) = true -> wdom D t (json_of dlex D (jopts_of o) t v) = true ->
  j2t_walk D o t (json_print (json_of dlex D (jopts_of o) t v)) = TOk (encode v).
Proof.
  intros D o Ho HD dlex v t Hc Hd Hu Hw.
  apply (J2TWalkProofs.j2t_walk_top_refines_spec D o Ho HD _ t 1); [apply j2t_json_of_wf; exact Hc | exact Hu | exact Hw |].
  apply j2t_encodes_denoted; [exact Hc | lia].
Qed.
Print Assumptions j2t_walk_encodes_denoted.

(* error side, on canonical text, any descriptor table and options: a literal / array / object / number whose kind the type does not admit *)
Theorem j2t_walk_kind_mismatch :
  forall D o j t f r, kind_ok (jopts_of o) t j = false ->
  match j with JNull | JNum _ | JStr _ => False | _ => True end ->
  walk D o (S f) t (json_print j ++ r) = WErr W_DISMATCH.
Proof. exact J2TWalkProofs.walk_kind_mismatch. Qed.
Print Assumptions j2t_walk_kind_mismatch.

Theorem j2t_walk_num_mismatch :
  forall D o l t f r, num_okb l = true -> stop r = true -> is_num_ty t = false -> walk D o (S f) t (l ++ r) = WErr W_DISMATCH.
Proof. exact J2TWalkProofs.walk_num_mismatch. Qed.
Print Assumptions j2t_walk_num_mismatch.

(* ... and for strings (since /repo 11a56b9, the fix of finding 212: before, a string for a descriptor that takes none fell out of
   the switch and the walk carried on with the next value) *)
Theorem j2t_walk_string_mismatch :
  forall D o x t f r, jbytes_okb x = true -> utf8_valid x = true -> kind_ok (jopts_of o) t (JStr x) = false ->
  walk D o (S f) t (quote_ref x ++ r) = WErr W_DISMATCH.
Proof. exact J2TWalkProofs.walk_string_mismatch. Qed.
Print Assumptions j2t_walk_string_mismatch.

(* the clean error side: every kind contradiction at the value the walk stands on is a type-mismatch error of the walk, for every
   descriptor table and option set (a null is reported to the enclosing container, which drops the member) ... *)
Theorem j2t_walk_rejects_kind_mismatch_at :
  forall D o j t f r, json_wf j = true -> json_utf8 j = true -> stop r = true ->
  kind_ok (jopts_of o) t j = false -> j <> JNull ->
  walk D o (S f) t (json_print j ++ r) = WErr W_DISMATCH.
Proof. exact J2TWalkProofs.walk_rejects_kind_mismatch. Qed.
Print Assumptions j2t_walk_rejects_kind_mismatch_at.

(* ... and at the top level (null included) whenever the strict spec's kind test fails: spec Err (kind mismatch) => walk Err.
   (For a STRING / binary root a text that does not start with the quote is, as documented, the string itself.) *)
Theorem j2t_walk_rejects_kind_mismatch :
  forall D o j t, json_wf j = true -> json_utf8 j = true -> is_string_ty t = false -> kind_ok (jopts_of o) t j = false ->
  (exists c, j2t_walk D o t (json_print j) = TErr c) /\ (exists c, j2t_val strict D (jopts_of o) t 1 j = Err c).
Proof.
  intros D o j t Hw Hu Hs Hk. split; [apply J2TWalkProofs.j2t_walk_rejects_kind_mismatch; assumption | apply j2t_rejects_kind_mismatch; exact Hk].
Qed.
Print Assumptions j2t_walk_rejects_kind_mismatch.

(* regression statement on the former witness of finding 212 *)
Theorem j2t_walk_string_mismatch_rejected :
  forall D o x t, jbytes_okb x = true -> utf8_valid x = true -> kind_ok (jopts_of o) t (JStr x) = false ->
  j2t_walk D o t (json_print (JStr x)) = TErr W_DISMATCH /\ exists c, j2t_val strict D (jopts_of o) t 1 (JStr x) = Err c.
Proof. exact J2TWalkProofs.j2t_walk_string_mismatch_rejected. Qed.
Print Assumptions j2t_walk_string_mismatch_rejected.

(* the fuel of j2t_walk always suffices (for every text, descriptor and option set) *)
Theorem j2t_walk_never_out_of_fuel : forall D o t text, j2t_walk D o t text <> TErr W_FUEL.
Proof. exact J2TWalkProofs.j2t_walk_never_fuel. Qed.
Print Assumptions j2t_walk_never_out_of_fuel.

(* leaf facts the refinement rests on *)
Theorem j2t_walk_unquote_quote : forall s, jbytes_okb s = true -> utf8_valid s = true -> go_unquote (quote_ref s) = Some s.
Proof. exact J2TWalkTok.go_unquote_quote. Qed.
Print Assumptions j2t_walk_unquote_quote.

Theorem j2t_walk_skip_value_print : forall x r, json_wf x = true -> stop r = true -> skip_value (json_print x ++ r) = Some r.
Proof. exact J2TWalkTok.skip_value_print. Qed.
Print Assumptions j2t_walk_skip_value_print.

Theorem j2t_walk_float_syntax : forall l, num_okb l = true -> go_float_dec l = lex_decimal l.
Proof. exact J2TWalkTok.go_float_dec_lex. Qed.
Print Assumptions j2t_walk_float_syntax.

(* ================= algorithm level: J2TWalk (the portable converter's doRecurse as coded) ================= *)
Definition wD : defs := [[mkFld 1 [[97]] TI32 2 false; mkFld 2 [[98]] (TList TString) 2 false; mkFld 3 [[109]] (TMap TI64 (TStruct 1)) 0 false;
                          mkFld 4 [[100]] TDouble 0 false; mkFld 5 [[120]] TBinary 2 false; mkFld 6 [[116]] TBool 2 false];
                         [mkFld 1 [[120]] TBool 2 false]].
Definition wo0 : wopts := mkWopts false false false false false false false.

(* {"a":1,"b":["x",null,"y"],"m":{"7":{"x":true}},"zz":[1,{"q":"]"}],"d":0.5}  and the same text with blanks between all tokens *)
Example ex_walk_doc :
  j2t_walk wD wo0 (TStruct 0)
    [123;34;97;34;58;49;44;34;98;34;58;91;34;120;34;44;110;117;108;108;44;34;121;34;93;44;34;109;34;58;123;34;55;34;58;123;34;120;34;58;116;114;117;101;125;125;44;
     34;122;122;34;58;91;49;44;123;34;113;34;58;34;93;34;125;93;44;34;100;34;58;48;46;53;125]
  = TOk [8;0;1;0;0;0;1; 15;0;2;11;0;0;0;2;0;0;0;1;120;0;0;0;1;121; 13;0;3;10;12;0;0;0;1;0;0;0;0;0;0;0;7;2;0;1;1;0; 4;0;4;63;224;0;0;0;0;0;0; 0]
  /\ j2t_walk wD wo0 (TStruct 0) [32;123;10;34;97;34;32;58;9;49;32;125;13] = TOk [8;0;1;0;0;0;1;0].
Proof. vm_compute. split; reflexivity. Qed.

(* the walk and the strict spec agree on that text (instance of j2t_walk_refines_spec) *)
Example ex_walk_eq_spec :
  j2t_do strict wD (jopts_of wo0) (TStruct 0) [123;34;97;34;58;49;44;34;109;34;58;123;34;55;34;58;123;125;125;125]
  = Ok [8;0;1;0;0;0;1;13;0;3;10;12;0;0;0;1;0;0;0;0;0;0;0;7;0;0] /\
  j2t_walk wD wo0 (TStruct 0) [123;34;97;34;58;49;44;34;109;34;58;123;34;55;34;58;123;125;125;125]
  = TOk [8;0;1;0;0;0;1;13;0;3;10;12;0;0;0;1;0;0;0;0;0;0;0;7;0;0].
Proof. vm_compute. split; reflexivity. Qed.

(* peculiarities of the code reproduced by the walk (the strict spec rejects all of these texts; so does the walk for the first two
   since the fix of finding 212: {"t":"x" true} and a top-level "x" for a struct used to be converted / silently empty);   {"a":007};   {"d":1e999} reads as 0;
   a top-level string literal abc cut off by the end of the text (no closing quote) for a string descriptor yields ab;
   300 for a byte descriptor keeps 44; a top-level null and an unknown member under DisallowUnknownField are errors *)
Example ex_walk_peculiar :
  j2t_walk wD wo0 (TStruct 0) [123;34;116;34;58;34;120;34;32;116;114;117;101;125] = TErr W_DISMATCH /\
  j2t_walk wD wo0 (TStruct 0) [34;120;34] = TErr W_DISMATCH /\
  j2t_walk wD wo0 (TStruct 0) [123;34;97;34;58;48;48;55;125] = TOk [8;0;1;0;0;0;7;0] /\
  j2t_walk wD wo0 (TStruct 0) [123;34;100;34;58;49;101;57;57;57;125] = TOk [4;0;4;0;0;0;0;0;0;0;0;0] /\
  j2t_walk wD wo0 TString [34;97;98;99] = TOk [0;0;0;2;97;98] /\
  j2t_walk wD wo0 TByte [51;48;48] = TOk [44] /\
  j2t_walk wD wo0 (TStruct 0) [110;117;108;108] = TErr W_OTHER /\
  j2t_walk wD (mkWopts true false false false false false false) (TStruct 0) [123;34;122;34;58;49;125] = TErr W_UNKNOWN.
Proof. vm_compute. repeat split; reflexivity. Qed.
