(* C14 — Thrift descriptors mirror the IDL and lookups are exact. *)
From Coq Require Import ZArith List Bool Lia.
From DG Require Import CaseFormat GoSem Lookup LookupProofs Idl IdlProofs IdlParse IdlParseProofs Gen_caching GenCachingProofs.
Import ListNotations.
Local Open Scope Z_scope.

(* ---------------------------------------------------------------- lookup by id: FieldIDMap (internal/util/fieldmap.go) *)

(* Get after Set of all fields returns the declared field for EVERY id (no bound on the id), and nothing for any other id *)
Theorem C14_fieldid_get_build :
  forall (V : Type) (fs : list (Z * V)),
  NoDup (map fst fs) -> (forall id, In id (map fst fs) -> 0 <= id) ->
  exists m, fid_build fs = Some m /\ forall id, fid_get m id = assocZ id fs.
Proof. exact @fid_get_build. Qed.
Print Assumptions C14_fieldid_get_build.

(* without the distinctness hypothesis: the last Set of an id wins *)
Theorem C14_fieldid_get_build_last :
  forall (V : Type) (fs : list (Z * V)),
  (forall id, In id (map fst fs) -> 0 <= id) ->
  exists m, fid_build fs = Some m /\ forall id, fid_get m id = if id <? 0 then None else assocZ id (rev fs).
Proof. exact @fid_get_build_last. Qed.
Print Assumptions C14_fieldid_get_build_last.

(* the hypothesis on the sign is needed for Set: a negative id makes FieldIDMap.Set index out of range (finding 1405; since fix
   cc65c3e the IDL front end rejects such a field with an error before it reaches Set, and Get of a negative id returns nil) *)
Example C14_fieldid_negative_refuted : fid_build [(1, 10); (-1, 20)] = None.
Proof. vm_compute. reflexivity. Qed.

(* ---------------------------------------------------------------- lookup by key: TrieTree (internal/caching/trie.go) *)

(* for EVERY byte string k, EVERY key set (distinct keys) and WHATEVER list of positions is chosen *)
Theorem C14_trie_get_build :
  forall (V : Type) (positions : list Z) (kvs : list (key * V)) (k : key),
  NoDup (map fst kvs) -> trie_get (trie_build positions kvs) k = assoc k kvs.
Proof. exact @trie_get_build. Qed.
Print Assumptions C14_trie_get_build.

Theorem C14_trie_get_build_last :
  forall (V : Type) (positions : list Z) (kvs : list (key * V)) (k : key),
  trie_get (trie_build positions kvs) k = assoc k (rev kvs).
Proof. exact @trie_get_build_last. Qed.
Print Assumptions C14_trie_get_build_last.

(* the nil dereference in TrieTree.Get (`*fn.Leaves`) is unreachable once a non-empty key was Set *)
Theorem C14_trie_get_no_panic :
  forall (V : Type) (positions : list Z) (kvs : list (key * V)) (k : key),
  (exists k0, In k0 (map fst kvs) /\ k0 <> []) -> trie_get_panics (trie_build positions kvs) k = false.
Proof. exact @trie_get_no_panic. Qed.
Print Assumptions C14_trie_get_no_panic.

(* 0x00 and 0xff share a bucket (ascii2Int is not injective); the lookup is still exact because leaves compare the whole key *)
Example C14_trie_bucket_collision :
  ascii2int 0 = ascii2int 255 /\
  let t := trie_build [0] [([0], 1); ([255], 2)] in trie_get t [0] = Some 1 /\ trie_get t [255] = Some 2 /\ trie_get t [254] = None.
Proof. vm_compute. repeat split; reflexivity. Qed.

(* native twin (native/map.c trie_get, `if (j > fs.len) return NULL`): agrees with the Go code whenever it answers ... *)
Theorem C14_trie_native_agrees :
  forall (V : Type) (ps : list Z) (k : key) (n : tnode V) r, tn_get_native ps k n = Some r -> r = tn_get ps k n.
Proof. exact @tn_get_native_agrees. Qed.
Print Assumptions C14_trie_native_agrees.

(* ... and since TrieTree.Set keeps a spare zeroed node behind every index slice (fix 0d2d3ac) it always answers on the
   one-position tries that FieldNameMap.Build constructs: the read at bucket == len lands on the spare node *)
Theorem C14_trie_native_total :
  forall (V : Type) p (k : key) (n : tnode V), tn_index n <> [] -> tn_get_native [p] k n = Some (tn_get [p] k n).
Proof. exact @tn_get_native_total_one. Qed.
Print Assumptions C14_trie_native_total.

(* before the fix the same probe left the index array: struct { 1: i32 x2 }, probe "x3" (finding 1403, kept as a regression
   recogniser); with the spare node it is simply not found *)
Example C14_trie_native_boundary :
  let t := trie_build [1] [([120; 50], 1)] in
  tn_get_native_nospare (t_positions t) [120; 51] (t_root t) = None /\
  tn_get_native (t_positions t) [120; 51] (t_root t) = Some None /\ trie_get t [120; 51] = None.
Proof. vm_compute. repeat split; reflexivity. Qed.

(* ---------------------------------------------------------------- lookup by key: HashMap (internal/caching/map.go) *)

(* for EVERY byte string k and EVERY key set, under the hypotheses the proof forces: no key hashes to 0 and the table is
   larger than the key set (load factor >= 2; FieldNameMap.Build uses 4) *)
Theorem C14_hashmap_get_build :
  forall (V : Type) (load : nat) (kvs : list (key * V)) (k : key),
  NoDup (map fst kvs) -> (forall k0, In k0 (map fst kvs) -> djb k0 <> 0) -> (length kvs < length kvs * load)%nat ->
  hm_get (hm_build load kvs) k = Some (assoc k kvs).
Proof. exact @hm_get_build. Qed.
Print Assumptions C14_hashmap_get_build.

(* the hash-0 hypothesis is needed for the building block: "ab7czbso" has DJBHash32 = 0, its slot keeps looking empty and Get never
   finds it (finding 1401; since fix bd82c3d FieldNameMap.Build never hands such a key to the hash map, see C14_build_hash_only_safe) *)
Example C14_hashmap_zero_hash_refuted :
  let k0 := [97; 98; 55; 99; 122; 98; 115; 111] in
  djb k0 = 0 /\ hm_get (hm_build 4 [(k0, 7)]) k0 = Some None /\ assoc k0 [(k0, 7)] = Some 7 /\
  (* a later key may even overwrite the slot *)
  hm_get (hm_build 4 [(k0, 7); ([100], 8)]) k0 = Some None.
Proof. vm_compute. repeat split; reflexivity. Qed.

(* the hypotheses are satisfiable and the statement is not vacuous *)
Example C14_hashmap_example :
  let kvs := [([97], 1); ([98], 2); ([97; 98], 3)] in
  NoDup (map fst kvs) /\ (forall k0, In k0 (map fst kvs) -> djb k0 <> 0) /\
  hm_get (hm_build 4 kvs) [97; 98] = Some (Some 3) /\ hm_get (hm_build 4 kvs) [98; 97] = Some None.
Proof.
  split; [repeat constructor; simpl; intuition discriminate|].
  split; [intros k0 [H|[H|[H|[]]]]; subst; vm_compute; discriminate|].
  vm_compute. split; reflexivity.
Qed.

(* native twin of the building block: bytes >= 0x80 are sign-extended by hash_DJB32, so the probe starts from another hash
   (finding 1402; since fix bd82c3d non-ASCII keys never reach the hash map) *)
Example C14_hashmap_native_refuted :
  let k := [97; 195; 169] in
  djb_native k <> djb k /\ hm_get (hm_build 4 [(k, 5)]) k = Some (Some 5) /\ hm_get_native (hm_build 4 [(k, 5)]) k = Some None.
Proof. vm_compute. repeat split; try reflexivity. discriminate. Qed.

(* ---------------------------------------------------------------- FieldNameMap.Build: whichever structure is chosen *)

(* since fix bd82c3d there is NO hypothesis on the keys: hash-0 and non-ASCII keys are kept out of the hash map *)
Theorem C14_build_either_way :
  forall (V : Type) (kvs : list (key * V)) (k : key),
  fnm_get (fnm_build (fnm_of_list kvs)) k = Some (assoc k (rev kvs)).
Proof. exact @fnm_get_of_list. Qed.
Print Assumptions C14_build_either_way.

Theorem C14_build_either_way_nodup :
  forall (V : Type) (m : fnmap V) (k : key),
  fn_impl m = FNone -> NoDup (map fst (fn_all m)) -> fnm_wf m ->
  fnm_get (fnm_build m) k = Some (assoc k (fn_all m)).
Proof. exact @fnm_get_build. Qed.
Print Assumptions C14_build_either_way_nodup.

(* whenever Build uses the hash map, every key is one the hash map and its native twin can hold: ASCII bytes, DJB hash <> 0 *)
Theorem C14_build_hash_only_safe :
  forall (V : Type) (m : fnmap V),
  fnm_wf m -> fnm_uses_hash m = true -> forall k0, In k0 (map fst (fn_all m)) -> hash_map_safe k0 = true.
Proof. exact @fnm_hash_only_safe. Qed.
Print Assumptions C14_build_hash_only_safe.

(* the code before the fix needed the hypothesis that no key hashes to 0 (kept: regression recogniser of finding 1401) *)
Theorem C14_build_either_way_prefix :
  forall (V : Type) (kvs : list (key * V)) (k : key),
  (forall k0, In k0 (map fst kvs) -> djb k0 <> 0) ->
  fnm_get (fnm_build_prefix (fnm_of_list kvs)) k = Some (assoc k (rev kvs)).
Proof. exact @fnm_get_of_list_prefix. Qed.
Print Assumptions C14_build_either_way_prefix.

(* 20 keys over a two-letter alphabet plus the hash-zero key "ab7czbso...": the old Build lost the key on the hash path,
   the repaired Build takes the trie and finds it *)
Example C14_build_zero_hash_key :
  let ab := fun n : Z => [97 + n mod 2; 97 + (n / 2) mod 2; 97 + (n / 4) mod 2; 97 + (n / 8) mod 2; 97 + (n / 16) mod 2; 97; 97; 97] in
  let k0 := [97; 98; 55; 99; 122; 98; 115; 111] in
  let kvs := (k0, 99) :: map (fun n => (ab n, n)) (seqZ 0 32) ++ map (fun n => (ab n ++ [98], n)) (seqZ 0 32) in
  djb k0 = 0 /\
  fst (fnm_kind (fnm_build_prefix (fnm_of_list kvs))) = 2 /\ fnm_get (fnm_build_prefix (fnm_of_list kvs)) k0 = Some None /\
  fst (fnm_kind (fnm_build (fnm_of_list kvs))) = 1 /\ fnm_get (fnm_build (fnm_of_list kvs)) k0 = Some (Some 99).
Proof. vm_compute. repeat split; reflexivity. Qed.

(* both paths are taken: dispersed keys go to the trie, 20 keys over a two-letter alphabet go to the hash *)
Example C14_build_paths :
  fst (fnm_kind (fnm_build (fnm_of_list [([97; 98], 1); ([97; 99], 2); ([98; 99], 3)]))) = 1 /\
  let ab := fun n : Z => [97 + n mod 2; 97 + (n / 2) mod 2; 97 + (n / 4) mod 2; 97 + (n / 8) mod 2; 97 + (n / 16) mod 2] in
  let kvs := map (fun n => (ab n, n)) (seqZ 0 20) in
  fst (fnm_kind (fnm_build (fnm_of_list kvs))) = 2 /\ fnm_get (fnm_build (fnm_of_list kvs)) (ab 13) = Some (Some 13) /\
  fnm_get (fnm_build (fnm_of_list kvs)) (ab 21) = Some None.
Proof. vm_compute. repeat split; reflexivity. Qed.

(* ---------------------------------------------------------------- (G) the model's leaf functions are the code's *)

Theorem C14_hash_from_source : forall k, Gen_caching.DJBHash32 k = djb k.
Proof. exact DJBHash32_is_djb. Qed.
Print Assumptions C14_hash_from_source.

Theorem C14_bucket_from_source : forall c, 0 <= c < 256 -> Gen_caching.ascii2Int c = ascii2int c.
Proof. exact ascii2Int_is_ascii2int. Qed.
Print Assumptions C14_bucket_from_source.

(* ---------------------------------------------------------------- elaboration exposes exactly what is declared *)

(* a struct descriptor produced by elab — through any typedef chain / include — is the image of one declared struct-like
   of the program: its annotations, and its kept fields (all but dynamicgo.deprecated / api.none-in-responses) one by one,
   in order, with the id / name / alias / requiredness / default computed by elab_meta from the declaration *)
Theorem C14_elab_struct_exact :
  forall intlit fuel p o f sdepth rdepth target t tn sn ms ks an,
  In f p ->
  elab_type intlit fuel p o f sdepth rdepth target t = Some (DStruct tn sn ms ks an) ->
  exists tf s rec root,
    In tf p /\ get_slike tf sn = Some s /\ an = struct_annos o tf s /\
    Forall2 (mirrors intlit p o tf (s_kind s) root rec) (kept_fields target (s_fields s)) ms /\
    ks = keys_of o ms.
Proof. exact elab_struct_exact. Qed.
Print Assumptions C14_elab_struct_exact.

Theorem C14_elab_field_columns :
  forall intlit p o tf kind root rec fds ms,
  Forall2 (mirrors intlit p o tf kind root rec) fds ms ->
  map (fun md => m_id (fst md)) ms = map f_id fds /\ map (fun md => m_name (fst md)) ms = map f_name fds /\
  map (fun md => m_req (fst md)) ms = map (fun fd => req_of (if kind =? 1 then 2 else f_req fd)) fds /\
  map (fun md => m_alias (fst md)) ms = map (fun fd => alias_of root (o_bodyfast o) (f_name fd) (f_annos fd)) fds.
Proof. exact mirrors_id. Qed.
Print Assumptions C14_elab_field_columns.

(* the service descriptor exposes exactly the declared (and inherited) functions of the selected services, each once *)
Theorem C14_elab_functions_exact :
  forall samefile intlit sd p o sn ds,
  elab samefile intlit sd p o = Some (sn, ds) ->
  exists main rest svcs,
    p = main :: rest /\ selected_services o main = Some (sn, svcs) /\
    map d_name ds = map (fun x => fn_name (snd x)) (flat_map (all_funcs 16 samefile p main) svcs) /\
    NoDup (map d_name ds).
Proof. exact elab_functions_exact. Qed.
Print Assumptions C14_elab_functions_exact.

(* lookups on an elaborated struct: found if and only if declared *)
Theorem C14_field_by_key_iff :
  forall d k id, NoDup (map fst (struct_keys d)) -> (field_by_key d k = Some id <-> In (k, id) (struct_keys d)).
Proof. exact field_by_key_iff. Qed.
Print Assumptions C14_field_by_key_iff.

Theorem C14_field_by_id_iff :
  forall d id m, NoDup (map (fun x => m_id (fst x)) (struct_fields d)) ->
  (field_by_id d id = Some m <-> exists t, In (m, t) (struct_fields d) /\ m_id m = id).
Proof. exact field_by_id_iff. Qed.
Print Assumptions C14_field_by_id_iff.

(* ... and the structures that the Go code builds for the struct compute exactly these functions, for every key / id *)
Theorem C14_struct_lookup_by_key :
  forall d k, fnm_get (fnm_build (fnm_of_list (struct_keys d))) k = Some (field_by_key d k).
Proof. exact struct_lookup_by_key. Qed.
Print Assumptions C14_struct_lookup_by_key.

Theorem C14_struct_lookup_by_id :
  forall d,
  (forall md, In md (struct_fields d) -> 0 <= m_id (fst md)) ->
  exists m, fid_build (map (fun x => (m_id (fst x), fst x)) (struct_fields d)) = Some m /\
            forall id, 0 <= id -> fid_get m id = field_by_id d id.
Proof. exact struct_lookup_by_id. Qed.
Print Assumptions C14_struct_lookup_by_id.

(* a small program: typedef chain into an included file, enum, recursion, alias, requiredness; elab is not vacuous.
   main.thrift: include "a.thrift"; typedef a.T U; struct S { 1: required U u (api.key = "k"), 2: optional S next }
                service Svc { S M(1: S req) }          a.thrift: enum E { X = 1 }  typedef E T *)
Example C14_elab_example :
  let nS := [83] in let nU := [85] in let nT := [84] in let nE := [69] in let na := [97] in
  let a := IFile [47; 97] [] [] [(nT, TNamed nE)] [(nE, [([88], 1)])] [] [] [] in
  let S := SLike 0 nS [IField 1 [117] (TNamed nU) 1 CNone [Anno n_api_key [[107]]]; IField 2 [110] (TNamed nS) 2 CNone []] [] in
  let main := IFile [47; 109] [] [(na, 1)] [(nU, TNamed (na ++ [46] ++ nT))] [] [] [S]
                    [ISvc [118] [] [IFunc [77] false (TNamed nS) [IField 1 [114] (TNamed nS) 0 CNone []] []]] in
  let o := POpts 0 false false false 0 0 [] false false false false in
  match elab true true 2 [main; a] o with
  | Some (sn, [f]) =>
    sn = [118] /\ d_name f = [77] /\
    match d_req f with
    | Some (DStruct _ _ [(_, DStruct tn _ [(m1, DBase 8 false); (m2, DStruct _ _ [(_, _); (_, DCut)] _ _)] ks _)] _ _) =>
      tn = nS /\ m_alias m1 = [107] /\ m_req m1 = 2 /\ m_req m2 = 0 /\ ks = [([107], 1); ([110], 2)]
    | _ => False
    end
  | _ => False
  end.
Proof. vm_compute. repeat split; reflexivity. Qed.

(* ---------------------------------------------------------------- the compiler as coded refines elab *)

(* coq/model/IdlParse.v transcribes thrift/idl.go (parse / getAllFuncs / addFunction / parseRequest / parseResponse / parseType
   with the compiling caches as explicit state and the descriptors as a pointer graph); check 1409 evaluates it on every
   generated AST against the real descriptors.  For every IDL AST in the computable domain [pdomain] (well-scoped names, no
   include alias clash, EnableThriftBase and ApiBodyFastPath off — the two options that make a descriptor depend on where the
   struct was first compiled): whenever the transcription and the specification are both defined, the graph read back to ANY
   depth equals elab's tree. *)
Theorem C14_parse_refines_elab :
  forall p o, pdomain p o = true ->
  forall st sn pfs sd e, parse p o = Some (st, sn, pfs) -> elab true true sd p o = Some e -> unroll_service sd (parse p o) = Some e.
Proof. exact parse_refines_elab. Qed.
Print Assumptions C14_parse_refines_elab.

(* every struct descriptor of the graph: exactly the kept declared fields, in order, with the columns of the declaration *)
Theorem C14_parse_nodes_exact :
  forall p o, pdomain p o = true ->
  forall st sn pfs, parse p o = Some (st, sn, pfs) ->
  forall a nd, nth_error (ps_heap st) a = Some nd -> node_ok p o (ps_heap st) nd.
Proof. exact parse_nodes_exact. Qed.
Print Assumptions C14_parse_nodes_exact.

(* a cache hit returns the descriptor of the struct-like the key denotes in the tree the cache belongs to (seeded change C14-1) *)
Theorem C14_parse_cache_sound :
  forall p o, pdomain p o = true ->
  forall st sn pfs, parse p o = Some (st, sn, pfs) ->
  forall cid fi f c n e, nth_error (ps_caches st) cid = Some (fi, c) -> get_file p fi = Some f -> names_ok p f (TNamed n) = true ->
  cache_find c n = Some e ->
  exists nd ti tn, nth_error (ps_heap st) (ce_addr e) = Some nd /\ struct_of p fi f n = Some (ti, tn) /\
                   pn_file nd = ti /\ pn_sname nd = tn /\ pn_target nd = ce_target e /\ pn_tname nd = n.
Proof. exact parse_cache_sound. Qed.
Print Assumptions C14_parse_cache_sound.

(* the invariant behind it is preserved by every parseType call (cache entries sound, finished descriptors exact) *)
Theorem C14_parsetype_preserves_inv :
  forall p o, pdomain p o = true ->
  forall fuel st fi f cid rdepth target t st' r,
  get_file p fi = Some f -> INV p o st -> cache_has st cid fi -> names_ok p f t = true ->
  ptype fuel p o st fi f cid rdepth target t = Some (st', r) ->
  INV p o st' /\ ext st st' /\ resolves p o (ps_heap st') target fi f t r.
Proof. exact ptype_preserves_inv. Qed.
Print Assumptions C14_parsetype_preserves_inv.

(* annotation-driven columns *)
Theorem C14_api_none_targets :
  forall fd, has_anno n_deprecated (f_annos fd) = false ->
  field_kept 0 fd = true /\ field_kept 2 fd = true /\ field_kept 1 fd = negb (has_anno n_api_none (f_annos fd)).
Proof. exact api_none_targets. Qed.
Print Assumptions C14_api_none_targets.

Theorem C14_alias_api_key_first :
  forall root fast fname annos v rest,
  flat_map (fun a => if name_eqb (a_key a) n_api_key then [a_vals a] else []) annos = [v] :: rest ->
  alias_of root fast fname annos = v.
Proof. exact alias_api_key_first. Qed.
Print Assumptions C14_alias_api_key_first.

(* non-vacuity: main.thrift { include "a.thrift"; struct Item {1: Item next (api.none), 2: a.Holder h}; service S { Item M(1: Item r) throws (1: a.Err e) } }
   a.thrift { struct Item {1: string s}; struct Holder {1: Item it (api.key="k", go.tag json "j"), 2: Holder self}; exception Err {1: string m (api.none)} }:
   same-named struct in two files, recursion through the cache, include-qualified names, api.none per target, alias precedence *)
Example C14_parse_example :
  let nI := [73] in let nH := [72] in let nE := [69] in let na := [97] in
  let a := IFile [47; 97] [] [] [] [] []
             [SLike 0 nI [IField 1 [115] (TBase 7) 0 CNone []] [];
              SLike 0 nH [IField 1 [105] (TNamed nI) 0 CNone [Anno n_go_tag [[106]]; Anno n_api_key [[107]]]; IField 2 [120] (TNamed nH) 2 CNone []] [];
              SLike 2 nE [IField 1 [109] (TBase 7) 0 CNone [Anno n_api_none [[116]]]] []] [] in
  let main := IFile [47; 109] [] [(na, 1)] [] [] []
                [SLike 0 nI [IField 1 [110] (TNamed nI) 2 CNone [Anno n_api_none [[116]]]; IField 2 [104] (TNamed (na ++ [46] ++ nH)) 0 CNone []] []]
                [ISvc [83] [] [IFunc [77] false (TNamed nI) [IField 1 [114] (TNamed nI) 0 CNone []] [IField 1 [101] (TNamed (na ++ [46] ++ nE)) 0 CNone []]]] in
  let p := [main; a] in
  let o := POpts 0 false false false 0 0 [] false false false false in
  pdomain p o = true /\
  match parse p o with
  | Some (st, _, _) =>
    (* request: Item (2 fields), a.Holder (key "a.H" in the fresh cache), a.Item, Holder again (bare key "H": its self reference then hits
       the cache); response: Item (api.none field dropped), a.Holder, a.Item, Holder; exception Err (api.none kept) *)
    map (fun nd => (pn_sname nd, pn_target nd, length (pn_fields nd))) (ps_heap st) =
      [([73], 0, 2%nat); ([72], 0, 2%nat); ([73], 0, 1%nat); ([72], 0, 2%nat); ([73], 1, 1%nat); ([72], 1, 2%nat); ([73], 1, 1%nat); ([72], 1, 2%nat); ([69], 2, 1%nat)] /\
    match nth_error (ps_heap st) 1 with Some nd => map (fun mf => m_alias (fst mf)) (pn_fields nd) = [[107]; [120]] | None => False end
  | None => False
  end /\
  unroll_service 3 (parse p o) = elab true true 3 p o /\ elab true true 3 p o <> None.
Proof. vm_compute. repeat split; try reflexivity. discriminate. Qed.
