(* C08 - Protobuf -> JSON conversion (conv/p2j) emits valid JSON denoting exactly the message.
   Only statements here; every theorem is closed by [exact] of a lemma proved in proofs/P2JProofs.v and is followed by
   Print Assumptions.  The theorems are about the denotation [pjson_of] (model/P2J.v) of a typed message [pmsg]
   (model/ProtoMsg.v): the value the correspondence check (model/Check08.v) demands from the implementation for the
   message the proved decoder returns for the reference bytes.

   Hypotheses [schema_bytes_okb S] / [pval_bytes_okb (VMsg m)]: names, strings, bytes and string keys are lists of
   bytes (0..255) - true of anything parsed from a .proto file / decoded from a byte buffer.
   [pjson_of S o name m = Some j]: m fits the schema and holds no NaN / +-Inf (those have no JSON spelling:
   [C08_no_image_iff_nonfinite]; the conversion must fail there). *)
From Coq Require Import ZArith List Bool Lia.
From DG Require Import CaseFormat ProtoWireRef ProtoMsg Json Num Base64 P2J P2JQuirk P2JProofs P2JBytes P2JBytesProofs.
Import ListNotations.
Local Open Scope Z_scope.

(* never malformed: printing the denotation gives text that the RFC 8259 parser reads back as the same value *)
Theorem pjson_prints_valid : forall S o name m j,
  schema_bytes_okb S = true -> pval_bytes_okb (VMsg m) = true ->
  pjson_of S o name m = Some j -> json_parse (json_print j) = Some j.
Proof. exact pjson_prints_valid_pf. Qed.
Print Assumptions pjson_prints_valid.

(* every member name of every object in the denotation - JSON names of fields and the stringified map keys of EVERY
   key kind - is a byte string, printed as a string literal that unquotes to exactly that name *)
Theorem pjson_keys_are_strings : forall S o name m j,
  schema_bytes_okb S = true -> pval_bytes_okb (VMsg m) = true ->
  pjson_of S o name m = Some j ->
  Forall (fun k => jbytes_okb k = true /\ unquote (quote_ref k) = Some k) (json_keys j).
Proof. exact pjson_keys_are_strings_pf. Qed.
Print Assumptions pjson_keys_are_strings.

(* a map denotes an object with one member per entry, in order, named by the stringified key *)
Theorem pjson_map_keys_stringified : forall S o kk t kvs p,
  pj_fld S o (LMap kk) t (VMap kvs) = Some p ->
  exists ps, p = PJMap kk ps /\ map fst ps = map fst kvs /\
             Forall2 (fun kx e => pj_fld S o LSingular t (snd kx) = Some (snd e)) kvs ps /\
             pj_json p = JObj (map (fun e => (key_str (fst e), pj_json (snd e))) ps).
Proof. exact pj_map_keys_stringified. Qed.
Print Assumptions pjson_map_keys_stringified.

(* the stringified key of an integer key kind (int32 .. sfixed64, signed or not) is the decimal that reads back as the key *)
Theorem pjson_int_key_exact : forall kk v, (kk =? K_BOOL) = false -> parse_int (key_str (KInt kk v)) = Some v.
Proof. exact key_str_int_exact. Qed.
Print Assumptions pjson_int_key_exact.

(* top-level member names = JSON names of the fields present, in wire order *)
Theorem pjson_members_exact : forall S o name m j,
  pjson_of S o name m = Some j ->
  exists md ms, find_msg S name = Some md /\ j = JObj ms /\
    Forall2 (fun nv member => exists fd, find_field md (fst nv) = Some fd /\ fst member = fd_json fd) m ms.
Proof. exact pjson_members_exact_pf. Qed.
Print Assumptions pjson_members_exact.

(* field by field: each member is the JSON name and the denotation of that field's value *)
Theorem pjson_fields_exact : forall S o name m j,
  pjson_of S o name m = Some j ->
  exists md ms, find_msg S name = Some md /\ j = JObj ms /\ Forall2 (field_denotes S o md) m ms.
Proof. exact pjson_fields_exact_pf. Qed.
Print Assumptions pjson_fields_exact.

(* repeated fields (packed or unpacked): the array holds the denotations of the elements, same number, same order *)
Theorem pjson_repeated_order : forall S o name m j,
  pjson_of S o name m = Some j ->
  exists md ms, find_msg S name = Some md /\ j = JObj ms /\
    Forall2 (fun nv member =>
               forall q vs, snd nv = VList q vs ->
               exists es, Forall2 (fun v e => exists fd, find_field md (fst nv) = Some fd /\
                                                         pj_fld S o LSingular (fd_type fd) v = Some e) vs es /\
                          snd member = JArr (map pj_json es)) m ms.
Proof. exact pjson_repeated_order_pf. Qed.
Print Assumptions pjson_repeated_order.

(* integers of every kind and width: the lexeme is the decimal that reads back as exactly the value *)
Theorem pjson_int_exact : forall k v,
  pj_json (PJInt k v) = JNum (fmt_int v) /\ parse_int (fmt_int v) = Some v /\ num_okb (fmt_int v) = true.
Proof. intros k v. split; [reflexivity|]. split; [apply NumProofs.parse_int_fmt_int | apply NumProofs.num_okb_fmt_int]. Qed.
Print Assumptions pjson_int_exact.

(* float lexemes (exact decimal expansions) are JSON numbers *)
Theorem pjson_float_lexeme_valid : forall b, num_okb (f64_lex b) = true.
Proof. exact num_okb_f64_lex. Qed.
Print Assumptions pjson_float_lexeme_valid.

(* floats exact: the decimal m * 10^e that the lexeme of a double denotes (Num.lex_decimal) IS the value M * 2^k of the
   bit pattern (P2J.f64_decomp) - stated cross-multiplied over the integers *)
Theorem pjson_double_value_exact : forall b neg M k, f64_decomp b = (neg, M, k) ->
  exists m e, lex_decimal (f64_lex b) = Some (neg, m, e) /\ e <= 0 /\
              m * 2 ^ (Z.max 0 (- k)) = M * 2 ^ (Z.max 0 k) * 10 ^ (- e).
Proof. exact f64_lex_value_exact. Qed.
Print Assumptions pjson_double_value_exact.

(* float (binary32) values are widened exactly: same sign, same value M * 2^k, still finite - so the lexeme of a float
   field, f64_lex (widen32 b), denotes exactly the float32 value by the theorem above *)
Theorem pjson_float_widen_exact : forall b, 0 <= b < 2 ^ 32 -> f32_is_finite b = true ->
  forall neg M k neg' M' k', f32_decomp b = (neg, M, k) -> f64_decomp (widen32 b) = (neg', M', k') ->
  neg' = neg /\ M' * 2 ^ (k' + 1074) = M * 2 ^ (k + 1074) /\ f64_is_finite (widen32 b) = true.
Proof. exact widen32_exact. Qed.
Print Assumptions pjson_float_widen_exact.

(* a message that fits the schema has no JSON image exactly when it holds a non-finite float *)
Theorem C08_no_image_iff_nonfinite : forall S o name m p,
  pj_of S o name m = Some p -> (pjson_of S o name m = None <-> pj_finite p = false).
Proof. exact pjson_of_none_iff_nonfinite. Qed.
Print Assumptions C08_no_image_iff_nonfinite.

(* the check's expectation for the reference bytes of m is the denotation of m (decoder proved inverse of the encoder) *)
Theorem C08_denotation_of_decoded : forall S o name m fuel,
  wf_msg S name m = true -> (depth (VMsg m) <= fuel)%nat ->
  match decode_msg S fuel name (encode_msg m) with Some m' => pjson_of S o name m' | None => None end = pjson_of S o name m.
Proof. exact pjson_of_decoded. Qed.
Print Assumptions C08_denotation_of_decoded.

(* ---------------------------------------------------------------- non-vacuity and the recorded defects *)
Definition s (l : list Z) := l.
(* message M { uint64 u = 1 [json "u"]; map<sint32,string> ms = 2; map<bool,int32> mb = 3; repeated float fs = 4; fixed32 f = 5; bytes by = 6 } *)
Definition exS : schema :=
  [mk_mdesc [77] [mk_fdesc 1 [117] [117] LSingular (TScalar K_UINT64);
                  mk_fdesc 2 [109;115] [109;115] (LMap K_SINT32) (TScalar K_STRING);
                  mk_fdesc 3 [109;98] [109;98] (LMap K_BOOL) (TScalar K_INT32);
                  mk_fdesc 4 [102;115] [102;115] (LRepeated true) (TScalar K_FLOAT);
                  mk_fdesc 5 [102] [102] LSingular (TScalar K_FIXED32);
                  mk_fdesc 6 [98;121] [98;121] LSingular (TScalar K_BYTES)]].
Definition exM : pmsg :=
  [(1, VScalar K_UINT64 (2 ^ 64 - 1));
   (2, VMap [(KInt K_SINT32 (-2), VBytes K_STRING [110;101;103])]);
   (3, VMap [(KInt K_BOOL 1, VScalar K_INT32 1)]);
   (4, VList true [VScalar K_FLOAT 1065353216; VScalar K_FLOAT 1; VScalar K_FLOAT 2147483648]);
   (5, VScalar K_FIXED32 (2 ^ 31));
   (6, VBytes K_BYTES [255; 0])].
Definition exO := mk_p2j_opts false false.

(* {"u":18446744073709551615,"ms":{"-2":"neg"},"mb":{"true":1},"fs":[1,<2^-149 exactly>,-0],"f":2147483648,"by":"/wA="} *)
Example ex_wf : wf_msg exS [77] exM = true. Proof. vm_compute. reflexivity. Qed.
Example ex_denotation_parses :
  match pjson_of exS exO [77] exM with
  | Some j => json_parse (json_print j) = Some j /\
              firstn 48 (json_print j) =
                [123;34;117;34;58;49;56;52;52;54;55;52;52;48;55;51;55;48;57;53;53;49;54;49;53;44;
                 34;109;115;34;58;123;34;45;50;34;58;34;110;101;103;34;125;44;34;109;98;34]
  | None => False
  end.
Proof. vm_compute. split; reflexivity. Qed.
Example ex_hypotheses : schema_bytes_okb exS = true /\ pval_bytes_okb (VMsg exM) = true.
Proof. vm_compute. split; reflexivity. Qed.
(* the exact float lexemes evaluate to the bits they came from (1.0, the least subnormal float, -0.0) *)
Example ex_float_lexemes :
  lex2f64 (f64_lex (widen32 1065353216)) = Some (widen32 1065353216) /\
  lex2f64 (f64_lex (widen32 1)) = Some (widen32 1) /\ widen32 1 = 3936146074321813504 /\
  lex2f64 (f64_lex (widen32 2147483648)) = Some (2 ^ 63) /\
  lex2f64 (f64_lex 1) = Some 1 /\ lex2f64 (f64_lex 9218868437227405311) = Some 9218868437227405311.
Proof. vm_compute. repeat split; reflexivity. Qed.
(* the comparison the checker uses accepts the denotation itself (strictly: no finding, no drift needed), and the text
   the implementation should print parses and is accepted too *)
Example ex_checker_accepts_denotation :
  match pj_of exS exO [77] exM with
  | Some p => pj_match false false p (pj_json p) = Some [] /\
              match json_parse (json_print (pj_json p)) with
              | Some j => pj_match false false p j = Some []
              | None => False
              end
  | None => False
  end.
Proof. vm_compute. split; reflexivity. Qed.
(* a NaN has no image *)
Example ex_nan_no_image : pjson_of exS exO [77] [(4, VList true [VScalar K_FLOAT 2143289344])] = None.
Proof. vm_compute. reflexivity. Qed.

(* what the recorded defects emit contradicts the property (each is rejected by the proved parser or by the value comparison) *)
Example finding_802_refuted :   (* {"ms":{-2:"neg"}} *)
  json_parse [123;34;109;115;34;58;123;45;50;58;34;110;101;103;34;125;125] = None.
Proof. vm_compute. reflexivity. Qed.
Example finding_803_refuted :   (* {"fs":[1,,2]} *)
  json_parse [123;34;102;115;34;58;91;49;44;44;50;93;125] = None.
Proof. vm_compute. reflexivity. Qed.
Example finding_804_refuted :   (* {"mi":{""-5"":1}} *)
  json_parse [123;34;109;105;34;58;123;34;34;45;53;34;34;58;49;125;125] = None.
Proof. vm_compute. reflexivity. Qed.
Example finding_801_refuted :   (* uint64 2^64-1 printed as -1: not the value; accepted only by the lenient comparison, as finding 801 *)
  pj_match false false (PJInt K_UINT64 (2 ^ 64 - 1)) (JNum [45; 49]) = None /\
  pj_match true false (PJInt K_UINT64 (2 ^ 64 - 1)) (JNum [45; 49]) = Some [F_UNSIGNED_NEG].
Proof. vm_compute. split; reflexivity. Qed.
(* the lenient parser reads the malformed shapes and marks them *)
Example lenient_marks :
  json_parse_len [123;34;109;115;34;58;123;45;50;58;34;110;101;103;34;125;125] =
    Some (JObj [([109;115], JObj [(BARE :: [45;50], JStr [110;101;103])])]).
Proof. vm_compute. reflexivity. Qed.
(* selector of finding 805: message Outer { repeated Inner a = 1 } message Inner { repeated string s = 1 }, two elements *)
Example overrun_selector :
  overrun [(1, VList false [VMsg [(1, VList false [VBytes K_STRING [120]])]; VMsg [(1, VList false [VBytes K_STRING [121]])]])] = true /\
  overrun [(1, VList false [VMsg [(1, VList false [VBytes K_STRING [120]])]])] = false.
Proof. vm_compute. split; reflexivity. Qed.


(* ================================================================ ALGORITHM level (model/P2JBytes.v)
   [p2j_walk] mirrors conv/p2j/impl.go as one pass over the BYTES that appends TEXT (message loop with comma flag, values
   read by descriptor kind, packed payloads, unpacked runs and map runs bounded by the enclosing message, key quoting,
   Int642String, checkFinite, unknown fields skipped or refused).  On the canonical encoding of every well-formed message
   it produces exactly the printed denotation.  Hypothesis [pj_of S o name m = Some p]: m fits the schema with map key
   kinds JSON can stringify (integer kinds, bool, string) - [wf_msg] alone also admits float-keyed maps, which proto3
   does not have. *)
Theorem p2j_walk_refines_spec : forall S o name m fuel p,
  wf_msg S name m = true -> pval_bytes_okb (VMsg m) = true -> (depth (VMsg m) <= fuel)%nat ->
  pj_of S o name m = Some p ->
  p2j_walk fuel o S name (encode_msg m) = option_map json_print (pjson_of S o name m).
Proof. intros S o. exact (walk_is_print_of_spec o S). Qed.
Print Assumptions p2j_walk_refines_spec.

(* the walk fails exactly when the message has no JSON image (a NaN / +-Inf somewhere: checkFinite) *)
Theorem p2j_walk_fails_iff_no_image : forall S o name m fuel p,
  wf_msg S name m = true -> pval_bytes_okb (VMsg m) = true -> (depth (VMsg m) <= fuel)%nat ->
  pj_of S o name m = Some p ->
  (p2j_walk fuel o S name (encode_msg m) = None <-> pjson_of S o name m = None).
Proof.
  intros S o name m fuel p Hwf Hb Hd Hp. rewrite (walk_is_print_of_spec o S name m fuel p Hwf Hb Hd Hp).
  destruct (pjson_of S o name m); cbn [option_map]; split; intros H; try discriminate H; reflexivity.
Qed.
Print Assumptions p2j_walk_fails_iff_no_image.

(* never malformed at algorithm level: whenever the walk succeeds, its text parses (RFC 8259) to exactly the denotation *)
Theorem p2j_walk_output_valid : forall S o name m fuel p t,
  wf_msg S name m = true -> pval_bytes_okb (VMsg m) = true -> schema_bytes_okb S = true ->
  (depth (VMsg m) <= fuel)%nat -> pj_of S o name m = Some p ->
  p2j_walk fuel o S name (encode_msg m) = Some t ->
  pjson_of S o name m = Some (pj_json p) /\ json_parse t = Some (pj_json p).
Proof. intros S o. exact (walk_output_valid o S). Qed.
Print Assumptions p2j_walk_output_valid.

(* unknown fields where encoders put them (after the declared fields of the top-level message): every record whose
   number is not declared is skipped - the text is that of the message without them - or, under DisallowUnknownField,
   the conversion fails as soon as there is one *)
Theorem p2j_walk_unknown_tail : forall S o name md m u fuel p,
  find_msg S name = Some md ->
  wf_msg S name m = true -> pval_bytes_okb (VMsg m) = true -> (depth (VMsg m) <= fuel)%nat ->
  pj_of S o name m = Some p -> forallb (unknown_rec md) u = true ->
  p2j_walk fuel o S name (encode_msg m ++ wenc u) =
  if o_disallow_unknown o && negb (match u with [] => true | _ => false end) then None
  else if pj_finite p then Some (json_print (pj_json p)) else None.
Proof. intros S o. exact (walk_unknown_tail o S). Qed.
Print Assumptions p2j_walk_unknown_tail.

(* the walk on the example message: Int642String on and off, and the unknown-field rule on the wire
   (field 99 is not declared: skipped, or the conversion fails under DisallowUnknownField) *)
Example ex_walk_is_print :
  p2j_walk 3 exO exS [77] (encode_msg exM) = option_map json_print (pjson_of exS exO [77] exM) /\
  p2j_walk 3 (mk_p2j_opts true false) exS [77] (encode_msg exM) = option_map json_print (pjson_of exS (mk_p2j_opts true false) [77] exM).
Proof. vm_compute. split; reflexivity. Qed.
Example ex_walk_unknown :
  let bs := encode_msg [(5, VScalar K_FIXED32 7)] ++ wenc [(99, WVarint 1)] ++ encode_msg [(6, VBytes K_BYTES [1])] in
  p2j_walk 3 exO exS [77] bs = Some [123;34;102;34;58;55;44;34;98;121;34;58;34;65;81;61;61;34;125] /\     (* {"f":7,"by":"AQ=="} *)
  p2j_walk 3 (mk_p2j_opts false true) exS [77] bs = None.
Proof. vm_compute. split; reflexivity. Qed.
Example ex_walk_nan : p2j_walk 3 exO exS [77] (encode_msg [(4, VList true [VScalar K_FLOAT 2143289344])]) = None.
Proof. vm_compute. reflexivity. Qed.

(* ================================================================== (G) proto/binary Skip from the Go source *)
(* Skip / SkipFixed32Type / SkipFixed64Type / SkipBytesType are translated from proto/binary/binary_skip.go on every build
   (gen/Gen_protoskip.v).  For the four wire types of proto3 Skip succeeds exactly when the model's wire decoder wdec_val reads one value
   of that type from the cursor, and then stands where wdec_val's rest begins; any other wire type: nil and nothing consumed. *)
From DG Require GoSem Gen_protoskip Check20h GenProtoskipProofs.
Theorem C08_Skip_from_source :
  (forall buf rd wt u, bytes_ok buf -> GenProtoskipProofs.in_buf buf rd -> wt = 0 \/ wt = 1 \/ wt = 2 \/ wt = 5 ->
     Check20h.obs_of (Gen_protoskip.BinaryProtocol_Skip buf rd wt u) = Check20h.skip_obs buf rd wt) /\
  (forall buf rd wt u, wt <> 0 -> wt <> 1 -> wt <> 2 -> wt <> 5 -> Gen_protoskip.BinaryProtocol_Skip buf rd wt u = (0, buf, rd)).
Proof. split; [exact GenProtoskipProofs.Skip_is_wdec_val | exact GenProtoskipProofs.Skip_other]. Qed.
Print Assumptions C08_Skip_from_source.

(* ================================================================== (G) the finite test from the Go source *)
(* conv/p2j checkFinite (gen/Gen_p2jfinite.v, regenerated from the Go text on every build; math.IsNaN / math.IsInf are read as tests on
   the IEEE bit pattern) rejects exactly the doubles the model has no JSON image for: those that are not Num.f64_is_finite *)
From DG Require Num Gen_p2jfinite GenFiniteProofs.
Theorem C08_checkFinite_from_source :
  forall b e, 0 <= b ->
  Gen_p2jfinite.checkFinite b e = if Num.f64_is_finite b then (0, []) else (e, [(Gen_p2jfinite.Eff_wrapError, [6])]).
Proof. exact GenFiniteProofs.checkFinite_is_finite. Qed.
Print Assumptions C08_checkFinite_from_source.
