(* C05 — Thrift DOM (thrift/generic/path.go PathNode): load / marshal are lossless, tree edits marshal as edited,
   lookups return the child last stored, storage refinements (by id / by hash) return what an association list returns.
   Definitions: coq/model/ThriftDom.v; proofs: coq/proofs/ThriftDomProofs.v, ThriftDomStorageProofs.v. *)
From Coq Require Import ZArith List Bool Lia.
From DG Require Import ProtoWireRef ThriftWire ThriftWireProofs ThriftGeneric ThriftDom ThriftDomProofs ThriftDomStorageProofs.
Import ListNotations.
Local Open Scope Z_scope.

(* ---- load: the byte walk (chained skip, as scanChildren/handleChild do) builds exactly the specified tree,
        recursively or lazily, with or without NotScanParentNode ---- *)
Theorem C05_load_refines : forall rec ns v,
  wf v = true -> hdr_ok v = true -> is_container (type_of v) = true -> (depth v <= max_skip_depth)%nat ->
  load rec ns (type_of v) (encode v) = Some (tree_of_dom (dom_of rec ns v)).
Proof. exact load_refines. Qed.
Print Assumptions C05_load_refines.

(* ---- marshal (load r (encode v)) = encode v, byte-identical, recursive and lazy ---- *)
Theorem C05_marshal_load : forall rec v,
  wf v = true -> hdr_ok v = true -> is_container (type_of v) = true -> (depth v <= max_skip_depth)%nat ->
  exists tr, load rec false (type_of v) (encode v) = Some tr /\ marshal tr = Some (encode v).
Proof. exact marshal_load. Qed.
Print Assumptions C05_marshal_load.

(* ---- every marshallable typed tree marshals to the encoding of the value it denotes; empty slots do not appear ---- *)
Theorem C05_marshal_dom : forall d, dom_ok d -> forall v, val_of_dom d = Some v -> marshal (tree_of_dom d) = Some (encode v).
Proof. exact marshal_dom. Qed.
Print Assumptions C05_marshal_dom.

(* ---- marshal skips empty slots and rewrites the container size to the number of non-empty children ---- *)
Theorem C05_marshal_skips_holes : forall next,
  rewritten_size next = zlen (filter (fun kc => negb (t_empty (snd kc))) next).
Proof. exact rewritten_size_live. Qed.
Print Assumptions C05_marshal_skips_holes.

(* ---- tree history: after ANY sequence of edits (set / replace / clear by id, key or index) the tree marshals to the
        encoding of the value it denotes (induction over ops) ---- *)
Theorem C05_tree_history_marshal : forall ops rec v,
  wf v = true -> hist_ok (dom_of rec false v) ops ->
  exists v', val_of_dom (fold_left dom_step ops (dom_of rec false v)) = Some v' /\
             marshal (tree_of_dom (fold_left dom_step ops (dom_of rec false v))) = Some (encode v').
Proof.
  intros ops rec v Hwf Hh. destruct (dom_of_sound rec v Hwf) as [Hv Hok].
  apply dom_history_marshal; [exact Hok| |exact Hh]. intros E. rewrite E in Hv. discriminate.
Qed.
Print Assumptions C05_tree_history_marshal.

(* ---- tree history: lookups return the child last stored under the key (induction over ops) ---- *)
Theorem C05_tree_history_lookup : forall ops t et kt raw kids k,
  dom_get (fold_left dom_step ops (DNode t et kt raw kids)) k =
  fold_left (fun cur o => step_get cur o k) ops (dom_get (DNode t et kt raw kids) k).
Proof. exact dom_get_history. Qed.
Print Assumptions C05_tree_history_lookup.

(* ---- the target statement marshal (fold tree_step ops (load (encode v))) = encode (fold ast_step ops v) ----
   PARTIAL (named so): proved for STRUCT roots and histories of sets by field id (replace an existing field, append an
   absent one) and lookups, for every wf struct value, recursive or lazy load.  What is missing: (a) histories containing
   a clear FOLLOWED by a set of the same key commute with ast_step only up to the position of the field (the code revives
   the cleared slot in place, ast_step appends) — one clear step is C05_struct_step_ast; (b) the same commutation for
   map and list roots (same argument, key typing and index bookkeeping not done).  For ALL histories and ALL container
   kinds C05_tree_history_marshal gives marshal = encode (val_of_dom (edited tree)), and the correspondence check
   compares the implementation with dom_step / marshal directly. *)
Theorem C05_tree_history_ast_struct_partial : forall rec fs ops,
  wf (VStruct fs) = true -> fs <> [] -> Forall struct_set_op ops ->
  marshal (tree_of_dom (fold_left dom_step ops (dom_of rec false (VStruct fs)))) =
  Some (encode (fold_left ast_step ops (VStruct fs))).
Proof. exact struct_history_marshal_ast. Qed.
Print Assumptions C05_tree_history_ast_struct_partial.

(* one edit (set OR clear by field id) of a struct node without cleared slots is exactly the value-level edit *)
Theorem C05_struct_step_ast : forall et kt raw kids o,
  kids <> [] -> clean_struct kids ->
  (match o with OSet (KField id) _ | OClear (KField id) => 0 <= id < 65536 | OGet _ => True | _ => False end) ->
  val_of_dom (dom_step (DNode T_STRUCT et kt raw kids) o) = Some (ast_step (VStruct (fields_of kids)) o).
Proof. exact struct_step_ast. Qed.
Print Assumptions C05_struct_step_ast.

(* ---- storage refinement, by id: direct index below the threshold 256, sequential above, holes allowed ---- *)
Theorem C05_byid_refines : forall (A : Type) (fs : list (Z * A)) (id : Z),
  NoDup (map fst fs) -> Forall (fun f => 0 <= fst f) fs -> byid_get (byid_build fs) id = assoc id fs.
Proof. intros A. exact (@byid_get_build A). Qed.
Print Assumptions C05_byid_refines.

(* ---- storage refinement, by hash: open addressing + linear probing never loses a key, for ALL hash functions h,
        distinct keys, with the table size the code computes (N = 2 * size) ---- *)
Theorem C05_hash_refines : forall (A : Type) (h : Z -> Z) (kvs : list (Z * A)) (k : Z),
  NoDup (map fst kvs) -> hash_get h (hash_size kvs) (hash_build h (hash_size kvs) kvs) k = assoc k kvs.
Proof. intros A h. exact (@hash_get_build_code_size A h). Qed.
Print Assumptions C05_hash_refines.

(* any table larger than the key set works; the probe terminates because the table is never full *)
Theorem C05_hash_refines_any_size : forall (A : Type) (h : Z -> Z) (N : Z) (kvs : list (Z * A)) (k : Z),
  NoDup (map fst kvs) -> zlen kvs < N -> hash_get h N (hash_build h N kvs) k = assoc k kvs.
Proof. intros A h. exact (@hash_get_build A h). Qed.
Print Assumptions C05_hash_refines_any_size.

Theorem C05_hash_never_full : forall (A : Type) (h : Z -> Z) (N : Z) (kvs : list (Z * A)),
  zlen kvs < N -> exists e, nth_error (hash_build h N kvs) e = Some None.
Proof. intros A h. exact (@hash_build_never_full A h). Qed.
Print Assumptions C05_hash_never_full.

(* ---------------- the hypotheses are satisfiable ---------------- *)
Definition ex_map : tval := VMap T_STRING T_I32 [(VString [107; 49], VI32 7); (VString [107; 50], VI32 (-2))].
Definition ex_val : tval :=
  VStruct [(1, VI32 5); (255, VString [104; 105]); (256, ex_map); (1000, VList T_I64 [VI64 1; VI64 (-1)]); (3, VSet T_I32 [])].

Example ex_val_hyps : wf ex_val = true /\ hdr_ok ex_val = true /\ is_container (type_of ex_val) = true /\ (depth ex_val <= max_skip_depth)%nat.
Proof. repeat split; try reflexivity. vm_compute. lia. Qed.

Example ex_load_marshal_rec : option_map marshal (load true false T_STRUCT (encode ex_val)) = Some (Some (encode ex_val)).
Proof. vm_compute. reflexivity. Qed.
Example ex_load_marshal_lazy : option_map marshal (load false false T_STRUCT (encode ex_val)) = Some (Some (encode ex_val)).
Proof. vm_compute. reflexivity. Qed.

(* a history: replace field 1, append field 7, clear field 255, set it again (the slot is revived in place) *)
Definition ex_ops : list top := [OSet (KField 1) (VI32 9); OSet (KField 7) (VBool 1); OClear (KField 255); OGet (KField 3); OSet (KField 255) (VI16 3)].
Example ex_hist_ok : hist_ok (dom_of true false ex_val) ex_ops.
Proof. cbn. repeat split; discriminate. Qed.
Example ex_hist_value : val_of_dom (fold_left dom_step ex_ops (dom_of true false ex_val)) =
  Some (VStruct [(1, VI32 9); (255, VI16 3); (256, ex_map); (1000, VList T_I64 [VI64 1; VI64 (-1)]); (3, VSet T_I32 []); (7, VBool 1)]).
Proof. vm_compute. reflexivity. Qed.
Example ex_hist_lookup : dom_get (fold_left dom_step ex_ops (dom_of true false ex_val)) (KField 255) = Some (DLeaf (VI16 3)).
Proof. vm_compute. reflexivity. Qed.
Example ex_hist_ast_ops : Forall struct_set_op [OSet (KField 1) (VI32 9); OSet (KField 7) (VBool 1); OGet (KField 3)].
Proof. repeat constructor; cbn; lia. Qed.
Example ex_hist_ast : marshal (tree_of_dom (fold_left dom_step [OSet (KField 1) (VI32 9); OSet (KField 7) (VBool 1); OGet (KField 3)] (dom_of false false ex_val))) =
  Some (encode (fold_left ast_step [OSet (KField 1) (VI32 9); OSet (KField 7) (VBool 1); OGet (KField 3)] ex_val)).
Proof. vm_compute. reflexivity. Qed.
(* a map history with a key of the map's key type *)
Example ex_hist_map_ok : hist_ok (dom_of true false ex_map) [OSet (KStr [113]) (VI32 1); OClear (KStr [107; 49])].
Proof. cbn. repeat split; intros _; reflexivity. Qed.

(* by id: ids below, at and above the threshold *)
Example ex_byid : map (byid_get (byid_build [(1000, 10); (1, 11); (256, 12); (255, 13); (257, 14)])) [1; 2; 255; 256; 257; 1000; 70000]
                = [Some 11; None; Some 13; Some 12; Some 14; Some 10; None].
Proof. vm_compute. reflexivity. Qed.
(* the code today panics (index out of range) for an id beyond the loaded slots: finding 503 *)
Example ex_byid_code_panics : byid_get_code (byid_build [(1, 11); (3, 12)]) 7 = GPanic.
Proof. vm_compute. reflexivity. Qed.

(* by hash: a hash function that sends every key to the LAST slot (worst case: every probe wraps around) *)
Definition ex_keys : list (Z * Z) := map (fun k => (k, 10 * k)) [0; 33; 67; 1; 2; 3; 4; 5; 6; 7; 8; 9; 10; 11; 12; 13; 14].
Example ex_hash_all_collide : map (hash_get (fun _ => 33) 34 (hash_build (fun _ => 33) 34 ex_keys)) [0; 33; 67; 14; 15] =
                              [Some 0; Some 330; Some 670; Some 140; None].
Proof. vm_compute. reflexivity. Qed.
(* the probe of the code (index wraps, pointer does not) loses key 0 with h = identity (uint64(key) % N): finding 501 *)
Example ex_hash_code_loses_key :
  live_slots (hash_build_code (fun k => k) 34 ex_keys) <> [] /\
  existsb (fun kv => fst kv =? 0) (live_slots (hash_build_code (fun k => k) 34 ex_keys)) = false /\
  hash_get (fun k => k) 34 (hash_build (fun k => k) 34 ex_keys) 0 = Some 0.
Proof. vm_compute. repeat split; try reflexivity. discriminate. Qed.

(* ================================================================================================================ *)
(* Round 2: the FULL history statement (all container roots; set / replace / clear; set after clear of the same key) *)
(* Definitions: coq/model/ThriftDomSlots.v; proofs: coq/proofs/ThriftDomHistoryProofs.v.                             *)
(* ================================================================================================================ *)
From DG Require Import ThriftDomSlots ThriftDomHistoryProofs.

(* the value an edited tree denotes, for EVERY container kind and EVERY history: the value of the edited slots.
   aslots_step is the value-level edit as the code does it: a set replaces the first slot with the key — a cleared slot
   is revived in place —, appends when the key is new (never by index); a clear empties the slot. *)
Theorem C05_tree_history_slots : forall ops t et kt raw kids,
  val_of_dom (fold_left dom_step ops (DNode t et kt raw kids)) =
  val_of_slots t et kt (fold_left aslots_step ops (slots_of kids)).
Proof. exact tree_history_slots. Qed.
Print Assumptions C05_tree_history_slots.

(* FULL statement: any non-empty container root (struct, list, set, map with string / integer / other keys), recursive or
   lazy load, any history of typed edits (keys of the container's key kind, values of its element type):
     marshal (fold dom_step ops (load (encode v))) = encode v'      with v' = the value of the edited slots,
     wf v'                                                           (counts = number of non-empty children, types kept),
     hence the marshalled bytes DECODE to v' (decode_encode). *)
Theorem C05_tree_history_full : forall rec v ops,
  wf v = true -> kids_of DLeaf v <> [] ->
  Forall (op_typed (type_of v) (et_of v) (kt_of v)) ops ->
  zlen (init_slots v) + zlen ops < 2 ^ 31 ->
  exists v',
    val_of_slots (type_of v) (et_of v) (kt_of v) (fold_left aslots_step ops (init_slots v)) = Some v' /\
    marshal (tree_of_dom (fold_left dom_step ops (dom_of rec false v))) = Some (encode v') /\
    wf v' = true /\
    decode (S (length (encode v'))) (type_of v') (encode v') = Some (v', []).
Proof. exact tree_history_full. Qed.
Print Assumptions C05_tree_history_full.

(* well-formedness alone, for any typed slot list *)
Theorem C05_wf_of_slots : forall t et kt s v, slots_wf t et kt s -> hdr_typed t et kt -> zlen s < 2 ^ 31 ->
  val_of_slots t et kt s = Some v -> wf v = true.
Proof. exact wf_of_slots. Qed.
Print Assumptions C05_wf_of_slots.

(* struct and map roots with distinct keys, ANY typed history incl. set after clear: v' and the plainly edited value
   fold ast_step ops v (replace or append; remove) have the same fields / entries — equality up to their order, which
   is all "the well-formed encoding of the edited tree" fixes for structs and maps (the code revives a cleared slot in
   place, ast_step appends: same finite map, other position) *)
Theorem C05_tree_history_ast_ext : forall v ops, wf v = true -> type_of v = T_STRUCT \/ type_of v = T_MAP ->
  NoDup (map fst (init_slots v)) ->
  Forall (op_typed (type_of v) (et_of v) (kt_of v)) ops ->
  forall v', val_of_slots (type_of v) (et_of v) (kt_of v) (fold_left aslots_step ops (init_slots v)) = Some v' ->
  forall k, vget v' k = vget (fold_left ast_step ops v) k.
Proof. exact tree_history_ast_ext. Qed.
Print Assumptions C05_tree_history_ast_ext.

(* list and set roots: histories of sets by index are EXACTLY the plain value edits (order is fixed for lists); with
   clears the exact value is the one of C05_tree_history_slots: the elements in slot order without the cleared ones,
   a later set of a cleared index revives that position *)
Theorem C05_list_history_sets : forall et es ops, Forall index_set_op ops ->
  val_of_slots T_LIST et 0 (fold_left aslots_step ops (idx_slots 0 es)) = Some (fold_left ast_step ops (VList et es)) /\
  val_of_slots T_SET et 0 (fold_left aslots_step ops (idx_slots 0 es)) = Some (fold_left ast_step ops (VSet et es)).
Proof. exact list_history_sets. Qed.
Print Assumptions C05_list_history_sets.

(* ---------------- the hypotheses are satisfiable ---------------- *)
(* a map history with a set AFTER a clear of the same key (revived in place) and a new key *)
Definition ex_map_ops : list top :=
  [OClear (KStr [107; 49]); OSet (KStr [113]) (VI32 1); OSet (KStr [107; 49]) (VI32 8); OGet (KStr [107; 50]); OClear (KStr [107; 50])].
Example ex_map_typed : Forall (op_typed (type_of ex_map) (et_of ex_map) (kt_of ex_map)) ex_map_ops.
Proof.
  unfold ex_map_ops. repeat (apply Forall_cons || apply Forall_nil); cbn; try exact I;
  repeat split; try reflexivity; try (unfold zlen; cbn; lia); try (right; reflexivity).
Qed.
Example ex_map_nodup : NoDup (map fst (init_slots ex_map)).
Proof. cbn. repeat constructor; cbn; intuition discriminate. Qed.
Example ex_map_history_value :
  val_of_slots (type_of ex_map) (et_of ex_map) (kt_of ex_map) (fold_left aslots_step ex_map_ops (init_slots ex_map)) =
  Some (VMap T_STRING T_I32 [(VString [107; 49], VI32 8); (VString [113], VI32 1)]).
Proof. vm_compute. reflexivity. Qed.
(* the plain value edit appends the re-set key instead: same entries, other order *)
Example ex_map_history_ast : fold_left ast_step ex_map_ops ex_map = VMap T_STRING T_I32 [(VString [113], VI32 1); (VString [107; 49], VI32 8)].
Proof. vm_compute. reflexivity. Qed.
Example ex_map_history_marshal :
  marshal (tree_of_dom (fold_left dom_step ex_map_ops (dom_of true false ex_map))) =
  Some (encode (VMap T_STRING T_I32 [(VString [107; 49], VI32 8); (VString [113], VI32 1)])).
Proof. vm_compute. reflexivity. Qed.
(* struct history of ex_ops (above) is typed too *)
Example ex_struct_typed : Forall (op_typed (type_of ex_val) (et_of ex_val) (kt_of ex_val)) ex_ops.
Proof.
  unfold ex_ops. repeat (apply Forall_cons || apply Forall_nil); cbn; try exact I;
  repeat split; try lia; try reflexivity; try (left; reflexivity).
Qed.
(* a list history: set, clear, set of the cleared index (revived at its position) *)
Example ex_list_history :
  val_of_slots T_LIST T_I32 0 (fold_left aslots_step [OSet (KIndex 1) (VI32 7); OClear (KIndex 0); OSet (KIndex 0) (VI32 9)]
                                 (init_slots (VList T_I32 [VI32 1; VI32 2; VI32 3]))) = Some (VList T_I32 [VI32 9; VI32 7; VI32 3]).
Proof. vm_compute. reflexivity. Qed.

(* ================================================================================================================ *)
(* Round 3: ERROR nodes (the result of a FAILED lookup stored unchecked as a child) — such a tree has no encoding.  *)
(* Definitions: coq/model/ThriftDomErr.v (+ the ERROR test at the head of marshal in ThriftDom.v);                  *)
(* proofs: coq/proofs/ThriftDomErrProofs.v.                                                                         *)
(* ================================================================================================================ *)
From DG Require Import ThriftDomErr ThriftDomErrProofs.

(* marshal fails whenever it meets an ERROR node: the node itself, or any child of a container that is not skipped as
   empty (cleared children ARE skipped: C05_marshal_skips_holes / C05_marshal_dom) *)
Theorem C05_marshal_error_node_fails : forall x, has_error x = true -> marshal x = None.
Proof. exact marshal_error_node_fails. Qed.
Print Assumptions C05_marshal_error_node_fails.

(* and only then: with map children under keys of the map's key kind and supported node types, marshal succeeds
   IFF it meets no ERROR node — an ERROR child is never silently dropped, an empty child always is *)
Theorem C05_marshal_ok_iff_no_error_node : forall x, marshal_shape x = true ->
  ((exists b, marshal x = Some b) <-> has_error x = false).
Proof. exact marshal_ok_iff_no_error_node. Qed.
Print Assumptions C05_marshal_ok_iff_no_error_node.

(* the edit "store the result of a failed lookup under key k" (existing key, or a new non-index key) on a loaded
   container node makes Marshal fail, whatever the error code *)
Theorem C05_set_error_node_fails : forall t et kt raw kids k code, is_container t = true ->
  has_kid k kids = true \/ is_index_key k = false ->
  marshal (tree_of_dom (dom_set_err (DNode t et kt raw kids) k code)) = None.
Proof. exact set_error_node_fails. Qed.
Print Assumptions C05_set_error_node_fails.

(* examples: a not-found node stored under field 255 of ex_val, under a new map key, at a list index: no encoding;
   clearing instead keeps the tree marshallable (the element is gone, the count rewritten) *)
Example ex_err_struct : marshal (tree_of_dom (dom_set_err (dom_of true false ex_val) (KField 255) 1)) = None.
Proof. vm_compute. reflexivity. Qed.
Example ex_err_map_new_key : marshal (tree_of_dom (dom_set_err (dom_of true false ex_map) (KStr [122]) 1)) = None.
Proof. vm_compute. reflexivity. Qed.
Example ex_err_list : marshal (tree_of_dom (dom_set_err (dom_of false false (VList T_I32 [VI32 1; VI32 2])) (KIndex 1) 1)) = None.
Proof. vm_compute. reflexivity. Qed.
Example ex_err_nested : marshal (tree_of_dom (dom_upd [KField 256] (fun d => dom_set_err d (KStr [107; 49]) 1) (dom_of true false ex_val))) = None.
Proof. vm_compute. reflexivity. Qed.
Example ex_clear_list : marshal (tree_of_dom (dom_step (dom_of false false (VList T_I32 [VI32 1; VI32 2])) (OClear (KIndex 1)))) =
  Some (encode (VList T_I32 [VI32 1])).
Proof. vm_compute. reflexivity. Qed.
Example ex_err_shape : marshal_shape (tree_of_dom (dom_set_err (dom_of true false ex_val) (KField 255) 1)) = true /\
                       has_error (tree_of_dom (dom_set_err (dom_of true false ex_val) (KField 255) 1)) = true /\
                       has_error (tree_of_dom (dom_of true false ex_val)) = false.
Proof. vm_compute. auto. Qed.

(* ================================================================== (G) the probing loop from the Go source *)
(* thrift/generic/path.go seekIntHash is translated from the Go text on every build (gen/Gen_domhash.v): the counted loop with break is a
   structural recursion whose fuel is the iteration bound N, the slot read through rt.IndexPtr a function-valued atom (slot index ->
   Path.t).  On a table of N existing slots it returns exactly the slot of the simulation's seek_idx (ThriftDomSim.v), for every key. *)
From DG Require Gen_domhash GenDomhashProofs.
Theorem C05_seekIntHash_from_source :
  forall arr key N, 0 < N < 2 ^ 62 -> N <= Z.of_nat (length arr) -> 0 <= key < 2 ^ 64 ->
  ThriftDomSim.seek_idx (Z.to_nat N) arr N (key mod N) = ThriftDomSim.ROk (Gen_domhash.seekIntHash (GenDomhashProofs.tbl arr) key N).
Proof. exact GenDomhashProofs.seekIntHash_is_seek_idx. Qed.
Print Assumptions C05_seekIntHash_from_source.
