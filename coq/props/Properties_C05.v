(* C05 — placeholder, replaced below. *)
From Coq Require Import ZArith List Bool Lia.
From DG Require Import ProtoWireRef ThriftWire ThriftWireProofs.
Import ListNotations.
Local Open Scope Z_scope.

Theorem C05_results_decodable :
  forall v, wf v = true -> forall d r, (depth v <= d)%nat -> decode d (type_of v) (encode v ++ r) = Some (v, r).
Proof. exact decode_encode. Qed.
Print Assumptions C05_results_decodable.
