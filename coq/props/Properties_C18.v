(* C18 — native and portable implementations agree; text encoders exact (placeholder, theorems follow). *)
From Coq Require Import ZArith List Bool Lia.
From DG Require Import Json Num NumProofs.
Import ListNotations.
Local Open Scope Z_scope.

Theorem C18_fmt_int_parse : forall z, parse_int (fmt_int z) = Some z.
Proof. exact parse_int_fmt_int. Qed.
Print Assumptions C18_fmt_int_parse.
