(* C18 — native (avx2 / avx / sse) and portable implementations agree; native text encoders exact.
   PARTIAL by nature: the generated assembly cannot be modelled.  What is proved here are the SPECS the native outputs are compared
   with and the CHECKERS that do the comparing (model/Check18.v, extracted and run on every output = translation validation);
   the implementations themselves are tied by the differential runs of ./check C18. *)
From Coq Require Import ZArith List Bool Lia.
From DG Require Import CaseFormat ProtoWireRef ThriftWire ThriftWireProofs Json Num JsonProofs NumProofs J2T Check18 Check18b C18Proofs J2TWalk J2TWalkProofs.
Import ListNotations.
Local Open Scope Z_scope.

(* ---- integer formatting: the spec i64toa is compared with (check 1803: native text = fmt_int v, byte for byte) ---- *)
Theorem C18_fmt_int_parse : forall z, parse_int (fmt_int z) = Some z.
Proof. exact parse_int_fmt_int. Qed.
Print Assumptions C18_fmt_int_parse.

(* canonical decimal: '-' exactly for negatives (never "-0"), then digits only, "0" alone for zero, no leading zero otherwise *)
Theorem C18_fmt_int_canonical : forall z,
  (z < 0 -> exists ds, fmt_int z = 45 :: ds /\ canonical_nat_text (- z) ds) /\
  (0 <= z -> canonical_nat_text z (fmt_int z)).
Proof. exact fmt_int_canonical. Qed.
Print Assumptions C18_fmt_int_canonical.

Theorem C18_fmt_int_injective : forall a b, fmt_int a = fmt_int b -> a = b.
Proof. exact fmt_int_inj. Qed.
Print Assumptions C18_fmt_int_injective.

(* ---- string quoting: the reference quoting round-trips for ALL byte strings (hence all valid UTF-8); whatever unquote accepts is
        a complete JSON document: the string literal denoting the returned bytes (check 1805: unquote (native text) = input) ---- *)
Theorem C18_unquote_quote : forall s, jbytes_okb s = true -> unquote (quote_ref s) = Some s.
Proof. exact unquote_quote_ref. Qed.
Print Assumptions C18_unquote_quote.

Theorem C18_unquote_sound : forall lit s, unquote lit = Some s -> json_parse lit = Some (JStr s).
Proof. exact unquote_sound. Qed.
Print Assumptions C18_unquote_sound.

(* ---- decimal -> binary64 (the checker applied to every f64toa output): sanity theorems.  The full correct-rounding theorem against
        Flocq is NOT proved; dec2f64 is additionally cross-checked against strconv.ParseFloat on every text it judges (checks 1804, 1806) ---- *)
(* integers below 2^53 are exact *)
Theorem C18_dec2f64_int_exact : forall m, 0 < m < 2 ^ 53 ->
  let b := dec2f64 (false, m, 0) in
  let E := b / 2 ^ 52 in let F := b mod 2 ^ 52 in
  1023 <= E <= 1075 /\ 2 ^ 52 + F = m * 2 ^ (1075 - E) /\ 0 <= b < 2 ^ 63.
Proof. exact dec2f64_int_denotes. Qed.
Print Assumptions C18_dec2f64_int_exact.

Theorem C18_dec2f64_sign_symmetry : forall m e, dec2f64 (true, m, e) = 2 ^ 63 + dec2f64 (false, m, e).
Proof. exact dec2f64_sign. Qed.
Print Assumptions C18_dec2f64_sign_symmetry.

Theorem C18_dec2f64_zero : forall neg e, dec2f64 (neg, 0, e) = if neg then 2 ^ 63 else 0.
Proof. exact dec2f64_zero. Qed.
Print Assumptions C18_dec2f64_zero.

(* ---- skipping: ONE model function is the spec of SkipGo and of SkipNative under every flavour (check 1802 compares each of them with
        it); on every well-formed value of every shape and depth it advances by exactly the encoded length (theorem of C19, reused) ---- *)
Theorem C18_skip_single_spec :
  forall v, wf v = true -> forall d r, (depth v <= d)%nat -> skip d (type_of v) (encode v ++ r) = Some r.
Proof. exact skip_encode. Qed.
Print Assumptions C18_skip_single_spec.

(* ---- agreement ---- *)
(* trivial but stated: if every flavour's output equals the model's output then they are pairwise equal *)
Theorem C18_agree_with_model_implies_pairwise : forall (A : Type) (model : A) (outs : list A),
  Forall (fun o => o = model) outs -> forall a b, In a outs -> In b outs -> a = b.
Proof. intros A. exact (@agree_with_model_implies_pairwise A). Qed.
Print Assumptions C18_agree_with_model_implies_pairwise.

(* ---- soundness of the checkers: what a VOk verdict certifies about the implementation outputs in the case ---- *)
(* 1801 j2t: either every implementation that was run rejected the document, or all accepted with byte-identical output *)
Theorem C18_check_j2t_ok_means_agreement : forall ds root ob doc nats p,
  judge_1801 ds root ob doc nats p = VOk ->
  (forall r, In r (p :: nats) -> fst r <> 0) \/
  (forall r, In r (p :: nats) -> fst r = 0 /\ snd r = snd p).
Proof. exact judge_1801_ok_agree. Qed.
Print Assumptions C18_check_j2t_ok_means_agreement.

(* 1807 j2t against THE SAME model function (the J2T model of C02) for every flavour: VOk means every implementation that was run
   produced exactly the model's bytes (or the model rejects and everybody rejected); equality with the model gives pairwise equality *)
Theorem C18_check_j2t_model_sound : forall m known nats p,
  judge_1807 m known nats p = VOk ->
  match m with
  | Ok bs => forall r, In r (p :: nats) -> fst r = 0 /\ snd r = bs
  | Err _ => forall r, In r (p :: nats) -> fst r <> 0
  end.
Proof. exact judge_1807_ok. Qed.
Print Assumptions C18_check_j2t_model_sound.

Theorem C18_model_agreement_gives_pairwise : forall bs known nats p,
  judge_1807 (Ok bs) known nats p = VOk ->
  forall a b, In a (p :: nats) -> In b (p :: nats) -> snd a = snd b.
Proof. exact judge_1807_ok_pairwise. Qed.
Print Assumptions C18_model_agreement_gives_pairwise.

(* 1809 http-mapped requests (EnableHttpMapping, hand-backs between the native state machine and the Go glue): VOk means all four
   implementations rejected, or all accepted with byte-identical output *)
Theorem C18_check_http_ok_means_agreement : forall bits bk body src mask o0 e0 o1 e1 o2 e2 op ep,
  check_1809 [FZ bits; FZ bk; FB body; FB src; FZ mask; FB o0; FZ e0; FB o1; FZ e1; FB o2; FZ e2; FB op; FZ ep] = VOk ->
  let all := (ep, op) :: sel mask [(e0, o0); (e1, o1); (e2, o2)] in
  (forall r, In r all -> fst r <> 0) \/ (forall r, In r all -> fst r = 0 /\ snd r = op).
Proof. exact check_1809_ok_agree. Qed.
Print Assumptions C18_check_http_ok_means_agreement.

(* 1802 skip: SkipGo and every flavour of SkipNative consumed exactly the model's count *)
Theorem C18_check_skip_sound : forall t bs mask eg ng e0 n0 e1 n1 e2 n2 r,
  check_1802 [FZ t; FB bs; FZ mask; FZ eg; FZ ng; FZ e0; FZ n0; FZ e1; FZ n1; FZ e2; FZ n2] = VOk ->
  skip_go t bs = Some r ->
  eg = 0 /\ ng = zlen bs - zlen r /\
  forall e n, In (e, n) (sel mask [(e0, n0); (e1, n1); (e2, n2)]) -> e = 0 /\ n = ng.
Proof. exact check_1802_sound. Qed.
Print Assumptions C18_check_skip_sound.

(* 1803 i64toa: every flavour printed exactly fmt_int v *)
Theorem C18_check_i64toa_sound : forall v mask o0 e0 o1 e1 o2 e2 op ep ref,
  check_1803 [FZ v; FZ mask; FB o0; FZ e0; FB o1; FZ e1; FB o2; FZ e2; FB op; FZ ep; FB ref] = VOk ->
  forall e o, In (e, o) (sel mask [(e0, o0); (e1, o1); (e2, o2)]) -> e = 0 /\ o = fmt_int v /\ parse_int o = Some v.
Proof. exact check_1803_sound. Qed.
Print Assumptions C18_check_i64toa_sound.

(* 1804 f64toa: every text is a JSON number lexeme whose exact decimal value d rounds to the input bits — according to the decidable
   SPECIFICATION of round-to-nearest-even (f64_rounds_to: d lies between the midpoints to the neighbouring doubles, a tie goes to the
   even pattern) and according to the algorithm dec2f64 *)
Theorem C18_check_f64toa_sound : forall bits mask o0 e0 k0 b0 o1 e1 k1 b1 o2 e2 k2 b2 op ep kp bp,
  check_1804 [FZ bits; FZ mask; FB o0; FZ e0; FZ k0; FZ b0; FB o1; FZ e1; FZ k1; FZ b1; FB o2; FZ e2; FZ k2; FZ b2; FB op; FZ ep; FZ kp; FZ bp] = VOk ->
  f64_is_finite bits = true ->
  forall e o k b, In (e, o, k, b) ((ep, op, kp, bp) :: sel mask [(e0, o0, k0, b0); (e1, o1, k1, b1); (e2, o2, k2, b2)]) ->
  e = 0 /\ exists d, lex_decimal o = Some d /\ dec2f64 d = bits /\ f64_rounds_to d bits = true.
Proof. exact check_1804_sound. Qed.
Print Assumptions C18_check_f64toa_sound.

(* 1805 quote: every output is a JSON string literal denoting the input *)
Theorem C18_check_quote_sound : forall s place mask o0 e0 o1 e1 o2 e2 op ep,
  check_1805 [FB s; FZ place; FZ mask; FB o0; FZ e0; FB o1; FZ e1; FB o2; FZ e2; FB op; FZ ep] = VOk ->
  utf8_valid s = true ->
  forall e o, In (e, o) ((ep, op) :: sel mask [(e0, o0); (e1, o1); (e2, o2)]) -> e = 0 /\ unquote o = Some s /\ json_parse o = Some (JStr s).
Proof.
  intros s place mask o0 e0 o1 e1 o2 e2 op ep H Hu e o Hin.
  destruct (check_1805_sound _ _ _ _ _ _ _ _ _ _ _ H Hu e o Hin) as [He Hq].
  split; [exact He|]. split; [exact Hq | apply unquote_sound; exact Hq].
Qed.
Print Assumptions C18_check_quote_sound.

(* ---- non-vacuity: the hypotheses are satisfiable and the checkers say VOk / VBad / VKnown on concrete cases ---- *)
Example C18_examples :
  fmt_int (-9223372036854775808) = [45; 57; 50; 50; 51; 51; 55; 50; 48; 51; 54; 56; 53; 52; 55; 55; 53; 56; 48; 56] /\
  (* 0.1 -> 0x3FB999999999999A, 2^53+1 (a tie) rounds to even 2^53, the smallest subnormal, overflow to infinity *)
  lex2f64 [48; 46; 49] = Some 4591870180066957722 /\
  lex2f64 [57; 48; 48; 55; 49; 57; 57; 50; 53; 52; 55; 52; 48; 57; 57; 51] = Some 4845873199050653696 /\
  lex2f64 [53; 101; 45; 51; 50; 52] = Some 1 /\
  lex2f64 [49; 101; 52; 48; 48] = Some 9218868437227405312 /\
  dec2f64 (false, 3, 0) = 4613937818241073152 /\
  unquote (quote_ref [34; 92; 10; 0; 226; 128; 168]) = Some [34; 92; 10; 0; 226; 128; 168] /\
  (* i64toa checker: accepts the right text from all three flavours, rejects a wrong digit from one *)
  check_1803 [FZ (-10); FZ 7; FB [45; 49; 48]; FZ 0; FB [45; 49; 48]; FZ 0; FB [45; 49; 48]; FZ 0; FB [45; 49; 48]; FZ 0; FB [45; 49; 48]] = VOk /\
  check_1803 [FZ (-10); FZ 7; FB [45; 49; 48]; FZ 0; FB [45; 49; 49]; FZ 0; FB [45; 49; 48]; FZ 0; FB [45; 49; 48]; FZ 0; FB [45; 49; 48]]
    = VBad 1 [FB [45; 49; 48]] /\
  (* f64toa checker on 0.1 = 0x3FB999999999999A: the text "0.1" from every flavour is accepted; "0.2" from one flavour is rejected *)
  (let b := 4591870180066957722 in let t := [48; 46; 49] in
   check_1804 [FZ b; FZ 7; FB t; FZ 0; FZ 1; FZ b; FB t; FZ 0; FZ 1; FZ b; FB t; FZ 0; FZ 1; FZ b; FB t; FZ 0; FZ 1; FZ b] = VOk /\
   check_1804 [FZ b; FZ 7; FB t; FZ 0; FZ 1; FZ b; FB [48; 46; 50]; FZ 0; FZ 1; FZ 4596373779694328218; FB t; FZ 0; FZ 1; FZ b; FB t; FZ 0; FZ 1; FZ b]
     = VBad 1 [FZ b]) /\
  (* skip checker: i32 value + one byte of tail; all agree -> VOk; the sse slot consumed 5 -> VBad 2; swallowed native error on a truncated value -> finding 1804 *)
  check_1802 [FZ 8; FB [0; 0; 0; 7; 9]; FZ 7; FZ 0; FZ 4; FZ 0; FZ 4; FZ 0; FZ 4; FZ 0; FZ 4] = VOk /\
  check_1802 [FZ 8; FB [0; 0; 0; 7; 9]; FZ 7; FZ 0; FZ 4; FZ 0; FZ 4; FZ 0; FZ 4; FZ 0; FZ 5] = VBad 4 [] /\
  check_1802 [FZ 8; FB [0; 0]; FZ 7; FZ 1; FZ 0; FZ 0; FZ 0; FZ 0; FZ 0; FZ 0; FZ 0] = VKnown 1804 /\
  (* j2t checker on struct {1: required i32 "a"}: identical outputs -> VOk; one flavour differs -> VBad 1;
     {"a":null}: natives reject, portable accepts -> finding 1801; {"a":"x"} (kind contradiction) accepted by the portable one -> VBad 3 *)
  (let ds := [[mkJfld 1 1 [97] false (JScalar 8 false)]] in
   let doc := [123; 34; 97; 34; 58; 55; 125] in                       (* {"a":7} *)
   let out := [8; 0; 1; 0; 0; 0; 7; 0] in
   judge_1801 ds 0 0 doc [(0, out); (0, out); (0, out)] (0, out) = VOk /\
   judge_1801 ds 0 0 doc [(0, out); (0, [8; 0; 1; 0; 0; 0; 8; 0]); (0, out)] (0, out) = VBad 1 [] /\
   judge_1801 ds 0 0 [123; 34; 97; 34; 58; 110; 117; 108; 108; 125] [(1, []); (1, []); (1, [])] (0, [0]) = VKnown 1801 /\
   judge_1801 ds 0 0 [123; 34; 97; 34; 58; 34; 120; 34; 125] [(1, []); (1, []); (1, [])] (0, [0]) = VBad 3 []).
Proof. vm_compute. repeat split; reflexivity. Qed.

(* ================================================================== (G) the portable quoteString from the Go source *)
(* the two per-character steps of internal/json/api_compat.go quoteString (gen/Gen_jsonportable.v; the file is excluded from amd64 builds
   and parsed as for arm64) against the reference escaping: ASCII bytes exactly as Json.esc_byte (= what the native encoder emits),
   U+2028 / U+2029 as six-character escapes (the one place where the portable spelling differs from the native one) *)
From DG Require Gen_rt Gen_jsonportable Check20g GenJsonProofs.

Theorem C18_quoteString_ascii_from_source :
  forall e s start i b, 0 <= b < 128 -> 0 <= i < 2 ^ 62 ->
  Gen_jsonportable.quoteString_ascii e s start i b =
    if CaseFormat.bytes_eqb (Json.esc_byte b) [b] then (Gen_jsonportable.Out_continue, i + 1, e, start)
    else (Gen_jsonportable.Out_continue, i + 1, GenJsonProofs.pending e s start i ++ Json.esc_byte b, i + 1).
Proof. exact GenJsonProofs.quoteString_ascii_is_esc_byte. Qed.
Print Assumptions C18_quoteString_ascii_from_source.

Theorem C18_quoteString_linesep_from_source :
  forall e s start i c, c = 8232 \/ c = 8233 -> 0 <= i < 2 ^ 62 ->
  Gen_jsonportable.quoteString_linesep e s start i c 3 =
    (Gen_jsonportable.Out_continue, GenJsonProofs.pending e s start i ++ [92; 117; 50; 48; 50; Json.hex_digit (c mod 16)], i + 3, i + 3).
Proof. exact GenJsonProofs.quoteString_linesep_spec. Qed.
Print Assumptions C18_quoteString_linesep_from_source.

(* ================================================================= dec2f64 / dec2f32 are correctly rounded (proved) ===========
   The number reader every float comparison of C03 / C08 / C13 / C18 judges the implementation's lexemes with is no longer a
   trusted definition: for EVERY decimal (sign, mantissa, power of ten) its result satisfies the decidable specification
   f64_rounds_to / f32_rounds_to (round to nearest, ties to the even pattern, subnormals, overflow to the infinity pattern, zero
   with its sign), the specification determines the bits, and the specification's two shortcuts (far too small -> zero, far too
   large -> infinity) follow from its midpoint rule.  Generic proof over the format (p, emin): proofs/FpRound.v, FpRoundPure.v. *)
From DG Require FpExact FpRound FpRoundPure Dec2FloatCorrect.

Theorem C18_dec2f64_correct : forall d, f64_rounds_to d (dec2f64 d) = true.
Proof. exact Dec2FloatCorrect.dec2f64_correct. Qed.
Print Assumptions C18_dec2f64_correct.

Theorem C18_dec2f64_unique : forall d b, 0 <= b < 2 ^ 64 -> f64_rounds_to d b = true -> b = dec2f64 d.
Proof. exact Dec2FloatCorrect.dec2f64_unique. Qed.
Print Assumptions C18_dec2f64_unique.

Theorem C18_dec2f32_correct : forall d, f32_rounds_to d (dec2f32 d) = true.
Proof. exact Dec2FloatCorrect.dec2f32_correct. Qed.
Print Assumptions C18_dec2f32_correct.

Theorem C18_dec2f32_unique : forall d b, 0 <= b < 2 ^ 32 -> f32_rounds_to d b = true -> b = dec2f32 d.
Proof. exact Dec2FloatCorrect.dec2f32_unique. Qed.
Print Assumptions C18_dec2f32_unique.

(* the comparison the checkers use ("this lexeme denotes exactly these bits") is exactly "the reader returns these bits" *)
Theorem C18_lex_is_f64_iff : forall l b, lex_is_f64 l b = true <-> lex2f64 l = Some b.
Proof. exact Dec2FloatCorrect.lex_is_f64_iff. Qed.
Print Assumptions C18_lex_is_f64_iff.

Theorem C18_lex2f32_is_f32 : forall l b, lex2f32 l = Some b -> lex_is_f32 l b = true.
Proof. exact Dec2FloatCorrect.lex2f32_is_f32. Qed.
Print Assumptions C18_lex2f32_is_f32.

(* generic statements: any format with 2 <= p, emin <= 0, 1 <= 2 - emin - p *)
Theorem C18_fp_mag_correct : forall p emin, 2 <= p -> emin <= 0 -> 1 <= 2 - emin - p ->
  forall m e, fp_rounds_to p emin m e (fp_mag p emin m e) = true.
Proof. exact FpRound.fp_mag_correct. Qed.
Print Assumptions C18_fp_mag_correct.

Theorem C18_fp_rounds_to_unique : forall p emin, 2 <= p -> emin <= 0 -> 1 <= 2 - emin - p ->
  forall m e b, fp_rounds_to p emin m e b = true -> b = fp_mag p emin m e.
Proof. exact FpRound.fp_rounds_to_unique. Qed.
Print Assumptions C18_fp_rounds_to_unique.

(* the shortcuts of the specification are redundant: it equals the pure midpoint rule *)
Theorem C18_rounds_to_shortcuts_sound : forall p emin, 2 <= p -> emin <= 0 -> 1 <= 2 - emin - p ->
  forall m e b, fp_rounds_to p emin m e b = FpRoundPure.fp_rounds_to_pure p emin m e b.
Proof. exact FpRoundPure.fp_rounds_to_pure_eq. Qed.
Print Assumptions C18_rounds_to_shortcuts_sound.

(* ... and the midpoint rule in plain integer arithmetic (x = N/D; Wb b = mantissa * 2^(exponent - emin), strictly increasing) *)
Theorem C18_rounds_to_arith : forall p emin, 2 <= p -> emin <= 0 -> 1 <= 2 - emin - p -> forall m e b,
  0 < m -> 0 <= b <= FpRound.inf_bits p emin ->
  fp_rounds_to p emin m e b =
  (if b =? 0 then true
   else match FpRound.X emin (FpRound.decN m e) ?= (FpRound.Wb p emin (b - 1) + FpRound.Wb p emin b) * FpRound.decD e with
        | Gt => true | Eq => Z.even b | Lt => false end) &&
  (if b =? FpRound.inf_bits p emin then true
   else match FpRound.X emin (FpRound.decN m e) ?= (FpRound.Wb p emin b + FpRound.Wb p emin (b + 1)) * FpRound.decD e with
        | Lt => true | Eq => Z.even b | Gt => false end).
Proof. exact FpRoundPure.fp_rounds_to_arith. Qed.
Print Assumptions C18_rounds_to_arith.

Theorem C18_pattern_values_increase : forall p emin, 2 <= p -> forall b, 0 <= b ->
  FpRound.Wb p emin (b + 1) = FpRound.Wb p emin b + FpRound.Gb p emin b /\ 0 < FpRound.Gb p emin b.
Proof. intros p emin Hp b Hb. split; [apply FpRound.Wb_succ | apply FpRound.Gb_pos]; assumption. Qed.
Print Assumptions C18_pattern_values_increase.

(* ---- the PORTABLE converter at algorithm level (re-exported from C02): J2TWalk.walk is the transcription of
   conv/j2t/impl_fallback.go doRecurse as coded, tied to the portable converter by C02's check 211; on the canonical text of every
   JSON AST in the spec's domain it computes exactly the spec's bytes.  The native flavours inherit this only through the
   differential checks 1801 (flavours and portable pairwise) and 1807 (each flavour against the C02 spec). ---- *)
Theorem C18_portable_walk_refines_spec :
  forall D o, J2TWalkProofs.walk_ok_opts o = true -> J2TWalkProofs.defs_plain D = true ->
  forall j t s r b fuel,
  json_wf j = true -> json_utf8 j = true -> J2TWalkProofs.wdom D t j = true ->
  j2t_val strict D (J2TWalk.jopts_of o) t s j = Ok b -> stop r = true ->
  (length (json_print j ++ r) < fuel)%nat ->
  J2TWalk.walk D o fuel t (json_print j ++ r) = J2TWalk.WOk b r.
Proof. exact J2TWalkProofs.j2t_walk_refines_spec. Qed.
Print Assumptions C18_portable_walk_refines_spec.
