(* C06 — decoders survive arbitrary bytes: cursor in bounds, progress, bounded nesting, bounded allocation.
   Machines: model/Robust.v (explicit cursor, every fetch logged; NO hypothesis on the input [bs : list Z],
   not even that its elements are bytes).  Proofs: proofs/RobustProofs.v.
     inv bs s  := 0 <= cur s <= zlen bs /\ every index in the read trace of s is inside [0, zlen bs)
     safe bs o := o is not OverRead, and the final state of Ok / Er / Panic satisfies inv. *)
From Coq Require Import ZArith List Bool Lia.
From DG Require Import ProtoWireRef ThriftWire ThriftEnvelope Gen_protowire Robust RobustProofs.
Import ListNotations.
Local Open Scope Z_scope.

(* ================================================================== 1. cursor_in_bounds *)

(* Thrift SkipGo: every task, every start state, every fuel, every input *)
Theorem C06_skip_cursor_in_bounds :
  forall bs fuel k s, inv bs s -> safe bs (srun bs fuel k s).
Proof. exact srun_safe. Qed.
Print Assumptions C06_skip_cursor_in_bounds.

(* Thrift ReadAny-style reader, as coded (clamp = false) and repaired (clamp = true), any nesting limit *)
Theorem C06_reader_cursor_in_bounds :
  forall bs clamp lim fuel k s, inv bs s -> safe bs (rrun bs clamp lim fuel k s).
Proof. exact rrun_safe. Qed.
Print Assumptions C06_reader_cursor_in_bounds.

Theorem C06_envelope_cursor_in_bounds :
  forall bs s, inv bs s -> safe bs (envelope bs s).
Proof. exact envelope_safe. Qed.
Print Assumptions C06_envelope_cursor_in_bounds.

(* ConsumeVarint at the cursor: never reads outside, does not move the cursor or allocate *)
Theorem C06_cvarint_cursor_in_bounds :
  forall bs s, inv bs s ->
  match cvarint bs s with
  | VOk _ n s' => inv bs s' /\ cur s' = cur s /\ cost s' = cost s /\ 1 <= n <= 10 /\ cur s + n <= zlen bs
  | VErr c s' => inv bs s' /\ cur s' = cur s /\ cost s' = cost s /\ (c = -1 \/ c = -3)
  | VOver _ => False
  end.
Proof. exact cvarint_safe. Qed.
Print Assumptions C06_cvarint_cursor_in_bounds.

(* proto Skip(wireType), as coded and with the length test first: no over-read; the as-coded variant can
   end in Panic (see C06_pskip_as_coded_panics) but even then the cursor has not left the buffer *)
Theorem C06_pskip_cursor_in_bounds :
  forall bs coded wt s, inv bs s -> safe bs (pskip bs coded wt s).
Proof. exact pskip_safe. Qed.
Print Assumptions C06_pskip_cursor_in_bounds.

Theorem C06_pfields_cursor_in_bounds :
  forall bs coded fuel s, inv bs s -> safe bs (pfields bs coded fuel s).
Proof. exact pfields_safe. Qed.
Print Assumptions C06_pfields_cursor_in_bounds.

Theorem C06_ppacked_cursor_in_bounds :
  forall bs ignore_err fuel s, inv bs s -> safe bs (ppacked bs ignore_err fuel s).
Proof. exact ppacked_safe. Qed.
Print Assumptions C06_ppacked_cursor_in_bounds.

(* the entry points, from the initial state *)
Theorem C06_entry_points_cursor_in_bounds :
  forall bs,
  (forall t, safe bs (skip_go_m t bs)) /\
  (forall t, safe bs (read_any_coded t bs)) /\
  (forall t, safe bs (read_any_clamped t bs)) /\
  safe bs (unwrap_m bs) /\
  (forall coded wt, safe bs (pskip_m coded wt bs)) /\
  (forall coded, safe bs (pfields_m coded bs)) /\
  (forall ignore_err, safe bs (ppacked_m ignore_err bs)).
Proof.
  intros bs.
  split; [intros t; apply skip_go_safe|].
  split; [intros t; apply read_any_safe|].
  split; [intros t; apply read_any_safe|].
  split; [apply unwrap_safe|].
  split; [intros coded wt; apply pskip_safe, inv_st0|].
  split; [intros coded; apply pfields_safe, inv_st0 | intros ign; apply ppacked_safe, inv_st0].
Qed.
Print Assumptions C06_entry_points_cursor_in_bounds.

(* ================================================================== 2. progress *)

(* general form: fuel above the measure (remaining bytes + 2 / 1 / 3) is never exhausted *)
Theorem C06_skip_progress_general :
  forall bs fuel k s, inv bs s ->
  zlen bs - cur s + match k with KVal _ _ => 2 | KFields _ => 1 | _ => 3 end <= Z.of_nat fuel ->
  srun bs fuel k s <> OutOfFuel.
Proof. exact srun_progress. Qed.
Print Assumptions C06_skip_progress_general.

Theorem C06_reader_progress_general :
  forall bs clamp lim fuel k s, inv bs s ->
  zlen bs - cur s + match k with RVal _ _ => 2 | RFields _ => 1 | _ => 3 end <= Z.of_nat fuel ->
  rrun bs clamp lim fuel k s <> OutOfFuel.
Proof. exact rrun_progress. Qed.
Print Assumptions C06_reader_progress_general.

(* with fuel |bs| + depth limit + 1 *)
Theorem C06_skip_progress : forall bs t, skip_go_m t bs <> OutOfFuel.
Proof. exact skip_go_progress. Qed.
Print Assumptions C06_skip_progress.

Theorem C06_reader_progress :
  forall bs t, read_any_coded t bs <> OutOfFuel /\ read_any_clamped t bs <> OutOfFuel.
Proof. exact read_any_progress. Qed.
Print Assumptions C06_reader_progress.

Theorem C06_pfields_progress : forall bs coded, pfields_m coded bs <> OutOfFuel.
Proof. exact pfields_progress. Qed.
Print Assumptions C06_pfields_progress.

Theorem C06_ppacked_progress : forall bs, ppacked_m false bs <> OutOfFuel.
Proof. exact ppacked_progress. Qed.
Print Assumptions C06_ppacked_progress.

(* NEGATIVE: the packed loop as coded in conv/p2j (element error ignored) does not terminate on a
   4-byte input: no amount of fuel suffices *)
Theorem C06_ppacked_as_coded_spins :
  exists bs, (length bs <= 4)%nat /\ forall fuel, ppacked bs true fuel st0 = OutOfFuel.
Proof. exact ppacked_as_coded_spins. Qed.
Print Assumptions C06_ppacked_as_coded_spins.

(* ================================================================== 3. depth_bounded *)

Theorem C06_skip_depth_error :
  forall bs f t d s, d <= 0 -> srun bs (S f) (KVal t d) s = Er E_DEPTH s.
Proof. exact srun_depth_error. Qed.
Print Assumptions C06_skip_depth_error.

(* the deepest level entered never exceeds the limit, for every task *)
Theorem C06_skip_depth_invariant :
  forall bs fuel k s, inv bs s -> deep s <= skip_limit ->
  match srun bs fuel k s with Ok s' | Er _ s' | Panic s' => deep s' <= skip_limit | _ => True end.
Proof. exact srun_depth. Qed.
Print Assumptions C06_skip_depth_invariant.

Theorem C06_skip_depth_bounded :
  forall bs t, match skip_go_m t bs with Ok s | Er _ s | Panic s => deep s <= skip_limit | _ => True end.
Proof. exact skip_go_depth. Qed.
Print Assumptions C06_skip_depth_bounded.

Theorem C06_reader_depth_error :
  forall bs clamp lim f t d s, d <= 0 -> rrun bs clamp lim (S f) (RVal t d) s = Er E_DEPTH s.
Proof. exact rrun_depth_error. Qed.
Print Assumptions C06_reader_depth_error.

Theorem C06_reader_depth_invariant :
  forall bs clamp lim fuel k s, inv bs s -> deep s <= lim ->
  match rrun bs clamp lim fuel k s with Ok s' | Er _ s' | Panic s' => deep s' <= lim | _ => True end.
Proof. exact rrun_depth. Qed.
Print Assumptions C06_reader_depth_invariant.

Theorem C06_reader_depth_bounded :
  forall bs t, match read_any_clamped t bs with Ok s | Er _ s | Panic s => deep s <= skip_limit | _ => True end.
Proof. exact read_any_clamped_depth. Qed.
Print Assumptions C06_reader_depth_bounded.

(* ================================================================== 4. allocation *)

(* repaired reader (hints clamped to the remaining input, nesting limited): linear in the input, accepted
   or not: K * |bs| + C with K = 128 + 48 * 1023 and C = 48 (C = 0 is false, see C06_alloc_constant_needed) *)
Theorem C06_alloc_linear :
  forall bs t, cost_clamped t bs <= (128 + 48 * skip_limit) * zlen bs + 48.
Proof. exact alloc_linear. Qed.
Print Assumptions C06_alloc_linear.

Theorem C06_alloc_linear_accepted :
  forall bs t s, read_any_clamped t bs = Ok s -> cost s <= 128 * zlen bs.
Proof. exact alloc_linear_accepted. Qed.
Print Assumptions C06_alloc_linear_accepted.

(* as coded, the allocation of an ACCEPTED input is linear too: only the failing path is unbounded *)
Theorem C06_alloc_coded_accepted :
  forall bs t s, read_any_coded t bs = Ok s -> cost s <= 128 * zlen bs.
Proof. exact alloc_coded_accepted. Qed.
Print Assumptions C06_alloc_coded_accepted.

(* general forms behind the three theorems above (any start state, any limit, any fuel) *)
Theorem C06_alloc_accepted_general :
  forall bs clamp lim fuel t d s s', inv bs s ->
  rrun bs clamp lim fuel (RVal t d) s = Ok s' -> cost s' - cost s + 64 <= 128 * (cur s' - cur s).
Proof. exact rrun_alloc_accepted. Qed.
Print Assumptions C06_alloc_accepted_general.

Theorem C06_alloc_rejected_general :
  forall bs lim fuel t d s e s', inv bs s ->
  rrun bs true lim fuel (RVal t d) s = Er e s' ->
  cost s' - cost s <= 128 * (cur s' - cur s) + 48 * zlen bs * Z.max d 0 + 48.
Proof. exact rrun_alloc_rejected. Qed.
Print Assumptions C06_alloc_rejected_general.

(* NEGATIVE: as coded, 5 bytes make ReadAny(LIST) ask for >= 2^31 bytes (and then fail) *)
Theorem C06_alloc_as_coded_refuted :
  exists bs, (length bs <= 6)%nat /\ cost_as_coded bs >= 2 ^ 31.
Proof. exact alloc_as_coded_refuted. Qed.
Print Assumptions C06_alloc_as_coded_refuted.

(* SkipGo allocates nothing *)
Theorem C06_skip_no_alloc :
  forall bs fuel k s s', inv bs s -> srun bs fuel k s = Ok s' -> cost s' = cost s.
Proof. exact srun_no_alloc. Qed.
Print Assumptions C06_skip_no_alloc.

(* ================================================================== 5. (G) varint *)

(* the go2coq translation of protowire.ConsumeVarint is total with a well-formed result on every byte string *)
Theorem C06_ConsumeVarint_total :
  forall bs, bytes_ok bs ->
  let '(v, n) := Gen_protowire.ConsumeVarint bs in
  (1 <= n <= 10 /\ n <= zlen bs /\ 0 <= v < 2 ^ 64) \/ (n = -1 /\ v = 0) \/ (n = -3 /\ v = 0).
Proof. exact ConsumeVarint_total. Qed.
Print Assumptions C06_ConsumeVarint_total.

(* the cursor machine reads exactly what the reference decoder (= the generated one on bytes, by
   GenProtowireProofs.ConsumeVarint_ref) reads on the suffix at the cursor *)
Theorem C06_cvarint_ref :
  forall bs s, inv bs s ->
  match cvarint bs s with
  | VOk v n s' => cur s' = cur s /\ cost s' = cost s /\ varint_dec (skipn (Z.to_nat (cur s)) bs) = (v, n)
  | VErr c s' => cur s' = cur s /\ cost s' = cost s /\ snd (varint_dec (skipn (Z.to_nat (cur s)) bs)) = c
  | VOver _ => False
  end.
Proof. exact cvarint_ref. Qed.
Print Assumptions C06_cvarint_ref.

(* ================================================================== 6. proto Skip: panic as coded *)

(* NEGATIVE: SkipBytesType as coded panics (next() with a non-positive count) on a 10-byte length *)
Theorem C06_pskip_as_coded_panics :
  exists bs, (length bs <= 11)%nat /\ exists s, pskip_m true 2 bs = Panic s.
Proof. exact pskip_as_coded_panics. Qed.
Print Assumptions C06_pskip_as_coded_panics.

Theorem C06_pskip_fixed_never_panics :
  forall bs wt s s', pskip bs false wt s <> Panic s'.
Proof. exact pskip_fixed_never_panics. Qed.
Print Assumptions C06_pskip_fixed_never_panics.

(* ================================================================== examples (non-vacuity) *)

Definition verdict (o : out) : Z * Z * Z :=   (* (0 | error code | -1 OverRead | -2 Panic | -3 OutOfFuel, cursor, deepest level) *)
  match o with
  | Ok s => (0, cur s, deep s) | Er e s => (e, cur s, deep s)
  | OverRead _ => (-1, 0, 0) | Panic s => (-2, cur s, deep s) | OutOfFuel => (-3, 0, 0)
  end.

(* n nested LIST-of-LIST headers (one element each) around an empty list of I32; read with top-level
   type T_LIST this is a value with n + 1 nested containers *)
Fixpoint nest (n : nat) : list Z :=
  match n with O => [8; 0; 0; 0; 0] | S n' => [15; 0; 0; 0; 1] ++ nest n' end.

(* exactly at the limit: 1023 nested containers are skipped, 1024 are rejected with E_DEPTH *)
Example C06_skip_depth_limit_exact :
  verdict (skip_go_m T_LIST (nest 1022)) = (0, 5115, 1023) /\
  verdict (skip_go_m T_LIST (nest 1023)) = (E_DEPTH, 5115, 1023).
Proof. split; vm_compute; reflexivity. Qed.

Example C06_reader_depth_limit_exact :
  (let o := read_any_clamped T_LIST (nest 1022) in (verdict o, out_cost o)) = ((0, 5115, 1023), 40904) /\
  verdict (read_any_clamped T_LIST (nest 1023)) = (E_DEPTH, 5115, 1023).
Proof. split; vm_compute; reflexivity. Qed.

(* a well-formed struct {1: "hi", 2: map<i32,string>{7: "x"}} is accepted by both machines, cursor at the end *)
Example C06_thrift_accepts :
  let bs := [11; 0; 1; 0; 0; 0; 2; 104; 105; 13; 0; 2; 8; 11; 0; 0; 0; 1; 0; 0; 0; 7; 0; 0; 0; 1; 120; 0] in
  verdict (skip_go_m T_STRUCT bs) = (0, 28, 2) /\
  verdict (read_any_clamped T_STRUCT bs) = (0, 28, 3) /\ cost_clamped T_STRUCT bs = 368 /\
  verdict (read_any_coded T_STRUCT bs) = (0, 28, 3).
Proof. vm_compute. repeat split; reflexivity. Qed.

(* garbage: a string length beyond the input, a negative map size, a truncated header *)
Example C06_thrift_rejects :
  verdict (skip_go_m T_STRUCT [11; 0; 1; 0; 0; 0; 200; 104; 105]) = (E_EOF, 3, 2) /\
  verdict (skip_go_m T_MAP [11; 12; 255; 255; 255; 255]) = (E_SIZE, 6, 1) /\
  verdict (read_any_clamped T_LIST [15; 0; 0]) = (E_EOF, 1, 1).
Proof. vm_compute. repeat split; reflexivity. Qed.

(* the 5-byte list header: 32 GiB requested as coded, 24 bytes with the clamped hint *)
Example C06_alloc_example :
  out_cost (read_any_coded T_LIST [10; 127; 255; 255; 255]) = 34359738376 /\
  out_cost (read_any_clamped T_LIST [10; 127; 255; 255; 255]) = 24.
Proof. vm_compute. split; reflexivity. Qed.

(* the additive constant of C06_alloc_linear is needed: the empty input read as a STRUCT has already
   paid for the map header when the first field header is found missing *)
Example C06_alloc_constant_needed :
  cost_clamped T_STRUCT [] = 48 /\ verdict (read_any_clamped T_STRUCT []) = (E_EOF, 0, 1).
Proof. vm_compute. split; reflexivity. Qed.

Example C06_envelope_examples :
  verdict (unwrap_m [128; 1; 0; 1; 0; 0; 0; 1; 109; 0; 0; 0; 5; 12; 0; 1; 0; 0]) = (0, 16, 0) /\
  verdict (unwrap_m [128; 1; 0; 1; 127; 255; 255; 255; 109]) = (E_VERSION, 8, 0).
Proof. vm_compute. split; reflexivity. Qed.

Example C06_proto_examples :
  verdict (pfields_m false [8; 150; 1; 18; 2; 104; 105; 45; 1; 2; 3; 4]) = (0, 12, 0) /\
  verdict (pfields_m true [8; 150; 1; 18; 2; 104; 105; 45; 1; 2; 3; 4]) = (0, 12, 0) /\
  verdict (pfields_m true [18; 200; 1; 0]) = (E_EOF, 1, 0) /\
  verdict (ppacked_m false [3; 1; 150; 1]) = (0, 4, 0) /\
  verdict (ppacked_m false [3; 128; 128; 128]) = (E_VARINT, 1, 0) /\
  ppacked_m true [3; 128; 128; 128] = OutOfFuel /\
  verdict (pskip_m true 2 [246; 255; 255; 255; 255; 255; 255; 255; 255; 1]) = (-2, 0, 0) /\
  verdict (pskip_m false 2 [246; 255; 255; 255; 255; 255; 255; 255; 255; 1]) = (E_EOF, 0, 0).
Proof. vm_compute. repeat split; reflexivity. Qed.

Example C06_cvarint_example :
  (match cvarint [1; 172; 2; 9] (mkst 1 0 0 []) with VOk v n _ => (v, n) | _ => (0, 0) end) = (300, 2) /\
  varint_dec [172; 2; 9] = (300, 2).
Proof. vm_compute. split; reflexivity. Qed.

(* ================================================================== 7. refinement: cursor machines = list models *)
(* The machines above are the SAME functions as the list-based models that carry the round-trip theorems
   (C19 ThriftWire.skip / decode, C07 ProtoMsg.wdec).  Proofs: proofs/RobustRefine.v.
   suffix bs s = skipn (Z.to_nat (cur s)) bs, the part of the input not yet consumed. *)
From DG Require Import RobustRefine.

(* (A) Thrift SkipGo.  bytes_ok and |bs| < 2^31 are needed for one reason only: the code (and the cursor
   machine) reads a string length as int(uint32), ThriftWire.skipstr as a signed int32; they agree exactly
   when no length >= 2^31 can fit in the buffer. *)
Theorem C06_skip_refines :
  forall bs t, bytes_ok bs -> zlen bs < 2 ^ 31 ->
  match skip_go_m t bs with
  | Ok s => skip_go t bs = Some (skipn (Z.to_nat (cur s)) bs)
  | Er _ _ => skip_go t bs = None
  | _ => False
  end.
Proof. intros bs t Hb Hl. exact (skip_refines bs Hb Hl t). Qed.
Print Assumptions C06_skip_refines.

(* general form: any start state in bounds, any depth budget, any fuel *)
Theorem C06_skip_refines_general :
  forall bs, bytes_ok bs -> zlen bs < 2 ^ 31 ->
  forall fuel t d s, inv bs s ->
  match srun bs fuel (KVal t d) s with
  | Ok s' => skip (Z.to_nat d) t (suffix bs s) = Some (suffix bs s')
  | Er _ _ => skip (Z.to_nat d) t (suffix bs s) = None
  | OutOfFuel => True
  | _ => False
  end.
Proof. exact srun_ref_val. Qed.
Print Assumptions C06_skip_refines_general.

Example C06_skip_refines_example :
  let bs := [11; 0; 1; 0; 0; 0; 2; 104; 105; 13; 0; 2; 8; 11; 0; 0; 0; 1; 0; 0; 0; 7; 0; 0; 0; 1; 120; 0; 9; 9] in
  verdict (skip_go_m T_STRUCT bs) = (0, 28, 2) /\ skip_go T_STRUCT bs = Some [9; 9] /\
  verdict (skip_go_m T_MAP [11; 12; 255; 255; 255; 255]) = (E_SIZE, 6, 1) /\ skip_go T_MAP [11; 12; 255; 255; 255; 255] = None.
Proof. vm_compute. repeat split; reflexivity. Qed.

(* (C) protobuf: Skip(wireType) with the length test first = ProtoMsg.wdec_val on the suffix, for the four
   wire types the wire model knows; no hypothesis on the bytes *)
From DG Require Import ProtoMsg.

Theorem C06_pskip_refines_wdec_val :
  forall bs wt s, inv bs s -> (wt = 0 \/ wt = 1 \/ wt = 2 \/ wt = 5) ->
  match pskip bs false wt s with
  | Ok s' => exists v, wdec_val wt (suffix bs s) = Some (v, suffix bs s')
  | Er _ _ => wdec_val wt (suffix bs s) = None
  | _ => False
  end.
Proof. exact pskip_ref. Qed.
Print Assumptions C06_pskip_refines_wdec_val.

(* remark: for the other wire types (groups 3/4, reserved 6/7) the code returns nil without consuming
   anything, while the wire model rejects them — the machine is more lenient there *)
Theorem C06_pskip_other_wire_types :
  forall bs wt s coded, wt <> 0 -> wt <> 1 -> wt <> 2 -> wt <> 5 ->
  pskip bs coded wt s = Ok s /\ forall l, wdec_val wt l = None.
Proof. exact pskip_other_wt. Qed.
Print Assumptions C06_pskip_other_wire_types.

(* whatever the wire decoder accepts, the unknown-field loop walks to the very end (only this direction:
   the loop also accepts field numbers up to 2^31-1 and the lenient wire types) *)
Theorem C06_wdec_accepts_implies_pfields :
  forall bs w, wdec bs = Some w -> exists s, pfields_m false bs = Ok s /\ cur s = zlen bs.
Proof. exact wdec_accepts_implies_pfields. Qed.
Print Assumptions C06_wdec_accepts_implies_pfields.

(* general form: from any state in bounds, any list fuel of the decoder, any fuel of the machine *)
Theorem C06_wdec_loop_implies_pfields :
  forall bs f lf s w, inv bs s -> wdec_loop lf (suffix bs s) = Some w ->
  match pfields bs false f s with Ok s' => cur s' = zlen bs | OutOfFuel => True | _ => False end.
Proof. exact pfields_ref. Qed.
Print Assumptions C06_wdec_loop_implies_pfields.

Example C06_proto_refines_example :
  let bs := [8; 150; 1; 18; 2; 104; 105; 45; 1; 2; 3; 4] in
  wdec bs = Some [(1, WVarint 150); (2, WBytes [104; 105]); (5, WFix32 67305985)] /\
  verdict (pfields_m false bs) = (0, 12, 0) /\
  (* more lenient: a group-start tag (field 1, wire type 3) is walked over by the loop, rejected by wdec *)
  wdec [11] = None /\ verdict (pfields_m false [11]) = (0, 1, 0).
Proof. vm_compute. repeat split; reflexivity. Qed.

(* (B) Thrift reader vs decoder: whatever ReadAny accepts, ThriftWire.decode (the decoder of the C19
   round-trip theorems) decodes to some value with exactly the same remaining input.  Only this direction:
   the reader is stricter (it validates element-type bytes even of empty containers).  No hypothesis on
   the bytes; depth budget of the decoder = nesting limit of the reader (|bs| + 1 as coded). *)
Theorem C06_reader_refines_decode :
  forall bs t s, read_any_coded t bs = Ok s ->
  exists v, decode (S (length bs)) t bs = Some (v, skipn (Z.to_nat (cur s)) bs).
Proof. exact reader_refines_decode. Qed.
Print Assumptions C06_reader_refines_decode.

Theorem C06_reader_clamped_refines_decode :
  forall bs t s, read_any_clamped t bs = Ok s ->
  exists v, decode max_skip_depth t bs = Some (v, skipn (Z.to_nat (cur s)) bs).
Proof. exact reader_clamped_refines_decode. Qed.
Print Assumptions C06_reader_clamped_refines_decode.

(* general form: any hint policy, any nesting limit, any fuel, any start state in bounds *)
Theorem C06_reader_refines_decode_general :
  forall bs clamp lim fuel t d s s', inv bs s ->
  rrun bs clamp lim fuel (RVal t d) s = Ok s' ->
  exists v, decode (Z.to_nat d) t (suffix bs s) = Some (v, suffix bs s').
Proof. exact rrun_ref_val. Qed.
Print Assumptions C06_reader_refines_decode_general.

Example C06_reader_refines_example :
  let bs := [11; 0; 1; 0; 0; 0; 2; 104; 105; 13; 0; 2; 8; 11; 0; 0; 0; 1; 0; 0; 0; 7; 0; 0; 0; 1; 120; 0; 9] in
  verdict (read_any_coded T_STRUCT bs) = (0, 28, 3) /\
  decode (S (length bs)) T_STRUCT bs =
    Some (ThriftWire.VStruct [(1, ThriftWire.VString [104; 105]);
                              (2, ThriftWire.VMap 8 11 [(ThriftWire.VI32 7, ThriftWire.VString [120])])], [9]) /\
  (* stricter: an empty list whose element-type byte is invalid is rejected by the reader, decoded by the model *)
  verdict (read_any_coded T_LIST [99; 0; 0; 0; 0]) = (E_TYPE, 1, 1) /\
  decode 6 T_LIST [99; 0; 0; 0; 0] = Some (ThriftWire.VList 99 [], []).
Proof. vm_compute. repeat split; reflexivity. Qed.

(* ================================================================================================================
   Totality of the list-based byte walkers on ARBITRARY bytes (proofs/RobustWalkProofs.v).
   These models read with take/skipn/varint_dec: a read past the end is None BY CONSTRUCTION (no OverRead to exclude).
   Their loops run on a fuel the model gives itself; a None answer therefore conflates "rejected" with "fuel exhausted".
   The theorems below say the second never happens: every fuel above |bs| (and every nesting budget above the height of
   the descriptor / half the number of bytes) gives the SAME answer, because every loop iteration consumes >= 1 byte or
   returns; and what is handed back lies inside the buffer.
   ================================================================================================================ *)
From DG Require Import ThriftGeneric T2J T2JBytes P2J P2JBytes RobustWalkProofs.

(* ---- thrift/generic get_by_path (ThriftGeneric.v) ---- *)
Theorem C06_skip_go_progress :
  forall t bs r, skip_go t bs = Some r -> exists n, (1 <= n <= length bs)%nat /\ r = skipn n bs.
Proof. exact skip_go_suffix. Qed.
Print Assumptions C06_skip_go_progress.

Theorem C06_search_field_fuel_stable :
  forall f f' id bs off, (length bs < f)%nat -> (length bs < f')%nat ->
  search_field f id bs off = search_field f' id bs off.
Proof. exact search_field_fuel_stable. Qed.
Print Assumptions C06_search_field_fuel_stable.

(* get_by_path_f: the same walk with ONE explicit fuel used at every step of the path *)
Theorem C06_get_by_path_total :
  forall p f t bs off, (length bs < f)%nat -> get_by_path_f f t bs off p = get_by_path t bs off p.
Proof. exact get_by_path_total. Qed.
Print Assumptions C06_get_by_path_total.

Theorem C06_get_by_path_in_bounds :
  forall p t bs off t' s e, get_by_path t bs off p = GFound t' s e -> off <= s /\ s < e /\ e <= off + zlen bs.
Proof. exact get_by_path_in_bounds. Qed.
Print Assumptions C06_get_by_path_in_bounds.

(* ---- conv/t2j byte walk (T2JBytes.v) ---- *)
Theorem C06_t2j_walk_progress :
  forall fd o n d bs txt r, t2j_walk_gen fd o n d bs = Some (txt, r) -> (length r < length bs)%nat.
Proof. exact t2j_walk_shrinks. Qed.
Print Assumptions C06_t2j_walk_progress.

Theorem C06_t2j_walk_depth_stable :
  forall fd o n n' d bs, (desc_height d <= n)%nat -> (desc_height d <= n')%nat ->
  t2j_walk_gen fd o n d bs = t2j_walk_gen fd o n' d bs.
Proof. exact t2j_walk_depth_stable. Qed.
Print Assumptions C06_t2j_walk_depth_stable.

(* t2j_walk_f: the walk with an explicit field-loop fuel lf; |bs| + 1 and the height of the descriptor suffice *)
Theorem C06_t2j_walk_total :
  forall fd o lf lf' n n' d bs,
  (length bs < lf)%nat -> (length bs < lf')%nat -> (desc_height d <= n)%nat -> (desc_height d <= n')%nat ->
  t2j_walk_f fd o lf n d bs = t2j_walk_f fd o lf' n' d bs /\ t2j_walk_f fd o lf n d bs = t2j_walk_gen fd o n' d bs.
Proof. exact t2j_walk_total. Qed.
Print Assumptions C06_t2j_walk_total.

(* ---- conv/p2j byte walk (P2JBytes.v) ---- *)
Theorem C06_wdec_val_progress :
  forall wt bs v r, wdec_val wt bs = Some (v, r) -> (length r < length bs)%nat.
Proof. exact wdec_val_shrinks. Qed.
Print Assumptions C06_wdec_val_progress.

Theorem C06_p2j_walk_depth_stable :
  forall fl o Sc f f' name body, (length body < f)%nat -> (length body < f')%nat ->
  walk_msg fl o Sc f name body = walk_msg fl o Sc f' name body.
Proof. exact walk_msg_depth_stable. Qed.
Print Assumptions C06_p2j_walk_depth_stable.

Theorem C06_p2j_walk_total :
  forall f o Sc name bs, (length bs < f)%nat -> p2j_walk f o Sc name bs = p2j_walk (S (length bs)) o Sc name bs.
Proof. exact p2j_walk_total. Qed.
Print Assumptions C06_p2j_walk_total.

(* one loop fuel lf for every loop and a nesting fuel df: lf >= |bs| and 2 df > |bs| give the model's answer *)
Theorem C06_p2j_walk_f_total :
  forall fl o Sc lf df name bs, (length bs <= lf)%nat -> (length bs < 2 * df)%nat ->
  walk_msg_f fl o Sc lf df name bs = p2j_walk_gen fl (S (length bs)) o Sc name bs.
Proof. exact p2j_walk_f_total. Qed.
Print Assumptions C06_p2j_walk_f_total.

(* ================================================================================================================
   Third part: the remaining decoders as explicit cursors over ARBITRARY bytes (proofs/RobustThriftWalk.v,
   proofs/RobustProtoWalk.v): started at any position inside the buffer they answer Some/None (Ok/Err), the position
   they hand back is inside the buffer and strictly further, what they allocate (output text, DOM nodes) is linear in
   the bytes consumed, and their fuel is never the reason for an answer.
   ================================================================================================================ *)
From DG Require Import ThriftDom ProtoGenericAlg T2JUnset RobustThriftWalk RobustProtoWalk.

(* ---- conv/t2j walk ---- *)
Theorem C06_t2j_walk_cursor :
  forall fd o n d bs txt r, t2j_walk_gen fd o n d bs = Some (txt, r) ->
  exists c, (1 <= c <= length bs)%nat /\ r = skipn c bs.
Proof. intros. eapply t2j_walk_cursor; eassumption. Qed.
Print Assumptions C06_t2j_walk_cursor.

(* t2j_at: the walk started at cursor c of the buffer, answering (text, new cursor) *)
Theorem C06_t2j_at_in_bounds :
  forall fd o n d bs c txt c', (c <= length bs)%nat -> t2j_at fd o n d bs c = Some (txt, c') ->
  (c < c' <= length bs)%nat /\ exists r, t2j_walk_gen fd o n d (skipn c bs) = Some (txt, r) /\ r = skipn c' bs.
Proof. intros. eapply t2j_at_in_bounds; eassumption. Qed.
Print Assumptions C06_t2j_at_in_bounds.

(* allocation: the text is linear in the consumed bytes. F = longest float lexeme the printer emits; the factor
   (1 + most fields of any struct of the descriptor) pays for handleUnsets, which at a STOP byte writes a zero value for
   every unset required / default field when WriteRequireField / WriteDefaultField are on *)
Theorem C06_t2j_output_linear :
  forall fd o F n d bs txt r, (forall b, (length (fd b) <= F)%nat) ->
  t2j_walk_gen fd o n d bs = Some (txt, r) ->
  (length txt + 1 <= (13 + F + desc_maxkey d) * (1 + desc_maxfields d) * (length bs - length r))%nat.
Proof. intros. eapply t2j_walk_output_linear; eassumption. Qed.
Print Assumptions C06_t2j_output_linear.

(* with those two options off: (13 + F + longest quoted key) characters per consumed byte *)
Theorem C06_t2j_output_linear_nowrite :
  forall fd o F n d bs txt r, (forall b, (length (fd b) <= F)%nat) ->
  T2JUnset.o_write_required o = false -> T2JUnset.o_write_default o = false ->
  t2j_walk_gen fd o n d bs = Some (txt, r) ->
  (length txt + 1 <= (13 + F + desc_maxkey d) * (length bs - length r))%nat.
Proof. intros. eapply t2j_walk_output_linear_nowrite; eassumption. Qed.
Print Assumptions C06_t2j_output_linear_nowrite.

(* ---- thrift/generic path search from any cursor ---- *)
Theorem C06_gbp_at_in_bounds :
  forall t bs c p t' s e, (c <= length bs)%nat -> gbp_at t bs c p = GFound t' s e ->
  Z.of_nat c <= s /\ s < e /\ e <= zlen bs.
Proof. intros. eapply gbp_at_in_bounds; eassumption. Qed.
Print Assumptions C06_gbp_at_in_bounds.

(* ---- thrift DOM load (PathNode.Load) ---- *)
Theorem C06_dom_load_child_cursor :
  forall d rec ns t bs x r, load_child d rec ns t bs = Some (x, r) -> suffix_of r bs /\ (length r < length bs)%nat.
Proof. intros. eapply load_child_suffix; eassumption. Qed.
Print Assumptions C06_dom_load_child_cursor.

Theorem C06_dom_load_total :
  forall f d rec ns t bs, (length bs < f)%nat -> (length bs <= d)%nat -> load_f f d rec ns t bs = load rec ns t bs.
Proof. intros. apply load_total; assumption. Qed.
Print Assumptions C06_dom_load_total.

(* allocation: at most one node per byte of input, and every node's raw slice is a slice OF the buffer *)
Theorem C06_dom_load_nodes_linear :
  forall rec ns t bs x, load rec ns t bs = Some x -> (tree_nodes x <= length bs)%nat.
Proof. intros. eapply load_nodes_linear; eassumption. Qed.
Print Assumptions C06_dom_load_nodes_linear.

Theorem C06_dom_load_raw_inside :
  forall rec ns t bs x, load rec ns t bs = Some x -> tree_all (fun y => slice_of (t_raw y) bs) x.
Proof. intros. eapply load_raw_inside; eassumption. Qed.
Print Assumptions C06_dom_load_raw_inside.

(* ---- conv/p2j walk ---- *)
Theorem C06_p2j_field_cursor :
  forall fl o rec fd wt bs x r, P2JBytes.walk_field fl o rec fd wt bs = Some (x, r) ->
  exists c, (1 <= c <= length bs)%nat /\ r = skipn c bs.
Proof. intros. eapply walk_field_cursor; eassumption. Qed.
Print Assumptions C06_p2j_field_cursor.

Theorem C06_p2j_output_linear :
  forall fl F fuel o Sc name bs txt, (forall b, (length (fl b) <= F)%nat) -> bytes_ok bs ->
  p2j_walk_gen fl fuel o Sc name bs = Some txt ->
  (length txt <= (72 + F + keys_max Sc) * length bs + 2)%nat.
Proof. intros. eapply p2j_output_linear; eassumption. Qed.
Print Assumptions C06_p2j_output_linear.

(* ---- proto/generic path search (ProtoGenericAlg: explicit cursor, distinct Panic results) ---- *)
Theorem C06_pgbp_skip_never_panics : forall buf rd wt, askip buf rd wt <> SkPanic.
Proof. intros. apply askip_never_panics. Qed.
Print Assumptions C06_pgbp_skip_never_panics.

(* with the repair of finding 710 the path search has no panic result, for every buffer, schema and path *)
Theorem C06_pgbp_no_panic :
  forall fx S root buf p, f710 fx = true -> gbp fx S root buf p <> GPanicA.
Proof. intros. apply gbp_no_panic; assumption. Qed.
Print Assumptions C06_pgbp_no_panic.

(* gbp_x: the search with x extra units of fuel in every loop *)
Theorem C06_pgbp_fuel_independent :
  forall x fx S root buf p, bytes_ok buf -> no_double_index p -> gbp_x x fx S root buf p = gbp fx S root buf p.
Proof. intros. apply gbp_fuel_independent; assumption. Qed.
Print Assumptions C06_pgbp_fuel_independent.

(* the field search hands back offsets inside the buffer, at or behind the cursor it was given *)
Theorem C06_pgbp_search_field_in_bounds :
  forall buf, bytes_ok buf -> forall f rd id lim, inb buf rd -> sres_fwd buf rd (search_field_id f buf rd id lim).
Proof. intros. apply search_field_id_inb; assumption. Qed.
Print Assumptions C06_pgbp_search_field_in_bounds.

(* ================================================================== (G) skipping primitives from the Go source *)
(* the cursor machines of Robust.v against the definitions go2coq generates from thrift/binary_skip.go (gen/Gen_thrift.v) and
   proto/binary/binary_skip.go (gen/Gen_protoskip.v) on every build *)
From DG Require GoSem Gen_thrift Gen_protoskip Check20h GenProtoskipProofs GenThriftskipProofs.

(* skipn_m / skipstr_m ARE skipn / skipstr of the source: same outcome class and same cursor, for every buffer and cursor *)
Theorem C06_thrift_skip_prims_from_source :
  (forall buf n s, GenProtoskipProofs.in_buf buf (cur s) -> 0 <= n < 2 ^ 62 ->
     GenThriftskipProofs.out_obs (skipn_m buf n s) = Some (fst (Check20h.tskip_gen 0 buf (cur s) n))) /\
  (forall buf s, bytes_ok buf -> GenProtoskipProofs.in_buf buf (cur s) ->
     GenThriftskipProofs.out_obs (skipstr_m buf s) = Some (fst (Check20h.tskip_gen 1 buf (cur s) 0))).
Proof. split; [exact GenThriftskipProofs.skipn_is_skipn_m | exact GenThriftskipProofs.skipstr_is_skipstr_m]. Qed.
Print Assumptions C06_thrift_skip_prims_from_source.

(* proto/binary Skip from the source survives arbitrary bytes: for EVERY byte string, cursor inside it and wire type it never reaches a
   panic (next() is never handed a size <= 0), leaves the buffer alone and keeps the cursor inside the buffer *)
Theorem C06_proto_Skip_source_never_panics :
  forall buf rd wt u, bytes_ok buf -> GenProtoskipProofs.in_buf buf rd ->
  let '(e, b', rd') := Gen_protoskip.BinaryProtocol_Skip buf rd wt u in e <> GoSem.Err_PANIC /\ b' = buf /\ rd <= rd' <= GoSem.blen buf.
Proof. exact GenProtoskipProofs.Skip_never_panics. Qed.
Print Assumptions C06_proto_Skip_source_never_panics.

(* the fixed-size fast paths of SkipGo (gen/Gen_thriftskipfast.v: the bodies of `if typeSize[vt] > 0` and `if ksz > 0 && vsz > 0`,
   regenerated from the Go text on every build): ONE skipn of the exact product count x width - no 32-bit wrap for any count < 2^31 *)
From DG Require Gen_thriftskipfast.
Theorem C06_SkipGo_fast_paths_from_source :
  (forall vt sz, 0 <= vt < 256 -> 0 <= sz < 2 ^ 31 ->
     Gen_thriftskipfast.SkipGo_list_fast vt sz = (Gen_thriftskipfast.Out_return, [(Gen_thriftskipfast.Eff_skipn, [sz * fixed_size vt])])) /\
  (forall kt vt sz, 0 <= kt < 256 -> 0 <= vt < 256 -> 0 <= sz < 2 ^ 31 ->
     Gen_thriftskipfast.SkipGo_map_fast sz (Gen_thriftskipfast.typeSize kt) (Gen_thriftskipfast.typeSize vt)
       = (Gen_thriftskipfast.Out_return, [(Gen_thriftskipfast.Eff_skipn, [sz * (fixed_size kt + fixed_size vt)])])).
Proof. exact GenThriftskipProofs.SkipGo_fast_paths_exact. Qed.
Print Assumptions C06_SkipGo_fast_paths_from_source.
