(* C17 — HTTP mapping takes each annotated field from its declared source.
   Model: model/HttpMap.v (decision level; the value converters are Section variables, so every theorem below holds for ANY
   text->value / JSON->value converter).  Tied to conv/j2t, conv/t2j, thrift/annotation by checks 1701 / 1702. *)
From Coq Require Import ZArith List Bool Lia.
From DG Require Import ThriftWire Json HttpMap HttpMapProofs Check17.
Import ListNotations.
Local Open Scope Z_scope.

(* ---- first listed source with a value wins ---- *)

(* if listed source number i has a value (for the keyed sources: its getter returns a non-empty string) and no earlier listed
   source has one, the decision is "write the conversion of exactly that text" *)
Theorem C17_first_source_wins :
  forall o nobody f rq i a v,
  nth_error (f_anns f) i = Some a ->
  source_value a (is_struct (f_ty f)) rq = Some (SText v) -> v <> [] ->
  (forall j a', (j < i)%nat -> nth_error (f_anns f) j = Some a' -> source_value a' (is_struct (f_ty f)) rq = None) ->
  first_source (f_anns f) (is_struct (f_ty f)) rq = Some (i, SText v) /\ map_field o nobody f rq = DWrite i v.
Proof.
  intros o nobody f rq i a v Hn Hv Hne Hb. split.
  - apply first_source_is_first with (a := a); assumption.
  - apply map_field_first_wins with (a := a); assumption.
Qed.
Print Assumptions C17_first_source_wins.

(* conversely the chosen source is a listed one that has a value, and every source listed before it has none *)
Theorem C17_first_source_winner :
  forall anns fstruct rq i v,
  first_source anns fstruct rq = Some (i, v) ->
  exists a, nth_error anns i = Some a /\ source_value a fstruct rq = Some v /\
            (forall j a', (j < i)%nat -> nth_error anns j = Some a' -> source_value a' fstruct rq = None).
Proof. exact first_source_winner. Qed.
Print Assumptions C17_first_source_winner.

(* later sources are irrelevant: changing the content of any source listed after the winner changes neither the winner nor the decision *)
Theorem C17_later_sources_irrelevant :
  forall o nobody f rq rq' i v,
  first_source (f_anns f) (is_struct (f_ty f)) rq = Some (i, v) ->
  agree_upto i (f_anns f) (is_struct (f_ty f)) rq rq' ->
  first_source (f_anns f) (is_struct (f_ty f)) rq' = Some (i, v) /\ map_field o nobody f rq' = map_field o nobody f rq.
Proof.
  intros o nobody f rq rq' i v H Hag. split.
  - eapply first_source_later_irrelevant; eassumption.
  - eapply map_field_later_irrelevant; eassumption.
Qed.
Print Assumptions C17_later_sources_irrelevant.

(* "has a value" for the keyed sources = the getter returns a non-empty string *)
Theorem C17_keyed_source_has_value :
  forall a fstruct rq, is_keyed (a_kind a) = true ->
  source_value a fstruct rq = (if nonempty (getter (a_kind a) rq (a_key a)) then Some (SText (getter (a_kind a) rq (a_key a))) else None).
Proof. exact keyed_source_value. Qed.
Print Assumptions C17_keyed_source_has_value.

(* ---- frame: fields without HTTP annotations come from the body exactly as without mapping ---- *)

(* one field: the result is the plain body conversion and does not depend on the request, provided the member is present in the
   body or TracebackRequredOrRootFields is off (with that documented option, absent fields are sought in the HTTP values) *)
Theorem C17_unannotated_from_body :
  forall o fl conv_text conv_json rq rq' rec root ms f,
  f_anns f = [] -> (o_tb o = false \/ in_body ms f = true) ->
  field_result o fl rq conv_text conv_json rec root false ms f = plain_field_result o conv_json rec ms f /\
  field_result o fl rq conv_text conv_json rec root false ms f = field_result o fl rq' conv_text conv_json rec root false ms f.
Proof.
  intros. split; [apply field_result_unannotated | apply field_result_frame]; assumption.
Qed.
Print Assumptions C17_unannotated_from_body.

(* whole request: a root struct that carries no annotation at any depth is converted from the JSON body alone *)
Theorem C17_unannotated_struct_from_body :
  forall o fl conv_text conv_json, o_tb o = false ->
  forall fuel rq rq' fs body, ty_noann (TStruct fs) = true -> body <> None ->
  http_j2t o fl rq conv_text conv_json fuel fs body = http_j2t o fl rq' conv_text conv_json fuel fs body.
Proof. intros o fl ct cj Htb. exact (http_j2t_frame o fl ct cj Htb). Qed.
Print Assumptions C17_unannotated_struct_from_body.

(* ---- no source has a value: the fallback table ---- *)

Theorem C17_fallback_table :
  forall o nobody f rq,
  (forall a, In a (f_anns f) -> source_value a (is_struct (f_ty f)) rq = None) ->
  (f_req f = R_DEFAULT \/ f_req f = R_REQUIRED \/ f_req f = R_OPTIONAL) ->
  map_field o nobody f rq = fallback_table_lit nobody (o_rhf o) (f_req f) (o_wr o) (o_wd o) (o_wo o).
Proof.
  intros o nobody f rq Hno Hreq. rewrite map_field_no_source by exact Hno. apply no_source_rule_table. exact Hreq.
Qed.
Print Assumptions C17_fallback_table.

(* the outcomes behind the table entries, JSON body present *)
Theorem C17_fallback_outcome_body :
  forall o fl rq conv_text conv_json rec,
  (forall f a, In a (f_anns f) -> source_value a (is_struct (f_ty f)) rq = None) ->
  forall root ms f, f_anns f <> [] ->
  (o_rhf o = true ->
     field_result o fl rq conv_text conv_json rec root false ms f =
     match find_member (f_name f) ms with
     | Some j => conv_value conv_json rec (f_ty f) j
     | None => unset_rule o fl rq conv_text conv_json rec root f
     end) /\
  (o_rhf o = false ->
     field_result o fl rq conv_text conv_json rec root false ms f = of_empty_rule o (f_ty f) (f_req f)).
Proof.
  intros o fl rq ct cj rec Hno root ms f Hne. split; intros H.
  - apply fallback_to_body; assumption.
  - apply no_fallback_rule; assumption.
Qed.
Print Assumptions C17_fallback_outcome_body.

(* ... and with an empty body *)
Theorem C17_fallback_outcome_nobody :
  forall o fl rq conv_text conv_json rec,
  (forall f a, In a (f_anns f) -> source_value a (is_struct (f_ty f)) rq = None) ->
  forall root ms f, f_anns f <> [] ->
  (f_req f = R_DEFAULT \/ f_req f = R_REQUIRED \/ f_req f = R_OPTIONAL) ->
  field_result o fl rq conv_text conv_json rec root true ms f =
  match fallback_table_lit true (o_rhf o) (f_req f) (o_wr o) (o_wd o) (o_wo o) with
  | DError c => FError c
  | DWriteDefaultOrEmpty => FValue (zero_of (f_ty f))
  | DSkipOwed => nobody_unset_rule o rq conv_text conv_json rec f
  | _ => FAbsent
  end.
Proof. intros o fl rq ct cj rec Hno. exact (nobody_rule o fl rq ct cj rec Hno). Qed.
Print Assumptions C17_fallback_outcome_nobody.

(* ---- response side ---- *)

(* a delivered field is not in the JSON body; it was delivered by a listed annotation all of whose predecessors failed
   (which is only tolerated under OmitHttpMappingErrors) *)
Theorem C17_response_fields_omitted_from_body :
  forall o f text k key v,
  resp_field o f text = RODelivered k key v ->
  in_json_body (resp_field o f text) = false /\
  exists i a, nth_error (f_anns f) i = Some a /\ resp_ann a text = RDeliver k key v /\
              (forall j a', (j < i)%nat -> nth_error (f_anns f) j = Some a' -> resp_ann a' text = RFail) /\
              (i = O \/ o_omit o = true).
Proof.
  intros o f text k key v H. split.
  - eapply resp_field_delivered_not_in_body; exact H.
  - unfold resp_field in H. destruct (nonempty (f_anns f)); [|discriminate]. eapply resp_loop_delivered; exact H.
Qed.
Print Assumptions C17_response_fields_omitted_from_body.

(* an annotated field appears in the JSON body ONLY through the fallback: every mapping failed, errors are omitted and
   WriteHttpValueFallback is on *)
Theorem C17_response_body_iff_fallback :
  forall o f text,
  in_json_body (resp_field o f text) = true <->
  (f_anns f = [] \/ (o_whf o = true /\ (forall a, In a (f_anns f) -> resp_ann a text = RFail) /\ o_omit o = true)).
Proof. exact resp_field_in_body. Qed.
Print Assumptions C17_response_body_iff_fallback.

(* header / cookie / raw-body as first annotation: delivered with the field's text and omitted from the body under every option *)
Theorem C17_response_first_target_wins :
  forall o f text a r,
  f_anns f = a :: r -> (a_kind a = K_HEADER \/ a_kind a = K_COOKIE \/ a_kind a = K_RAW_BODY) ->
  exists k key, resp_field o f text = RODelivered k key text /\ in_json_body (resp_field o f text) = false.
Proof. exact resp_first_target_wins. Qed.
Print Assumptions C17_response_first_target_wins.

(* ---- the body map of a JSON request (the source behind api.body and the last seeking step) ---- *)
(* GetMapBody(k) must be the DENOTED string of body member k (escapes resolved by the proved parser, Json.json_parse_print /
   unquote_quote_ref), resp. the printed value of a non-string member; check 1701 compares the implementation's getter with it *)
Theorem C17_body_map_member :
  forall ms k j, find_member k ms = Some j ->
  assoc k (body_map ms) = match j with JStr x => x | _ => json_print j end.
Proof.
  induction ms as [|m r IH]; intros k j H.
  - discriminate.
  - destruct m as [k' x]. unfold find_member in H. simpl in H.
    simpl. destruct (zlist_eqb k k') eqn:E.
    + simpl in H. inversion H; subst. destruct j; reflexivity.
    + apply IH. exact H.
Qed.
Print Assumptions C17_body_map_member.

Example C17_example_body_map :
  (* an object with member a = string literal x, escaped solidus, u00e9 escape, newline escape, escaped quote; member n = array [1, escaped solidus string] *)
  json_parse [123;34;97;34;58;34;120;92;47;92;117;48;48;101;57;92;110;92;34;34;44;34;110;34;58;91;49;44;34;92;47;34;93;125]
  = Some (JObj [([97], JStr [120;47;195;169;10;34]); ([110], JArr [JNum [49]; JStr [47]])]) /\
  assoc [97] (body_map [([97], JStr [120;47;195;169;10;34]); ([110], JArr [JNum [49]; JStr [47]])]) = [120;47;195;169;10;34] /\
  assoc [110] (body_map [([97], JStr [120;47;195;169;10;34]); ([110], JArr [JNum [49]; JStr [47]])]) = [91;49;44;34;47;34;93].
Proof. vm_compute. repeat split; reflexivity. Qed.

(* ---- the recorded deviations really contradict the specification (quirk models differ from Spec) ---- *)
Definition ex_o (wr wd wo rhf tb : bool) : hopts := mkOpts wr wd wo rhf tb false false false false.
Definition s (l : list Z) := l.
Definition ex_rq : request :=
  mkReq [([113], [52; 50])]                (* query  q = "42" *)
        []
        [([104], [55])]                    (* header h = "7"  *)
        [] [] [] [] [104; 116; 116; 112].
Definition ex_f : fdesc := FD 1 [97] R_DEFAULT [Ann K_QUERY [113]; Ann K_HEADER [104]] (TBase T_I32 false).   (* 1: i32 a (api.query="q", api.header="h") *)
Definition ex_g : fdesc := FD 2 [98] R_REQUIRED [] (TBase T_I32 false).                                        (* 2: required i32 b *)

(* both sources populated: the first listed one (query) wins; only the header populated: the header; none: body fallback *)
Example C17_example_first_wins :
  model_j2t (ex_o false false false false false) Spec ex_rq [ex_f] (Some (JObj [])) = HOk [(1, VI32 42)] /\
  model_j2t (ex_o false false false false false) Spec (mkReq [] [] [([104], [55])] [] [] [] [] []) [ex_f] (Some (JObj [])) = HOk [(1, VI32 7)] /\
  model_j2t (ex_o false false false true false) Spec (mkReq [] [] [] [] [] [] [] []) [ex_f] (Some (JObj [([97], JNum [53])])) = HOk [(1, VI32 5)] /\
  model_j2t (ex_o false false false false false) Spec (mkReq [] [] [] [] [] [] [] []) [ex_f] (Some (JObj [([97], JNum [53])])) = HOk [] /\
  model_j2t (ex_o false true false false false) Spec (mkReq [] [] [] [] [] [] [] []) [ex_f] None = HOk [(1, VI32 0)].
Proof. vm_compute. repeat split; reflexivity. Qed.

(* the hypotheses of the theorems are satisfiable on this request *)
Example C17_example_hyps :
  first_source (f_anns ex_f) false ex_rq = Some (O, SText [52; 50]) /\
  agree_upto 0 (f_anns ex_f) false ex_rq (mkReq [([113], [52; 50])] [] [([104], [57; 57])] [] [] [] [] []) /\
  (forall a, In a (f_anns ex_f) -> source_value a false (mkReq [] [] [] [] [] [] [] []) = None).
Proof.
  split; [reflexivity|]. split.
  - intros j a Hj Hn. destruct j; [|lia]. simpl in Hn. inversion Hn; subst. reflexivity.
  - intros a [H|[H|[]]]; subst; reflexivity.
Qed.

(* finding 1711 / 1712: the quirk flavours differ from the documented behaviour *)
Example C17_traceback_quirks_refuted :
  (* root field b missing from the body, TracebackRequredOrRootFields on, ReadHttpValueFallback off, query b=9 *)
  let rq := mkReq [([98], [57])] [] [] [] [] [] [] [] in
  model_j2t (ex_o false false false false true) Spec rq [ex_g] (Some (JObj [])) = HOk [(2, VI32 9)] /\
  model_j2t (ex_o false false false false true) NativeQuirk rq [ex_g] (Some (JObj [])) = HErr E_MISS /\
  (* the same field one level down: the portable converter reports it missing *)
  let nested := FD 5 [110] R_DEFAULT [] (TStruct [ex_g]) in
  model_j2t (ex_o false false false true true) Spec rq [nested] (Some (JObj [([110], JObj [])])) = HOk [(5, VStruct [(2, VI32 9)])] /\
  model_j2t (ex_o false false false true true) PortableQuirk rq [nested] (Some (JObj [([110], JObj [])])) = HErr E_MISS.
Proof. vm_compute. repeat split; reflexivity. Qed.

(* finding 1714: consulting api.body last changes the result when it is listed first *)
Example C17_body_last_refuted :
  let f := FD 1 [97] R_DEFAULT [Ann K_BODY [97]; Ann K_QUERY [97]] (TBase T_I32 false) in
  let rq := mkReq [([97], [49])] [] [] [] [] [([97], [50])] [] [] in
  model_j2t (ex_o false false false false false) Spec rq [f] (Some (JObj [])) = HOk [(1, VI32 2)] /\
  model_j2t (ex_o false false false false false) Spec rq (reorder_fields 8 [f]) (Some (JObj [])) = HOk [(1, VI32 1)].
Proof. vm_compute. split; reflexivity. Qed.

(* response: header first -> delivered; request-only kind first without OmitHttpMappingErrors -> error; with it and fallback -> body *)
Example C17_example_response :
  let o whf omit := mkOpts false false false false false false whf omit false in
  let f anns := FD 1 [97] R_DEFAULT anns (TBase T_I32 false) in
  resp_field (o false false) (f [Ann K_HEADER [104]; Ann K_COOKIE [99]]) [55] = RODelivered K_HEADER [104] [55] /\
  resp_field (o false false) (f [Ann K_QUERY [113]; Ann K_HEADER [104]]) [55] = ROError /\
  resp_field (o false true) (f [Ann K_QUERY [113]; Ann K_HEADER [104]]) [55] = RODelivered K_HEADER [104] [55] /\
  resp_field (o true true) (f [Ann K_QUERY [113]]) [55] = ROBody /\
  resp_field (o false true) (f [Ann K_QUERY [113]]) [55] = RODropped /\
  resp_field (o false false) (f [Ann K_HTTP_CODE []]) [50; 48; 48] = RODelivered K_HTTP_CODE [] [50; 48; 48].
Proof. vm_compute. repeat split; reflexivity. Qed.

(* ================================================================== (G) the flag word of the native converter *)
(* conv/j2t toFlags from the Go source (gen/Gen_j2tflags.v): the options of the model that travel to the native code in the flag word
   (write options, ReadHttpValueFallback or TracebackRequredOrRootFields = F_TRACE_BACK (repair of finding 1711), NoBase64Binary) arrive as the model's option record, with F_HTTP_MAPPING set *)
From DG Require Import NativeFlags Gen_j2tflags GenJ2tflagsProofs.
Theorem C17_toFlags_denotes_hopts :
  forall h : hopts,
  flag_on (toFlags (opts_of_hopts h)) NF_HTTP_MAPPING = true /\
  flag_on (toFlags (opts_of_hopts h)) NF_ALLOW_UNKNOWN = true /\
  flag_on (toFlags (opts_of_hopts h)) NF_WRITE_REQUIRE = o_wr h /\
  flag_on (toFlags (opts_of_hopts h)) NF_WRITE_DEFAULT = o_wd h /\
  flag_on (toFlags (opts_of_hopts h)) NF_WRITE_OPTIONAL = o_wo h /\
  flag_on (toFlags (opts_of_hopts h)) NF_TRACE_BACK = (o_rhf h || o_tb h) /\
  flag_on (toFlags (opts_of_hopts h)) NF_NO_BASE64 = o_nob64 h /\
  flag_on (toFlags (opts_of_hopts h)) NF_VALUE_MAPPING = false /\ flag_on (toFlags (opts_of_hopts h)) NF_STRING_INT = false.
Proof. exact toFlags_hopts. Qed.
Print Assumptions C17_toFlags_denotes_hopts.

(* ================================================================== the code AS CODED refines the decision table *)
(* model/HttpMapCoded.v transcribes the Go functions (and the two C loops of the native converter) with their variables, loops and
   mutable state; proofs/HttpMapCodedProofs.v.  Every statement holds for ANY converters and ANY descriptor, hence for the annotation
   order of today's mapAnnotations (api.body last, finding 1714) and for the listed order alike (C17_coded_refines_table_1714).
   Check 1704 runs the transcription on every 1701 case against both converters, 1705 its response side against the final http.Response. *)
From DG Require Import HttpMapCoded HttpMapCodedProofs.
From Coq Require Import Permutation.

Theorem C17_coded_refines_table :
  forall (o : hopts) (rq : request) (conv_text : tdesc -> list Z -> option tval) (conv_json : tdesc -> json -> option tval)
         (rec_member rec_doc : list fdesc -> json -> fres) (n : nat),
  (* 1. the mapping loop (ok / val / httpEnc per field, break on the first nil error, abort on ErrConvert) chooses the table's first_source *)
  (forall f hms k, source_loop (hm_Request rq conv_text n) f hms false (SText_ []) ENC_JSON =
                   loop_of_source rq conv_text n f (first_source_from k hms (is_struct (f_ty f)) rq)) /\
  (* 2. api.no_body_struct: the nested loop (ok / val fresh per nested field) builds the table's nbs_fields *)
  (forall gs, nbs_request rq conv_text (S n) gs =
              match nbs_fields rq conv_text gs with Some l => ROk_ (SThrift (VStruct l)) | None => RErr_ E_Convert end) /\
  (* 3. one iteration of handleHttpMappings = the table's decision (value written / skipped / error, requires bit), the loop = their fold *)
  (forall nobody f bm buf, hhm_field o rq conv_text conv_json rec_doc (S n) nobody f bm buf =
                           apply_step (f_id f) (hhm_step o rq conv_text conv_json rec_doc nobody f) bm buf) /\
  (forall nobody fs bm buf, handleHttpMappings o rq conv_text conv_json rec_doc (S n) nobody fs bm buf =
                            fold_steps o rq conv_text conv_json rec_doc nobody (HttpMappingFields fs) bm buf) /\
  (* 4. ... and what it writes is the table's field_result; the field stays owed exactly under "fall back to the body" *)
  (forall root ms f, f_anns f <> [] -> map_field o false f rq <> DFallbackToBody ->
     match fst (hhm_step o rq conv_text conv_json rec_doc false f) with Some r => r | None => FAbsent end =
     field_result o Spec rq conv_text conv_json rec_doc root false ms f) /\
  (* 5. a body member: skipped iff http-mapped and not owed, else converted and the bit cleared *)
  (forall fs k j rest bm buf ft, FieldByKey fs k = Some ft ->
     members_loop conv_json rec_member fs ((k, j) :: rest) bm buf =
     if nonempty (f_anns ft) && negb (bm (f_id ft)) then members_loop conv_json rec_member fs rest bm buf
     else match to_wres (f_id ft) (conv_value conv_json rec_member (f_ty ft) j) with
          | WOk w => members_loop conv_json rec_member fs rest (bm_set bm (f_id ft) false) (buf ++ w)
          | WErr c => HFail c
          end) /\
  (* 6. owed fields at the closing brace: portable callback, native field cache + hand-back, empty-body callback = the table's rules *)
  (forall root f, valid_req f ->
     HandleRequires_field (o_wr o || o_tb o) (o_wd o || (o_tb o && root)) (o_wo o || (o_tb o && root))
       (fun f => let '(val, enc) := if o_tb o && (root || (f_req f =? R_REQUIRED)) then tryGetValueFromHttp rq (f_name f) else ([], ENC_JSON) in
                 writeStringValue o conv_text conv_json rec_doc f (SText_ val) enc) f =
     to_wres (f_id f) (unset_rule o Spec rq conv_text conv_json rec_doc root f)) /\
  (forall docroot top f, valid_req f ->
     native_unset o rq conv_text conv_json rec_doc docroot top f =
     to_wres (f_id f) (unset_rule o Spec rq conv_text conv_json rec_doc (docroot && top) f)) /\
  (forall f, valid_req f -> f_req f <> R_OPTIONAL ->
     HandleRequires_field (o_rhf o) (o_rhf o) (o_rhf o)
       (fun f => let '(val, enc) := tryGetValueFromHttp rq (f_name f) in writeStringValue o conv_text conv_json rec_doc f (SText_ val) enc) f =
     to_wres (f_id f) (nobody_unset_rule o rq conv_text conv_json rec_doc f)) /\
  (* 7. every hand-back serves exactly the cached ids and leaves fsm.FieldCache empty *)
  (forall top fs cache buf, snd (handleUnmatchedFields o rq conv_text conv_json rec_doc top fs cache buf) = []).
Proof.
  intros o rq ct cj rm rd n.
  split; [intros; apply source_loop_spec|].
  split; [intros; apply nbs_request_spec|].
  split; [intros; apply hhm_field_spec|].
  split; [intros; apply handleHttpMappings_spec|].
  split; [intros; apply hhm_step_result; assumption|].
  split; [intros; apply members_step; assumption|].
  split; [intros; apply portable_unset_spec; assumption|].
  split; [intros; apply native_unset_spec; assumption|].
  split; [intros; apply nobody_unset_spec; assumption|].
  intros; apply handleUnmatchedFields_resets_cache.
Qed.
Print Assumptions C17_coded_refines_table.

(* response side: first target wins, body omission iff the table says so, cookie setter semantics *)
Theorem C17_coded_response_refines_table :
  forall o f r text,
  t2j_field o f r text =
    match resp_field o f text with
    | RODelivered k key v => TJ false (deliver k key v r)
    | ROSwallowed | RODropped => TJ false r
    | ROBody => TJ true r
    | ROError => TJErr
    end /\
  (forall in_body r', t2j_field o f r text = TJ in_body r' ->
     in_body = in_json_body (resp_field o f text) /\ exists l, rs_cookies r' = rs_cookies r ++ l) /\
  (forall k key v, rs_cookies (deliver k key v r) = if k =? K_COOKIE then rs_cookies r ++ [(key, v)] else rs_cookies r).
Proof.
  intros o f r text. split; [apply t2j_field_spec|]. split.
  - intros ib r' H. split; [|eapply t2j_field_keeps_cookies; exact H].
    rewrite t2j_field_spec in H. destruct (resp_field o f text); inversion H; reflexivity.
  - intros. apply deliver_cookies.
Qed.
Print Assumptions C17_coded_response_refines_table.

(* both annotation orders: the transcription on the descriptor mapAnnotations produces = the table on that descriptor *)
Definition with_order (repaired : bool) (f : fdesc) : fdesc := FD (f_id f) (f_name f) (f_req f) (map_annotations repaired (f_anns f)) (f_ty f).
Theorem C17_coded_refines_table_1714 :
  forall repaired o rq conv_text conv_json rec_doc n nobody f bm buf,
  hhm_field o rq conv_text conv_json rec_doc (S n) nobody (with_order repaired f) bm buf =
  apply_step (f_id f) (hhm_step o rq conv_text conv_json rec_doc nobody (with_order repaired f)) bm buf /\
  map_annotations true (f_anns f) = f_anns f /\
  map_annotations false (f_anns f) = body_last (f_anns f).
Proof.
  intros. split; [|split; reflexivity].
  change (f_id f) with (f_id (with_order repaired f)). apply hhm_field_spec.
Qed.
Print Assumptions C17_coded_refines_table_1714.

(* PARTIAL: the composition of the three phases of one struct (mappings, members, owed fields) into the table's struct_result is
   not proved; this is its full statement (fields and member keys distinct; same set of (id, value) pairs, or both an error).
   It is tied by check 1704 on every case of every run instead. *)
Definition same_fields (a b : hres) : Prop :=
  match a, b with HOk l1, HOk l2 => Permutation l1 l2 | HErr _, HErr _ => True | _, _ => False end.
Definition C17_coded_struct_refines_table_statement : Prop :=
  forall o rq conv_text conv_json rec n root docroot top fs ms,
  NoDup (map f_id fs) -> NoDup (map f_name fs) -> NoDup (map fst ms) -> Forall valid_req fs ->
  same_fields (wres_to_hres (portable_struct o rq conv_text conv_json rec rec (S n) root fs ms))
              (struct_result o Spec rq conv_text conv_json rec root false fs ms) /\
  same_fields (wres_to_hres (fst (native_struct o rq conv_text conv_json rec rec (S n) docroot top fs ms [])))
              (struct_result o Spec rq conv_text conv_json rec (docroot && top) false fs ms).

(* the transcription computes: a request whose first listed source (query) is empty and whose second (header) has a value;
   api.body listed first but consulted last by today's mapAnnotations; a nested no_body_struct whose second field has no value *)
Example C17_example_coded :
  let o := ex_o false true false false false in
  coded_j2t o (mkReq [] [] [([104], [55])] [] [] [] [] []) (text_conv o) (json_conv_c02 o) true 8 [ex_f] (Some (JObj [])) = HOk [(1, VI32 7)] /\
  coded_j2t o (mkReq [] [] [([104], [55])] [] [] [] [] []) (text_conv o) (json_conv_c02 o) false 8 [ex_f] (Some (JObj [])) = HOk [(1, VI32 7)] /\
  (let f := FD 1 [97] R_DEFAULT [Ann K_BODY [97]; Ann K_QUERY [97]] (TBase T_I32 false) in
   let rq := mkReq [([97], [49])] [] [] [] [] [([97], [50])] [] [] in
   coded_j2t o rq (text_conv o) (json_conv_c02 o) true 8 [f] (Some (JObj [])) = HOk [(1, VI32 2)] /\
   coded_j2t o rq (text_conv o) (json_conv_c02 o) true 8 (reorder_fields 8 [f]) (Some (JObj [])) = HOk [(1, VI32 1)]) /\
  (let inner := [FD 1 [110; 49] R_DEFAULT [Ann K_QUERY [113]] (TBase T_I32 false); FD 2 [110; 50] R_DEFAULT [Ann K_HEADER [122]] (TBase T_I32 false)] in
   let f := FD 5 [110] R_DEFAULT [Ann K_NO_BODY_STRUCT [110]] (TStruct inner) in
   coded_j2t o ex_rq (text_conv o) (json_conv_c02 o) true 8 [f] None = HOk [(5, VStruct [(1, VI32 42); (2, VI32 0)])]).
Proof. vm_compute. repeat split; reflexivity. Qed.
