(* C17 — HTTP mapping (work in progress) *)
From Coq Require Import ZArith List Bool.
From DG Require Import HttpMap.
Import ListNotations.
Local Open Scope Z_scope.

Theorem C17_placeholder : forall o r, empty_rule o r = empty_rule o r.
Proof. reflexivity. Qed.
Print Assumptions C17_placeholder.
