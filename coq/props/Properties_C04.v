(* C04 — Thrift in-place edits change exactly the addressed element.
   Statements only; proofs are in proofs/ThriftEditProofs.v.  The edit model (model/ThriftEdit.v: ast_set,
   ast_unset, ast_step) is what Check04 replays every history on; the implementation's bytes after each step
   must equal [encode] of the model state, so the theorems below are facts about every state the check accepts.
   Definitions used in the statements (proofs/ThriftEditProofs.v):
     child_replaced s c c' v v'   v' = v with the child c addressed by step s replaced by c' (same slot)
     child_inserted front s x v v' v' = v with ONE new child x added: children' = ins front x children
     child_removed s v v'          v' = v without the first child addressed by s
     disjoint p q                  p and q diverge at a position where the steps certainly address different children
     lsub r                        the lookup result r without its byte offset
     set_compat / ins_ok           API contract of an insertion (declared element type, int16 id, well-formed key, count < 2^31) *)
From Coq Require Import ZArith List Bool Lia.
From DG Require Import ProtoWireRef CaseFormat ThriftWire ThriftWireProofs ThriftGeneric ThriftGenericProofs ThriftEdit ThriftEditProofs.
Import ListNotations.
Local Open Scope Z_scope.

Theorem C04_results_decodable :
  forall v, wf v = true -> forall d r, (depth v <= d)%nat -> decode d (type_of v) (encode v ++ r) = Some (v, r).
Proof. exact decode_encode. Qed.
Print Assumptions C04_results_decodable.

(* the result of a set is a well-formed value (hence, by C04_results_decodable, its bytes decode to it) *)
Theorem C04_ast_set_wf : forall front p x v v' ex,
  wf v = true -> wf x = true -> set_compat p x v = true -> ast_set front p x v = Some (v', ex) -> wf v' = true.
Proof. exact ast_set_wf. Qed.
Print Assumptions C04_ast_set_wf.

Theorem C04_ast_set_keeps_type : forall front p x v v' ex, ast_set front p x v = Some (v', ex) -> type_of v' = type_of v.
Proof. exact ast_set_type. Qed.
Print Assumptions C04_ast_set_keeps_type.

(* 'existed' = the path addressed an element *)
Theorem C04_ast_set_existed : forall front p x v v' ex, ast_set front p x v = Some (v', ex) ->
  (ex = true <-> exists sub off, lookup v 0 p = LFound sub off).
Proof. exact ast_set_existed. Qed.
Print Assumptions C04_ast_set_existed.

(* an existing element is replaced: the path now finds x ... *)
Theorem C04_ast_set_replaces : forall front p x v v', ast_set front p x v = Some (v', true) ->
  exists off, lookup v' 0 p = LFound x off.
Proof. exact ast_set_get. Qed.
Print Assumptions C04_ast_set_replaces.

(* ... and nothing a disjoint path can see has changed (same sub-value, or same not-found, or same error) *)
Theorem C04_ast_set_frame : forall front p q x v v', ast_set front p x v = Some (v', true) -> disjoint p q ->
  lsub (lookup v' 0 q) = lsub (lookup v 0 q).
Proof. exact ast_set_frame. Qed.
Print Assumptions C04_ast_set_frame.

(* a missing element is inserted into exactly the addressed container c (reached by the path minus its last
   step): c becomes c' whose children are [ins front new (children c)] (count + 1, old ones in order), and
   the whole result is "v with c replaced by c'" — to which the frame theorem above applies *)
Theorem C04_ast_set_insert : forall front p x v v', ast_set front p x v = Some (v', false) ->
  exists pre s c c' off, p = pre ++ [s] /\ lookup v 0 pre = LFound c off /\ lookup1 c s = LNotFound /\
                     child_inserted front s x c c' /\ nchildren c' = nchildren c + 1 /\
                     ast_set front pre c' v = Some (v', true).
Proof. exact ast_set_insert. Qed.
Print Assumptions C04_ast_set_insert.

Theorem C04_ins_keeps_order : forall (A : Type) front (a : A) l, ins front a l = a :: l \/ ins front a l = l ++ [a].
Proof. exact @ins_cases. Qed.
Print Assumptions C04_ins_keeps_order.

(* unset *)
Theorem C04_ast_unset_wf : forall p v v' r, wf v = true -> ast_unset p v = DOk v' r -> wf v' = true.
Proof. exact ast_unset_wf. Qed.
Print Assumptions C04_ast_unset_wf.

Theorem C04_ast_unset_absent_id : forall p v v', ast_unset p v = DOk v' false -> v' = v.
Proof. exact ast_unset_absent_id. Qed.
Print Assumptions C04_ast_unset_absent_id.

Theorem C04_ast_unset_false_means_absent : forall p v v', ast_unset p v = DOk v' false ->
  exists pre s post, p = pre ++ s :: post /\
    ((post <> [] /\ exists c, vlookup v pre = LFound c 0 /\ vlookup1 c s = LNotFound)
     \/ (post = [] /\ exists c, vlookup v pre = LFound c 0 /\ child_absent s c)).
Proof. exact ast_unset_false_absent. Qed.
Print Assumptions C04_ast_unset_false_means_absent.

Theorem C04_ast_unset_removes_one : forall front p v v', ast_unset p v = DOk v' true ->
  exists pre s c c' off, p = pre ++ [s] /\ lookup v 0 pre = LFound c off /\ child_removed s c c' /\
                         nchildren c = nchildren c' + 1 /\ ast_set front pre c' v = Some (v', true).
Proof. exact ast_unset_removes_one. Qed.
Print Assumptions C04_ast_unset_removes_one.

(* histories: every intermediate state is well-formed and round-trips through encode / decode *)
Theorem C04_history_wf : forall front ops v, wf v = true -> history_ok front v ops = true ->
  Forall (fun s => wf s = true) (ast_states front v ops) /\ wf (fold_left (ast_step front) ops v) = true.
Proof. exact history_wf. Qed.
Print Assumptions C04_history_wf.

Theorem C04_history_roundtrip : forall front ops v, wf v = true -> history_ok front v ops = true ->
  Forall (fun s => forall r, decode (depth s) (type_of s) (encode s ++ r) = Some (s, r)) (ast_states front v ops).
Proof. exact history_roundtrip. Qed.
Print Assumptions C04_history_roundtrip.

Theorem C04_failed_op_unchanged : forall front v o,
  match o with OSet p x => ast_set front p x v = None | OUnset p => ast_unset p v = DErr end -> ast_step front v o = v.
Proof. exact failed_op_unchanged. Qed.
Print Assumptions C04_failed_op_unchanged.

(* ---- non-vacuity: histories with repeated edits of one element, first / last position, empty containers ---- *)
Definition ex4_v : tval :=
  VStruct [ (2, VList T_I32 [VI32 1; VI32 2; VI32 3]);
            (1, VMap T_STRING T_I64 []);
            (3, VStruct [ (1, VString [97]) ]) ].
Definition ex4_ops : list eop :=
  [ OSet [PField 2; PIndex 0] (VI32 10);                    (* replace first *)
    OSet [PField 2; PIndex 0] (VI32 11);                    (* same element again *)
    OSet [PField 2; PIndex 2] (VI32 12);                    (* replace last *)
    OSet [PField 2; PIndex 3] (VI32 13);                    (* one past the end: insert *)
    OSet [PField 1; PStrKey [107]] (VI64 7);                (* insert into an empty map *)
    OSet [PField 3; PField 9] (VByte 1);                    (* missing field of a nested struct *)
    OUnset [PField 1; PStrKey [120]];                       (* absent key: no change *)
    OUnset [PField 1; PStrKey [107]];                       (* back to the empty map *)
    OUnset [PField 2; PIndex 0];
    OSet [PField 7; PField 1] (VI32 0);                     (* absent-inner: error, unchanged *)
    OSet [PField 2; PStrKey [1]] (VI32 0) ].                (* wrong kind: error, unchanged *)

Example ex4_wf : wf ex4_v = true. Proof. vm_compute. reflexivity. Qed.
Example ex4_history_ok : history_ok true ex4_v ex4_ops = true. Proof. vm_compute. reflexivity. Qed.
Example ex4_final : fold_left (ast_step true) ex4_ops ex4_v =
  VStruct [ (2, VList T_I32 [VI32 11; VI32 2; VI32 12]);
            (1, VMap T_STRING T_I64 []);
            (3, VStruct [ (9, VByte 1); (1, VString [97]) ]) ].
Proof. vm_compute. reflexivity. Qed.
Example ex4_existed : ast_set true [PField 2; PIndex 1] (VI32 5) ex4_v =
  Some (VStruct [ (2, VList T_I32 [VI32 1; VI32 5; VI32 3]); (1, VMap T_STRING T_I64 []); (3, VStruct [ (1, VString [97]) ]) ], true).
Proof. vm_compute. reflexivity. Qed.
Example ex4_disjoint : disjoint [PField 2; PIndex 1] [PField 2; PIndex 2] /\ disjoint [PField 2; PIndex 1] [PField 3; PField 1].
Proof. cbn. split; [right; split; [reflexivity|left; lia]|left; lia]. Qed.
Example ex4_compat_rejects_wrong_type : set_compat [PField 2; PIndex 3] (VI64 0) ex4_v = false. Proof. vm_compute. reflexivity. Qed.

(* ======================================================================================================
   ALGORITHM level (model/ThriftEditBytes.v, proofs/ThriftEditBytesProofs.v): SetByPath / UnsetByPath as
   thrift/generic/node.go performs them on BYTES — walk with the search functions of GetByPath, three-slice
   splice (Node.replace), field header / key bytes of Path.ToRaw, the container's 4-byte count patched in place
   (setNotFound: +1, deleteChild: -1) — refine the AST-level edits above, for all values, paths, sub-values.
   Domain predicates (computable, model/ThriftEditBytes.v):
     set_dom p v     a raw (binary) map key that gets INSERTED is a byte string (all elements in 0..255) that the proved decoder
                     accepts completely as a key of the map's key type (then it IS the encoding of that key: C04_decode_canonical)
     unset_dom fx p v  p is not empty; a raw key decodes as a key (as above); and for fx = false only (deleteChild BEFORE repair 384585a of
                     finding 408, which compared Path.ToRaw's bytes whatever the step's kind): a last step on a map is of the map's key kind.
                     The theorems hold for both versions of deleteChild (fx); the implementation is fx = true
     op_dom / history_dom   depth <= 1023 (SkipGo's limit) before every op, non-empty paths, the two above, and the
                     API contract of insertions (set_compat) that keeps the states well-formed
   ====================================================================================================== *)
From DG Require Import ThriftCanonProofs ThriftEditBytes ThriftEditBytesProofs.

(* the proved decoder accepts only canonical encodings: what it accepts is the encoding of the value it returns (so a raw key
   that decodes is the encoding of the key it denotes, and implementation bytes that decode are the encoding of the model state) *)
Theorem C04_decode_canonical : forall d t bs v r, bytes_ok bs -> decode d t bs = Some (v, r) ->
  bs = encode v ++ r /\ type_of v = t.
Proof. exact decode_canonical. Qed.
Print Assumptions C04_decode_canonical.

(* the walk of SetByPath finds what the AST lookup finds: same type and span, insertion address of an absent last step *)
Theorem C04_walk_refines : forall p v r off, wf v = true -> (depth v <= max_skip_depth)%nat ->
  walk (type_of v) (encode v ++ r) off p = wlookup v off p.
Proof. intros p v r off Hw Hd. apply walk_refines. split; assumption. Qed.
Print Assumptions C04_walk_refines.

(* SetByPath on the encoding = encoding of ast_set (front insertion, as the code does): same bytes, same 'exist' flag;
   error exactly when the spec fails (absent inner step, wrong kind, wrong type of the existing element) *)
Theorem C04_set_refines : forall p x v,
  wf v = true -> (depth v <= max_skip_depth)%nat -> p <> [] -> set_dom p v = true ->
  set_by_path (type_of v) (encode v) p (encode x) (type_of x) =
  match ast_set true p x v with Some (v', ex) => Some (encode v', ex) | None => None end.
Proof. exact set_refines. Qed.
Print Assumptions C04_set_refines.

(* UnsetByPath on the encoding: a removal yields the encoding of ast_unset's result; "nothing removed" is nil or the
   not-found error; a spec error is an error or nil — and in these cases the buffer is returned as it was *)
Theorem C04_unset_refines : forall fx p v,
  wf v = true -> (depth v <= max_skip_depth)%nat -> unset_dom fx p v = true ->
  match ast_unset p v with
  | DOk v' true => unset_by_path fx (type_of v) (encode v) p = UbOk (encode v')
  | DOk v' false => unset_by_path fx (type_of v) (encode v) p = UbOk (encode v) \/ unset_by_path fx (type_of v) (encode v) p = UbNotFound
  | DErr => unset_by_path fx (type_of v) (encode v) p = UbErr (encode v) \/ unset_by_path fx (type_of v) (encode v) p = UbOk (encode v)
  end.
Proof. exact unset_refines. Qed.
Print Assumptions C04_unset_refines.

(* deleteChild alone: the victim's span (field header / key included) and the count patch, in any surrounding buffer *)
Theorem C04_delete_child_refines : forall fx s c, wf c = true -> (depth c <= max_skip_depth)%nat -> unset_last_ok fx s c = true ->
  match remove_at s c with
  | DOk c' true => exists patch s0 e0, delete_child fx (type_of c) (encode c) s = DcFound patch s0 e0 /\
        forall A B, replace (apply_patch (A ++ encode c ++ B) (zlen A) patch) (zlen A + s0) (zlen A + e0) [] = A ++ encode c' ++ B
  | DOk _ false => delete_child fx (type_of c) (encode c) s = DcNotFound
  | DErr => delete_child fx (type_of c) (encode c) s = DcErr None \/ delete_child fx (type_of c) (encode c) s = DcNone
  end.
Proof. intros fx s c Hw Hd. apply delete_child_spec. split; assumption. Qed.
Print Assumptions C04_delete_child_refines.

(* one step and whole histories: every intermediate BUFFER is the encoding of the model state *)
Theorem C04_bytes_step_refines : forall fx v o, wf v = true -> op_dom fx v o = true ->
  bytes_step fx (type_of v, encode v) o = (type_of (ast_step true v o), encode (ast_step true v o)).
Proof. exact bytes_step_refines. Qed.
Print Assumptions C04_bytes_step_refines.

Theorem C04_history_refines : forall fx ops v, wf v = true -> history_ok true v ops = true -> history_dom fx v ops = true ->
  bytes_states fx (type_of v, encode v) ops = map (fun s => (type_of s, encode s)) (ast_states true v ops) /\
  fold_left (bytes_step fx) ops (type_of v, encode v) =
    (type_of (fold_left (ast_step true) ops v), encode (fold_left (ast_step true) ops v)).
Proof. exact history_refines. Qed.
Print Assumptions C04_history_refines.

Theorem C04_failed_op_bytes_unchanged : forall fx v, wf v = true -> (depth v <= max_skip_depth)%nat ->
  (forall p x, p <> [] -> set_dom p v = true ->
     (set_by_path (type_of v) (encode v) p (encode x) (type_of x) = None <-> ast_set true p x v = None)) /\
  (forall p, unset_dom fx p v = true ->
     (forall b, unset_by_path fx (type_of v) (encode v) p = UbErr b -> b = encode v /\ ast_unset p v = DErr) /\
     (unset_by_path fx (type_of v) (encode v) p = UbNotFound -> ast_unset p v = DOk v false)) /\
  (forall o, op_dom fx v o = true ->
     match o with OSet p x => ast_set true p x v = None | OUnset p => ast_unset p v = DErr end ->
     bytes_step fx (type_of v, encode v) o = (type_of v, encode v)).
Proof. exact failed_op_bytes_unchanged. Qed.
Print Assumptions C04_failed_op_bytes_unchanged.

(* ---- non-vacuity at byte level ---- *)
Example ex4_history_dom : history_dom true ex4_v ex4_ops = true /\ history_dom false ex4_v ex4_ops = true. Proof. vm_compute. split; reflexivity. Qed.
Example ex4_bytes_final : fold_left (bytes_step true) ex4_ops (type_of ex4_v, encode ex4_v) =
  (T_STRUCT, encode (fold_left (ast_step true) ex4_ops ex4_v)).
Proof. vm_compute. reflexivity. Qed.
(* integer keys of every width (I08 above 127 and negative), a raw key, count carry 255 -> 256 and back *)
Definition ex4b_v : tval :=
  VStruct [ (1, VMap T_BYTE T_BOOL [(VByte (-56), VBool 1)]);
            (2, VMap T_I64 T_STRING [(VI64 (-1), VString [])]);
            (3, VList T_BYTE (repeat (VByte 7) 255));
            (4, VMap T_STRING (T_LIST) []) ].
Definition ex4b_ops : list eop :=
  [ OSet [PField 1; PIntKey 200] (VBool 0);                 (* existing I08 key, read through an unsigned byte *)
    OSet [PField 1; PIntKey 5] (VBool 1);                   (* inserted I08 key *)
    OSet [PField 2; PIntKey (-2)] (VString [1; 2]);         (* negative I64 key *)
    OSet [PField 2; PBinKey [0; 0; 0; 0; 0; 0; 0; 9]] (VString [3]);   (* raw key *)
    OSet [PField 3; PIndex 255] (VByte 8);                  (* count 255 -> 256 *)
    OUnset [PField 3; PIndex 17];                           (* count 256 -> 255, fixed-size elements *)
    OSet [PField 4; PStrKey [107]] (VList T_I16 [VI16 1]);
    OSet [PField 4; PStrKey [107]; PIndex 1] (VI16 2);      (* insertion two containers down *)
    OUnset [PField 4; PStrKey [107]; PIndex 0];
    OUnset [PField 2; PBinKey [255; 255; 255; 255; 255; 255; 255; 255]];
    OUnset [PField 1; PIntKey 200] ].
Example ex4b_ok : wf ex4b_v = true /\ history_ok true ex4b_v ex4b_ops = true /\ history_dom true ex4b_v ex4b_ops = true.
Proof. vm_compute. repeat split. Qed.
Example ex4b_bytes_final : fold_left (bytes_step true) ex4b_ops (type_of ex4b_v, encode ex4b_v) =
  (T_STRUCT, encode (fold_left (ast_step true) ex4b_ops ex4b_v)).
Proof. vm_compute. reflexivity. Qed.
Example ex4b_final_value : fold_left (ast_step true) ex4b_ops ex4b_v =
  VStruct [ (1, VMap T_BYTE T_BOOL [(VByte 5, VBool 1)]);
            (2, VMap T_I64 T_STRING [(VI64 9, VString [3]); (VI64 (-2), VString [1; 2])]);
            (3, VList T_BYTE (VByte 8 :: repeat (VByte 7) 254));
            (4, VMap T_STRING T_LIST [(VString [107], VList T_I16 [VI16 1])]) ].
Proof. vm_compute. reflexivity. Qed.
(* finding 408 as a refutation of deleteChild BEFORE the repair: a string key step on a map<i32,_> is outside the old domain,
   inside the new one; the old code removes the entry whose key bytes equal the string's raw bytes, the repaired code reports
   an error and returns the buffer as it was, which is what the spec says (the path addresses nothing) *)
Definition ex408_v : tval := VStruct [ (1, VMap T_I32 T_BYTE [(VI32 0, VByte 7); (VI32 5, VByte 9)]) ].
Example ex408_domains : unset_dom false [PField 1; PStrKey []] ex408_v = false /\ unset_dom true [PField 1; PStrKey []] ex408_v = true.
Proof. vm_compute. split; reflexivity. Qed.
Example ex408_spec : ast_unset [PField 1; PStrKey []] ex408_v = DErr. Proof. vm_compute. reflexivity. Qed.
Example ex408_as_coded_refuted : unset_by_path false T_STRUCT (encode ex408_v) [PField 1; PStrKey []] =
  UbOk (encode (VStruct [ (1, VMap T_I32 T_BYTE [(VI32 5, VByte 9)]) ])).
Proof. vm_compute. reflexivity. Qed.
Example ex408_repaired : unset_by_path true T_STRUCT (encode ex408_v) [PField 1; PStrKey []] = UbErr (encode ex408_v).
Proof. vm_compute. reflexivity. Qed.

(* ======================================================================================================
   Node.SetMany at ALGORITHM level (model/ThriftEditMany.v, proofs/ThriftEditManyProofs.v).
   set_many_bytes transcribes SetMany on the BYTES of the container node: getMany (one node or "empty" per request), the
   pass over the requests in request order that turns every empty node into an insertion point at the front of the
   container (setNotFound: field header / key bytes in front of the new node, count + 1 IN PLACE each time), the sort of
   the PathNodes by (address, length) (pnSlice.Less; stable), replaceMany's single pass (gap copy, new bytes, tail copy).
   (Value.SetMany is commented out in value.go: there is no typed variant.)
   set_many_spec v items is the effect on the AST, and None outside the domain:
     * order: the requests that find an element are REPLACEMENTS, applied by ast_set from the highest address down (any
       order gives the same value: they address distinct children); the others are INSERTIONS, which end up at the FRONT of
       the container in REQUEST order (= ins_front / ast_set of an absent step, folded over them from the last to the first);
     * duplicates: two requests for one EXISTING child give overlapping spans (the sorted spans must chain: chain_okb) —
       outside the domain; in the code a negative gap length is handed to rt.BytesFrom (the model's MUndef, Example
       exm_dup_undef).  Two requests for the same ABSENT child are both inserted by the code (the container gets a duplicate
       key) and by the spec alike: ins_front does not look the key up;
     * domain: requests of the container's family (field ids for a struct, non-negative indexes, keys of the map's kind);
       every intermediate value within SkipGo's depth and well-formed (API contract of insertions, ins_ok; raw keys decode
       as keys); a replaced element has the new node's type (SetMany does NOT check it — replaceMany splices whatever it
       gets); the children of the container have distinct ids / keys (getMany's single scan = first match per request).
   An error of SetMany (request family does not fit the node) comes before anything is written.
   ====================================================================================================== *)
From DG Require Import ThriftEditMany ThriftEditManyProofs.

Theorem C04_replace_many_is_splices : forall bs ps, chain_ok 0 (zlen bs) ps ->
  replace_many_loop bs (zlen bs) ps 0 [] = Some (fold_right splice bs ps).
Proof. exact replace_many_is_splices. Qed.
Print Assumptions C04_replace_many_is_splices.

Theorem C04_set_many_refines : forall v items v2,
  wf v = true -> (depth v <= max_skip_depth)%nat -> set_many_spec v items = Some v2 ->
  set_many_bytes (type_of v) (encode v) (map enc_req items) = MOk (encode v2).
Proof. exact set_many_refines. Qed.
Print Assumptions C04_set_many_refines.

Theorem C04_set_many_insertion_is_ast_set : forall s x v v', lookup1 v s = LNotFound -> ins_front s x v = Some v' ->
  ast_set true [s] x v = Some (v', false).
Proof. exact ins_front_is_ast_set. Qed.
Print Assumptions C04_set_many_insertion_is_ast_set.

Theorem C04_set_many_error_first : forall t bs s0 xt xb r, api_fits (api_of s0) t = false ->
  set_many_bytes t bs ((s0, xt, xb) :: r) = MErr.
Proof. exact set_many_bytes_err. Qed.
Print Assumptions C04_set_many_error_first.

(* ---- non-vacuity: replacements out of address order, two insertions, a map, a list ---- *)
Definition exm_struct : tval := VStruct [ (3, VI32 1); (1, VString [97]); (7, VBool 1) ].
Definition exm_items : list (pstep * tval) :=
  [ (PField 7, VBool 0); (PField 9, VI16 5); (PField 3, VI32 2); (PField 2, VByte 1) ].
Example exm_spec : set_many_spec exm_struct exm_items =
  Some (VStruct [ (9, VI16 5); (2, VByte 1); (3, VI32 2); (1, VString [97]); (7, VBool 0) ]).
Proof. vm_compute. reflexivity. Qed.
Example exm_bytes : set_many_bytes T_STRUCT (encode exm_struct) (map enc_req exm_items) =
  MOk (encode (VStruct [ (9, VI16 5); (2, VByte 1); (3, VI32 2); (1, VString [97]); (7, VBool 0) ])).
Proof. vm_compute. reflexivity. Qed.
Definition exm_map : tval := VMap T_STRING T_I32 [ (VString [97], VI32 1); (VString [98], VI32 2) ].
Example exm_map_spec : set_many_spec exm_map [ (PStrKey [99], VI32 3); (PStrKey [98], VI32 20); (PBinKey [0;0;0;1;100], VI32 4) ] =
  Some (VMap T_STRING T_I32 [ (VString [99], VI32 3); (VString [100], VI32 4); (VString [97], VI32 1); (VString [98], VI32 20) ]).
Proof. vm_compute. reflexivity. Qed.
Example exm_list_spec : set_many_spec (VList T_BYTE [VByte 1; VByte 2]) [ (PIndex 5, VByte 9); (PIndex 0, VByte 7); (PIndex 2, VByte 8) ] =
  Some (VList T_BYTE [VByte 9; VByte 8; VByte 7; VByte 2]).
Proof. vm_compute. reflexivity. Qed.
(* outside the domain: two requests for one existing child (the code's gap length is negative), a replacement of another type *)
Example exm_dup_undef : set_many_spec exm_struct [ (PField 3, VI32 2); (PField 3, VI32 4) ] = None /\
  set_many_bytes T_STRUCT (encode exm_struct) (map enc_req [ (PField 3, VI32 2); (PField 3, VI32 4) ]) = MUndef.
Proof. vm_compute. split; reflexivity. Qed.
Example exm_wrong_type : set_many_spec exm_struct [ (PField 3, VI64 2) ] = None. Proof. vm_compute. reflexivity. Qed.

(* ======================================================================================================
   Node.ReplaceByPath (also reached through a Value's embedded node) — model/ThriftEditBytes.v replace_by_path, spec ast_replace:
   an EXISTING element is set to what the callback makes of it (a node built without looking at the argument, the argument
   itself, an error node); an absent element or a path that does not fit is an error with exist = false, whatever the
   callback does, and the value is unchanged.
   ====================================================================================================== *)
Theorem C04_replace_refines : forall p cb v, wf v = true -> (depth v <= max_skip_depth)%nat ->
  replace_by_path (type_of v) (encode v) p (cb_bytes cb) = rres_of (ast_replace p cb v).
Proof. exact replace_refines. Qed.
Print Assumptions C04_replace_refines.

Theorem C04_replace_is_set_when_present : forall p x v sub o, wf v = true -> (depth v <= max_skip_depth)%nat ->
  lookup v 0 p = LFound sub o ->
  replace_by_path (type_of v) (encode v) p (CbConst (type_of x) (encode x)) =
    match ast_set true p x v with Some (v', _) => ROk (encode v') | None => RErr true end.
Proof. exact replace_is_set_when_present. Qed.
Print Assumptions C04_replace_is_set_when_present.

Theorem C04_replace_absent_unchanged : forall p cb v, wf v = true -> (depth v <= max_skip_depth)%nat ->
  (forall sub o, lookup v 0 p <> LFound sub o) ->
  replace_by_path (type_of v) (encode v) p (cb_bytes cb) = RErr false /\ ast_replace p cb v = (None, false).
Proof. exact replace_absent_unchanged. Qed.
Print Assumptions C04_replace_absent_unchanged.

Example ex4_replace_present : replace_by_path T_STRUCT (encode ex4_v) [PField 2; PIndex 1] (CbConst T_I32 (encode (VI32 5))) =
  ROk (encode (VStruct [ (2, VList T_I32 [VI32 1; VI32 5; VI32 3]); (1, VMap T_STRING T_I64 []); (3, VStruct [ (1, VString [97]) ]) ])).
Proof. vm_compute. reflexivity. Qed.
Example ex4_replace_absent : replace_by_path T_STRUCT (encode ex4_v) [PField 2; PIndex 3] (CbConst T_I32 (encode (VI32 5))) = RErr false /\
  replace_by_path T_STRUCT (encode ex4_v) [PField 9] (CbConst T_I32 (encode (VI32 5))) = RErr false /\
  replace_by_path T_STRUCT (encode ex4_v) [PField 2; PIndex 1] CbErr = RErr true /\
  replace_by_path T_STRUCT (encode ex4_v) [PField 2; PIndex 1] CbId = ROk (encode ex4_v).
Proof. vm_compute. repeat split. Qed.
