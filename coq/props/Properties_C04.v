(* C04 — Thrift in-place edits change exactly the addressed element.
   Statements only; proofs are in proofs/ThriftEditProofs.v.  The edit model (model/ThriftEdit.v: ast_set,
   ast_unset, ast_step) is what Check04 replays every history on; the implementation's bytes after each step
   must equal [encode] of the model state, so the theorems below are facts about every state the check accepts.
   Definitions used in the statements (proofs/ThriftEditProofs.v):
     child_replaced s c c' v v'   v' = v with the child c addressed by step s replaced by c' (same slot)
     child_inserted front s x v v' v' = v with ONE new child x added: children' = ins front x children
     child_removed s v v'          v' = v without the first child addressed by s
     disjoint p q                  p and q diverge at a position where the steps certainly address different children
     lsub r                        the lookup result r without its byte offset
     set_compat / ins_ok           API contract of an insertion (declared element type, int16 id, well-formed key, count < 2^31) *)
From Coq Require Import ZArith List Bool Lia.
From DG Require Import ProtoWireRef CaseFormat ThriftWire ThriftWireProofs ThriftGeneric ThriftGenericProofs ThriftEdit ThriftEditProofs.
Import ListNotations.
Local Open Scope Z_scope.

Theorem C04_results_decodable :
  forall v, wf v = true -> forall d r, (depth v <= d)%nat -> decode d (type_of v) (encode v ++ r) = Some (v, r).
Proof. exact decode_encode. Qed.
Print Assumptions C04_results_decodable.

(* the result of a set is a well-formed value (hence, by C04_results_decodable, its bytes decode to it) *)
Theorem C04_ast_set_wf : forall front p x v v' ex,
  wf v = true -> wf x = true -> set_compat p x v = true -> ast_set front p x v = Some (v', ex) -> wf v' = true.
Proof. exact ast_set_wf. Qed.
Print Assumptions C04_ast_set_wf.

Theorem C04_ast_set_keeps_type : forall front p x v v' ex, ast_set front p x v = Some (v', ex) -> type_of v' = type_of v.
Proof. exact ast_set_type. Qed.
Print Assumptions C04_ast_set_keeps_type.

(* 'existed' = the path addressed an element *)
Theorem C04_ast_set_existed : forall front p x v v' ex, ast_set front p x v = Some (v', ex) ->
  (ex = true <-> exists sub off, lookup v 0 p = LFound sub off).
Proof. exact ast_set_existed. Qed.
Print Assumptions C04_ast_set_existed.

(* an existing element is replaced: the path now finds x ... *)
Theorem C04_ast_set_replaces : forall front p x v v', ast_set front p x v = Some (v', true) ->
  exists off, lookup v' 0 p = LFound x off.
Proof. exact ast_set_get. Qed.
Print Assumptions C04_ast_set_replaces.

(* ... and nothing a disjoint path can see has changed (same sub-value, or same not-found, or same error) *)
Theorem C04_ast_set_frame : forall front p q x v v', ast_set front p x v = Some (v', true) -> disjoint p q ->
  lsub (lookup v' 0 q) = lsub (lookup v 0 q).
Proof. exact ast_set_frame. Qed.
Print Assumptions C04_ast_set_frame.

(* a missing element is inserted into exactly the addressed container c (reached by the path minus its last
   step): c becomes c' whose children are [ins front new (children c)] (count + 1, old ones in order), and
   the whole result is "v with c replaced by c'" — to which the frame theorem above applies *)
Theorem C04_ast_set_insert : forall front p x v v', ast_set front p x v = Some (v', false) ->
  exists pre s c c' off, p = pre ++ [s] /\ lookup v 0 pre = LFound c off /\ lookup1 c s = LNotFound /\
                     child_inserted front s x c c' /\ nchildren c' = nchildren c + 1 /\
                     ast_set front pre c' v = Some (v', true).
Proof. exact ast_set_insert. Qed.
Print Assumptions C04_ast_set_insert.

Theorem C04_ins_keeps_order : forall (A : Type) front (a : A) l, ins front a l = a :: l \/ ins front a l = l ++ [a].
Proof. exact @ins_cases. Qed.
Print Assumptions C04_ins_keeps_order.

(* unset *)
Theorem C04_ast_unset_wf : forall p v v' r, wf v = true -> ast_unset p v = DOk v' r -> wf v' = true.
Proof. exact ast_unset_wf. Qed.
Print Assumptions C04_ast_unset_wf.

Theorem C04_ast_unset_absent_id : forall p v v', ast_unset p v = DOk v' false -> v' = v.
Proof. exact ast_unset_absent_id. Qed.
Print Assumptions C04_ast_unset_absent_id.

Theorem C04_ast_unset_false_means_absent : forall p v v', ast_unset p v = DOk v' false ->
  exists pre s post, p = pre ++ s :: post /\
    ((post <> [] /\ exists c, vlookup v pre = LFound c 0 /\ vlookup1 c s = LNotFound)
     \/ (post = [] /\ exists c, vlookup v pre = LFound c 0 /\ child_absent s c)).
Proof. exact ast_unset_false_absent. Qed.
Print Assumptions C04_ast_unset_false_means_absent.

Theorem C04_ast_unset_removes_one : forall front p v v', ast_unset p v = DOk v' true ->
  exists pre s c c' off, p = pre ++ [s] /\ lookup v 0 pre = LFound c off /\ child_removed s c c' /\
                         nchildren c = nchildren c' + 1 /\ ast_set front pre c' v = Some (v', true).
Proof. exact ast_unset_removes_one. Qed.
Print Assumptions C04_ast_unset_removes_one.

(* histories: every intermediate state is well-formed and round-trips through encode / decode *)
Theorem C04_history_wf : forall front ops v, wf v = true -> history_ok front v ops = true ->
  Forall (fun s => wf s = true) (ast_states front v ops) /\ wf (fold_left (ast_step front) ops v) = true.
Proof. exact history_wf. Qed.
Print Assumptions C04_history_wf.

Theorem C04_history_roundtrip : forall front ops v, wf v = true -> history_ok front v ops = true ->
  Forall (fun s => forall r, decode (depth s) (type_of s) (encode s ++ r) = Some (s, r)) (ast_states front v ops).
Proof. exact history_roundtrip. Qed.
Print Assumptions C04_history_roundtrip.

Theorem C04_failed_op_unchanged : forall front v o,
  match o with OSet p x => ast_set front p x v = None | OUnset p => ast_unset p v = DErr end -> ast_step front v o = v.
Proof. exact failed_op_unchanged. Qed.
Print Assumptions C04_failed_op_unchanged.

(* ---- non-vacuity: histories with repeated edits of one element, first / last position, empty containers ---- *)
Definition ex4_v : tval :=
  VStruct [ (2, VList T_I32 [VI32 1; VI32 2; VI32 3]);
            (1, VMap T_STRING T_I64 []);
            (3, VStruct [ (1, VString [97]) ]) ].
Definition ex4_ops : list eop :=
  [ OSet [PField 2; PIndex 0] (VI32 10);                    (* replace first *)
    OSet [PField 2; PIndex 0] (VI32 11);                    (* same element again *)
    OSet [PField 2; PIndex 2] (VI32 12);                    (* replace last *)
    OSet [PField 2; PIndex 3] (VI32 13);                    (* one past the end: insert *)
    OSet [PField 1; PStrKey [107]] (VI64 7);                (* insert into an empty map *)
    OSet [PField 3; PField 9] (VByte 1);                    (* missing field of a nested struct *)
    OUnset [PField 1; PStrKey [120]];                       (* absent key: no change *)
    OUnset [PField 1; PStrKey [107]];                       (* back to the empty map *)
    OUnset [PField 2; PIndex 0];
    OSet [PField 7; PField 1] (VI32 0);                     (* absent-inner: error, unchanged *)
    OSet [PField 2; PStrKey [1]] (VI32 0) ].                (* wrong kind: error, unchanged *)

Example ex4_wf : wf ex4_v = true. Proof. vm_compute. reflexivity. Qed.
Example ex4_history_ok : history_ok true ex4_v ex4_ops = true. Proof. vm_compute. reflexivity. Qed.
Example ex4_final : fold_left (ast_step true) ex4_ops ex4_v =
  VStruct [ (2, VList T_I32 [VI32 11; VI32 2; VI32 12]);
            (1, VMap T_STRING T_I64 []);
            (3, VStruct [ (9, VByte 1); (1, VString [97]) ]) ].
Proof. vm_compute. reflexivity. Qed.
Example ex4_existed : ast_set true [PField 2; PIndex 1] (VI32 5) ex4_v =
  Some (VStruct [ (2, VList T_I32 [VI32 1; VI32 5; VI32 3]); (1, VMap T_STRING T_I64 []); (3, VStruct [ (1, VString [97]) ]) ], true).
Proof. vm_compute. reflexivity. Qed.
Example ex4_disjoint : disjoint [PField 2; PIndex 1] [PField 2; PIndex 2] /\ disjoint [PField 2; PIndex 1] [PField 3; PField 1].
Proof. cbn. split; [right; split; [reflexivity|left; lia]|left; lia]. Qed.
Example ex4_compat_rejects_wrong_type : set_compat [PField 2; PIndex 3] (VI64 0) ex4_v = false. Proof. vm_compute. reflexivity. Qed.
