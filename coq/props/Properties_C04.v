(* C04 — placeholder theorem set, extended below in later commits. *)
From Coq Require Import ZArith List Bool Lia.
From DG Require Import ProtoWireRef ThriftWire ThriftWireProofs.
Import ListNotations.
Local Open Scope Z_scope.

Theorem C04_results_decodable :
  forall v, wf v = true -> forall d r, (depth v <= d)%nat -> decode d (type_of v) (encode v ++ r) = Some (v, r).
Proof. exact decode_encode. Qed.
Print Assumptions C04_results_decodable.
