(* C10 - Protobuf edits and DOM marshalling keep the message well-formed and exact.
   Statements only; proofs are in proofs/ProtoRelenProofs.v and proofs/ProtoEditProofs.v. *)
From Coq Require Import ZArith List Bool Lia.
From DG Require Import CaseFormat ProtoWireRef ProtoWireRefProofs ProtoMsg ProtoMsgProofs ProtoSpecLen ProtoRelen ProtoRelenProofs
  ProtoEdit ProtoEditCoded ProtoEditProofs.
Import ListNotations.
Local Open Scope Z_scope.

(* ---- algorithm level: updateByteLen.
   For EVERY chain fr of enclosing length-delimited fields (listed inside-out; each frame = bytes of the earlier siblings,
   tag, bytes of the later siblings), every old / new content xo / xn of the innermost hole and any bytes R1 / R2 around
   the outermost field: replace the span of xo by xn in the exact encoding, then run the re-patching step at every
   recorded tag offset, inside-out.  The result is the re-encoding in which every enclosing length prefix is exact
   (wrapR: a field whose payload became empty is dropped with its tag, as the code does), and the reported difference is
   the total size change.  All sizes at once: 127/128, 16383/16384, ... transitions at every level. *)
Theorem C10_relen_correct :
  forall fr xo xn R1 R2, frames_ok fr xo xn ->
  let b := R1 ++ wrapE fr xo ++ R2 in
  let s := (length R1 + length (ctxA fr xo))%nat in
  let b1 := splice b s (s + length xo) xn in
  relen b1 (blen b1 - blen b) (map (fun a => (length R1 + a)%nat) (frame_addrs fr xo))
  = (R1 ++ wrapR fr xn ++ R2, blen (wrapR fr xn) - blen (wrapE fr xo)).
Proof. exact relen_correct. Qed.
Print Assumptions C10_relen_correct.

(* the inductive reading: one more enclosing field around an already re-patched inner part *)
Theorem C10_relen_unfold :
  forall f outer x, wrapR (f :: outer) x = wrapR outer (encR1 f x) /\
  (fr_body f x <> [] -> encR1 f x = fr_tag f ++ varint_enc (blen (fr_body f x)) ++ fr_body f x).
Proof.
  intros f outer x. split; [reflexivity|]. intros H. unfold encR1, encE1. destruct (fr_body f x); [congruence|reflexivity].
Qed.
Print Assumptions C10_relen_unfold.

(* no payload becomes empty: the result is the exact encoding wrapE (nothing is dropped) *)
Theorem C10_relen_correct_nonempty :
  forall fr xo xn R1 R2, frames_ok fr xo xn -> frames_nonempty fr xn ->
  let b := R1 ++ wrapE fr xo ++ R2 in
  let s := (length R1 + length (ctxA fr xo))%nat in
  let b1 := splice b s (s + length xo) xn in
  fst (relen b1 (blen b1 - blen b) (map (fun a => (length R1 + a)%nat) (frame_addrs fr xo))) = R1 ++ wrapE fr xn ++ R2.
Proof. exact relen_correct_nonempty. Qed.
Print Assumptions C10_relen_correct_nonempty.

(* the same on wire trees of ProtoMsg: messages, packed lists and map entries are all (n, WBytes payload) records *)
Theorem C10_relen_correct_wire :
  forall fr xo xn R1 R2,
  frames_ok (map to_frame fr) (wenc xo) (wenc xn) -> frames_nonempty (map to_frame fr) (wenc xn) ->
  let b := wenc (R1 ++ wwrap fr xo ++ R2) in
  let s := (length (wenc R1) + length (ctxA (map to_frame fr) (wenc xo)))%nat in
  let b1 := splice b s (s + length (wenc xo)) (wenc xn) in
  fst (relen b1 (blen b1 - blen b) (map (fun a => (length (wenc R1) + a)%nat) (frame_addrs (map to_frame fr) (wenc xo))))
  = wenc (R1 ++ wwrap fr xn ++ R2).
Proof. exact relen_correct_wire. Qed.
Print Assumptions C10_relen_correct_wire.

(* the loop AS CODED (previousType / isPacked / `continue`) is that walk when the path consists of field steps *)
Theorem C10_relen_coded_fields :
  forall b d pk a0 addrs,
  relen_coded b d pk ((a0, PT_FIELD) :: map (fun a => (a, PT_FIELD)) addrs) = fst (relen b d addrs).
Proof. exact relen_coded_fields. Qed.
Print Assumptions C10_relen_coded_fields.

(* the transcription used by the checker carries one flag per repair of /repo (ProtoEditCoded.fixes); with every flag
   off its updateByteLen is the loop above *)
Theorem C10_relen_coded_g_old :
  forall b d pk lv,
  relen_coded_g no_fixes b d pk (map (fun l => (Z.of_nat (fst l), snd l)) lv) = relen_coded b d pk lv.
Proof. exact relen_coded_g_old. Qed.
Print Assumptions C10_relen_coded_g_old.

(* ... and it is NOT for a map-key step: the entry length stays stale (finding 1001).
   Root: map<string, M> field 3 with one entry "k" -> { 1: "a" }; path [3]["k"].1, the string grows to 130 bytes.
   addresses: 0 (entry tag), 5 (value tag), 7 (tag of field 1). *)
Definition ex_map_buf : list Z := [26; 8; 10; 1; 107; 18; 3; 10; 1; 97].
Definition ex_map_new : list Z := [10; 130; 1] ++ repeat 97 130%nat.
Definition ex_map_b1 : list Z := splice ex_map_buf 7 10 ex_map_new.
Theorem C10_relen_coded_map_entry_refuted :
  let coded := relen_coded ex_map_b1 (blen ex_map_b1 - blen ex_map_buf) false [(7%nat, PT_FIELD); (5%nat, PT_KEY); (0%nat, PT_FIELD)] in
  let ideal := fst (relen ex_map_b1 (blen ex_map_b1 - blen ex_map_buf) [5%nat; 0%nat]) in
  wdec ideal <> None /\ wdec coded = None /\ firstn 2 coded = [26; 8] /\ firstn 3 ideal = [26; 139; 1].
Proof. vm_compute. repeat split; try reflexivity; discriminate. Qed.
Print Assumptions C10_relen_coded_map_entry_refuted.

(* ---- spec level *)
(* pset_wf: a successful set yields a well-formed message whose canonical encoding decodes to exactly that message:
   every length prefix of the re-encoded result is consistent *)
Theorem C10_pset_wf :
  forall S root m p x m' e, pset S root m p x = Some (m', e) ->
  wf_msg S root m' = true /\ decode_top S root (encode_msg m') = Some m'.
Proof. intros. split; [eapply pset_wf; eassumption|eapply pset_roundtrip; eassumption]. Qed.
Print Assumptions C10_pset_wf.

(* history_wf: after EVERY prefix of a history of set / unset / set-many operations (failed operations leave the
   message unchanged) the state is well-formed and round-trips through encode / decode *)
Theorem C10_history_wf :
  forall S root m ops k, wf_msg S root m = true ->
  let mk := fold_left (pstep_total S root) (firstn k ops) m in
  wf_msg S root mk = true /\ decode_top S root (encode_msg mk) = Some mk.
Proof. exact history_wf. Qed.
Print Assumptions C10_history_wf.

(* pmarshal_pload: PathNode.marshal with speculative lengths (FinishSpeculativeLength as coded, arbitrary spare
   capacity content jk) writes the canonical encoding of the loaded tree; Load then Marshal of a canonical encoding
   therefore re-encodes to bytes that decode to the same message *)
Theorem C10_pmarshal_correct :
  forall jk, (forall b, (9 <= length (jk b))%nat) ->
  forall m, sizes_okb (VMsg m) = true -> pmarshal jk m = encode_msg m.
Proof. exact pmarshal_correct. Qed.
Print Assumptions C10_pmarshal_correct.

Theorem C10_pmarshal_pload :
  forall jk, (forall b, (9 <= length (jk b))%nat) ->
  forall S root m, wf_msg S root m = true -> sizes_okb (VMsg m) = true ->
  exists t, pload S root (encode_msg m) = Some t /\ pmarshal jk t = encode_msg m /\
            decode_top S root (pmarshal jk t) = Some m.
Proof. exact pmarshal_pload. Qed.
Print Assumptions C10_pmarshal_pload.

(* ---- non-vacuity *)
(* two nested messages, the string inside grows from 116 to 130 bytes: BOTH enclosing lengths go from 1 to 2 bytes *)
Definition ex_inner : frame := ([], [10], []).                 (* field 1, message, no siblings *)
Definition ex_outer : frame := ([8; 1], [18], [24; 7]).        (* field 2, message; siblings: field 1 = 1 before, field 3 = 7 after *)
Definition ex_xo : list Z := [10; 116] ++ repeat 97 116%nat.
Definition ex_xn : list Z := [10; 130; 1] ++ repeat 98 130%nat.
Example C10_relen_example_frames_ok : frames_ok [ex_inner; ex_outer] ex_xo ex_xn /\ frames_nonempty [ex_inner; ex_outer] ex_xn.
Proof.
  split.
  - cbn [frames_ok]. repeat split; try (exists 10; split; [lia|reflexivity]); try (exists 18; split; [lia|reflexivity]);
      vm_compute; reflexivity.
  - cbn [frames_nonempty]. repeat split; vm_compute; discriminate.
Qed.
Example C10_relen_example_two_levels :
  let b := [8; 9] ++ wrapE [ex_inner; ex_outer] ex_xo ++ [32; 1] in
  let b1 := splice b 8 126 ex_xn in
  firstn 8 b = [8; 9; 18; 124; 8; 1; 10; 118] /\
  relen b1 (blen b1 - blen b) [6%nat; 2%nat] = ([8; 9] ++ wrapE [ex_inner; ex_outer] ex_xn ++ [32; 1], 17) /\
  firstn 10 (fst (relen b1 (blen b1 - blen b) [6%nat; 2%nat])) = [8; 9; 18; 140; 1; 8; 1; 10; 133; 1] /\
  map (fun a => (2 + a)%nat) (frame_addrs [ex_inner; ex_outer] ex_xo) = [6%nat; 2%nat].
Proof. vm_compute. repeat split; reflexivity. Qed.

(* shrinking to zero: the emptied message disappears with its tag, and the outer length follows *)
Example C10_relen_example_to_zero :
  let b := wrapE [ex_inner; ex_outer] [10; 1; 97] in
  let b1 := splice b 6 9 [] in
  b = [18; 9; 8; 1; 10; 3; 10; 1; 97; 24; 7] /\ fst (relen b1 (blen b1 - blen b) [4%nat; 0%nat]) = [18; 4; 8; 1; 24; 7].
Proof. vm_compute. split; reflexivity. Qed.

(* a schema with a map<string, M1> and a packed list; set through the map value, insert a key, append to the list, unset *)
Definition exS : schema :=
  [mk_mdesc [77; 48] [mk_fdesc 1 [97] [97] (LMap 9) (TMsg [77; 49]); mk_fdesc 2 [98] [98] (LRepeated true) (TScalar 5)];
   mk_mdesc [77; 49] [mk_fdesc 1 [115] [115] LSingular (TScalar 9)]].
Definition exM : pmsg := [(1, VMap [(KStr [107], VMsg [(1, VBytes 9 [120])])]); (2, VList true [VScalar 5 1; VScalar 5 2])].
Example C10_pset_example :
  wf_msg exS [77; 48] exM = true /\
  pset exS [77; 48] exM [PField 1; PStrKey [107]; PName [115]] (VBytes 9 (repeat 121 130%nat))
    = Some ([(1, VMap [(KStr [107], VMsg [(1, VBytes 9 (repeat 121 130%nat))])]); (2, VList true [VScalar 5 1; VScalar 5 2])], true) /\
  (exists m', pset exS [77; 48] exM [PField 1; PStrKey [110]] (VMsg []) = Some (m', false)) /\
  (exists m', pset exS [77; 48] exM [PName [98]; PIndex 2] (VScalar 5 300) = Some (m', false)) /\
  punset exS [77; 48] exM [PField 2; PIndex 0] = Some ([(1, VMap [(KStr [107], VMsg [(1, VBytes 9 [120])])]); (2, VList true [VScalar 5 2])], true) /\
  pset exS [77; 48] exM [PField 1; PStrKey [122]; PField 1] (VBytes 9 []) = None.
Proof. vm_compute. repeat split; try reflexivity; eexists; reflexivity. Qed.

Example C10_history_example :
  let ops := [OSet [PField 1; PStrKey [107]; PField 1] (VBytes 9 (repeat 121 128%nat));
              OUnset [PField 1; PStrKey [107]; PField 1];
              OSetMany [(2, VList true [VScalar 5 (-1)])];
              OSet [PField 9] (VScalar 5 0)] in
  let m4 := fold_left (pstep_total exS [77; 48]) ops exM in
  m4 = [(1, VMap [(KStr [107], VMsg [])]); (2, VList true [VScalar 5 (-1)])] /\
  decode_top exS [77; 48] (encode_msg m4) = Some m4.
Proof. vm_compute. split; reflexivity. Qed.

Example C10_pmarshal_example :
  let jk := fun _ : list Z => repeat 255 9%nat in
  sizes_okb (VMsg exM) = true /\ pmarshal jk exM = encode_msg exM /\
  pmarshal jk exM = [10; 8; 10; 1; 107; 18; 3; 10; 1; 120; 18; 2; 1; 2].
Proof. vm_compute. repeat split; reflexivity. Qed.

(* the recorded defects really contradict the specification (witnesses; ids as in findings/C10.json) *)
(* 1002: inserting key "n" (value: empty message): the bytes the code writes are not what any decoder reads as that entry *)
Example C10_finding_1002_refuted :
  let b0 := encode_msg exM in
  match coded_set no_fixes exS [77; 48] b0 [PField 1; PStrKey [110]] [0] with
  | CRes 0 false b => decode_top exS [77; 48] b <> Some (exM ++ []) /\
                      (forall m', pset exS [77; 48] exM [PField 1; PStrKey [110]] (VMsg []) = Some (m', false) ->
                                  decode_top exS [77; 48] b <> Some m')
  | _ => False
  end.
Proof. vm_compute. split; [discriminate|]. intros m' H. inversion H. discriminate. Qed.

(* 1007: an empty nested message made the recursive Load fail (repaired by 280f066) *)
Example C10_finding_1007_refuted :
  let m := [(1, VMap [(KStr [107], VMsg [])])] in
  wf_msg exS [77; 48] m = true /\ coded_load_marshal no_fixes exS [77; 48] (encode_msg m) = EPlain /\ coded_load_marshal head_fixes exS [77; 48] (encode_msg m) = EOk (encode_msg m).
Proof. vm_compute. repeat split; reflexivity. Qed.

(* ---- buffers are values: soundness of the harness-level immutability check (Check10.immutable_ok).
   In the model an operation maps bytes to NEW bytes (pset / punset / relen return lists; nothing can alter a list that
   was handed out before), so the checker demands of the implementation exactly this: after every operation the caller's
   input slice and a second root value over it still hold b0, and the slice held before the operation still holds prev. *)
From DG Require Import Check10.
Theorem C10_immutable_ok_sound :
  forall b0 prev inp wit ali, immutable_ok b0 prev inp wit ali = true <-> (inp = b0 /\ wit = b0 /\ ali = prev).
Proof.
  intros. unfold immutable_ok. rewrite !andb_true_iff. split.
  - intros [[A B] C]. repeat split; apply bytes_eqb_eq; assumption.
  - intros (-> & -> & ->). repeat split; apply bytes_eqb_refl.
Qed.
Print Assumptions C10_immutable_ok_sound.

(* ==== the as-coded transcription (all repairs in) REFINES the specification ====
   Full statement aimed at (NOT proved in this generality - see the _partial theorems below for what is):
   for every schema, every well-formed message m, every path p in the domain and every sub value x,
   the byte-level SetByPath of ProtoEditCoded on the canonical encoding equals the specified edit rendered by encode_msg,
   and a failed operation leaves the buffer unchanged. *)
From DG Require Import ProtoEditRefine.
Definition C10_coded_refines_spec_statement : Prop :=
  forall S root m p x, wf_msg S root m = true -> blen (encode_msg m) < 2 ^ 63 ->
  match pset S root m p x with
  | Some (m', e) => coded_set all_fixes S root (encode_msg m) p (encode_elem x) = CRes 0 e (encode_msg m')
  | None => exists c e, coded_set all_fixes S root (encode_msg m) p (encode_elem x) = CRes c e (encode_msg m) /\ c <> 0
  end.

(* PROVED PART 1 - the complete entry point for a field step on the root message (existing value replaced in place /
   absent field appended at the message end), any singular field kind (scalars, string/bytes, sub-message), every
   wf message of every schema: search by chained skip, value span, tag for the insertion, splice. *)
Theorem C10_coded_refines_spec_partial :
  forall S root m id x m' e md fd,
  wf_msg S root m = true -> blen (encode_msg m) < 2 ^ 63 ->
  find_msg S root = Some md -> find_field md id = Some fd -> fd_label fd = LSingular ->
  pset S root m [PField id] x = Some (m', e) ->
  coded_set all_fixes S root (encode_msg m) [PField id] (wenc_val (sval x)) = CRes 0 e (encode_msg m').
Proof. exact coded_set_refines_root_field. Qed.
Print Assumptions C10_coded_refines_spec_partial.

(* PROVED PART 2 - EVERY DEPTH of messages-in-messages: at the hole located by the path (actx: offsets of the enclosing
   message tags, span of the old value) "splice the new bytes, then run the coded updateByteLen over the recorded
   addresses" yields exactly encode_msg of the specified result; existing value or appended absent field.
   What is missing for the full statement at depth > 1 is only that get_by_path returns these offsets (the chained-skip
   lemmas C10_search_field_* below are its per-level ingredient), and the list / map steps. *)
Theorem C10_splice_relen_refines_pset_partial :
  forall S root m ids x m' e R1 l R2 xo tk ak,
  wf_msg S root m = true ->
  actx S root m ids = Some (R1, l, R2, xo, tk) ->
  pset S root m (map PField ids) x = Some (m', e) ->
  frames_okE (rev l) xo (new_bytes ids tk x) ->
  let buf := encode_msg m in
  let s := (length R1 + length (ctxA (rev l) xo))%nat in
  let b1 := splice buf s (s + length xo) (new_bytes ids tk x) in
  relen_coded_g all_fixes b1 (blen b1 - blen buf) false
    ((ak, PT_FIELD) :: map (fun a => (Z.of_nat (length R1 + a), PT_FIELD)) (frame_addrs (rev l) xo))
  = encode_msg m' /\ e = negb (match tk with [] => true | _ => false end).
Proof. exact splice_relen_refines_pset. Qed.
Print Assumptions C10_splice_relen_refines_pset_partial.

(* searchFieldId by chained skip on ANY well-formed wire records, at any offset of any buffer *)
Theorem C10_search_field_found :
  forall fx w1 pre f rest fuel stop,
  wf_wire w1 = true -> wf_wfield f = true -> no_num (fst f) w1 = true ->
  blen (pre ++ wenc w1 ++ wenc_field f ++ rest) < 2 ^ 63 ->
  blen pre + blen (wenc w1) < stop -> (length w1 < fuel)%nat ->
  search_field fx fuel (pre ++ wenc w1 ++ wenc_field f ++ rest) (blen pre) (fst f) stop
  = EOk (blen pre + blen (wenc w1), blen pre + blen (wenc w1), true).
Proof. exact search_field_found. Qed.
Print Assumptions C10_search_field_found.

Theorem C10_search_field_absent :
  forall fx w pre rest fuel id,
  wf_wire w = true -> no_num id w = true ->
  blen (pre ++ wenc w ++ rest) < 2 ^ 63 -> (length w < fuel)%nat ->
  search_field fx fuel (pre ++ wenc w ++ rest) (blen pre) id (blen pre + blen (wenc w))
  = EOk (blen pre + blen (wenc w), blen pre + blen (wenc w), false).
Proof. exact search_field_absent. Qed.
Print Assumptions C10_search_field_absent.

(* updateByteLen with the repairs in, over a chain of message ancestors of any depth: exact re-encoding (no field is
   dropped any more when a message becomes empty) *)
Theorem C10_relen_coded_g_fields_chain :
  forall fr xo xn R1 R2 pk, frames_okE fr xo xn ->
  rs_buf (fold_left (relen_coded_step_g all_fixes)
                    (map (fun a => (Z.of_nat (length R1 + a), PT_FIELD)) (frame_addrs fr xo))
                    (mk_rstate (R1 ++ wrapS fr xo xn ++ R2) (blen xn - blen xo) 1 pk))
  = R1 ++ wrapE fr xn ++ R2.
Proof. exact relen_coded_g_fields_chain. Qed.
Print Assumptions C10_relen_coded_g_fields_chain.

(* histories (mirrors C04's history_refines, for the proved fragment): after EVERY prefix of a list of root-field sets
   the byte-level buffer IS the canonical encoding of the model state *)
Theorem C10_history_refines_partial :
  forall S root ops m, wf_msg S root m = true -> ops_in_fragment S root m ops ->
  forall k, fold_left (coded_set_bytes S root) (firstn k ops) (encode_msg m)
            = encode_msg (fold_left (spec_set S root) (firstn k ops) m).
Proof. exact history_refines_root_fields. Qed.
Print Assumptions C10_history_refines_partial.

(* DOM side after ARBITRARY edit histories (set / unset / set-many, any paths): marshalling the edited tree gives the
   canonical encoding of the specified state, which decodes to it *)
Theorem C10_pmarshal_history :
  forall jk, (forall b, (9 <= length (jk b))%nat) ->
  forall S root m ops, wf_msg S root m = true ->
  let mk := fold_left (pstep_total S root) ops m in
  sizes_okb (VMsg mk) = true ->
  pmarshal jk mk = encode_msg mk /\ decode_top S root (pmarshal jk mk) = Some mk.
Proof.
  intros jk Hjk S root m ops Hwf mk Hs.
  rewrite (pmarshal_correct jk Hjk mk Hs). split; [reflexivity|].
  apply decode_top_encode. apply fold_wf. exact Hwf.
Qed.
Print Assumptions C10_pmarshal_history.

(* PROVED PART 3 - the link that was missing at depth > 1: getByPath over nested messages returns exactly the offsets
   that actx describes (node span or insertion point, and the address chain = the tag offsets of the enclosing messages),
   for the root value and for every nested level, whatever bytes follow the message. *)
From DG Require Import ProtoEditRefine2.
Theorem C10_gwalk_msgs_partial :
  forall S ids name fs R1 l R2 xo tk t isRoot A hdr B addr,
  wf_fld S LSingular (TMsg name) (VMsg fs) = true ->
  actx S name fs ids = Some (R1, l, R2, xo, tk) ->
  atype S name ids = Some t ->
  let body := wenc (msg_wire fs) in
  level_ok isRoot A hdr body B ->
  blen (A ++ hdr ++ body ++ B) < 2 ^ 63 ->
  let o := blen A + blen hdr in
  gwalk all_fixes S (A ++ hdr ++ body ++ B) (blen A) (DMsg name) isRoot (map PField ids) addr
  = match tk with
    | [] => GNotFoundLast (astart o R1 l xo) 11 (addr ++ aaddrs o R1 l xo tk)
    | _ => GFound (mk_gnode (astart o R1 l xo) (astart o R1 l xo + blen xo) (td_type (td_base t)) 0 0 (td_base t) false)
                  (addr ++ aaddrs o R1 l xo tk)
    end.
Proof. exact gwalk_msgs. Qed.
Print Assumptions C10_gwalk_msgs_partial.

(* PROVED PART 4 = priority (1): the COMPLETE coded SetByPath equals the specification for EVERY path made of field steps,
   at ANY depth: through present singular sub-messages to a singular field of any kind (scalar, string/bytes,
   sub-message), the value present (replaced) or absent (appended at the end of the innermost message), every enclosing
   length prefix re-patched - for every schema with legal field numbers and every well-formed message.
   [actx = Some _] is exactly "the path is in this class" (it is a function of schema, message and path). *)
Theorem C10_coded_refines_spec_msgpath_partial :
  forall S root m ids x m' e c,
  schema_ok S = true ->
  wf_msg S root m = true -> blen (encode_msg m) < 2 ^ 63 -> blen (encode_msg m') < 2 ^ 63 ->
  actx S root m ids = Some c ->
  pset S root m (map PField ids) x = Some (m', e) ->
  coded_set all_fixes S root (encode_msg m) (map PField ids) (wenc_val (sval x)) = CRes 0 e (encode_msg m').
Proof.
  intros S root m ids x m' e [[[[R1 l] R2] xo] tk]. intros. eapply coded_set_refines_msgpath'; eassumption.
Qed.
Print Assumptions C10_coded_refines_spec_msgpath_partial.

(* ... lifted over any list of such operations: every intermediate BUFFER is the encoding of the model state *)
Theorem C10_history_refines_msgpath_partial :
  forall S root ops m,
  schema_ok S = true -> wf_msg S root m = true -> ops_in_msgpath_fragment S root m ops ->
  forall k, fold_left (coded_setp_bytes S root) (firstn k ops) (encode_msg m)
            = encode_msg (fold_left (spec_setp S root) (firstn k ops) m).
Proof. exact history_refines_msgpath. Qed.
Print Assumptions C10_history_refines_msgpath_partial.

(* non-vacuity: a root message with a string, an int32 and a sub-message field; replace (1 -> 2-byte length), append an
   absent scalar, append an absent sub-message: the hypotheses of the history theorem hold and both sides compute *)
Definition exS2 : schema :=
  [mk_mdesc [77; 48] [mk_fdesc 1 [115] [115] LSingular (TScalar 9); mk_fdesc 2 [105] [105] LSingular (TScalar 5);
                      mk_fdesc 3 [109] [109] LSingular (TMsg [77; 49])];
   mk_mdesc [77; 49] [mk_fdesc 1 [115] [115] LSingular (TScalar 9)]].
Definition exM2 : pmsg := [(1, VBytes 9 [120])].
Definition exOps2 : list (Z * pval) :=
  [(1, VBytes 9 (repeat 121 130%nat)); (2, VScalar 5 300); (3, VMsg [(1, VBytes 9 [122])]); (2, VScalar 5 (-1))].
Example C10_history_refines_example :
  wf_msg exS2 [77; 48] exM2 = true /\
  (fold_left (coded_set_bytes exS2 [77; 48]) exOps2 (encode_msg exM2)
   = encode_msg (fold_left (spec_set exS2 [77; 48]) exOps2 exM2)) /\
  (fold_left (spec_set exS2 [77; 48]) exOps2 exM2
   = [(1, VBytes 9 (repeat 121 130%nat)); (2, VScalar 5 (-1)); (3, VMsg [(1, VBytes 9 [122])])]).
Proof. vm_compute. repeat split; reflexivity. Qed.
Example C10_ops_in_fragment_example : ops_in_fragment exS2 [77; 48] exM2 (firstn 2 exOps2).
Proof.
  cbn [ops_in_fragment firstn exOps2].
  repeat split;
    first [ vm_compute; reflexivity
          | do 2 eexists; vm_compute; repeat split; reflexivity ].
Qed.

(* ================================================================== (G) proto/binary Skip from the Go source *)
(* Skip / SkipFixed32Type / SkipFixed64Type / SkipBytesType are translated from proto/binary/binary_skip.go on every build
   (gen/Gen_protoskip.v).  For the four wire types of proto3 Skip succeeds exactly when the model's wire decoder wdec_val reads one value
   of that type from the cursor, and then stands where wdec_val's rest begins; any other wire type: nil and nothing consumed. *)
From DG Require GoSem Gen_protoskip Check20h GenProtoskipProofs.
Theorem C10_Skip_from_source :
  (forall buf rd wt u, bytes_ok buf -> GenProtoskipProofs.in_buf buf rd -> wt = 0 \/ wt = 1 \/ wt = 2 \/ wt = 5 ->
     Check20h.obs_of (Gen_protoskip.BinaryProtocol_Skip buf rd wt u) = Check20h.skip_obs buf rd wt) /\
  (forall buf rd wt u, wt <> 0 -> wt <> 1 -> wt <> 2 -> wt <> 5 -> Gen_protoskip.BinaryProtocol_Skip buf rd wt u = (0, buf, rd)).
Proof. split; [exact GenProtoskipProofs.Skip_is_wdec_val | exact GenProtoskipProofs.Skip_other]. Qed.
Print Assumptions C10_Skip_from_source.
(* non-vacuity at depth 3: M0 { 3: M1 { 2: M1 { 1: string } } }: replace the innermost string by 130 bytes (all three
   enclosing lengths go from 1 to 2 bytes), then append an absent field two levels down *)
Definition exS3 : schema :=
  [mk_mdesc [77; 48] [mk_fdesc 1 [115] [115] LSingular (TScalar 9); mk_fdesc 3 [109] [109] LSingular (TMsg [77; 49])];
   mk_mdesc [77; 49] [mk_fdesc 1 [115] [115] LSingular (TScalar 9); mk_fdesc 2 [109] [109] LSingular (TMsg [77; 49]);
                      mk_fdesc 7 [105] [105] LSingular (TScalar 16)]].
Definition exM3 : pmsg := [(1, VBytes 9 [120]); (3, VMsg [(2, VMsg [(1, VBytes 9 (repeat 97 120%nat))])])].
Definition exOps3 : list (list Z * pval) :=
  [([3; 2; 1], VBytes 9 (repeat 98 130%nat)); ([3; 2; 7], VScalar 16 (-5)); ([3; 1], VBytes 9 [])].
Example C10_history_refines_msgpath_example :
  schema_ok exS3 = true /\ wf_msg exS3 [77; 48] exM3 = true /\ (fold_left (coded_setp_bytes exS3 [77; 48]) exOps3 (encode_msg exM3)
   = encode_msg (fold_left (spec_setp exS3 [77; 48]) exOps3 exM3)) /\ (fold_left (spec_setp exS3 [77; 48]) exOps3 exM3
   = [(1, VBytes 9 [120]);
      (3, VMsg [(2, VMsg [(1, VBytes 9 (repeat 98 130%nat)); (7, VScalar 16 (-5))]); (1, VBytes 9 [])])]).
Proof. vm_compute. repeat split; reflexivity. Qed.

(* PROVED PART 5 = priority (2), the failed-op half for the message-path fragment, ANY depth (all repairs in):
   (a) a sub node whose type is not the declared type of an EXISTING target (wrong kind, same wire class or not):
       the coded SetByPath answers error class 1 and leaves the buffer unchanged; the specification refuses every sub
       value that is not well-formed for the declared type;
   (b) the path runs into an ABSENT intermediate message (steps still to go): error class 1, buffer unchanged, and
       pset = None.
   Not covered: failures on list-index / map-key steps, unknown field numbers / names. *)
From DG Require Import ProtoEditRefine3.
Theorem C10_coded_failed_op_msgpath_partial :
  (forall S root m ids R1 l R2 xo tk t sub nk,
     wf_msg S root m = true -> blen (encode_msg m) < 2 ^ 63 ->
     actx S root m ids = Some (R1, l, R2, xo, tk) -> tk <> [] ->
     atype S root ids = Some t -> nk <> td_type (td_base t) ->
     coded_set_t all_fixes S root (encode_msg m) (map PField ids) sub nk = CRes 1 true (encode_msg m)) /\
  (forall S root m ids R1 l R2 xo tk t x,
     actx S root m ids = Some (R1, l, R2, xo, tk) -> tk <> [] ->
     atype S root ids = Some t -> wf_fld S LSingular t x = false ->
     pset S root m (map PField ids) x = None) /\
  (forall S root m ids t sub nk x,
     wf_msg S root m = true -> blen (encode_msg m) < 2 ^ 63 ->
     absent_inner S root m ids = true ->
     path_type_lax S LSingular (TMsg root) (map PField ids) = Some (LSingular, t) ->
     coded_set_t all_fixes S root (encode_msg m) (map PField ids) sub nk = CRes 1 false (encode_msg m) /\
     pset S root m (map PField ids) x = None).
Proof.
  split; [exact coded_set_wrong_type_msgpath|]. split; [|exact coded_set_absent_inner_msgpath].
  intros S root m ids R1 l R2 xo tk t x Hc Htk Hat Hx. unfold pset.
  rewrite (pset_at_illtyped S ids root m R1 l R2 xo tk t x Hc Htk Hat Hx). reflexivity.
Qed.
Print Assumptions C10_coded_failed_op_msgpath_partial.

(* non-vacuity: a sint32 node (kind 17) on the int64-typed (sfixed64, kind 16) ... field 7 two levels down is refused;
   a path through the absent sub-message 3.2.2 fails *)
Example C10_coded_failed_op_example :
  coded_set_t all_fixes exS3 [77; 48] (encode_msg exM3) (map PField [3; 2; 1]) [2; 120; 121] 12
  = CRes 1 true (encode_msg exM3) /\
  absent_inner exS3 [77; 48] exM3 [3; 2; 2; 1] = true /\
  coded_set_t all_fixes exS3 [77; 48] (encode_msg exM3) (map PField [3; 2; 2; 1]) [1; 120] 9
  = CRes 1 false (encode_msg exM3) /\
  pset exS3 [77; 48] exM3 (map PField [3; 2; 2; 1]) (VBytes 9 [120]) = None.
Proof. vm_compute. repeat split; reflexivity. Qed.
