(* C01 — Thrift reads return exactly what the bytes encode.
   Statements only; proofs are in proofs/ThriftWireProofs.v and proofs/ThriftGenericProofs.v.
   Reading guide: [lookup] (model/ThriftGeneric.v) is the AST-level meaning of a path (the "independent
   decoder" view: decode, then walk the tree); [get_by_path] is the byte-level algorithm of
   thrift/generic/node.go (searchFieldId / searchIndex / searchStrKey / searchIntKey / searchBinKey:
   chained skip over the buffer, final skip + slice). *)
From Coq Require Import ZArith List Bool Lia.
From DG Require Import ProtoWireRef CaseFormat ThriftWire ThriftWireProofs ThriftGeneric ThriftGenericProofs.
Import ListNotations.
Local Open Scope Z_scope.

Theorem C01_independent_decoder_roundtrip :
  forall v, wf v = true -> forall d r, (depth v <= d)%nat -> decode d (type_of v) (encode v ++ r) = Some (v, r).
Proof. exact decode_encode. Qed.
Print Assumptions C01_independent_decoder_roundtrip.

Theorem C01_skip_exact :
  forall v, wf v = true -> forall d r, (depth v <= d)%nat -> skip d (type_of v) (encode v ++ r) = Some r.
Proof. exact skip_encode. Qed.
Print Assumptions C01_skip_exact.

(* The byte-level search finds exactly what the AST-level lookup finds: same type, same start, end =
   start + encoded length; NotFound exactly when the lookup says NotFound (absent field / key / index
   >= size of a container the prefix reaches, at any level); Err exactly when the lookup says Err (step
   kind does not fit the value, negative index, key kind does not fit the key type). For every
   well-formed value within the skip depth limit, every path, any trailing bytes r, any base offset. *)
Theorem C01_get_by_path_refines_lookup : forall p v r off,
  wf v = true -> (depth v <= max_skip_depth)%nat ->
  get_by_path (type_of v) (encode v ++ r) off p =
    match lookup v off p with
    | LFound sub o => GFound (type_of sub) o (o + zlen (encode sub))
    | LNotFound => GNotFound
    | LErr => GErr
    end.
Proof. exact get_by_path_refines_lookup. Qed.
Print Assumptions C01_get_by_path_refines_lookup.

(* one theorem per search function (the lemmas the main theorem is assembled from) *)
Theorem C01_search_step_refines : forall v s r, wf v = true -> (depth v <= max_skip_depth)%nat ->
  match lookup1 v s with
  | LFound sub o => exists r', search1 (type_of v) s (encode v ++ r) = SFound (type_of sub) o (encode sub ++ r')
  | LNotFound => search1 (type_of v) s (encode v ++ r) = SNotFound
  | LErr => search1 (type_of v) s (encode v ++ r) = SErr
  end.
Proof. intros v s r Hw Hd. exact (search1_refines v s r (conj Hw Hd)). Qed.
Print Assumptions C01_search_step_refines.

(* same byte span: the bytes [off, off + |encode sub|) of the root ARE the encoding of the sub-value *)
Theorem C01_found_span_is_encoding : forall v p sub off, lookup v 0 p = LFound sub off ->
  0 <= off /\ off + zlen (encode sub) <= zlen (encode v) /\
  firstn (length (encode sub)) (skipn (Z.to_nat off) (encode v)) = encode sub.
Proof. exact found_span_is_encoding. Qed.
Print Assumptions C01_found_span_is_encoding.

(* same value: decoding the span with the independent decoder yields the sub-value *)
Theorem C01_found_span_decodes : forall v p sub off, wf v = true -> (depth v <= max_skip_depth)%nat ->
  lookup v 0 p = LFound sub off ->
  decode (depth sub) (type_of sub) (firstn (length (encode sub)) (skipn (Z.to_nat off) (encode v))) = Some (sub, []).
Proof. exact found_span_decodes. Qed.
Print Assumptions C01_found_span_decodes.

(* children listings (Children / iterators): exactly the children, in wire order, each with the span the
   indexed lookup gives, consecutive spans, covering the container body *)
Theorem C01_children_spans_elems : forall es off,
  map (fun q => fst (fst q)) (spans_elems es off) = map type_of es /\
  (forall n x, nth_error es n = Some x ->
     exists o, find_index n es off = LFound x o /\ nth_error (spans_elems es off) n = Some (type_of x, o, o + zlen (encode x))) /\
  chained 0 (map (fun q => (snd (fst q), snd q)) (spans_elems es off)) off (off + zlen (flat_map encode es)).
Proof. exact spans_elems_children. Qed.
Print Assumptions C01_children_spans_elems.

Theorem C01_children_spans_fields : forall fs off,
  map (fun q => (fst (fst (fst q)), snd (fst (fst q)))) (spans_fields fs off) = map (fun f => (fst f, type_of (snd f))) fs /\
  (forall n f, nth_error fs n = Some f ->
     nth_error (spans_fields fs off) n =
       Some (fst f, type_of (snd f),
             off + zlen (flat_map (fun f => type_of (snd f) :: enc_int 2 (fst f) ++ encode (snd f)) (firstn n fs)) + 3,
             off + zlen (flat_map (fun f => type_of (snd f) :: enc_int 2 (fst f) ++ encode (snd f)) (firstn n fs)) + 3 + zlen (encode (snd f)))) /\
  chained 3 (map (fun q => (snd (fst q), snd q)) (spans_fields fs off)) off
            (off + zlen (flat_map (fun f => type_of (snd f) :: enc_int 2 (fst f) ++ encode (snd f)) fs)).
Proof. exact spans_fields_children. Qed.
Print Assumptions C01_children_spans_fields.

Theorem C01_children_spans_pairs : forall es off,
  map (fun q => snd (fst (fst q))) (spans_pairs es off) = map (fun e => type_of (snd e)) es /\
  (forall n e, nth_error es n = Some e ->
     let o := off + zlen (flat_map (fun e => encode (fst e) ++ encode (snd e)) (firstn n es)) in
     nth_error (spans_pairs es off) n =
       Some (o, type_of (snd e), o + zlen (encode (fst e)), o + zlen (encode (fst e)) + zlen (encode (snd e)))) /\
  chained 0 (map (fun q => (fst (fst (fst q)), snd q)) (spans_pairs es off)) off
            (off + zlen (flat_map (fun e => encode (fst e) ++ encode (snd e)) es)).
Proof. exact spans_pairs_children. Qed.
Print Assumptions C01_children_spans_pairs.

(* listing and keyed lookup agree on the span of the element a key addresses *)
Theorem C01_listing_agrees_with_field_lookup : forall fs off id sub o, find_field id fs off = LFound sub o ->
  In (id, type_of sub, o, o + zlen (encode sub)) (spans_fields fs off).
Proof. exact spans_fields_lookup. Qed.
Print Assumptions C01_listing_agrees_with_field_lookup.

Theorem C01_listing_agrees_with_key_lookup : forall pr es off sub o, find_key pr es off = LFound sub o ->
  exists ks, In (ks, type_of sub, o, o + zlen (encode sub)) (spans_pairs es off).
Proof. exact spans_pairs_lookup. Qed.
Print Assumptions C01_listing_agrees_with_key_lookup.

Theorem C01_children_cover : forall v,
  match v with
  | VStruct fs => chained 3 (map (fun q => (snd (fst q), snd q)) (spans_fields fs 0)) 0 (zlen (encode v) - 1)
  | VList _ es => chained 0 (map (fun q => (snd (fst q), snd q)) (spans_elems es 5)) 5 (zlen (encode v))
  | VSet _ es => chained 0 (map (fun q => (snd (fst q), snd q)) (spans_elems es 5)) 5 (zlen (encode v))
  | VMap _ _ es => chained 0 (map (fun q => (fst (fst (fst q)), snd q)) (spans_pairs es 6)) 6 (zlen (encode v))
  | _ => True
  end.
Proof. exact children_cover. Qed.
Print Assumptions C01_children_cover.

(* ---- non-vacuity: a 3-level struct / list / map value with a double-keyed map and an id-300 field ---- *)
Definition ex_dkey : tval := VDouble 4607182418800017408.        (* 1.0 *)
Definition ex_v : tval :=
  VStruct [ (300, VList T_STRUCT [ VStruct [ (1, VMap T_DOUBLE T_STRING [ (ex_dkey, VString [97; 98]) ]) ]; VStruct [] ]);
            (1, VI32 (-5));
            (2, VMap T_STRING T_I64 [ (VString [107], VI64 7) ]);
            (32767, VSet T_BYTE []) ].

Example ex_v_wf : wf ex_v = true. Proof. vm_compute. reflexivity. Qed.
Example ex_v_depth : (depth ex_v <= max_skip_depth)%nat. Proof. unfold max_skip_depth. cbn. lia. Qed.
Example ex_found : lookup ex_v 0 [PField 300; PIndex 0; PField 1; PBinKey (encode ex_dkey)] = LFound (VString [97; 98]) 25.
Proof. vm_compute. reflexivity. Qed.
Example ex_found_bytes : get_by_path T_STRUCT (encode ex_v) 0 [PField 300; PIndex 0; PField 1; PBinKey (encode ex_dkey)] = GFound T_STRING 25 31.
Proof. vm_compute. reflexivity. Qed.
Example ex_notfound_last : lookup ex_v 0 [PField 2; PStrKey [120]] = LNotFound. Proof. vm_compute. reflexivity. Qed.
Example ex_notfound_inner : lookup ex_v 0 [PField 300; PIndex 2; PField 1] = LNotFound. Proof. vm_compute. reflexivity. Qed.
Example ex_err_kind : lookup ex_v 0 [PField 1; PIndex 0] = LErr. Proof. vm_compute. reflexivity. Qed.
Example ex_err_negative : lookup ex_v 0 [PField 300; PIndex (-1)] = LErr. Proof. vm_compute. reflexivity. Qed.
Example ex_empty_container : lookup ex_v 0 [PField 32767; PIndex 0] = LNotFound. Proof. vm_compute. reflexivity. Qed.
