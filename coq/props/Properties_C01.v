(* C01 — placeholder until the refinement theorems are stated (see below in later commits). *)
From Coq Require Import ZArith List Bool Lia.
From DG Require Import ProtoWireRef ThriftWire ThriftWireProofs.
Import ListNotations.
Local Open Scope Z_scope.

Theorem C01_independent_decoder_roundtrip :
  forall v, wf v = true -> forall d r, (depth v <= d)%nat -> decode d (type_of v) (encode v ++ r) = Some (v, r).
Proof. exact decode_encode. Qed.
Print Assumptions C01_independent_decoder_roundtrip.

Theorem C01_skip_exact :
  forall v, wf v = true -> forall d r, (depth v <= d)%nat -> skip d (type_of v) (encode v ++ r) = Some r.
Proof. exact skip_encode. Qed.
Print Assumptions C01_skip_exact.
