(* C01 — Thrift reads return exactly what the bytes encode.
   Statements only; proofs are in proofs/ThriftWireProofs.v and proofs/ThriftGenericProofs.v.
   Reading guide: [lookup] (model/ThriftGeneric.v) is the AST-level meaning of a path (the "independent
   decoder" view: decode, then walk the tree); [get_by_path] is the byte-level algorithm of
   thrift/generic/node.go (searchFieldId / searchIndex / searchStrKey / searchIntKey / searchBinKey:
   chained skip over the buffer, final skip + slice). *)
From Coq Require Import ZArith List Bool Lia.
From DG Require Import ProtoWireRef CaseFormat ThriftWire ThriftWireProofs ThriftGeneric ThriftGenericProofs.
From DG Require Import ThriftTyped ThriftTypedProofs ThriftGenericW Check01b ThriftReadOpts ThriftOptionsProofs.
Import ListNotations.
Local Open Scope Z_scope.

Theorem C01_independent_decoder_roundtrip :
  forall v, wf v = true -> forall d r, (depth v <= d)%nat -> decode d (type_of v) (encode v ++ r) = Some (v, r).
Proof. exact decode_encode. Qed.
Print Assumptions C01_independent_decoder_roundtrip.

Theorem C01_skip_exact :
  forall v, wf v = true -> forall d r, (depth v <= d)%nat -> skip d (type_of v) (encode v ++ r) = Some r.
Proof. exact skip_encode. Qed.
Print Assumptions C01_skip_exact.

(* The byte-level search finds exactly what the AST-level lookup finds: same type, same start, end =
   start + encoded length; NotFound exactly when the lookup says NotFound (absent field / key / index
   >= size of a container the prefix reaches, at any level); Err exactly when the lookup says Err (step
   kind does not fit the value, negative index, key kind does not fit the key type). For every
   well-formed value within the skip depth limit, every path, any trailing bytes r, any base offset. *)
Theorem C01_get_by_path_refines_lookup : forall p v r off,
  wf v = true -> (depth v <= max_skip_depth)%nat ->
  get_by_path (type_of v) (encode v ++ r) off p =
    match lookup v off p with
    | LFound sub o => GFound (type_of sub) o (o + zlen (encode sub))
    | LNotFound => GNotFound
    | LErr => GErr
    end.
Proof. exact get_by_path_refines_lookup. Qed.
Print Assumptions C01_get_by_path_refines_lookup.

(* one theorem per search function (the lemmas the main theorem is assembled from) *)
Theorem C01_search_step_refines : forall v s r, wf v = true -> (depth v <= max_skip_depth)%nat ->
  match lookup1 v s with
  | LFound sub o => exists r', search1 (type_of v) s (encode v ++ r) = SFound (type_of sub) o (encode sub ++ r')
  | LNotFound => search1 (type_of v) s (encode v ++ r) = SNotFound
  | LErr => search1 (type_of v) s (encode v ++ r) = SErr
  end.
Proof. intros v s r Hw Hd. exact (search1_refines v s r (conj Hw Hd)). Qed.
Print Assumptions C01_search_step_refines.

(* same byte span: the bytes [off, off + |encode sub|) of the root ARE the encoding of the sub-value *)
Theorem C01_found_span_is_encoding : forall v p sub off, lookup v 0 p = LFound sub off ->
  0 <= off /\ off + zlen (encode sub) <= zlen (encode v) /\
  firstn (length (encode sub)) (skipn (Z.to_nat off) (encode v)) = encode sub.
Proof. exact found_span_is_encoding. Qed.
Print Assumptions C01_found_span_is_encoding.

(* same value: decoding the span with the independent decoder yields the sub-value *)
Theorem C01_found_span_decodes : forall v p sub off, wf v = true -> (depth v <= max_skip_depth)%nat ->
  lookup v 0 p = LFound sub off ->
  decode (depth sub) (type_of sub) (firstn (length (encode sub)) (skipn (Z.to_nat off) (encode v))) = Some (sub, []).
Proof. exact found_span_decodes. Qed.
Print Assumptions C01_found_span_decodes.

(* children listings (Children / iterators): exactly the children, in wire order, each with the span the
   indexed lookup gives, consecutive spans, covering the container body *)
Theorem C01_children_spans_elems : forall es off,
  map (fun q => fst (fst q)) (spans_elems es off) = map type_of es /\
  (forall n x, nth_error es n = Some x ->
     exists o, find_index n es off = LFound x o /\ nth_error (spans_elems es off) n = Some (type_of x, o, o + zlen (encode x))) /\
  chained 0 (map (fun q => (snd (fst q), snd q)) (spans_elems es off)) off (off + zlen (flat_map encode es)).
Proof. exact spans_elems_children. Qed.
Print Assumptions C01_children_spans_elems.

Theorem C01_children_spans_fields : forall fs off,
  map (fun q => (fst (fst (fst q)), snd (fst (fst q)))) (spans_fields fs off) = map (fun f => (fst f, type_of (snd f))) fs /\
  (forall n f, nth_error fs n = Some f ->
     nth_error (spans_fields fs off) n =
       Some (fst f, type_of (snd f),
             off + zlen (flat_map (fun f => type_of (snd f) :: enc_int 2 (fst f) ++ encode (snd f)) (firstn n fs)) + 3,
             off + zlen (flat_map (fun f => type_of (snd f) :: enc_int 2 (fst f) ++ encode (snd f)) (firstn n fs)) + 3 + zlen (encode (snd f)))) /\
  chained 3 (map (fun q => (snd (fst q), snd q)) (spans_fields fs off)) off
            (off + zlen (flat_map (fun f => type_of (snd f) :: enc_int 2 (fst f) ++ encode (snd f)) fs)).
Proof. exact spans_fields_children. Qed.
Print Assumptions C01_children_spans_fields.

Theorem C01_children_spans_pairs : forall es off,
  map (fun q => snd (fst (fst q))) (spans_pairs es off) = map (fun e => type_of (snd e)) es /\
  (forall n e, nth_error es n = Some e ->
     let o := off + zlen (flat_map (fun e => encode (fst e) ++ encode (snd e)) (firstn n es)) in
     nth_error (spans_pairs es off) n =
       Some (o, type_of (snd e), o + zlen (encode (fst e)), o + zlen (encode (fst e)) + zlen (encode (snd e)))) /\
  chained 0 (map (fun q => (fst (fst (fst q)), snd q)) (spans_pairs es off)) off
            (off + zlen (flat_map (fun e => encode (fst e) ++ encode (snd e)) es)).
Proof. exact spans_pairs_children. Qed.
Print Assumptions C01_children_spans_pairs.

(* listing and keyed lookup agree on the span of the element a key addresses *)
Theorem C01_listing_agrees_with_field_lookup : forall fs off id sub o, find_field id fs off = LFound sub o ->
  In (id, type_of sub, o, o + zlen (encode sub)) (spans_fields fs off).
Proof. exact spans_fields_lookup. Qed.
Print Assumptions C01_listing_agrees_with_field_lookup.

Theorem C01_listing_agrees_with_key_lookup : forall pr es off sub o, find_key pr es off = LFound sub o ->
  exists ks, In (ks, type_of sub, o, o + zlen (encode sub)) (spans_pairs es off).
Proof. exact spans_pairs_lookup. Qed.
Print Assumptions C01_listing_agrees_with_key_lookup.

Theorem C01_children_cover : forall v,
  match v with
  | VStruct fs => chained 3 (map (fun q => (snd (fst q), snd q)) (spans_fields fs 0)) 0 (zlen (encode v) - 1)
  | VList _ es => chained 0 (map (fun q => (snd (fst q), snd q)) (spans_elems es 5)) 5 (zlen (encode v))
  | VSet _ es => chained 0 (map (fun q => (snd (fst q), snd q)) (spans_elems es 5)) 5 (zlen (encode v))
  | VMap _ _ es => chained 0 (map (fun q => (fst (fst (fst q)), snd q)) (spans_pairs es 6)) 6 (zlen (encode v))
  | _ => True
  end.
Proof. exact children_cover. Qed.
Print Assumptions C01_children_cover.

(* ---- non-vacuity: a 3-level struct / list / map value with a double-keyed map and an id-300 field ---- *)
Definition ex_dkey : tval := VDouble 4607182418800017408.        (* 1.0 *)
Definition ex_v : tval :=
  VStruct [ (300, VList T_STRUCT [ VStruct [ (1, VMap T_DOUBLE T_STRING [ (ex_dkey, VString [97; 98]) ]) ]; VStruct [] ]);
            (1, VI32 (-5));
            (2, VMap T_STRING T_I64 [ (VString [107], VI64 7) ]);
            (32767, VSet T_BYTE []) ].

Example ex_v_wf : wf ex_v = true. Proof. vm_compute. reflexivity. Qed.
Example ex_v_depth : (depth ex_v <= max_skip_depth)%nat. Proof. unfold max_skip_depth. cbn. lia. Qed.
Example ex_found : lookup ex_v 0 [PField 300; PIndex 0; PField 1; PBinKey (encode ex_dkey)] = LFound (VString [97; 98]) 25.
Proof. vm_compute. reflexivity. Qed.
Example ex_found_bytes : get_by_path T_STRUCT (encode ex_v) 0 [PField 300; PIndex 0; PField 1; PBinKey (encode ex_dkey)] = GFound T_STRING 25 31.
Proof. vm_compute. reflexivity. Qed.
Example ex_notfound_last : lookup ex_v 0 [PField 2; PStrKey [120]] = LNotFound. Proof. vm_compute. reflexivity. Qed.
Example ex_notfound_inner : lookup ex_v 0 [PField 300; PIndex 2; PField 1] = LNotFound. Proof. vm_compute. reflexivity. Qed.
Example ex_err_kind : lookup ex_v 0 [PField 1; PIndex 0] = LErr. Proof. vm_compute. reflexivity. Qed.
Example ex_err_negative : lookup ex_v 0 [PField 300; PIndex (-1)] = LErr. Proof. vm_compute. reflexivity. Qed.
Example ex_empty_container : lookup ex_v 0 [PField 32767; PIndex 0] = LNotFound. Proof. vm_compute. reflexivity. Qed.

(* ================= typed (descriptor-carrying) access agrees with untyped access =================
   [vget_by_path] (model/ThriftTyped.v) is Value.GetByPath of thrift/generic/value.go as coded: per step the path kind must
   fit the wire type and the descriptor type, a field must be defined in the IDL (looked up by id, or by NAME through the
   struct descriptor's name table), the child descriptor is carried down, the final skip uses the descriptor's type.
   [resolve d p] is the name-free path p denotes (names replaced by the ids the descriptor gives them) as far as the
   descriptor resolves it; [typed_spec] says: same result as the untyped access on the resolved path; where the path stops
   resolving (unknown field id / name, kind that does not fit the descriptor) an error — unless the untyped access of the
   resolved prefix already failed, then that failure. For every wf value that conforms to the descriptor. *)
Theorem C01_typed_untyped_agree : forall p d v r off,
  wf v = true -> (depth v <= max_skip_depth)%nat -> desc_ok d = true -> conforms d v = true ->
  vget_by_path d (type_of v) (encode v ++ r) off p =
  typed_spec (resolve d p) (get_by_path (type_of v) (encode v ++ r) off).
Proof. exact typed_untyped_agree. Qed.
Print Assumptions C01_typed_untyped_agree.

(* completely resolved path: exactly the untyped result, which is the image of the AST-level lookup *)
Theorem C01_typed_refines_lookup : forall p d v r off q,
  wf v = true -> (depth v <= max_skip_depth)%nat -> desc_ok d = true -> conforms d v = true -> resolve d p = (q, true) ->
  vget_by_path d (type_of v) (encode v ++ r) off p =
    match lookup v off q with
    | LFound sub o => GFound (type_of sub) o (o + zlen (encode sub))
    | LNotFound => GNotFound
    | LErr => GErr
    end.
Proof. exact typed_refines_lookup. Qed.
Print Assumptions C01_typed_refines_lookup.

(* lookup by field NAME: a declared name behaves exactly as its id; an undeclared name is an error *)
Theorem C01_name_lookup_iff_declared : forall nm dfs v r off,
  wf v = true -> (depth v <= max_skip_depth)%nat -> desc_ok (DStruct dfs) = true -> conforms (DStruct dfs) v = true ->
  vget_by_path (DStruct dfs) (type_of v) (encode v ++ r) off [TName nm] =
  match fby_name nm dfs with
  | Some (id, _) => get_by_path (type_of v) (encode v ++ r) off [PField id]
  | None => GErr
  end.
Proof. exact name_lookup_iff_declared. Qed.
Print Assumptions C01_name_lookup_iff_declared.

Theorem C01_field_by_name_agree : forall nm d v r off,
  wf v = true -> (depth v <= max_skip_depth)%nat -> desc_ok d = true -> conforms d v = true ->
  vfield_by_name d (type_of v) (encode v ++ r) off nm = vget_by_path d (type_of v) (encode v ++ r) off [TName nm].
Proof. exact vfield_by_name_agree. Qed.
Print Assumptions C01_field_by_name_agree.

(* Value.Field / Index / GetByStr / GetByInt on a declared child = the one-step typed path *)
Theorem C01_typed_single_step_agree : forall s d v r off us d',
  wf v = true -> (depth v <= max_skip_depth)%nat -> desc_ok d = true -> conforms d v = true ->
  (forall nm, s <> TName nm) -> step_desc d s = Some (us, d') ->
  vsingle d (type_of v) (encode v ++ r) off s = vget_by_path d (type_of v) (encode v ++ r) off [s].
Proof. exact vsingle_agree. Qed.
Print Assumptions C01_typed_single_step_agree.

(* the descriptor attached to a typed result is the descriptor of the element found (its type is the element's type) *)
Theorem C01_attached_descriptor : forall p d v off q sub o,
  desc_ok d = true -> conforms d v = true -> resolve d p = (q, true) -> lookup v off q = LFound sub o ->
  exists d', vdesc_by_path d p = Some d' /\ conforms d' sub = true /\ desc_type d' = type_of sub.
Proof. exact vdesc_conforms. Qed.
Print Assumptions C01_attached_descriptor.

(* ================= options =================
   The read APIs consult: UseNativeSkip (Options) and UseNativeSkipForGet (global) — which skip implementation walks over
   non-matching elements; ClearDirtyValues — whether a bulk lookup first empties the caller's result slots; MapStructById and
   CastStringAsBinary — presentation of Interface() results; IterateStructByName — the Path kind handed to Value.Foreach's
   callback (compared by check 104); DisallowUnknow — an extra error in Value.Foreach. *)

(* the search with SkipGo plugged in is the model all other theorems and the checks are about *)
Theorem C01_param_model_is_model : forall p t bs off, get_by_path_w skip_go t bs off p = get_by_path t bs off p.
Proof. exact get_by_path_w_skip_go. Qed.
Print Assumptions C01_param_model_is_model.

(* with ANY skip implementation that honours the skip contract the search returns the image of the lookup ... *)
Theorem C01_get_by_path_any_skip : forall skp,
  (forall x r, wf x = true /\ (depth x <= max_skip_depth)%nat -> skp (type_of x) (encode x ++ r) = Some r) ->
  forall p v r off, wf v = true -> (depth v <= max_skip_depth)%nat ->
  get_by_path_w skp (type_of v) (encode v ++ r) off p = gres_of_lres (lookup v off p).
Proof. exact get_by_path_refines_lookup_w. Qed.
Print Assumptions C01_get_by_path_any_skip.

(* ... hence UseNativeSkip / UseNativeSkipForGet are irrelevant for the result *)
Theorem C01_options_irrelevant_skip : forall skp1 skp2,
  (forall x r, wf x = true /\ (depth x <= max_skip_depth)%nat -> skp1 (type_of x) (encode x ++ r) = Some r) ->
  (forall x r, wf x = true /\ (depth x <= max_skip_depth)%nat -> skp2 (type_of x) (encode x ++ r) = Some r) ->
  forall p v r off, wf v = true -> (depth v <= max_skip_depth)%nat ->
  get_by_path_w skp1 (type_of v) (encode v ++ r) off p = get_by_path_w skp2 (type_of v) (encode v ++ r) off p.
Proof. exact skip_choice_irrelevant. Qed.
Print Assumptions C01_options_irrelevant_skip.

(* ClearDirtyValues: irrelevant for clean result slots; when set, stale slots never show; bulk = map of single lookups *)
Theorem C01_options_irrelevant_clear : forall v q, Forall (fun x => snd x = None) q -> bulk_get true v q = bulk_get false v q.
Proof. exact bulk_get_clear_irrelevant. Qed.
Print Assumptions C01_options_irrelevant_clear.

Theorem C01_clear_dirty_fresh : forall v q, bulk_get true v q = bulk_get true v (map (fun x => (fst x, None)) q).
Proof. exact bulk_get_clear_fresh. Qed.
Print Assumptions C01_clear_dirty_fresh.

(* MapStructById / CastStringAsBinary: the dump check 105 compares is the serialisation of the Go-value AST, and the two
   options change nothing but the documented presentation (string vs []byte, int vs FieldID keys) *)
Theorem C01_dump_is_serialised_go_value : forall obin obyid v, gdump obin obyid v = ser (to_ival obin obyid v).
Proof. exact gdump_ser. Qed.
Print Assumptions C01_dump_is_serialised_go_value.

Theorem C01_options_presentation_only : forall obin obyid v, forget (to_ival obin obyid v) = to_ival false false v.
Proof. exact presentation_options_only. Qed.
Print Assumptions C01_options_presentation_only.

(* ---- non-vacuity: a descriptor for ex_v with names, a typed path by names through list / struct / double-keyed map ---- *)
Definition ex_d : tdesc :=
  DStruct [ (300, [108], DList (DStruct [ (1, [109], DMap (DScalar T_DOUBLE) (DScalar T_STRING)); (2, [120], DScalar T_I32) ]));
            (1, [97], DScalar T_I32);
            (2, [98], DMap (DScalar T_STRING) (DScalar T_I64));
            (32767, [122], DSet (DScalar T_BYTE));
            (5, [117], DScalar T_BOOL) ].                     (* declared, absent in ex_v *)
Example ex_d_ok : desc_ok ex_d = true. Proof. vm_compute. reflexivity. Qed.
Example ex_conforms : conforms ex_d ex_v = true. Proof. vm_compute. reflexivity. Qed.
Example ex_typed_by_name :
  vget_by_path ex_d T_STRUCT (encode ex_v) 0 [TName [108]; TIndex 0; TName [109]; TBinKey (encode ex_dkey)] = GFound T_STRING 25 31.
Proof. vm_compute. reflexivity. Qed.
Example ex_resolve : resolve ex_d [TName [108]; TIndex 0; TName [109]; TBinKey (encode ex_dkey)] =
  ([PField 300; PIndex 0; PField 1; PBinKey (encode ex_dkey)], true).
Proof. vm_compute. reflexivity. Qed.
Example ex_unknown_name : vget_by_path ex_d T_STRUCT (encode ex_v) 0 [TName [113]] = GErr. Proof. vm_compute. reflexivity. Qed.
Example ex_declared_absent : vget_by_path ex_d T_STRUCT (encode ex_v) 0 [TName [117]] = GNotFound. Proof. vm_compute. reflexivity. Qed.
Example ex_unknown_after_absent : vget_by_path ex_d T_STRUCT (encode ex_v) 0 [TName [108]; TIndex 7; TName [113]] = GNotFound.
Proof. vm_compute. reflexivity. Qed.
Example ex_ival : forget (to_ival true true ex_v) = to_ival false false ex_v. Proof. vm_compute. reflexivity. Qed.

(* raw map keys: only a complete key encoding addresses an entry (cut / empty / over-long / wrong-width bytes: not found) *)
Theorem C01_bin_key_not_a_key_not_found : forall kt vt es b p r off,
  wf (VMap kt vt es) = true -> (depth (VMap kt vt es) <= max_skip_depth)%nat ->
  (forall e, In e es -> encode (fst e) <> b) ->
  get_by_path T_MAP (encode (VMap kt vt es) ++ r) off (PBinKey b :: p) = GNotFound.
Proof. exact bin_key_not_a_key_not_found. Qed.
Print Assumptions C01_bin_key_not_a_key_not_found.

Theorem C01_bin_key_wrong_width_not_found : forall kt vt es b p r off,
  wf (VMap kt vt es) = true -> (depth (VMap kt vt es) <= max_skip_depth)%nat ->
  fixed_size kt >? 0 = true -> zlen b <> fixed_size kt ->
  get_by_path T_MAP (encode (VMap kt vt es) ++ r) off (PBinKey b :: p) = GNotFound.
Proof. exact bin_key_wrong_width_not_found. Qed.
Print Assumptions C01_bin_key_wrong_width_not_found.

Example ex_cut_double_key :
  get_by_path T_MAP (encode (VMap T_DOUBLE T_STRING [(ex_dkey, VString [97; 98])])) 0 [PBinKey (firstn 4 (encode ex_dkey))] = GNotFound.
Proof. vm_compute. reflexivity. Qed.
Example ex_key_plus_entry_bytes :
  get_by_path T_MAP (encode (VMap T_DOUBLE T_STRING [(ex_dkey, VString [97; 98])])) 0 [PBinKey (encode ex_dkey ++ [0; 0])] = GNotFound.
Proof. vm_compute. reflexivity. Qed.

(* ================================================================== (G) the skipping primitives from the Go source *)
(* thrift/binary_skip.go skipn / skipstr / next_nopanic - the primitives every SkipGo step is made of - are translated from the Go text
   on every build (gen/Gen_thrift.v).  tskip_gen runs the generated definition on (buffer, cursor), tskip_model runs ThriftWire's
   drop / skipstr on the bytes from the cursor on (Check20h.v); both answer (succeeded, cursor afterwards). *)
From DG Require GoSem Gen_thrift Check20h GenProtoskipProofs GenThriftskipProofs.

Theorem C01_skipn_from_source :
  forall buf rd n, GenProtoskipProofs.in_buf buf rd -> 0 <= n < 2 ^ 62 ->
  fst (Check20h.tskip_gen 0 buf rd n) = Check20h.tskip_model 0 buf rd n.
Proof. exact GenThriftskipProofs.skipn_is_drop. Qed.
Print Assumptions C01_skipn_from_source.

Theorem C01_skipstr_from_source :
  forall buf rd, bytes_ok buf -> GenProtoskipProofs.in_buf buf rd -> GoSem.blen buf < 2 ^ 31 ->
  fst (Check20h.tskip_gen 1 buf rd 0) = Check20h.tskip_model 1 buf rd 0.
Proof. exact GenThriftskipProofs.skipstr_is_skipstr. Qed.
Print Assumptions C01_skipstr_from_source.

Theorem C01_next_nopanic_from_source :
  forall buf rd n, GenProtoskipProofs.in_buf buf rd -> 0 <= n < 2 ^ 62 ->
  Gen_thrift.BinaryProtocol_next_nopanic buf rd n =
    if rd + n >? GoSem.blen buf then ([], GoSem.Err_io_EOF, buf, rd) else (GoSem.slice_range buf rd (rd + n), 0, buf, rd + n).
Proof. exact GenThriftskipProofs.next_nopanic_is_take. Qed.
Print Assumptions C01_next_nopanic_from_source.

(* the amount ThriftWire.skip drops for a container of fixed-size elements (sz * es, sz * (ks + vs)) is the amount SkipGo's fast paths
   hand to skipn in the source (gen/Gen_thriftskipfast.v) *)
From DG Require Gen_thriftskipfast.
Theorem C01_SkipGo_fast_paths_from_source :
  (forall vt sz, 0 <= vt < 256 -> 0 <= sz < 2 ^ 31 ->
     Gen_thriftskipfast.SkipGo_list_fast vt sz = (Gen_thriftskipfast.Out_return, [(Gen_thriftskipfast.Eff_skipn, [sz * fixed_size vt])])) /\
  (forall kt vt sz, 0 <= kt < 256 -> 0 <= vt < 256 -> 0 <= sz < 2 ^ 31 ->
     Gen_thriftskipfast.SkipGo_map_fast sz (Gen_thriftskipfast.typeSize kt) (Gen_thriftskipfast.typeSize vt)
       = (Gen_thriftskipfast.Out_return, [(Gen_thriftskipfast.Eff_skipn, [sz * (fixed_size kt + fixed_size vt)])])).
Proof. exact GenThriftskipProofs.SkipGo_fast_paths_exact. Qed.
Print Assumptions C01_SkipGo_fast_paths_from_source.
