(* C12 — shared descriptors / buffers are safe for concurrent use; results are not aliased.
   PROVED here: the pool discipline (model/Pool.v) — for ALL histories, i.e. all interleavings at operation granularity of
   any number of calls, successful and failing, built from the disciplined operations (in particular all interleavings of
   calls that follow the scripts read off the code, `api_scripts`).
   NOT provable in Gallina (partial, DESIGN §5 C12): data races proper and real pointer aliasing; those are explored at run
   time by harness/c12.go under the race detector (tools/props/C12_hook.py). *)
From Coq Require Import ZArith List Bool Arith Lia.
From DG Require Import Pool PoolProofs CaseFormat Check12.
Import ListNotations.

(* (1) no_alias_inv: after any history, a buffer reachable from a returned result (or from a caller's input / a
   descriptor: everything in `owned`) is not in the free pool and is no call's working buffer. Invariant by induction over
   the history (run = fold_left step). *)
Theorem C12_no_alias_inv :
  forall st0 h, Inv st0 -> Forall disciplined h ->
  forall b, In b (owned (run st0 h)) -> ~ In b (pool (run st0 h)) /\ (forall c s, work (run st0 h) c s <> Some b).
Proof. intros st0 h I F b Hb. apply inv_no_alias; [apply run_inv; assumption | assumption]. Qed.
Print Assumptions C12_no_alias_inv.

(* ... and it is never written by a later operation: no later operation has it in its write set, it stays owned and its
   content (logical bytes and the bytes behind them) stays what it was when it was handed out *)
Theorem C12_result_never_written :
  forall st0 h1 h2, Inv st0 -> Forall disciplined (h1 ++ h2) ->
  forall b, In b (owned (run st0 h1)) ->
  In b (owned (run st0 (h1 ++ h2))) /\ mem (run st0 (h1 ++ h2)) b = mem (run st0 h1) b /\
  (forall o h2', h2 = o :: h2' -> ~ In b (writes (run st0 h1) o)).
Proof.
  intros st0 h1 h2 I F b Hb. apply Forall_app in F. destruct F as [F1 F2].
  pose proof (run_inv h1 st0 I F1) as I1. rewrite run_app.
  destruct (owned_stable h2 (run st0 h1) I1 F2 b Hb) as [Ho Hm].
  split; [assumption|]. split; [assumption|].
  intros o h2' E. subst. inversion F2; subst. apply owned_not_written; assumption.
Qed.
Print Assumptions C12_result_never_written.

(* (2) get_is_reset: whatever happened before (any disciplined history, incl. failing calls that leaked or freed), a
   buffer obtained from Get — from the pool or fresh — has logical length 0 *)
Theorem C12_get_is_reset :
  forall st0 h c s k dirty, Inv st0 -> Forall disciplined h ->
  exists b, work (step (run st0 h) (Get c s k dirty)) c s = Some b /\ logical (mem (step (run st0 h) (Get c s k dirty)) b) = [].
Proof. intros. apply get_any_is_reset. apply run_inv; assumption. Qed.
Print Assumptions C12_get_is_reset.

Theorem C12_pooled_buffers_are_reset :
  forall st0 h, Inv st0 -> Forall disciplined h -> forall b, In b (pool (run st0 h)) -> logical (mem (run st0 h) b) = [].
Proof. intros st0 h I F. apply inv_pool_reset. apply run_inv; assumption. Qed.
Print Assumptions C12_pooled_buffers_are_reset.

(* ... and results never depend on dirty content: what call c observes and returns in any disciplined interleaving is
   `pure_result`, a function of c's own operations with the pool choices and the junk erased *)
Theorem C12_results_pure :
  forall h c, Forall disciplined h -> obs_of c (run init h) = pure_result c (proj c h).
Proof. exact results_pure_lemma. Qed.
Print Assumptions C12_results_pure.

(* "each call returns the same result as when run alone" (model level) *)
Theorem C12_same_as_alone :
  forall h c, Forall disciplined h -> obs_of c (run init h) = obs_of c (run init (proj c h)).
Proof. exact same_as_alone_lemma. Qed.
Print Assumptions C12_same_as_alone.

(* instance: the pooled RequiresBitmap of one struct level (t2j impl.go:91-92,117,177-181; "memory from pool maybe dirty",
   utils.go:93). Whatever history came before, whichever pool element is handed out and whatever junk it holds, the level
   reads exactly the descriptor's bits with its own Set applied. *)
Theorem C12_bitmap_dirty_irrelevant :
  forall h c k dirty bits i v, Forall disciplined h -> (forall o, In o h -> call_of o <> c) ->
  obs_of c (run init (h ++ [Get c 2 k dirty; Overwrite c 2 bits; Update c 2 i v; Read c 2; Put c 2])) = [set_nth i v bits].
Proof.
  intros h c k dirty bits i v F Hc.
  rewrite results_pure_lemma.
  - assert (P : proj c h = []).
    { clear F. induction h as [|o h IH]; [reflexivity|]. simpl.
      destruct (call_of o =? c) eqn:E; [apply Nat.eqb_eq in E; exfalso; apply (Hc o); [left; reflexivity | exact E]|].
      apply IH. intros o' Ho'. apply Hc. right. exact Ho'. }
    unfold proj in *. rewrite filter_app, P. simpl. rewrite !Nat.eqb_refl. simpl.
    unfold pure_result, pobs_of. simpl. unfold upd_pw, key_eqb. simpl.
    repeat (rewrite Nat.eqb_refl; simpl). reflexivity.
  - apply Forall_app. split; [assumption|]. repeat constructor.
Qed.
Print Assumptions C12_bitmap_dirty_irrelevant.

(* the scripts read off the code (Pool.v table) contain only disciplined operations, hence every interleaving of any number
   of calls following them — each call possibly still running, failing branches included — enjoys (1) and (2) *)
Theorem C12_api_scripts_disciplined : scripts_ok api_scripts = true.
Proof. reflexivity. Qed.
Print Assumptions C12_api_scripts_disciplined.

Theorem C12_api_histories_safe :
  forall h, follows api_scripts h ->
  (forall b, In b (owned (run init h)) -> ~ In b (pool (run init h)) /\ (forall c s, work (run init h) c s <> Some b)) /\
  (forall c, obs_of c (run init h) = obs_of c (run init (proj c h))) /\
  (forall h1 h2 b, h = h1 ++ h2 -> In b (owned (run init h1)) -> mem (run init h) b = mem (run init h1) b).
Proof.
  intros h Fo. pose proof (follows_disciplined _ _ C12_api_scripts_disciplined Fo) as F.
  split; [|split].
  - intros b Hb. apply (C12_no_alias_inv init h inv_init F b Hb).
  - intros c. apply same_as_alone_lemma. assumption.
  - intros h1 h2 b E Hb. subst. destruct (C12_result_never_written init h1 h2 inv_init F b Hb) as [_ [Hm _]]. exact Hm.
Qed.
Print Assumptions C12_api_histories_safe.

(* (4) reads_pure: the caller's input bytes and the descriptors' own storage are buffers owned from the start; no
   disciplined history changes them, and a Read returns exactly the bytes that are there and changes nothing *)
Theorem C12_reads_pure :
  forall st0 h, Inv st0 -> Forall disciplined h -> forall b, In b (owned st0) -> mem (run st0 h) b = mem st0 b.
Proof. intros st0 h I F b Hb. destruct (owned_stable h st0 I F b Hb) as [_ Hm]. exact Hm. Qed.
Print Assumptions C12_reads_pure.

Theorem C12_read_op_pure :
  forall st c s, mem (step st (Read c s)) = mem st /\ pool (step st (Read c s)) = pool st /\ owned (step st (Read c s)) = owned st /\
  (forall b, work st c s = Some b -> obs (step st (Read c s)) = (c, logical (mem st b)) :: obs st).
Proof.
  intros st c s. simpl. destruct (work st c s) as [b|] eqn:W; simpl; repeat split; intros b' H; try discriminate.
  inversion H; subst. reflexivity.
Qed.
Print Assumptions C12_read_op_pure.

(* ---------------------------------------------------------------------------------------------------------------------
   (3) non-vacuity: the invariant is NOT a consequence of the machine alone. Each buggy operation refutes it. *)

(* t2j.Do without the copy: result aliases the pooled buffer *)
Definition h_return_direct : list op :=
  [Get 1 0 None []; Append 1 0 [1; 2; 3]%Z; ReturnDirect 1 0; Put 1 0; Get 2 0 (Some 0) [7]%Z; Append 2 0 [9; 9]%Z].

Lemma follows_small : forall scripts h (n : nat),
  (forall c, c <= n -> follows1 scripts (proj c h)) -> (forall c, n < c -> proj c h = []) -> In [] scripts \/ scripts <> [] -> follows scripts h.
Proof.
  intros scripts h n H1 H2 H3 c. destruct (le_lt_dec c n) as [L|L]; [apply H1; assumption|].
  rewrite (H2 c L). destruct scripts as [|sc rest]; [destruct H3 as [[]|H3]; congruence|].
  exists sc. split; [left; reflexivity | reflexivity].
Qed.

Example return_direct_refuted :
  follows [buggy_return_direct] h_return_direct /\
  (let st := run init (firstn 4 h_return_direct) in In 0 (owned st) /\ In 0 (pool st)) /\
  (let st := run init h_return_direct in
   In 0 (owned st) /\ work st 2 0 = Some 0 /\ obs_of 1 st = [[1; 2; 3]%Z] /\ logical (mem st 0) = [9; 9]%Z).
Proof.
  split; [|vm_compute; repeat split; auto].
  apply (follows_small _ _ 2); [| |right; discriminate].
  - intros c Hc. exists buggy_return_direct. split; [left; reflexivity|].
    destruct c as [|[|[|c]]]; [reflexivity | reflexivity | reflexivity | lia].
  - intros c Hc. destruct c as [|[|[|c]]]; try lia. reflexivity.
Qed.

(* "fixing" the j2p leak by freeing the inner protocol before the result is taken from it: one array in two pools, the next
   call's working buffer is at the same time in the free pool *)
Definition h_j2p_leak_fix : list op :=
  [Get 1 0 None []; Get 1 3 None []; Get 1 1 None []; Append 1 1 [8; 1]%Z; Put 1 3; PutKeep 1 1; Move 1 0 1; CopyOut 1 0; Put 1 0].

Example j2p_leak_fix_refuted :
  (forall c, follows1 [buggy_j2p_leak_fix] (proj c h_j2p_leak_fix) \/ proj c h_j2p_leak_fix = []) /\
  (let st := run init h_j2p_leak_fix in ~ NoDup (pool st)) /\
  (let st := run init (h_j2p_leak_fix ++ [Get 2 0 (Some 0) []; Get 3 0 (Some 0) []]) in
   work st 2 0 = work st 3 0 /\ work st 2 0 <> None).
Proof.
  split; [|split].
  - intros c. destruct c as [|[|c]]; [right; reflexivity | left | right; reflexivity].
    exists buggy_j2p_leak_fix. split; [left; reflexivity | reflexivity].
  - vm_compute. intro H. inversion H; subst. apply H2. left. reflexivity.
  - vm_compute. split; [reflexivity | discriminate].
Qed.

(* a state with one caller-owned buffer 0 (an input, or a descriptor's Requires() bitmap) *)
Definition init_with_input (bs : list Z) : state :=
  mkState 1 [] [0] (fun _ _ => None) (fun b => if b =? 0 then mkBuf bs [] else mkBuf [] []) [].

Lemma inv_init_with_input : forall bs, Inv (init_with_input bs).
Proof.
  intros bs. constructor; simpl; intros; try contradiction; try discriminate.
  - constructor.
  - destruct H as [H|[]]. subst. lia.
Qed.

(* working on the descriptor's own bitmap instead of a pooled copy (Set() on desc.Requires()): the descriptor changes *)
Example borrow_refuted :
  let st0 := init_with_input [3]%Z in
  let st := run st0 [Borrow 1 2 0; Update 1 2 0 0%Z] in
  Inv st0 /\ In 0 (owned st0) /\ logical (mem st0 0) = [3]%Z /\ logical (mem st 0) = [0]%Z.
Proof. split; [apply inv_init_with_input | vm_compute; auto]. Qed.

(* findings 1201/1202: NewBinaryProtocol(input) = a pooled protocol object pointed at the CALLER's buffer; Recycle() puts
   that buffer into the pool; the next user of a pooled protocol appends its output into the caller's input.
   quirk_recycled_input (Check12.v) is what then is found in the input: it differs from the input (so reads_pure fails). *)
Example borrow_recycle_refuted :
  let st0 := init_with_input [10; 11; 12; 13]%Z in
  let st := run st0 [Borrow 1 0 0; Put 1 0; Get 2 0 (Some 0) []; Append 2 0 [90; 91]%Z] in
  In 0 (owned st0) /\ In 0 (owned st) /\ work st 2 0 = Some 0 /\ logical (mem st 0) = [90; 91]%Z /\
  quirk_recycled_input [10; 11; 12; 13]%Z [90; 91]%Z = [90; 91; 12; 13]%Z /\
  quirk_recycled_input [10; 11; 12; 13]%Z [90; 91]%Z <> [10; 11; 12; 13]%Z.
Proof. vm_compute. repeat split; auto; discriminate. Qed.

(* generic.NewNode*: the node handed to the caller IS the working array (HandOver), which is sound because the call forgets
   it. As patched by the seeded change C12-8 (`defer p.Recycle()` on a protocol whose borrowed mark was lost while growing)
   the same array also enters the pool: the next pooled-protocol user (PathNode.Marshal) writes over the node. *)
Definition h_newnode_ok : list op :=
  [Get 1 0 None []; Append 1 0 [10; 0; 0; 0; 2]%Z; HandOver 1 0; Get 2 0 None []; Append 2 0 [9; 9]%Z; CopyOut 2 0; Put 2 0].
Definition h_newnode_recycle : list op :=
  [Get 1 0 None []; Append 1 0 [10; 0; 0; 0; 2]%Z; ReturnDirect 1 0; Put 1 0; Get 2 0 (Some 0) []; Append 2 0 [9; 9]%Z; CopyOut 2 0; Put 2 0].

Example newnode_recycle_refuted :
  (* the real script is covered by the theorems and keeps the node intact *)
  follows api_scripts h_newnode_ok /\
  (let st := run init h_newnode_ok in In 0 (owned st) /\ ~ In 0 (pool st) /\ logical (mem st 0) = [10; 0; 0; 0; 2]%Z) /\
  (* the patched one follows a buggy script and loses it *)
  follows [buggy_newnode_recycle; conv_do_plain_ok] h_newnode_recycle /\
  (let st := run init h_newnode_recycle in
   In 0 (owned st) /\ In 0 (pool st) /\ obs_of 1 st = [[10; 0; 0; 0; 2]%Z] /\ logical (mem st 0) = []).
Proof.
  split; [|split; [vm_compute; repeat split; auto; intros [H|[]]; discriminate H|split; [|vm_compute; repeat split; auto]]].
  - apply (follows_small _ _ 2); [| |right; discriminate].
    + intros c Hc. destruct c as [|[|[|c]]]; try lia.
      * exists conv_do_ok. split; [left; reflexivity | reflexivity].
      * exists newnode_ok. split; [simpl; tauto | reflexivity].
      * exists conv_do_plain_ok. split; [simpl; tauto | reflexivity].
    + intros c Hc. destruct c as [|[|[|c]]]; try lia. reflexivity.
  - apply (follows_small _ _ 2); [| |right; discriminate].
    + intros c Hc. destruct c as [|[|[|c]]]; try lia.
      * exists buggy_newnode_recycle. split; [left; reflexivity | reflexivity].
      * exists buggy_newnode_recycle. split; [left; reflexivity | reflexivity].
      * exists conv_do_plain_ok. split; [simpl; tauto | reflexivity].
    + intros c Hc. destruct c as [|[|[|c]]]; try lia. reflexivity.
Qed.

(* j2t.HTTPConv.Do: the message is a fresh array (CopyOut). As patched by the seeded change C12-9 it is
   append(h.top, body...) into the spare capacity of the converter's own header array (buffer 0, owned from the start):
   every small message is that one array, the message returned for request 1 changes when request 2 is converted. *)
Definition h_httpconv_append : list op :=
  [Get 1 0 None []; Append 1 0 [1]%Z; Borrow 1 5 0; Append 1 5 [1]%Z; ReturnDirect 1 5; Put 1 0;
   Get 2 0 (Some 0) []; Append 2 0 [2]%Z; Borrow 2 5 0; Update 2 5 2 2%Z; ReturnDirect 2 5; Put 2 0].

Example httpconv_append_refuted :
  let st0 := init_with_input [128; 1]%Z in          (* the converter's header, with room behind it *)
  let st := run st0 h_httpconv_append in
  Inv st0 /\ scripts_ok [buggy_httpconv_append] = false /\
  obs_of 1 st = [[128; 1; 1]%Z] /\ obs_of 2 st = [[128; 1; 2]%Z] /\     (* both calls returned the right message ... *)
  work st 1 5 = Some 0 /\ work st 2 5 = Some 0 /\                        (* ... in the same array *)
  logical (mem st 0) = [128; 1; 2]%Z.                                     (* so the first one now reads as the second *)
Proof. split; [apply inv_init_with_input | vm_compute; repeat split; auto]. Qed.

(* Value.MarshalTo (thrift and proto): by script marshalto_ok the result is a buffer of its own (CopyOut: a fresh id).
   As patched by the seeded change C12-11 a full-cover target returns the SOURCE value's bytes: the result is the caller's
   input buffer 0, not a buffer of its own, and changes as soon as the caller reuses its input. *)
Definition h_marshalto_ok : list op :=
  [Get 1 0 None []; Append 1 0 [7; 8]%Z; CopyOut 1 0; Put 1 0].
Definition h_marshalto_alias : list op :=
  [Get 1 0 None []; Borrow 1 6 0; ReturnDirect 1 6; Put 1 0].
Definition caller_reuses_input : list op := [Borrow 9 0 0; Overwrite 9 0 [90; 90]%Z].

Example marshalto_alias_refuted :
  let st0 := init_with_input [7; 8]%Z in
  Inv st0 /\ scripts_ok [marshalto_ok] = true /\ scripts_ok [buggy_marshalto_alias] = false /\
  (* real script: the result is buffer 2 (fresh), the input is still the only other owned buffer; reuse of the input
     by the caller does not touch the result *)
  (let st := run st0 (h_marshalto_ok ++ caller_reuses_input) in
   owned st = [2; 0] /\ obs_of 1 st = [[7; 8]%Z] /\ logical (mem st 2) = [7; 8]%Z /\ logical (mem st 0) = [90; 90]%Z) /\
  (* patched script: the result IS the input (owned twice, no fresh buffer) and is overwritten with it *)
  (let st := run st0 (h_marshalto_alias ++ caller_reuses_input) in
   owned st = [0; 0] /\ obs_of 1 st = [[7; 8]%Z] /\ logical (mem st 0) = [90; 90]%Z).
Proof. split; [apply inv_init_with_input | vm_compute; repeat split; auto]. Qed.

(* the hypotheses of the theorems are satisfiable and the conclusions are not trivial: two interleaved calls (one
   failing and leaking, one succeeding), pool reuse with junk, a later call churning the pool *)
Definition h_example : list op :=
  [Get 1 0 None []; Get 2 0 None [5; 5]%Z; Append 1 0 [1]%Z; Append 2 0 [2; 2]%Z; Get 2 2 None []; Drop 2 2; Put 2 0;
   Append 1 0 [3]%Z; CopyOut 1 0; Put 1 0; Get 3 0 (Some 1) [6; 6; 6]%Z; Append 3 0 [4]%Z; CopyOut 3 0; Put 3 0].

Example C12_example :
  follows api_scripts h_example /\
  obs_of 1 (run init h_example) = [[1; 3]%Z] /\ obs_of 2 (run init h_example) = [] /\ obs_of 3 (run init h_example) = [[4]%Z] /\
  pure_result 3 (proj 3 h_example) = [[4]%Z] /\
  length (owned (run init h_example)) = 2 /\ length (pool (run init h_example)) = 2.
Proof.
  split; [|vm_compute; repeat split; reflexivity].
  apply (follows_small _ _ 3); [| |right; discriminate].
  - intros c Hc. destruct c as [|[|[|[|c]]]]; try lia.
    + exists conv_do_ok. split; [left; reflexivity | reflexivity].
    + exists conv_do_plain_ok. split; [simpl; tauto | reflexivity].
    + exists t2j_do_err_leak. split; [simpl; tauto | reflexivity].
    + exists conv_do_plain_ok. split; [simpl; tauto | reflexivity].
  - intros c Hc. destruct c as [|[|[|[|c]]]]; try lia. reflexivity.
Qed.

(* ================================================================== (G) what enters the pool, from the Go source *)
(* BinaryProtocol.Reset / Recycle of thrift/binary.go and proto/binary/binary.go are translated from the Go text on every build
   (gen/Gen_thriftpool.v, gen/Gen_protopool.v; the receiver's fields Buf, Read, borrowed are threaded, bpPool.Put is the one effect).
   get_is_reset and pooled_buffers_are_reset above rest on the model's Put resetting the buffer: this is what the source does. *)
From DG Require Gen_thriftpool Gen_protopool GenPoolProofs.

Theorem C12_Recycle_from_source :
  forall buf rd b,
  Gen_thriftpool.BinaryProtocol_Recycle buf rd b = ([(Gen_thriftpool.Eff_Put, [])], [], 0%Z, false) /\
  Gen_protopool.BinaryProtocol_Recycle buf rd b = ([(Gen_protopool.Eff_Put, [])], [], 0%Z, false).
Proof. exact GenPoolProofs.Recycle_puts_reset. Qed.
Print Assumptions C12_Recycle_from_source.

Theorem C12_Put_is_Recycle_from_source :
  forall st c s b rd brw, work st c s = Some b ->
  logical (mem (step st (Put c s)) b) = snd (fst (fst (Gen_thriftpool.BinaryProtocol_Recycle (logical (mem st b)) rd brw))) /\
  logical (mem (step st (Put c s)) b) = snd (fst (fst (Gen_protopool.BinaryProtocol_Recycle (logical (mem st b)) rd brw))) /\
  In b (pool (step st (Put c s))).
Proof. exact GenPoolProofs.Put_is_Recycle. Qed.
Print Assumptions C12_Put_is_Recycle_from_source.
