(* C03 — Thrift -> JSON conversion emits valid JSON denoting exactly the value.
   Spec level: [json_of] / [t2j_spec] of model/T2J.v on the decoded AST of ThriftWire.v (decoder proved in C19).
   The implementation is tied to the spec by Check03 (every output is parsed by the proved parser and compared). *)
From Coq Require Import ZArith List Bool Lia.
From DG Require Import ProtoWireRef ThriftWire Json Num Base64 T2J T2JUnset JsonProofs JsonSound NumProofs Base64Proofs T2JProofs T2JUnsetProofs.
From DG Require J2T.
Import ListNotations.
Local Open Scope Z_scope.

(* ---- the JSON base: the parser that judges the implementation's text inverts the canonical printer ---- *)
Theorem C03_json_parse_print : forall j, json_wf j = true -> json_parse (json_print j) = Some j.
Proof. exact json_parse_print. Qed.
Print Assumptions C03_json_parse_print.

Theorem C03_json_parse_prefix_print : forall j r, json_wf j = true -> stop r = true ->
  json_parse_prefix (json_print j ++ r) = Some (j, r).
Proof. exact json_parse_prefix_print. Qed.
Print Assumptions C03_json_parse_prefix_print.

(* whatever the parser accepts is a well-formed AST, and its canonical text parses to the same AST (print o parse normalises) *)
Theorem C03_json_parse_wf : forall bs j, json_parse bs = Some j -> json_wf j = true /\ json_parse (json_print j) = Some j.
Proof. intros bs j H. split; [exact (json_parse_wf bs j H) | exact (json_parse_canonical bs j H)]. Qed.
Print Assumptions C03_json_parse_wf.

(* strings: every byte string is recovered from its quoted form (all lengths, all lane positions at once) *)
Theorem C03_unquote_quote_ref : forall s, jbytes_okb s = true -> unquote (quote_ref s) = Some s.
Proof. exact unquote_quote_ref. Qed.
Print Assumptions C03_unquote_quote_ref.

(* integers: canonical decimal text is read back exactly, is a JSON number, and denotes only its own value *)
Theorem C03_parse_int_fmt_int : forall z, parse_int (fmt_int z) = Some z.
Proof. exact parse_int_fmt_int. Qed.
Print Assumptions C03_parse_int_fmt_int.

Theorem C03_fmt_int_is_number : forall z, num_okb (fmt_int z) = true /\ lex_is_plain_int (fmt_int z) = true.
Proof. intros z. split; [apply num_okb_fmt_int | apply fmt_int_plain]. Qed.
Print Assumptions C03_fmt_int_is_number.

Theorem C03_int_comparison_exact : forall z w, lex_eq_int (fmt_int z) w = true <-> w = z.
Proof. intros z w. split; [apply lex_eq_int_fmt_int_inv | intros ->; apply lex_eq_int_fmt_int]. Qed.
Print Assumptions C03_int_comparison_exact.

(* binary: standard base64 is decoded back to the bytes *)
Theorem C03_b64_decode_encode : forall bs, Forall (fun b => 0 <= b < 256) bs -> b64_decode (b64_encode bs) = Some bs.
Proof. exact b64_decode_encode. Qed.
Print Assumptions C03_b64_decode_encode.

(* ---- the spec ---- *)
(* members = declared keys of the present known fields in wire order; unknown fields are dropped and only when not disallowed;
   a successful conversion has no missing required field *)
Theorem C03_members_exact : forall o fs vs ms,
  json_of o (DStruct fs) (VStruct vs) = TOk (EObj ms) ->
  map fst ms = declared_keys fs vs /\
  (o_disallow_unknown o = true -> forall iv, In iv vs -> find_field fs (fst iv) <> None) /\
  missing_required fs (map fst vs) = false.
Proof. exact json_of_members_exact. Qed.
Print Assumptions C03_members_exact.

Theorem C03_unknown_disallowed_fails : forall o fs vs,
  o_disallow_unknown o = true -> (exists iv, In iv vs /\ find_field fs (fst iv) = None) ->
  exists c, json_of o (DStruct fs) (VStruct vs) = TErr c.
Proof. exact json_of_unknown_disallowed. Qed.
Print Assumptions C03_unknown_disallowed_fails.

(* the options that write fields the message does not carry (WriteDefaultField / WriteRequireField): the checker's spec
   [t2j_specw] is the spec above when both are off; otherwise the members are the present known fields in wire order followed
   by the written unset fields, each a declared, unmet field of the right requiredness with its alias and zero value *)
Theorem C03_write_options_off : forall o, o_write_default o = false -> o_write_required o = false ->
  (forall d v, json_ofw o d v = json_of o d v) /\ (forall d v, t2j_specw o d v = t2j_spec o d v).
Proof. intros o Hd Hr. split; intros d v; [apply json_ofw_off | apply t2j_specw_off]; assumption. Qed.
Print Assumptions C03_write_options_off.

Theorem C03_members_with_unset : forall o fs vs ms,
  json_ofw o (DStruct fs) (VStruct vs) = TOk (EObj ms) ->
  exists us, unset_members o fs (map fst vs) = inl us /\ map fst ms = declared_keys fs vs ++ map fst us.
Proof. exact json_ofw_members. Qed.
Print Assumptions C03_members_with_unset.

Theorem C03_unset_members_sound : forall o l present us, unset_walk o l present = inl us ->
  forall m, In m us -> exists f, In f l /\ m = (f_key (fst f), zero_of (snd f)) /\ is_present present f = false /\
    ((f_req (fst f) = 1 /\ o_write_required o = true) \/ (f_req (fst f) = 0 /\ o_write_default o = true)).
Proof. exact unset_walk_sound. Qed.
Print Assumptions C03_unset_members_sound.

(* map keys of string AND binary type are written as their raw text (NoBase64Binary or not): that is the key text the inverse
   converter (model J2T.v, any number policy) reads back to the same thrift string *)
Theorem C03_string_key_read_back : forall o P s,
  key_of o (VString s) = Some s /\
  J2T.key_bytes P J2T.TBinary s = J2T.Ok (encode (VString s)) /\ J2T.key_bytes P J2T.TString s = J2T.Ok (encode (VString s)).
Proof. intros o P s. repeat split. Qed.
Print Assumptions C03_string_key_read_back.

(* "never malformed" on the model: the text of every successful model conversion is one complete JSON document *)
Theorem C03_model_text_wellformed : forall o d v txt, wf v = true -> desc_ok d = true ->
  t2j_text o d v = Some txt -> exists j, json_parse txt = Some j /\ json_print j = txt /\ json_wf j = true.
Proof. exact t2j_text_wellformed. Qed.
Print Assumptions C03_model_text_wellformed.

(* every expected tree (also those with doubles, printed as exact decimals) prints to a document that parses back *)
Theorem C03_expected_tree_parses : forall e, jexp_bytes e = true -> json_parse (json_print (to_json e)) = Some (to_json e).
Proof. exact model_text_parses. Qed.
Print Assumptions C03_expected_tree_parses.

Theorem C03_exact_double_lexeme_is_number : forall bits, num_okb (f64_exact_lexeme bits) = true.
Proof. exact num_okb_f64_exact. Qed.
Print Assumptions C03_exact_double_lexeme_is_number.

(* what the checker's comparison accepts: exactly the expected member names in order, exactly the string, the same arity;
   and the model's own document is accepted (double-free trees; float text is validated per output by dec2f64) *)
Theorem C03_accepted_object_keys : forall ms j, jmatch (EObj ms) j = true -> exists ns, j = JObj ns /\ map fst ns = map fst ms.
Proof. exact jmatch_obj_keys. Qed.
Print Assumptions C03_accepted_object_keys.

Theorem C03_accepted_string_exact : forall s j, jmatch (EStr s) j = true -> j = JStr s.
Proof. exact jmatch_str_exact. Qed.
Print Assumptions C03_accepted_string_exact.

Theorem C03_accepted_array_length : forall xs j, jmatch (EArr xs) j = true -> exists ys, j = JArr ys /\ length ys = length xs.
Proof. exact jmatch_arr_length. Qed.
Print Assumptions C03_accepted_array_length.

Theorem C03_model_document_accepted : forall e, jexp_nodouble e = true -> jmatch e (to_json e) = true.
Proof. exact jmatch_to_json. Qed.
Print Assumptions C03_model_document_accepted.

(* ---- non-vacuity: a message with an unknown field, a binary, an int-keyed map, a double and a nested struct ---- *)
Definition ex_desc : tdesc :=
  DStruct [ ({| f_id := 1; f_key := [100]; f_req := 1; f_flags := 0 |}, DScalar T_DOUBLE);
            ({| f_id := 2; f_key := [98; 105; 110]; f_req := 0; f_flags := 0 |}, DString true);
            ({| f_id := 3; f_key := [109]; f_req := 2; f_flags := 0 |}, DMap (DScalar T_I32) (DList false (DScalar T_I64)));
            ({| f_id := 4; f_key := [115]; f_req := 0; f_flags := 0 |}, DStruct [({| f_id := 1; f_key := [120]; f_req := 0; f_flags := 1 |}, DScalar T_BYTE)]) ].
Definition ex_val : tval :=
  VStruct [ (2, VString [255; 0; 62]); (9, VI16 7); (1, VDouble 4609434218613702656);
            (3, VMap T_I32 T_LIST [(VI32 (-5), VList T_I64 [VI64 9007199254740993; VI64 (-1)])]);
            (4, VStruct [(1, VByte (-1))]) ].

Example C03_example :
  wf ex_val = true /\ conforms ex_val ex_desc = true /\ desc_ok ex_desc = true /\
  (* members bin, d, m, s in wire order; the unknown field 9 is dropped; int map key as decimal string *)
  option_map (fun txt => option_map (jmatch (EObj [([98; 105; 110], EStr [47; 119; 65; 43]); ([100], EDouble 4609434218613702656);
                                                    ([109], EObj [([45; 53], EArr [EInt 9007199254740993; EInt (-1)])]);
                                                    ([115], EObj [([120], EInt (-1))])])) (json_parse txt))
             (t2j_text 0 ex_desc ex_val) = Some (Some true) /\
  (* DisallowUnknownField (bit 3): error *)
  fst (t2j_spec 8 ex_desc ex_val) = TErr E_UNKNOWN /\
  (* the exact decimal of a double is read back to its bits *)
  lex2f64 (f64_exact_lexeme 4609434218613702656) = Some 4609434218613702656 /\ lex_is_f64 (f64_exact_lexeme 4609434218613702656) 4609434218613702656 = true /\
  lex2f64 (f64_exact_lexeme 4532020583610935537) = Some 4532020583610935537 /\ lex2f64 (f64_exact_lexeme (2 ^ 63 + 9218868437227405311)) = Some (2 ^ 63 + 9218868437227405311).
Proof. vm_compute. repeat split; reflexivity. Qed.

(* ---- the recorded defects contradict the spec (finding ids of findings/C03.json) ---- *)
(* 301: the text produced for a NaN double (object d: <nothing>, x: 1) is not JSON; the quirk matcher recognises exactly it *)
Example C03_quirk_301_refuted :
  let e := EObj [([100], EDouble 9221120237041090560); ([120], EInt 1)] in
  let txt := [123; 34; 100; 34; 58; 44; 34; 120; 34; 58; 49; 125] in
  jexp_finite e = false /\ json_parse txt = None /\ qmatch true false false e txt = Some [] /\ qmatch false false false e txt = None.
Proof. vm_compute. repeat split; reflexivity. Qed.

(* 302: a js_conv string a-quote-b copied raw between the quotes is not JSON *)
Example C03_quirk_302_refuted :
  let e := EObj [([115], EStrV [97; 34; 98])] in
  let txt := [123; 34; 115; 34; 58; 34; 97; 34; 98; 34; 125] in
  has_raw_string e = true /\ json_parse txt = None /\ qmatch false true false e txt = Some [] /\ qmatch false false false e txt = None.
Proof. vm_compute. repeat split; reflexivity. Qed.

(* 303: a js_conv byte -1 written as the quoted literal 255 is valid JSON denoting another number *)
Example C03_quirk_303_refuted :
  let e := EObj [([120], EByteV (-1))] in
  let txt := [123; 34; 120; 34; 58; 34; 50; 53; 53; 34; 125] in
  has_neg_bytev e = true /\ option_map (jmatch e) (json_parse txt) = Some false /\ qmatch false false true e txt = Some [].
Proof. vm_compute. repeat split; reflexivity. Qed.

(* write options (bits 9, 10): the unmet required field 1 and the unmet default fields 2, 4 are appended in ascending id with
   their zero values, the unmet optional field 3 is not; a binary-keyed map keeps the raw key text *)
Example C03_unset_example :
  fst (t2j_specw (2 ^ 9 + 2 ^ 10) ex_desc (VStruct [(9, VI16 7)])) =
    TOk (EObj [([100], EDouble 0); ([98; 105; 110], EStr []); ([115], EObj [])]) /\
  fst (t2j_specw (2 ^ 9) ex_desc (VStruct [(9, VI16 7)])) = TErr E_REQUIRED /\
  json_ofw 0 (DMap (DString true) (DScalar T_BOOL)) (VMap T_STRING T_BOOL [(VString [255; 34], VBool 1)]) = TOk (EObj [([255; 34], EBool true)]).
Proof. vm_compute. repeat split; reflexivity. Qed.

(* ================================================================================================================
   ALGORITHM LEVEL: the byte walk of conv/t2j (model/T2JBytes.v, mirroring doRecurse: field headers, container headers,
   skipping of unknown fields, incremental text with comma bookkeeping, requires bitmap) refines the spec json_of.
   Tied to the implementation by check 304 (text of the Gallina walk = text of BinaryConv.Do, double lexemes by dec2f64). *)
From DG Require Import ThriftWireProofs T2JBytes T2JBytesProofs.

(* for every descriptor, option set without value mapping, well-formed conforming value (unknown fields allowed) within the
   depth limits (walk fuel n; SkipGo's 1023 for the unknown fields): the walk over the encoding followed by any bytes r
   returns the canonical text of the spec tree and exactly r, or fails when the spec has no text — for every choice fd of
   the lexeme written for a finite double (check 304 runs the walk with a marker for fd) *)
Theorem C03_t2j_walk_refines_spec_gen : forall fd o v d n r,
  o_write_default o = false -> o_write_required o = false ->
  wf v = true -> conforms v d = true -> desc_wf d = true -> (depth v <= n)%nat -> (depth v <= max_skip_depth)%nat ->
  t2j_walk_gen fd o n d (encode v ++ r) =
  match spec_text_p fd (json_of o d v) with Some txt => Some (txt, r) | None => None end.
Proof. intros fd o v d n r Hwd Hwr. exact (walk_refines fd o Hwd Hwr v d n r). Qed.
Print Assumptions C03_t2j_walk_refines_spec_gen.

(* with the spec's lexeme (the exact decimal of the bits): the text is json_print (to_json e), the printer of C03_expected_tree_parses *)
Theorem C03_t2j_walk_refines_spec : forall o v d n r,
  o_value_mapping o = false -> o_write_default o = false -> o_write_required o = false ->
  wf v = true -> conforms v d = true -> desc_wf d = true -> (depth v <= n)%nat -> (depth v <= max_skip_depth)%nat ->
  t2j_walk n o d (encode v ++ r) =
  match json_of o d v with
  | TOk e => if jexp_finite e then Some (json_print (to_json e), r) else None
  | _ => None
  end.
Proof.
  intros o v d n r Hvm Hwd Hwr Hw Hc Hdw Hd Hs. rewrite (walk_refines_exact o v d n r Hvm Hwd Hwr Hw Hc Hdw Hd Hs).
  unfold walk_res, spec_text. destruct (json_of o d v) as [e| |]; try reflexivity. destruct (jexp_finite e); reflexivity.
Qed.
Print Assumptions C03_t2j_walk_refines_spec.

(* ALL MODELLED OPTIONS (api.js_conv value mapping, WriteDefaultField, WriteRequireField on top of the five above): the walk
   prints the spec tree json_ofw of model/T2JUnset.v — js_conv fields as quoted literals, the unmet required / default fields
   appended in ascending id with their zero values — or fails exactly when that spec has no text.  No hypothesis on o. *)
Theorem C03_t2j_walk_refines_specw : forall o v d n r,
  wf v = true -> conforms v d = true -> desc_wf d = true -> (depth v <= n)%nat -> (depth v <= max_skip_depth)%nat ->
  t2j_walk n o d (encode v ++ r) =
  match json_ofw o d v with
  | TOk e => if jexp_finite e then Some (json_print (to_json e), r) else None
  | _ => None
  end.
Proof.
  intros o v d n r Hw Hc Hdw Hd Hs. rewrite (walk_refines_exact_w o v d n r Hw Hc Hdw Hd Hs).
  unfold walk_res, spec_text. destruct (json_ofw o d v) as [e| |]; try reflexivity. destruct (jexp_finite e); reflexivity.
Qed.
Print Assumptions C03_t2j_walk_refines_specw.

(* the same for EVERY double lexeme function fd, with the direct printer jexp_print of model/T2JBytes.v (a quoted js_conv
   double is the lexeme between quotes; check 304 runs the walk with a marker for fd); with escape-free lexemes jexp_print is
   the canonical print of the JSON AST *)
Theorem C03_t2j_walk_refines_specw_gen : forall fd o v d n r,
  wf v = true -> conforms v d = true -> desc_wf d = true -> (depth v <= n)%nat -> (depth v <= max_skip_depth)%nat ->
  t2j_walk_gen fd o n d (encode v ++ r) =
  match spec_text_p fd (json_ofw o d v) with Some txt => Some (txt, r) | None => None end.
Proof. intros fd o v d n r. exact (walk_refines_w fd o v d n r). Qed.
Print Assumptions C03_t2j_walk_refines_specw_gen.

Theorem C03_jexp_print_is_canonical : forall fd, (forall b, forallb plain (fd b) = true) ->
  forall e, jexp_print fd e = json_print (to_json_fd fd e).
Proof. exact jexp_print_json. Qed.
Print Assumptions C03_jexp_print_is_canonical.

(* the root (do): with thrift base extraction too — a response-base field is skipped and yields no member — the text is that
   of the root spec t2j_specw (ConvertException off) *)
Theorem C03_t2j_walk_root_refines_specw : forall o v d n r, o_convert_exception o = false ->
  wf v = true -> conforms v d = true -> desc_wf d = true -> base_is_struct d ->
  (depth v <= n)%nat -> (depth v <= max_skip_depth)%nat ->
  t2j_walk_root f64_exact_lexeme o n d (encode v ++ r) =
  match fst (t2j_specw o d v) with
  | TOk e => if jexp_finite e then Some (json_print (to_json e), r) else None
  | _ => None
  end.
Proof.
  intros o v d n r Hce Hw Hc Hdw Hbs Hd Hs. rewrite (walk_root_refines_exact o v d n r Hce Hw Hc Hdw Hbs Hd Hs).
  unfold walk_res, spec_text. destruct (fst (t2j_specw o d v)) as [e| |]; try reflexivity. destruct (jexp_finite e); reflexivity.
Qed.
Print Assumptions C03_t2j_walk_root_refines_specw.

(* the walk errs EXACTLY when the spec errs (unknown field under DisallowUnknownField, unsupported map key type, missing
   required field without WriteRequireField, js_conv on an unsupported type) or the tree holds a non-finite double *)
Theorem C03_t2j_walk_error_iff : forall o v d n r,
  wf v = true -> conforms v d = true -> desc_wf d = true -> (depth v <= n)%nat -> (depth v <= max_skip_depth)%nat ->
  (t2j_walk n o d (encode v ++ r) = None <->
   (exists c, json_ofw o d v = TErr c) \/ (exists e, json_ofw o d v = TOk e /\ jexp_finite e = false)).
Proof. intros o v d n r. exact (walk_error_iff_w o v d n r). Qed.
Print Assumptions C03_t2j_walk_error_iff.

(* never malformed with a nil error, at algorithm level: whatever text the walk returns is parsed by the proved parser to
   the JSON of the spec tree, and the walk has consumed exactly the encoding *)
Theorem C03_t2j_walk_output_valid : forall o v d n r txt r',
  wf v = true -> conforms v d = true -> desc_wf d = true -> desc_ok d = true ->
  (depth v <= n)%nat -> (depth v <= max_skip_depth)%nat ->
  t2j_walk n o d (encode v ++ r) = Some (txt, r') ->
  exists e, json_ofw o d v = TOk e /\ jexp_finite e = true /\
            txt = json_print (to_json e) /\ json_parse txt = Some (to_json e) /\ r' = r.
Proof. intros o v d n r txt r'. exact (walk_output_valid_w o v d n r txt r'). Qed.
Print Assumptions C03_t2j_walk_output_valid.

(* Do under the first development's options (no value mapping, no thrift base extraction, no ConvertException, write options
   off): the walk's text is the text of the model conversion t2j_text *)
Theorem C03_t2j_walk_is_model_text : forall o v d n, walk_opts o = true -> o_write_default o = false -> o_write_required o = false ->
  wf v = true -> conforms v d = true -> desc_wf d = true -> (depth v <= n)%nat -> (depth v <= max_skip_depth)%nat ->
  t2j_walk n o d (encode v) = match t2j_text o d v with Some txt => Some (txt, []) | None => None end.
Proof. exact walk_is_t2j_text. Qed.
Print Assumptions C03_t2j_walk_is_model_text.

(* the requires bitmap: at STOP a required field's bit is still set iff the field was not met *)
Theorem C03_requires_bitmap_exact : forall fs ids, bm_missing fs (bm_run fs ids (bm_init fs)) = missing_required fs ids.
Proof. exact bm_missing_run. Qed.
Print Assumptions C03_requires_bitmap_exact.

(* non-vacuity: the walk on the example message (unknown field skipped, binary, int-keyed map, nested struct, trailing bytes),
   the errors, and the comparison of check 304 on a text with another spelling of the double *)
Example C03_walk_example :
  desc_wf ex_desc = true /\ (depth ex_val <= 4)%nat /\
  t2j_walk 4 0 ex_desc (encode ex_val ++ [7; 7]) = option_map (fun t => (t, [7; 7])) (t2j_text 0 ex_desc ex_val) /\
  t2j_walk 3 8 ex_desc (encode ex_val) = None /\                                            (* DisallowUnknownField *)
  t2j_walk 3 0 ex_desc (encode (VStruct [(2, VString [])])) = None /\                       (* required field 1 missing *)
  t2j_walk 3 0 ex_desc (encode (VStruct [(1, VDouble 9218868437227405312)])) = None /\      (* +Inf *)
  t2j_walk 1 0 (DMap (DScalar T_DOUBLE) (DScalar T_BOOL)) (encode (VMap T_DOUBLE T_BOOL [(VDouble 0, VBool 1)])) = None /\  (* key type *)
  t2j_walk 1 2 (DMap (DScalar T_BYTE) (DScalar T_BOOL)) (encode (VMap T_BYTE T_BOOL [(VByte (-1), VBool 2)])) =
    Some ([123; 34; 50; 53; 53; 34; 58; 102; 97; 108; 115; 101; 125], []) /\              (* ByteAsUint8 key 255, bool byte 2 is false *)
  option_map (fun m => text_agrees (S (length (fst m))) (fst m) [123; 34; 100; 34; 58; 49; 46; 53; 101; 48; 125])
             (t2j_walk_gen fd_mark 0 3 ex_desc (encode (VStruct [(1, VDouble 4609434218613702656)]))) = Some true.
Proof. vm_compute. repeat split; reflexivity. Qed.

(* ---- the comparison of check 304 is sound: an accepted implementation text is the walk's text with every double marker
   replaced by a JSON number lexeme denoting exactly the marked bits, byte-identical everywhere else ---- *)
From DG Require Import T2JBytesCmp.

Theorem C03_text_agrees_sound : forall ts fuel i, Forall tok_ok ts -> (length (render fd_mark ts) < fuel)%nat ->
  text_agrees fuel (render fd_mark ts) i = true -> agrees ts i.
Proof. exact text_agrees_sound. Qed.
Print Assumptions C03_text_agrees_sound.

Theorem C03_text_agrees_plain : forall b i, Forall (fun c => c <> 1) b -> text_agrees (S (length b)) b i = true -> i = b.
Proof. exact text_agrees_plain. Qed.
Print Assumptions C03_text_agrees_plain.

(* ---- check 304 end to end on the model side: a text the comparison accepts against the marker walk of a conforming value
   is the canonical text of the SPEC tree (tokens jtoks e: brackets, commas, quoted keys, literals, strings) in which every double
   is spelled by a JSON number lexeme denoting exactly its bits; the walk's own text is the same tokens with exact decimals ---- *)
From DG Require Import T2JBytesTok.

Theorem C03_check304_sound : forall o v d n r m r' out,
  wf v = true -> conforms v d = true -> desc_wf d = true -> desc_ok d = true ->
  (depth v <= n)%nat -> (depth v <= max_skip_depth)%nat ->
  t2j_walk_gen fd_mark o n d (encode v ++ r) = Some (m, r') ->
  text_agrees (S (length m)) m out = true ->
  exists e, json_ofw o d v = TOk e /\ jexp_finite e = true /\ agrees (jtoks e) out.
Proof. exact check304_sound. Qed.
Print Assumptions C03_check304_sound.

Theorem C03_walk_text_tokens : forall o v d n r txt r',
  wf v = true -> conforms v d = true -> desc_wf d = true ->
  (depth v <= n)%nat -> (depth v <= max_skip_depth)%nat ->
  t2j_walk n o d (encode v ++ r) = Some (txt, r') ->
  exists e, json_ofw o d v = TOk e /\ txt = render f64_exact_lexeme (jtoks e).
Proof. exact walk_text_tokens. Qed.
Print Assumptions C03_walk_text_tokens.

(* ================================================================== (G) string escaping tables from the Go source *)
(* internal/rt SafeSet / Hex and the ASCII step of the portable quoteString (gen/Gen_rt.v, gen/Gen_jsonportable.v, regenerated from the
   Go text on every build) against esc_byte, the per-byte escaping behind quote_ref *)
From DG Require Gen_rt Gen_json Gen_jsonportable Check20g GenJsonProofs.

Theorem C03_escape_tables_from_source :
  (forall b, 0 <= b < 128 -> Gen_rt.SafeSet b = CaseFormat.bytes_eqb (esc_byte b) [b]) /\
  (forall d, 0 <= d < 16 -> Gen_rt.Hex d = hex_digit d) /\
  (forall c, 0 <= c < 256 -> Gen_json.IsSpace c = is_ws c).
Proof. split; [exact GenJsonProofs.SafeSet_is_unescaped|]. split; [exact GenJsonProofs.Hex_is_hex_digit | exact GenJsonProofs.IsSpace_is_ws]. Qed.
Print Assumptions C03_escape_tables_from_source.

(* one ASCII byte through quoteString: a byte esc_byte leaves alone stays pending, any other byte flushes the pending run and appends
   exactly esc_byte b *)
Theorem C03_quoteString_ascii_from_source :
  forall e s start i b, 0 <= b < 128 -> 0 <= i < 2 ^ 62 ->
  Gen_jsonportable.quoteString_ascii e s start i b =
    if CaseFormat.bytes_eqb (esc_byte b) [b] then (Gen_jsonportable.Out_continue, i + 1, e, start)
    else (Gen_jsonportable.Out_continue, i + 1, GenJsonProofs.pending e s start i ++ esc_byte b, i + 1).
Proof. exact GenJsonProofs.quoteString_ascii_is_esc_byte. Qed.
Print Assumptions C03_quoteString_ascii_from_source.

(* ---- the number reader that judges the float text is correctly rounded (proofs/FpRound.v, Dec2FloatCorrect.v) ---- *)
From DG Require Dec2FloatCorrect.
Theorem C03_dec2f64_correct : forall d, f64_rounds_to d (dec2f64 d) = true.
Proof. exact Dec2FloatCorrect.dec2f64_correct. Qed.
Print Assumptions C03_dec2f64_correct.

Theorem C03_dec2f64_unique : forall d b, 0 <= b < 2 ^ 64 -> f64_rounds_to d b = true -> b = dec2f64 d.
Proof. exact Dec2FloatCorrect.dec2f64_unique. Qed.
Print Assumptions C03_dec2f64_unique.

(* completeness of the comparator's number test (check 301 / 304): whatever bits the reader gives a lexeme, the comparator accepts the
   lexeme for exactly those bits *)
Theorem C03_lex2f64_is_f64 : forall l b, lex2f64 l = Some b -> lex_is_f64 l b = true.
Proof. exact Dec2FloatCorrect.lex2f64_is_f64. Qed.
Print Assumptions C03_lex2f64_is_f64.

Theorem C03_lex_is_f64_iff : forall l b, lex_is_f64 l b = true <-> lex2f64 l = Some b.
Proof. exact Dec2FloatCorrect.lex_is_f64_iff. Qed.
Print Assumptions C03_lex_is_f64_iff.

(* non-vacuity of the extended walk: api.js_conv (bit 5) prints the byte field x of the nested struct as the quoted literal -1;
   WriteDefaultField + WriteRequireField (bits 9, 10) append d, bin, s (ascending id; the optional m is not written);
   a response-base field is dropped at the root when a BaseResp is in the context (bits 6, 8) *)
Example C03_walk_example_w :
  t2j_walk 4 32 ex_desc (encode ex_val) = option_map (fun t => (t, [])) (spec_text (json_ofw 32 ex_desc ex_val)) /\
  option_map (fun m => existsb (fun c => c =? 45) (fst m)) (t2j_walk 4 32 ex_desc (encode (VStruct [(1, VDouble 0); (4, VStruct [(1, VByte (-1))])]))) = Some true /\
  t2j_walk 4 (2 ^ 9 + 2 ^ 10) ex_desc (encode (VStruct [(9, VI16 7)])) =
    Some ([123; 34; 100; 34; 58; 48; 44; 34; 98; 105; 110; 34; 58; 34; 34; 44; 34; 115; 34; 58; 123; 125; 125], []) /\
  t2j_walk 4 (2 ^ 9) ex_desc (encode (VStruct [(9, VI16 7)])) = None /\
  (let d := DStruct [({| f_id := 1; f_key := [97]; f_req := 0; f_flags := 0 |}, DScalar T_I32);
                     ({| f_id := 255; f_key := [66]; f_req := 0; f_flags := 2 |}, DStruct [])] in
   let v := VStruct [(255, VStruct [(1, VString [120])]); (1, VI32 5)] in
   t2j_walk_root f64_exact_lexeme (2 ^ 6 + 2 ^ 8) 3 d (encode v) = Some ([123; 34; 97; 34; 58; 53; 125], []) /\
   t2j_walk_root f64_exact_lexeme (2 ^ 6) 3 d (encode v) = Some ([123; 34; 66; 34; 58; 123; 125; 44; 34; 97; 34; 58; 53; 125], [])).
Proof. vm_compute. repeat split; reflexivity. Qed.

(* ---- COMPLETENESS of check 304's comparison: no false alarm.  Every text that is the token sequence with each double spelled
   by ANY JSON number lexeme denoting its bits (agrees) is accepted, when a double is followed by a byte that cannot continue
   a number; the token sequence of every tree has that property; hence whatever spells the spec tree is accepted against the
   marker walk, for every option ---- *)
Theorem C03_text_agrees_complete : forall ts i, agrees ts i -> Forall tok_ok ts -> sep_ok ts ->
  forall fuel, (length (render fd_mark ts) < fuel)%nat -> text_agrees fuel (render fd_mark ts) i = true.
Proof. exact text_agrees_complete. Qed.
Print Assumptions C03_text_agrees_complete.

Theorem C03_tree_tokens_separated : forall e, sep_ok (jtoks e).
Proof. exact jtoks_sep_ok. Qed.
Print Assumptions C03_tree_tokens_separated.

Theorem C03_check304_complete : forall o v d n r m r' out e,
  wf v = true -> conforms v d = true -> desc_wf d = true -> desc_ok d = true ->
  (depth v <= n)%nat -> (depth v <= max_skip_depth)%nat ->
  t2j_walk_gen fd_mark o n d (encode v ++ r) = Some (m, r') ->
  json_ofw o d v = TOk e -> agrees (jtoks e) out ->
  text_agrees (S (length m)) m out = true.
Proof. exact check304_complete. Qed.
Print Assumptions C03_check304_complete.

(* the direct printer is the token sequence, for every lexeme function *)
Theorem C03_jexp_print_tokens : forall fd e, jexp_print fd e = render fd (jtoks e).
Proof. exact print_toks. Qed.
Print Assumptions C03_jexp_print_tokens.

(* ---- ConvertException at the root (PARTIAL): the byte loop of do under ConvertException computes the text of xwalk — the
   same loop over the decoded fields, values by the spec functions (json_ofw / jsconv), unset scan by the bitmap: the
   members, or the first exception field's tree followed by what handleUnsets appends (returned as the error), or an error.
   Not proved: that xwalk is T2JUnset.root_walkw's TExc branch (check 301 compares the implementation with that spec). ---- *)
Theorem C03_t2j_walk_rootx_refines_partial : forall fd o fs vs n r, o_convert_exception o = true ->
  wf (VStruct vs) = true -> conforms (VStruct vs) (DStruct fs) = true -> desc_wf (DStruct fs) = true -> base_is_struct (DStruct fs) ->
  (depth (VStruct vs) <= S n)%nat -> (depth (VStruct vs) <= max_skip_depth)%nat ->
  t2j_walk_rootx fd o (S n) (DStruct fs) (encode (VStruct vs) ++ r) =
  match xwalk o (root_bx o) fs vs (bm_init fs) with
  | XObj ms => Some (WText (jexp_print fd (EObj ms)))
  | XExc e us => Some (WExc (jexp_print fd e ++ obj_mems fd true us))
  | XErr => None
  end.
Proof. exact walk_rootx_refines_partial. Qed.
Print Assumptions C03_t2j_walk_rootx_refines_partial.

Theorem C03_t2j_walk_rootx_plain : forall fd o n d bs, o_convert_exception o = false ->
  t2j_walk_rootx fd o n d bs = match t2j_walk_root fd o n d bs with Some (t, _) => Some (WText t) | None => None end.
Proof. exact walk_rootx_plain. Qed.
Print Assumptions C03_t2j_walk_rootx_plain.

(* the root walk for every lexeme function (thrift base; ConvertException off) *)
Theorem C03_t2j_walk_root_refines_specw_gen : forall fd o v d n r, o_convert_exception o = false ->
  wf v = true -> conforms v d = true -> desc_wf d = true -> base_is_struct d ->
  (depth v <= n)%nat -> (depth v <= max_skip_depth)%nat ->
  t2j_walk_root fd o n d (encode v ++ r) =
  match spec_text_p fd (fst (t2j_specw o d v)) with Some txt => Some (txt, r) | None => None end.
Proof. exact walk_root_refines. Qed.
Print Assumptions C03_t2j_walk_root_refines_specw_gen.

Example C03_walk_example_x :
  (* ConvertException (bit 7): field 1 (d) is an exception: its JSON is the error text; with only the success field 0: a document *)
  t2j_walk_rootx f64_exact_lexeme (2 ^ 7) 3 ex_desc (encode (VStruct [(1, VDouble 0); (2, VString [])])) = Some (WExc [48]) /\
  t2j_walk_rootx f64_exact_lexeme (2 ^ 7) 3 (DStruct [({| f_id := 0; f_key := [97]; f_req := 0; f_flags := 0 |}, DScalar T_I32)])
                 (encode (VStruct [(0, VI32 5)])) = Some (WText [123; 34; 97; 34; 58; 53; 125]).
Proof. vm_compute. split; reflexivity. Qed.
(* (G) the finite test of conv/t2j (the condition in front of EncodeFloat64 in doRecurse, case DOUBLE; gen/Gen_t2jfinite.v from the Go
   text on every build) is the negation of Num.f64_is_finite: the doubles for which the model's jexp_finite fails *)
From DG Require Num Gen_t2jfinite GenFiniteProofs.
Theorem C03_t2j_double_finite_from_source :
  forall b, 0 <= b -> Gen_t2jfinite.double_not_finite b = negb (Num.f64_is_finite b).
Proof. exact GenFiniteProofs.double_not_finite_is_finite. Qed.
Print Assumptions C03_t2j_double_finite_from_source.

(* ================================================================================================================
   THE ROOT (do), closed: ConvertException and check 304 on the root walk (proofs/T2JBytesRoot.v). *)
From DG Require Import T2JBytesRoot.

(* root_walkw_x (defined in the proofs file) is T2JUnset.root_walkw with ONE correction: its exception branch keeps the
   members handleUnsets appends to the error text — the code appends them, the spec of T2JUnset.v drops them (its header says
   so: the 301 generator does not combine ConvertException with the write options).  Forgetting them gives root_walkw exactly *)
Theorem C03_root_spec_correction : forall o fs vs acc seen bs,
  forgets (fst (root_walkw o fs vs acc seen bs)) (root_walkw_x o fs vs acc seen).
Proof. exact root_walkw_x_forget. Qed.
Print Assumptions C03_root_spec_correction.

(* do under ConvertException REFINES the corrected root spec, for every lexeme function: a document (WText), or the
   exception field's JSON followed by what handleUnsets appends as the text of the returned error (WExc), or an error —
   the finiteness of the members before the exception field included (the identification of xwalk with the spec's TExc
   branch that C03_t2j_walk_rootx_refines_partial left open) *)
Theorem C03_t2j_walk_rootx_refines : forall fd o fs vs n r, o_convert_exception o = true ->
  wf (VStruct vs) = true -> conforms (VStruct vs) (DStruct fs) = true -> desc_wf (DStruct fs) = true -> base_is_struct (DStruct fs) ->
  (depth (VStruct vs) <= S n)%nat -> (depth (VStruct vs) <= max_skip_depth)%nat ->
  t2j_walk_rootx fd o (S n) (DStruct fs) (encode (VStruct vs) ++ r) = spec_x fd (root_walkw_x o fs vs [] []).
Proof. exact walk_rootx_refines. Qed.
Print Assumptions C03_t2j_walk_rootx_refines.

(* with the write options off nothing is appended and the statement is about T2JUnset.t2j_specw itself *)
Theorem C03_t2j_walk_rootx_refines_specw : forall fd o fs vs n r, o_convert_exception o = true ->
  o_write_default o = false -> o_write_required o = false ->
  wf (VStruct vs) = true -> conforms (VStruct vs) (DStruct fs) = true -> desc_wf (DStruct fs) = true -> base_is_struct (DStruct fs) ->
  (depth (VStruct vs) <= S n)%nat -> (depth (VStruct vs) <= max_skip_depth)%nat ->
  t2j_walk_rootx fd o (S n) (DStruct fs) (encode (VStruct vs) ++ r) =
  match fst (t2j_specw o (DStruct fs) (VStruct vs)) with
  | TOk e => if jexp_finite e then Some (WText (jexp_print fd e)) else None
  | TExc e => if jexp_finite e then Some (WExc (jexp_print fd e)) else None
  | TErr _ => None
  end.
Proof. exact walk_rootx_refines_off. Qed.
Print Assumptions C03_t2j_walk_rootx_refines_specw.

(* check 304 at the root (what the checker runs when ConvertException is off: t2j_walk_root with response-base extraction):
   sound and complete against the root spec tree *)
Theorem C03_check304_root_sound : forall o v d n r m r' out, o_convert_exception o = false ->
  wf v = true -> conforms v d = true -> desc_wf d = true -> desc_ok d = true -> base_is_struct d ->
  (depth v <= n)%nat -> (depth v <= max_skip_depth)%nat ->
  t2j_walk_root fd_mark o n d (encode v ++ r) = Some (m, r') ->
  text_agrees (S (length m)) m out = true ->
  exists e, fst (t2j_specw o d v) = TOk e /\ jexp_finite e = true /\ agrees (jtoks e) out.
Proof. exact check304_root_sound. Qed.
Print Assumptions C03_check304_root_sound.

Theorem C03_check304_root_complete : forall o v d n r m r' out e, o_convert_exception o = false ->
  wf v = true -> conforms v d = true -> desc_wf d = true -> desc_ok d = true -> base_is_struct d ->
  (depth v <= n)%nat -> (depth v <= max_skip_depth)%nat ->
  t2j_walk_root fd_mark o n d (encode v ++ r) = Some (m, r') ->
  fst (t2j_specw o d v) = TOk e -> agrees (jtoks e) out ->
  text_agrees (S (length m)) m out = true.
Proof. exact check304_root_complete. Qed.
Print Assumptions C03_check304_root_complete.
