(* C03 — Thrift -> JSON: stub, completed below *)
From Coq Require Import ZArith List Bool Lia.
From DG Require Import Json Num Base64 JsonProofs NumProofs Base64Proofs.
Import ListNotations.
Local Open Scope Z_scope.

Theorem C03_json_parse_print : forall j, json_wf j = true -> json_parse (json_print j) = Some j.
Proof. exact json_parse_print. Qed.
Print Assumptions C03_json_parse_print.
