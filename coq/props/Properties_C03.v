(* C03 — Thrift -> JSON conversion emits valid JSON denoting exactly the value.
   Spec level: [json_of] / [t2j_spec] of model/T2J.v on the decoded AST of ThriftWire.v (decoder proved in C19).
   The implementation is tied to the spec by Check03 (every output is parsed by the proved parser and compared). *)
From Coq Require Import ZArith List Bool Lia.
From DG Require Import ProtoWireRef ThriftWire Json Num Base64 T2J JsonProofs JsonSound NumProofs Base64Proofs T2JProofs.
Import ListNotations.
Local Open Scope Z_scope.

(* ---- the JSON base: the parser that judges the implementation's text inverts the canonical printer ---- *)
Theorem C03_json_parse_print : forall j, json_wf j = true -> json_parse (json_print j) = Some j.
Proof. exact json_parse_print. Qed.
Print Assumptions C03_json_parse_print.

Theorem C03_json_parse_prefix_print : forall j r, json_wf j = true -> stop r = true ->
  json_parse_prefix (json_print j ++ r) = Some (j, r).
Proof. exact json_parse_prefix_print. Qed.
Print Assumptions C03_json_parse_prefix_print.

(* whatever the parser accepts is a well-formed AST, and its canonical text parses to the same AST (print o parse normalises) *)
Theorem C03_json_parse_wf : forall bs j, json_parse bs = Some j -> json_wf j = true /\ json_parse (json_print j) = Some j.
Proof. intros bs j H. split; [exact (json_parse_wf bs j H) | exact (json_parse_canonical bs j H)]. Qed.
Print Assumptions C03_json_parse_wf.

(* strings: every byte string is recovered from its quoted form (all lengths, all lane positions at once) *)
Theorem C03_unquote_quote_ref : forall s, jbytes_okb s = true -> unquote (quote_ref s) = Some s.
Proof. exact unquote_quote_ref. Qed.
Print Assumptions C03_unquote_quote_ref.

(* integers: canonical decimal text is read back exactly, is a JSON number, and denotes only its own value *)
Theorem C03_parse_int_fmt_int : forall z, parse_int (fmt_int z) = Some z.
Proof. exact parse_int_fmt_int. Qed.
Print Assumptions C03_parse_int_fmt_int.

Theorem C03_fmt_int_is_number : forall z, num_okb (fmt_int z) = true /\ lex_is_plain_int (fmt_int z) = true.
Proof. intros z. split; [apply num_okb_fmt_int | apply fmt_int_plain]. Qed.
Print Assumptions C03_fmt_int_is_number.

Theorem C03_int_comparison_exact : forall z w, lex_eq_int (fmt_int z) w = true <-> w = z.
Proof. intros z w. split; [apply lex_eq_int_fmt_int_inv | intros ->; apply lex_eq_int_fmt_int]. Qed.
Print Assumptions C03_int_comparison_exact.

(* binary: standard base64 is decoded back to the bytes *)
Theorem C03_b64_decode_encode : forall bs, Forall (fun b => 0 <= b < 256) bs -> b64_decode (b64_encode bs) = Some bs.
Proof. exact b64_decode_encode. Qed.
Print Assumptions C03_b64_decode_encode.

(* ---- the spec ---- *)
(* members = declared keys of the present known fields in wire order; unknown fields are dropped and only when not disallowed;
   a successful conversion has no missing required field *)
Theorem C03_members_exact : forall o fs vs ms,
  json_of o (DStruct fs) (VStruct vs) = TOk (EObj ms) ->
  map fst ms = declared_keys fs vs /\
  (o_disallow_unknown o = true -> forall iv, In iv vs -> find_field fs (fst iv) <> None) /\
  missing_required fs (map fst vs) = false.
Proof. exact json_of_members_exact. Qed.
Print Assumptions C03_members_exact.

Theorem C03_unknown_disallowed_fails : forall o fs vs,
  o_disallow_unknown o = true -> (exists iv, In iv vs /\ find_field fs (fst iv) = None) ->
  exists c, json_of o (DStruct fs) (VStruct vs) = TErr c.
Proof. exact json_of_unknown_disallowed. Qed.
Print Assumptions C03_unknown_disallowed_fails.

(* "never malformed" on the model: the text of every successful model conversion is one complete JSON document *)
Theorem C03_model_text_wellformed : forall o d v txt, wf v = true -> desc_ok d = true ->
  t2j_text o d v = Some txt -> exists j, json_parse txt = Some j /\ json_print j = txt /\ json_wf j = true.
Proof. exact t2j_text_wellformed. Qed.
Print Assumptions C03_model_text_wellformed.

(* every expected tree (also those with doubles, printed as exact decimals) prints to a document that parses back *)
Theorem C03_expected_tree_parses : forall e, jexp_bytes e = true -> json_parse (json_print (to_json e)) = Some (to_json e).
Proof. exact model_text_parses. Qed.
Print Assumptions C03_expected_tree_parses.

Theorem C03_exact_double_lexeme_is_number : forall bits, num_okb (f64_exact_lexeme bits) = true.
Proof. exact num_okb_f64_exact. Qed.
Print Assumptions C03_exact_double_lexeme_is_number.

(* what the checker's comparison accepts: exactly the expected member names in order, exactly the string, the same arity;
   and the model's own document is accepted (double-free trees; float text is validated per output by dec2f64) *)
Theorem C03_accepted_object_keys : forall ms j, jmatch (EObj ms) j = true -> exists ns, j = JObj ns /\ map fst ns = map fst ms.
Proof. exact jmatch_obj_keys. Qed.
Print Assumptions C03_accepted_object_keys.

Theorem C03_accepted_string_exact : forall s j, jmatch (EStr s) j = true -> j = JStr s.
Proof. exact jmatch_str_exact. Qed.
Print Assumptions C03_accepted_string_exact.

Theorem C03_accepted_array_length : forall xs j, jmatch (EArr xs) j = true -> exists ys, j = JArr ys /\ length ys = length xs.
Proof. exact jmatch_arr_length. Qed.
Print Assumptions C03_accepted_array_length.

Theorem C03_model_document_accepted : forall e, jexp_nodouble e = true -> jmatch e (to_json e) = true.
Proof. exact jmatch_to_json. Qed.
Print Assumptions C03_model_document_accepted.

(* ---- non-vacuity: a message with an unknown field, a binary, an int-keyed map, a double and a nested struct ---- *)
Definition ex_desc : tdesc :=
  DStruct [ ({| f_id := 1; f_key := [100]; f_req := 1; f_flags := 0 |}, DScalar T_DOUBLE);
            ({| f_id := 2; f_key := [98; 105; 110]; f_req := 0; f_flags := 0 |}, DString true);
            ({| f_id := 3; f_key := [109]; f_req := 2; f_flags := 0 |}, DMap (DScalar T_I32) (DList false (DScalar T_I64)));
            ({| f_id := 4; f_key := [115]; f_req := 0; f_flags := 0 |}, DStruct [({| f_id := 1; f_key := [120]; f_req := 0; f_flags := 1 |}, DScalar T_BYTE)]) ].
Definition ex_val : tval :=
  VStruct [ (2, VString [255; 0; 62]); (9, VI16 7); (1, VDouble 4609434218613702656);
            (3, VMap T_I32 T_LIST [(VI32 (-5), VList T_I64 [VI64 9007199254740993; VI64 (-1)])]);
            (4, VStruct [(1, VByte (-1))]) ].

Example C03_example :
  wf ex_val = true /\ conforms ex_val ex_desc = true /\ desc_ok ex_desc = true /\
  (* members bin, d, m, s in wire order; the unknown field 9 is dropped; int map key as decimal string *)
  option_map (fun txt => option_map (jmatch (EObj [([98; 105; 110], EStr [47; 119; 65; 43]); ([100], EDouble 4609434218613702656);
                                                    ([109], EObj [([45; 53], EArr [EInt 9007199254740993; EInt (-1)])]);
                                                    ([115], EObj [([120], EInt (-1))])])) (json_parse txt))
             (t2j_text 0 ex_desc ex_val) = Some (Some true) /\
  (* DisallowUnknownField (bit 3): error *)
  fst (t2j_spec 8 ex_desc ex_val) = TErr E_UNKNOWN /\
  (* the exact decimal of a double is read back to its bits *)
  lex2f64 (f64_exact_lexeme 4609434218613702656) = Some 4609434218613702656 /\ lex_is_f64 (f64_exact_lexeme 4609434218613702656) 4609434218613702656 = true /\
  lex2f64 (f64_exact_lexeme 4532020583610935537) = Some 4532020583610935537 /\ lex2f64 (f64_exact_lexeme (2 ^ 63 + 9218868437227405311)) = Some (2 ^ 63 + 9218868437227405311).
Proof. vm_compute. repeat split; reflexivity. Qed.

(* ---- the recorded defects contradict the spec (finding ids of findings/C03.json) ---- *)
(* 301: the text produced for a NaN double (object d: <nothing>, x: 1) is not JSON; the quirk matcher recognises exactly it *)
Example C03_quirk_301_refuted :
  let e := EObj [([100], EDouble 9221120237041090560); ([120], EInt 1)] in
  let txt := [123; 34; 100; 34; 58; 44; 34; 120; 34; 58; 49; 125] in
  jexp_finite e = false /\ json_parse txt = None /\ qmatch true false false e txt = Some [] /\ qmatch false false false e txt = None.
Proof. vm_compute. repeat split; reflexivity. Qed.

(* 302: a js_conv string a-quote-b copied raw between the quotes is not JSON *)
Example C03_quirk_302_refuted :
  let e := EObj [([115], EStrV [97; 34; 98])] in
  let txt := [123; 34; 115; 34; 58; 34; 97; 34; 98; 34; 125] in
  has_raw_string e = true /\ json_parse txt = None /\ qmatch false true false e txt = Some [] /\ qmatch false false false e txt = None.
Proof. vm_compute. repeat split; reflexivity. Qed.

(* 303: a js_conv byte -1 written as the quoted literal 255 is valid JSON denoting another number *)
Example C03_quirk_303_refuted :
  let e := EObj [([120], EByteV (-1))] in
  let txt := [123; 34; 120; 34; 58; 34; 50; 53; 53; 34; 125] in
  has_neg_bytev e = true /\ option_map (jmatch e) (json_parse txt) = Some false /\ qmatch false false true e txt = Some [].
Proof. vm_compute. repeat split; reflexivity. Qed.

(* ================================================================== (G) string escaping tables from the Go source *)
(* internal/rt SafeSet / Hex and the ASCII step of the portable quoteString (gen/Gen_rt.v, gen/Gen_jsonportable.v, regenerated from the
   Go text on every build) against esc_byte, the per-byte escaping behind quote_ref *)
From DG Require Gen_rt Gen_json Gen_jsonportable Check20g GenJsonProofs.

Theorem C03_escape_tables_from_source :
  (forall b, 0 <= b < 128 -> Gen_rt.SafeSet b = CaseFormat.bytes_eqb (esc_byte b) [b]) /\
  (forall d, 0 <= d < 16 -> Gen_rt.Hex d = hex_digit d) /\
  (forall c, 0 <= c < 256 -> Gen_json.IsSpace c = is_ws c).
Proof. split; [exact GenJsonProofs.SafeSet_is_unescaped|]. split; [exact GenJsonProofs.Hex_is_hex_digit | exact GenJsonProofs.IsSpace_is_ws]. Qed.
Print Assumptions C03_escape_tables_from_source.

(* one ASCII byte through quoteString: a byte esc_byte leaves alone stays pending, any other byte flushes the pending run and appends
   exactly esc_byte b *)
Theorem C03_quoteString_ascii_from_source :
  forall e s start i b, 0 <= b < 128 -> 0 <= i < 2 ^ 62 ->
  Gen_jsonportable.quoteString_ascii e s start i b =
    if CaseFormat.bytes_eqb (esc_byte b) [b] then (Gen_jsonportable.Out_continue, i + 1, e, start)
    else (Gen_jsonportable.Out_continue, i + 1, GenJsonProofs.pending e s start i ++ esc_byte b, i + 1).
Proof. exact GenJsonProofs.quoteString_ascii_is_esc_byte. Qed.
Print Assumptions C03_quoteString_ascii_from_source.
