(* C13 — JSON <-> binary conversions are mutually inverse on their domains (Thrift half).
   Models: T2J.v (Thrift -> JSON, spec json_of / t2j_spec / t2j_text), J2T.v (JSON -> Thrift, j2t / j2t_text), tied together by
   the common descriptor, the option matching and the domain of model/RoundTrip.v.
   The double printer is a parameter [dlex]; the formatter contract [dlex_contract dlex] (the printed text is a number lexeme that
   the correctly rounding reader dec2f64 maps back to the same bits) is a HYPOTHESIS of the theorems stated for an arbitrary
   printer: the implementation's printer is native assembly (shortest round-trip f64toa) and is checked per output, not proved.
   For the models' own printer (exact decimal expansion) the contract is PROVED (C13_formatter_contract_exact) and the
   `_closed` theorems carry no hypothesis about numbers at all. *)
From Coq Require Import ZArith List Bool Lia.
From DG Require Import CaseFormat ProtoWireRef ThriftWire ThriftWireProofs Json JsonProofs Num NumProofs Base64 Base64Proofs
                       T2J T2JProofs J2T J2TProofs RoundTrip RoundTripProofs Check02 Check13.
From DG Require ProtoMsg ProtoMsgProofs P2J J2P RoundTripP RoundTripPProofs Check13b F64Exact FloatContracts RoundTripClosed.
Import ListNotations.
Local Open Scope Z_scope.

(* ---- Thrift -> JSON -> Thrift is the identity, byte for byte ---- *)

(* AST level, any printer under the contract: the document t2j denotes for v is converted back to exactly encode v *)
Theorem C13_t2j_j2t_id_ast : forall dlex, dlex_contract dlex -> forall D o o' t v n,
  matching_opts o o' -> rt_dom D t v = true -> (depth v <= n)%nat -> Z.of_nat (depth v) <= max_level ->
  exists e, T2J.json_of o (tdesc_of D n t) v = TOk e /\ jexp_finite e = true /\
            j2t D o' t (to_json_d dlex e) = Ok (encode v).
Proof. exact t2j_j2t_id_ast. Qed.
Print Assumptions C13_t2j_j2t_id_ast.

(* text level, any printer under the contract: root walk, printer, prefix parser and encoder composed *)
Theorem C13_t2j_j2t_id_text : forall dlex, dlex_contract dlex -> forall D o o' t v n r,
  matching_opts o o' -> rt_dom D t v = true -> (depth v <= n)%nat -> Z.of_nat (depth v) <= max_level -> stop r = true ->
  exists txt, t2j_doc dlex o D n t v = Some txt /\ j2t_text strict D o' t (txt ++ r) = Ok (encode v).
Proof. exact t2j_j2t_id_text. Qed.
Print Assumptions C13_t2j_j2t_id_text.

(* the same for the model's own printer (exact decimal expansion); the contract shrinks to the one statement about dec2f64 *)
Theorem C13_t2j_j2t_id : f64_exact_contract -> forall D o o' t v n r,
  matching_opts o o' -> rt_dom D t v = true -> (depth v <= n)%nat -> Z.of_nat (depth v) <= max_level -> stop r = true ->
  exists txt, t2j_text o (tdesc_of D n t) v = Some txt /\ j2t_text strict D o' t (txt ++ r) = Ok (encode v).
Proof. exact t2j_j2t_id. Qed.
Print Assumptions C13_t2j_j2t_id.

(* ---- the contract DISCHARGED for the model's own printer: no hypothesis left ---- *)
(* dec2f64 (correct rounding by exact integer arithmetic) maps the exact decimal expansion of every finite binary64 back to its bits *)
Theorem C13_formatter_contract_exact : forall b, 0 <= b < 2 ^ 64 -> f64_is_finite b = true ->
  lex2f64 (f64_exact_lexeme b) = Some b.
Proof. exact F64Exact.f64_exact_contract_holds. Qed.
Print Assumptions C13_formatter_contract_exact.

Theorem C13_t2j_j2t_id_closed : forall D o o' t v n r,
  matching_opts o o' -> rt_dom D t v = true -> (depth v <= n)%nat -> Z.of_nat (depth v) <= max_level -> stop r = true ->
  exists txt, t2j_text o (tdesc_of D n t) v = Some txt /\ j2t_text strict D o' t (txt ++ r) = Ok (encode v).
Proof. exact RoundTripClosed.t2j_j2t_id_closed. Qed.
Print Assumptions C13_t2j_j2t_id_closed.

Theorem C13_j2t_t2j_denotes_closed : forall D o o' t v n c,
  matching_opts o o' -> rt_dom D t v = true -> wf v = true -> (depth v <= n)%nat -> Z.of_nat (depth v) <= max_level ->
  t2j_text o (tdesc_of D n t) v = Some c ->
  exists b v' c' j,
    j2t_text strict D o' t c = Ok b /\ decode_all (tcode t) b = Some v' /\
    t2j_text o (tdesc_of D n t) v' = Some c' /\
    json_parse c = Some j /\ json_parse c' = Some j /\ json_same j j = true /\ v' = v /\ c' = c.
Proof. exact RoundTripClosed.j2t_t2j_denotes_closed. Qed.
Print Assumptions C13_j2t_t2j_denotes_closed.

(* values without doubles need no contract at all: take the printer that prints nothing useful *)
(* (every instance below is additionally checked by computation, with no hypothesis) *)

(* ---- JSON -> Thrift -> JSON on canonical documents ---- *)
Theorem C13_j2t_t2j_denotes : f64_exact_contract -> forall D o o' t v n c,
  matching_opts o o' -> rt_dom D t v = true -> wf v = true -> (depth v <= n)%nat -> Z.of_nat (depth v) <= max_level ->
  t2j_text o (tdesc_of D n t) v = Some c ->
  exists b v' c' j,
    j2t_text strict D o' t c = Ok b /\ decode_all (tcode t) b = Some v' /\
    t2j_text o (tdesc_of D n t) v' = Some c' /\
    json_parse c = Some j /\ json_parse c' = Some j /\ json_same j j = true /\ v' = v /\ c' = c.
Proof. exact j2t_t2j_denotes. Qed.
Print Assumptions C13_j2t_t2j_denotes.

(* the comparison the checker uses accepts every document against itself *)
Theorem C13_json_same_refl : forall j, json_same j j = true.
Proof. exact json_same_refl. Qed.
Print Assumptions C13_json_same_refl.

(* the proved decoder reads the converted bytes back as the value *)
Theorem C13_decode_all_encode : forall v, wf v = true -> decode_all (type_of v) (encode v) = Some v.
Proof. exact decode_all_encode. Qed.
Print Assumptions C13_decode_all_encode.

Theorem C13_value_preserved : forall dlex, dlex_contract dlex -> forall D o o', matching_opts o o' -> forall n t v,
  rt_dom D t v = true -> wf v = true -> (depth v <= n)%nat -> Z.of_nat (depth v) <= max_level ->
  exists b, rt_text dlex D o o' n t v = Ok b /\ decode_all (tcode t) b = Some v.
Proof. exact rt_value_preserved. Qed.
Print Assumptions C13_value_preserved.

(* ---- no information is lost: each clause of the property as its own statement ---- *)
Theorem C13_sign_of_zero : forall dlex, dlex_contract dlex -> forall D o o', matching_opts o o' -> forall n, (1 <= n)%nat ->
  rt_text dlex D o o' n TDouble (VDouble (2 ^ 63)) = Ok [128; 0; 0; 0; 0; 0; 0; 0] /\
  rt_text dlex D o o' n TDouble (VDouble 0) = Ok [0; 0; 0; 0; 0; 0; 0; 0].
Proof. intros. split; [apply rt_neg_zero | apply rt_pos_zero]; assumption. Qed.
Print Assumptions C13_sign_of_zero.

Theorem C13_double_exact : forall dlex, dlex_contract dlex -> forall D o o', matching_opts o o' -> forall n b, (1 <= n)%nat ->
  f64_bits_ok b = true -> rt_text dlex D o o' n TDouble (VDouble b) = Ok (enc_int 8 b).
Proof. exact rt_double_exact. Qed.
Print Assumptions C13_double_exact.

Theorem C13_i64_exact : forall dlex, dlex_contract dlex -> forall D o o', matching_opts o o' -> forall n z, (1 <= n)%nat ->
  in_sb 64 z = true -> rt_text dlex D o o' n TI64 (VI64 z) = Ok (enc_int 8 z).
Proof. exact rt_i64_exact. Qed.
Print Assumptions C13_i64_exact.

Theorem C13_i64_extremes : forall dlex, dlex_contract dlex -> forall D o o', matching_opts o o' -> forall n, (1 <= n)%nat ->
  rt_text dlex D o o' n TI64 (VI64 (- 2 ^ 63)) = Ok [128; 0; 0; 0; 0; 0; 0; 0] /\
  rt_text dlex D o o' n TI64 (VI64 (2 ^ 63 - 1)) = Ok [127; 255; 255; 255; 255; 255; 255; 255].
Proof. intros. split; [apply rt_i64_min | apply rt_i64_max]; assumption. Qed.
Print Assumptions C13_i64_extremes.

Theorem C13_empty_strings : forall dlex, dlex_contract dlex -> forall D o o', matching_opts o o' -> forall n, (1 <= n)%nat ->
  rt_text dlex D o o' n TString (VString []) = Ok [0; 0; 0; 0] /\ rt_text dlex D o o' n TBinary (VString []) = Ok [0; 0; 0; 0].
Proof. intros. split; [apply rt_empty_string | apply rt_empty_binary]; assumption. Qed.
Print Assumptions C13_empty_strings.

Theorem C13_empty_containers : forall dlex, dlex_contract dlex -> forall D o o', matching_opts o o' -> forall n, (1 <= n)%nat ->
  (forall e, rt_text dlex D o o' n (TList e) (VList (tcode e) []) = Ok (tcode e :: [0; 0; 0; 0])) /\
  (forall e, rt_text dlex D o o' n (TSet e) (VSet (tcode e) []) = Ok (tcode e :: [0; 0; 0; 0])) /\
  (forall k e, rt_key_ty k = true -> rt_text dlex D o o' n (TMap k e) (VMap (tcode k) (tcode e) []) = Ok (tcode k :: tcode e :: [0; 0; 0; 0])) /\
  (forall i sd, nth_error D i = Some sd -> req_present sd [] = true -> rt_text dlex D o o' n (TStruct i) (VStruct []) = Ok [0]).
Proof.
  intros dlex Hc D o o' Hm n Hn. repeat split; intros.
  - apply rt_empty_list; assumption.
  - apply rt_empty_set; assumption.
  - apply rt_empty_map; assumption.
  - eapply rt_empty_struct; eassumption.
Qed.
Print Assumptions C13_empty_containers.

Theorem C13_list_order : forall dlex, dlex_contract dlex -> forall D o o', matching_opts o o' -> forall n e es,
  rt_dom D (TList e) (VList (tcode e) es) = true ->
  (depth (VList (tcode e) es) <= n)%nat -> Z.of_nat (depth (VList (tcode e) es)) <= max_level ->
  rt_text dlex D o o' n (TList e) (VList (tcode e) es) = Ok (tcode e :: enc_int 4 (zlen es) ++ flat_map encode es).
Proof. exact rt_list_order. Qed.
Print Assumptions C13_list_order.

Theorem C13_map_order : forall dlex, dlex_contract dlex -> forall D o o', matching_opts o o' -> forall n k e es,
  rt_dom D (TMap k e) (VMap (tcode k) (tcode e) es) = true ->
  (depth (VMap (tcode k) (tcode e) es) <= n)%nat -> Z.of_nat (depth (VMap (tcode k) (tcode e) es)) <= max_level ->
  rt_text dlex D o o' n (TMap k e) (VMap (tcode k) (tcode e) es) =
  Ok (tcode k :: tcode e :: enc_int 4 (zlen es) ++ flat_map (fun x => encode (fst x) ++ encode (snd x)) es).
Proof. exact rt_map_order. Qed.
Print Assumptions C13_map_order.

(* ---- the leaf inverses the round trip rests on (proved for all inputs; shared with C02 / C03) ---- *)
Theorem C13_parse_int_fmt_int : forall z, parse_int (fmt_int z) = Some z.
Proof. exact parse_int_fmt_int. Qed.
Print Assumptions C13_parse_int_fmt_int.
Theorem C13_unquote_quote : forall s, jbytes_okb s = true -> unquote (quote_ref s) = Some s.
Proof. exact unquote_quote_ref. Qed.
Print Assumptions C13_unquote_quote.
Theorem C13_b64_dec_enc : forall bs, Forall (fun b => 0 <= b < 256) bs -> b64_decode (b64_encode bs) = Some bs.
Proof. exact b64_decode_encode. Qed.
Print Assumptions C13_b64_dec_enc.
Theorem C13_exact_lexeme_is_number : forall b, num_okb (f64_exact_lexeme b) = true.
Proof. exact num_okb_f64_exact. Qed.
Print Assumptions C13_exact_lexeme_is_number.

(* ---- non-vacuity: the hypotheses are satisfiable, and concrete round trips computed with NO hypothesis ---- *)
Definition exD : defs :=
  [ [ mkFld 1 [[97]] TI64 1 false; mkFld 2 [[100]] TDouble 0 false; mkFld 3 [[108]] (TList TString) 0 false;
      mkFld 4 [[109]] (TMap TI32 TBinary) 2 false; mkFld 5 [[115]] (TStruct 0) 2 false; mkFld 6 [[98]] TBool 0 false;
      mkFld 7 [[122]] (TSet TDouble) 2 false; mkFld 8 [[118]] TI16 0 true ] ].
Definition exV : tval :=
  VStruct [ (2, VDouble (2 ^ 63)); (1, VI64 (- 2 ^ 63)); (3, VList T_STRING [VString [99]; VString []; VString [97; 34; 92; 10]]);
            (4, VMap T_I32 T_STRING [(VI32 (-7), VString [0; 255; 128]); (VI32 2147483647, VString [])]);
            (6, VBool 1); (8, VI16 (-300));
            (5, VStruct [ (1, VI64 (2 ^ 63 - 1)); (7, VSet T_DOUBLE [VDouble 4372995238176751616; VDouble 9218868437227405311; VDouble 4591870180066957722]);
                          (3, VList T_STRING []) ]) ].
Definition exO' : jopts := mkOpts false true false true.
Definition exO : Z := 1 + 32.      (* Int642String + EnableValueMapping *)

Example C13_ex_matching : matching_opts exO exO'.
Proof. reflexivity. Qed.
Example C13_ex_matching_plain : matching_opts 0 (mkOpts true false false false) /\ matching_opts 4 (mkOpts false false true false).
Proof. split; reflexivity. Qed.
Example C13_ex_domain : rt_dom exD (TStruct 0) exV = true /\ wf exV = true /\ depth exV = 4%nat.
Proof. vm_compute. auto. Qed.

(* the round trip of exV computed on the two models, text level: byte for byte (sign of zero, int64 extremes, empty string / list /
   binary, escapes, base64, int map keys, 2^-60, largest finite double, 0.1, api.js_conv); the least subnormal and every
   other finite pattern are covered by the proved contract C13_formatter_contract_exact *)
Definition ex_round_trip_b : bool :=
  match t2j_text exO (tdesc_of exD 4 (TStruct 0)) exV with
  | Some txt => match j2t_text strict exD exO' (TStruct 0) txt with Ok b => bytes_eqb b (encode exV) | Err _ => false end
  | None => false
  end.
Example C13_ex_round_trip : ex_round_trip_b = true.
Proof. vm_cast_no_check (eq_refl true). Qed.

(* the contract holds on every class value tried (the checker evaluates it on every double of every case) *)
Example C13_ex_contract_instances :
  forallb (dlex_ok_at f64_exact_lexeme)
    [0; 2 ^ 63; 9218868437227405311; 4607182418800017408; 4591870180066957722; 4890909195324358657] = true.
Proof. vm_cast_no_check (eq_refl true). Qed.

(* list order is information: a permuted list is a different result *)
Example C13_ex_order_matters :
  encode (VList T_I32 [VI32 3; VI32 1; VI32 2]) <> encode (VList T_I32 [VI32 1; VI32 2; VI32 3]).
Proof. vm_compute. discriminate. Qed.

(* ---- the recorded defects really contradict the statements above (quirk models of Check13.v) ---- *)
(* 1302: replacing -0.0 by +0.0 changes the bytes of an in-domain value *)
Example C13_quirk_negzero_refuted :
  exists D t v, rt_dom D t v = true /\ has_negzero v = true /\ encode (drop_negzero v) <> encode v.
Proof. exists [], TDouble, (VDouble (2 ^ 63)). repeat split; try reflexivity. vm_compute. discriminate. Qed.

(* 1301: with the name-only key table (MapFieldUseFieldName) the j2t model drops the member t2j wrote under its alias *)
Definition exD_alias : defs := [ [ mkFld 1 [[107]; [110]] TI32 0 false ] ].     (* alias k, name n *)
Example C13_quirk_alias_refuted :
  alias_split 1 exD_alias = true /\
  t2j_text 0 (tdesc_of (defs_for 0 exD_alias) 1 (TStruct 0)) (VStruct [(1, VI32 5)]) = Some [123; 34; 107; 34; 58; 53; 125] /\
  j2t_text strict (defs_for 1 exD_alias) (mkOpts false false false false) (TStruct 0) [123; 34; 107; 34; 58; 53; 125] = Ok [0] /\
  encode (VStruct [(1, VI32 5)]) <> [0].
Proof. vm_compute. repeat split; try reflexivity. discriminate. Qed.

(* ================================================================= Protobuf half, on the two specs =================================
   P2J.pjson_of (message -> document) followed by J2P.pdenote (document -> message) returns the message, up to the packing of
   numeric repeated fields (m_norm: the j2p denotation always packs; the proved decoder reads either form).  Hypotheses in the
   statement: the two formatter contracts of P2J.v's exact-decimal printer (double, and float widened to double), the schema's
   JSON names select their own fields, and the packed form of the message is well-formed for the schema: that excludes numeric
   repeated fields declared [packed=false], for which J2P.pdenote itself is undefined (its final wf test), and carries the size
   bounds (2^64 bytes) that re-packing is not shown to keep. *)
Module ProtoHalf.
Import ProtoMsg ProtoMsgProofs P2J J2P RoundTripP RoundTripPProofs Check13b.

Theorem C13_p2j_j2p_denotes : f64_lex_contract -> f32_lex_contract -> forall S dis root m,
  schema_names_ok S -> wf_msg S root m = true -> p_dom S LSingular (TMsg root) (VMsg m) = true ->
  wf_msg S root (m_norm m) = true ->
  exists j, pjson_of S RoundTripPProofs.p2j_plain root m = Some j /\ pdenote dis S root j = ROk (m_norm m).
Proof. exact p2j_j2p_denotes. Qed.
Print Assumptions C13_p2j_j2p_denotes.

Theorem C13_p2j_j2p_bytes : f64_lex_contract -> f32_lex_contract -> forall S dis root m,
  schema_names_ok S -> wf_msg S root m = true -> p_dom S LSingular (TMsg root) (VMsg m) = true ->
  wf_msg S root (m_norm m) = true ->
  exists j b, pjson_of S RoundTripPProofs.p2j_plain root m = Some j /\ j2p_spec dis S root j = ROk b /\
              decode_top S root b = Some (m_norm m).
Proof. exact p2j_j2p_bytes. Qed.
Print Assumptions C13_p2j_j2p_bytes.

(* the same with the formatter contracts discharged (exact printers of P2J.v: double, and float widened to double) *)
Theorem C13_proto_contracts : f64_lex_contract /\ f32_lex_contract.
Proof. split; [exact FloatContracts.f64_lex_contract_holds | exact FloatContracts.f32_lex_contract_holds]. Qed.
Print Assumptions C13_proto_contracts.

Theorem C13_p2j_j2p_denotes_closed : forall S dis root m,
  schema_names_ok S -> wf_msg S root m = true -> p_dom S LSingular (TMsg root) (VMsg m) = true ->
  wf_msg S root (m_norm m) = true ->
  exists j, pjson_of S RoundTripPProofs.p2j_plain root m = Some j /\ pdenote dis S root j = ROk (m_norm m).
Proof. exact RoundTripClosed.P.p2j_j2p_denotes_closed. Qed.
Print Assumptions C13_p2j_j2p_denotes_closed.

Theorem C13_p2j_j2p_bytes_closed : forall S dis root m,
  schema_names_ok S -> wf_msg S root m = true -> p_dom S LSingular (TMsg root) (VMsg m) = true ->
  wf_msg S root (m_norm m) = true ->
  exists j b, pjson_of S RoundTripPProofs.p2j_plain root m = Some j /\ j2p_spec dis S root j = ROk b /\
              decode_top S root b = Some (m_norm m).
Proof. exact RoundTripClosed.P.p2j_j2p_bytes_closed. Qed.
Print Assumptions C13_p2j_j2p_bytes_closed.

Theorem C13_m_norm_idem : forall m, m_norm (m_norm m) = m_norm m.
Proof. exact m_norm_idem. Qed.
Print Assumptions C13_m_norm_idem.

(* non-vacuity: a schema with every label, a message in the domain, and the round trip computed on the specs (no hypothesis) *)
Definition exS : schema :=
  [ mk_mdesc [77] [ mk_fdesc 1 [97] [97] LSingular (TScalar 3); mk_fdesc 2 [98] [98] (LRepeated true) (TScalar 5);
                    mk_fdesc 3 [99] [99] (LMap 9) (TScalar 12); mk_fdesc 4 [100] [100] LSingular (TMsg [77]);
                    mk_fdesc 5 [101] [101] (LRepeated true) (TScalar 1); mk_fdesc 6 [102] [102] LSingular (TScalar 9) ] ].
Definition exM : pmsg :=
  [ (1, VScalar 3 (- 2 ^ 63)); (2, VList true [VScalar 5 3; VScalar 5 (-1)]); (3, VMap [(KStr [107], VBytes 12 [0; 255])]);
    (5, VList true [VScalar 1 4591870180066957722; VScalar 1 4607182418800017408]);
    (4, VMsg [ (6, VBytes 9 []); (1, VScalar 3 (2 ^ 63 - 1)) ]) ].
Example C13_ex_proto_schema_ok : schema_names_ok exS.
Proof.
  intros md fd [<-|[]] Hin. cbn [md_fields exS] in Hin.
  repeat (destruct Hin as [<-|Hin]; [reflexivity|]). destruct Hin.
Qed.
Example C13_ex_proto_domain :
  wf_msg exS [77] exM = true /\ p_dom exS LSingular (TMsg [77]) (VMsg exM) = true /\ wf_msg exS [77] (m_norm exM) = true.
Proof. vm_compute. auto. Qed.
Definition ex_proto_rt_b : bool :=
  match pjson_of exS RoundTripPProofs.p2j_plain [77] exM with
  | Some j => match pdenote false exS [77] j with ROk m' => msg_eqv m' (m_norm exM) && msg_eqv (m_norm exM) m' | _ => false end
  | None => false
  end.
Example C13_ex_proto_round_trip : ex_proto_rt_b = true.
Proof. vm_cast_no_check (eq_refl true). Qed.

(* the recorded defects contradict the statement: 1324 (bare payloads are not the message) and 1322 (the sign bit is part of it) *)
Example C13_quirk_unpacked_refuted :
  q_encode_msg [(1, VList false [VScalar 5 5; VScalar 5 7])] = [5; 7] /\
  encode_msg [(1, VList false [VScalar 5 5; VScalar 5 7])] = [8; 5; 8; 7].
Proof. vm_compute. auto. Qed.
Example C13_quirk_proto_negzero_refuted :
  msg_eqv [(1, VList true [VScalar 1 (2 ^ 63)])] (m_drop_negzero [(1, VList true [VScalar 1 (2 ^ 63)])]) = false.
Proof. vm_compute. reflexivity. Qed.
End ProtoHalf.

(* ---- the reader dec2f64 / dec2f32 behind every numeric comparison of this property is correctly rounded (proved) ---- *)
From DG Require Dec2FloatCorrect.
Theorem C13_dec2f64_correct : forall d, Num.f64_rounds_to d (Num.dec2f64 d) = true.
Proof. exact Dec2FloatCorrect.dec2f64_correct. Qed.
Print Assumptions C13_dec2f64_correct.

Theorem C13_dec2f64_unique : forall d b, 0 <= b < 2 ^ 64 -> Num.f64_rounds_to d b = true -> b = Num.dec2f64 d.
Proof. exact Dec2FloatCorrect.dec2f64_unique. Qed.
Print Assumptions C13_dec2f64_unique.

Theorem C13_dec2f32_correct : forall d, Num.f32_rounds_to d (Num.dec2f32 d) = true.
Proof. exact Dec2FloatCorrect.dec2f32_correct. Qed.
Print Assumptions C13_dec2f32_correct.

(* ================================================================== (G) the finite test from the Go source *)
(* conv/p2j checkFinite (gen/Gen_p2jfinite.v, regenerated from the Go text on every build; math.IsNaN / math.IsInf are read as tests on
   the IEEE bit pattern) rejects exactly the doubles the model has no JSON image for: those that are not Num.f64_is_finite *)
From DG Require Num Gen_p2jfinite GenFiniteProofs.
Theorem C13_checkFinite_from_source :
  forall b e, 0 <= b ->
  Gen_p2jfinite.checkFinite b e = if Num.f64_is_finite b then (0, []) else (e, [(Gen_p2jfinite.Eff_wrapError, [6])]).
Proof. exact GenFiniteProofs.checkFinite_is_finite. Qed.
Print Assumptions C13_checkFinite_from_source.

(* (G) the finite test of conv/t2j (the condition in front of EncodeFloat64 in doRecurse, case DOUBLE; gen/Gen_t2jfinite.v from the Go
   text on every build) is the negation of Num.f64_is_finite: the doubles for which the model's jexp_finite fails *)
From DG Require Num Gen_t2jfinite GenFiniteProofs.
Theorem C13_t2j_double_finite_from_source :
  forall b, 0 <= b -> Gen_t2jfinite.double_not_finite b = negb (Num.f64_is_finite b).
Proof. exact GenFiniteProofs.double_not_finite_is_finite. Qed.
Print Assumptions C13_t2j_double_finite_from_source.
