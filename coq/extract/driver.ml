(* modelrun: reads one case per line, evaluates the extracted Gallina checker, prints one verdict per line.
   line  := <check-id> <field>*            field := x<hex bytes> | n<decimal integer>
   out   := ok | skip | bad <code> <field>* | known <id> | drift <code>                        *)
open Model

let rec pos_of_int (n : int) : positive =
  if n = 1 then XH else if n land 1 = 0 then XO (pos_of_int (n lsr 1)) else XI (pos_of_int (n lsr 1))
let z_of_int (n : int) : z = if n = 0 then Z0 else if n > 0 then Zpos (pos_of_int n) else Zneg (pos_of_int (-n))

(* decimal string -> z, arbitrary size *)
let z_ten = z_of_int 10
let z_of_dec (s : string) : z =
  let neg = String.length s > 0 && s.[0] = '-' in
  let start = if neg then 1 else 0 in
  let acc = ref Z0 in
  (* chunks of 15 digits *)
  let i = ref start in
  let n = String.length s in
  while !i < n do
    let len = min 15 (n - !i) in
    let chunk = int_of_string (String.sub s !i len) in
    let mul = ref (z_of_int 1) in
    for _ = 1 to len do mul := Z.mul !mul z_ten done;
    acc := Z.add (Z.mul !acc !mul) (z_of_int chunk);
    i := !i + len
  done;
  if neg then Z.opp !acc else !acc

let rec int_of_pos (p : positive) : int = match p with XH -> 1 | XO q -> 2 * int_of_pos q | XI q -> 2 * int_of_pos q + 1
let int_of_z (x : z) : int = match x with Z0 -> 0 | Zpos p -> int_of_pos p | Zneg p -> - (int_of_pos p)

(* z -> decimal string, arbitrary size *)
let z_big = z_of_int 1000000000
let rec dec_of_pos_z (x : z) : string =
  match x with
  | Z0 -> ""
  | _ ->
    let q = Z.div x z_big and r = Z.modulo x z_big in
    let hi = dec_of_pos_z q in
    if hi = "" then string_of_int (int_of_z r) else hi ^ Printf.sprintf "%09d" (int_of_z r)
let dec_of_z (x : z) : string =
  match x with
  | Z0 -> "0"
  | Zpos _ -> dec_of_pos_z x
  | Zneg p -> "-" ^ dec_of_pos_z (Zpos p)

let byte_tbl = Array.init 256 z_of_int
let hexv c = match c with '0'..'9' -> Char.code c - 48 | 'a'..'f' -> Char.code c - 87 | 'A'..'F' -> Char.code c - 55 | _ -> failwith "hex"
let bytes_of_hex (s : string) : z list =
  let n = String.length s / 2 in
  let rec go i acc = if i < 0 then acc else go (i - 1) (byte_tbl.(hexv s.[2*i] * 16 + hexv s.[2*i+1]) :: acc) in
  go (n - 1) []
let hex_of_bytes (l : z list) : string =
  let b = Buffer.create 64 in
  List.iter (fun x -> Buffer.add_string b (Printf.sprintf "%02x" ((int_of_z x) land 255))) l;
  Buffer.contents b

let parse_field (t : string) : field =
  if String.length t = 0 then failwith "empty field"
  else match t.[0] with
  | 'x' -> FB (bytes_of_hex (String.sub t 1 (String.length t - 1)))
  | 'n' -> FZ (z_of_dec (String.sub t 1 (String.length t - 1)))
  | _ -> failwith ("bad field " ^ t)

let show_field (f : field) : string = match f with FB l -> "x" ^ hex_of_bytes l | FZ x -> "n" ^ dec_of_z x

let () =
  let out = Buffer.create 65536 in
  (try
    while true do
      let line = input_line stdin in
      if String.length line > 0 && line.[0] <> '#' then begin
        let toks = List.filter (fun s -> s <> "") (String.split_on_char ' ' line) in
        match toks with
        | [] -> ()
        | id :: rest ->
          let v =
            try
              let fs = List.map parse_field rest in
              (match check_case (z_of_dec id) fs with
               | VOk -> "ok"
               | VSkip -> "skip"
               | VBad (c, d) -> "bad " ^ dec_of_z c ^ String.concat "" (List.map (fun f -> " " ^ show_field f) d)
               | VKnown k -> "known " ^ dec_of_z k
               | VDrift c -> "drift " ^ dec_of_z c)
            with Failure m -> "bad -1 driver:" ^ m | Stack_overflow -> "bad -2 stack" in
          Buffer.add_string out v; Buffer.add_char out '\n';
          if Buffer.length out > 60000 then (print_string (Buffer.contents out); Buffer.clear out)
      end
    done
  with End_of_file -> ());
  print_string (Buffer.contents out)
