(* Extraction of the executable model / checker. ExtrOcamlBasic only: bool, option, unit,
   list, prod, sumbool map to OCaml natives; Z, positive, N, nat stay Coq datatypes. *)
From Coq Require Import ZArith List.
From Coq Require Extraction.
From Coq Require Import ExtrOcamlBasic.
From DG Require Import CaseFormat Check.
Extraction Language OCaml.
Extraction "model.ml" check_case.
