(* Round-trip and exact-skip theorems for the Thrift binary model. *)
From Coq Require Import ZArith List Bool Lia.
From DG Require Import ProtoWireRef ProtoWireRefProofs ThriftWire.
Import ListNotations.
Local Open Scope Z_scope.

(* ---- induction principle with Forall on children ---- *)
Section TvalInd.
  Variable P : tval -> Prop.
  Hypothesis HBool : forall b, P (VBool b).
  Hypothesis HByte : forall z, P (VByte z).
  Hypothesis HI16 : forall z, P (VI16 z).
  Hypothesis HI32 : forall z, P (VI32 z).
  Hypothesis HI64 : forall z, P (VI64 z).
  Hypothesis HDouble : forall z, P (VDouble z).
  Hypothesis HString : forall s, P (VString s).
  Hypothesis HStruct : forall fs, Forall (fun f => P (snd f)) fs -> P (VStruct fs).
  Hypothesis HMap : forall kt vt es, Forall (fun e => P (fst e) /\ P (snd e)) es -> P (VMap kt vt es).
  Hypothesis HSet : forall et es, Forall P es -> P (VSet et es).
  Hypothesis HList : forall et es, Forall P es -> P (VList et es).

  Fixpoint tval_ind' (v : tval) : P v :=
    match v with
    | VBool b => HBool b | VByte z => HByte z | VI16 z => HI16 z | VI32 z => HI32 z | VI64 z => HI64 z
    | VDouble z => HDouble z | VString s => HString s
    | VStruct fs => HStruct fs ((fix go (l : list (Z * tval)) : Forall (fun f => P (snd f)) l :=
        match l with [] => Forall_nil _ | f :: l' => Forall_cons f (tval_ind' (snd f)) (go l') end) fs)
    | VMap kt vt es => HMap kt vt es ((fix go (l : list (tval * tval)) : Forall (fun e => P (fst e) /\ P (snd e)) l :=
        match l with [] => Forall_nil _ | e :: l' => Forall_cons e (conj (tval_ind' (fst e)) (tval_ind' (snd e))) (go l') end) es)
    | VSet et es => HSet et es ((fix go (l : list tval) : Forall P l :=
        match l with [] => Forall_nil _ | e :: l' => Forall_cons e (tval_ind' e) (go l') end) es)
    | VList et es => HList et es ((fix go (l : list tval) : Forall P l :=
        match l with [] => Forall_nil _ | e :: l' => Forall_cons e (tval_ind' e) (go l') end) es)
    end.
End TvalInd.

(* ---- integers ---- *)
Lemma enc_int_length n z : length (enc_int n z) = n.
Proof. unfold enc_int. rewrite rev_length. apply le_enc_length. Qed.

Lemma pow256_pos n : 0 < 256 ^ Z.of_nat n.
Proof. apply Z.pow_pos_nonneg; lia. Qed.

Lemma dec_uint_enc_int n z : dec_uint (enc_int n z) = z mod 256 ^ Z.of_nat n.
Proof.
  unfold dec_uint. rewrite enc_int_length. unfold enc_int. rewrite rev_involutive.
  rewrite <- (app_nil_r (le_enc n _)). apply le_dec_enc. apply Z.mod_pos_bound. apply pow256_pos.
Qed.

Lemma pow256_pow2 n : 256 ^ Z.of_nat n = 2 ^ (8 * Z.of_nat n).
Proof. rewrite Z.pow_mul_r by lia. reflexivity. Qed.

Lemma dec_int_enc_int n z : (0 < n)%nat -> - 2 ^ (8 * Z.of_nat n - 1) <= z < 2 ^ (8 * Z.of_nat n - 1) ->
  dec_int (enc_int n z) = z.
Proof.
  intros Hn Hz. unfold dec_int. rewrite dec_uint_enc_int, enc_int_length. unfold to_s.
  rewrite pow256_pow2.
  set (k := 8 * Z.of_nat n) in *.
  assert (E : 2 ^ k = 2 * 2 ^ (k - 1)).
  { replace k with (Z.succ (k - 1)) at 1 by lia. rewrite Z.pow_succ_r by lia. reflexivity. }
  assert (0 < 2 ^ (k - 1)) by (apply Z.pow_pos_nonneg; lia).
  rewrite Zplus_mod_idemp_l. rewrite Z.mod_small; lia.
Qed.

Lemma enc_int_bytes_ok n z : bytes_ok (enc_int n z).
Proof. unfold enc_int, bytes_ok. apply Forall_rev. apply le_enc_bytes_ok. Qed.

Lemma take_app n a r : length a = n -> take n (a ++ r) = Some (a, r).
Proof.
  intros H. unfold take. rewrite app_length.
  destruct (Nat.leb_spec n (length a + length r)); [|lia].
  rewrite firstn_app, skipn_app. subst n. rewrite firstn_all, skipn_all, Nat.sub_diag. cbn. rewrite app_nil_r. reflexivity.
Qed.

Lemma take_enc_int n z r : take n (enc_int n z ++ r) = Some (enc_int n z, r).
Proof. apply take_app. apply enc_int_length. Qed.

Lemma in_sb_true k z : in_sb k z = true -> - 2 ^ (k - 1) <= z < 2 ^ (k - 1).
Proof. unfold in_sb. rewrite andb_true_iff, Z.leb_le, Z.ltb_lt. tauto. Qed.

(* count: 0 <= n < 2^31 *)
Lemma dec_int_count n : 0 <= n < 2 ^ 31 -> dec_int (enc_int 4 n) = n.
Proof. intros H. apply dec_int_enc_int; [lia|]. change (8 * Z.of_nat 4 - 1) with 31. lia. Qed.

(* every encoding is non-empty: this is what makes the element loops terminate (progress) *)
Lemma encode_nonempty v : (1 <= length (encode v))%nat.
Proof.
  destruct v; cbn [encode]; rewrite ?app_length, ?enc_int_length; cbn [length]; try lia.
Qed.

(* ---- decode (encode v ++ r) = (v, r) ---- *)

Lemma to_nat_zlen {A} (l : list A) : Z.to_nat (zlen l) = length l.
Proof. unfold zlen. apply Nat2Z.id. Qed.

Lemma dec_scalar_encode v r : wf v = true -> is_scalar (type_of v) = true ->
  dec_scalar (type_of v) (encode v ++ r) = Some (v, r).
Proof.
  intros Hwf Hs. destruct v; cbn [type_of] in *; try discriminate Hs; cbn [encode wf] in *;
  unfold dec_scalar; cbn -[take enc_int dec_int dec_uint].
  - reflexivity.
  - rewrite take_enc_int. rewrite dec_int_enc_int; [reflexivity|lia|]. apply in_sb_true in Hwf. exact Hwf.
  - rewrite take_enc_int. rewrite dec_int_enc_int; [reflexivity|lia|]. apply in_sb_true in Hwf. exact Hwf.
  - rewrite take_enc_int. rewrite dec_int_enc_int; [reflexivity|lia|]. apply in_sb_true in Hwf. exact Hwf.
  - rewrite take_enc_int. rewrite dec_int_enc_int; [reflexivity|lia|]. apply in_sb_true in Hwf. exact Hwf.
  - rewrite take_enc_int. rewrite dec_uint_enc_int.
    apply andb_true_iff in Hwf. destruct Hwf as [H0 H1]. apply Z.leb_le in H0. apply Z.ltb_lt in H1.
    rewrite Z.mod_small; [reflexivity|]. change (256 ^ Z.of_nat 8) with (2 ^ 64). lia.
  - apply andb_true_iff in Hwf. destruct Hwf as [_ Hl]. apply Z.ltb_lt in Hl.
    rewrite <- app_assoc. rewrite take_enc_int.
    assert (0 <= zlen s) by (unfold zlen; lia).
    rewrite dec_int_count by lia.
    destruct (Z.ltb_spec (zlen s) 0); [lia|].
    rewrite to_nat_zlen. rewrite take_app by reflexivity. reflexivity.
Qed.

Section LoopLemmas.
  Variable dec : Z -> list Z -> option (tval * list Z).

  Definition dec_ok (x : tval) : Prop := forall r, dec (type_of x) (encode x ++ r) = Some (x, r).

  Lemma dec_fields_encode fs : forall fuel r,
    Forall (fun f => in_sb 16 (fst f) = true /\ type_of (snd f) <> 0 /\ dec_ok (snd f)) fs ->
    (length fs < fuel)%nat ->
    dec_fields dec fuel (flat_map (fun f => type_of (snd f) :: enc_int 2 (fst f) ++ encode (snd f)) fs ++ 0 :: r) = Some (fs, r).
  Proof.
    induction fs as [|[id x] fs IH]; intros fuel r HF Hfuel; destruct fuel as [|fuel]; try (cbn in Hfuel; lia).
    - reflexivity.
    - inversion HF as [|? ? [Hid [Ht Hx]] HF']; subst. cbn [fst snd] in *.
      cbn [flat_map dec_fields]. cbn [app fst snd].
      destruct (Z.eqb_spec (type_of x) 0); [contradiction|].
      rewrite <- !app_assoc. rewrite take_enc_int.
      rewrite Hx. rewrite IH; [|exact HF'|cbn in Hfuel; lia].
      rewrite dec_int_enc_int; [reflexivity|lia|]. apply in_sb_true in Hid. exact Hid.
  Qed.

  Lemma dec_elems_encode et es : forall r,
    Forall (fun e => type_of e = et /\ dec_ok e) es ->
    dec_elems dec (length es) et (flat_map encode es ++ r) = Some (es, r).
  Proof.
    induction es as [|e es IH]; intros r HF; [reflexivity|].
    inversion HF as [|? ? [Ht He] HF']; subst. cbn [length dec_elems flat_map].
    rewrite <- app_assoc. rewrite He. rewrite IH by exact HF'. reflexivity.
  Qed.

  Lemma dec_pairs_encode kt vt es : forall r,
    Forall (fun e => type_of (fst e) = kt /\ type_of (snd e) = vt /\ dec_ok (fst e) /\ dec_ok (snd e)) es ->
    dec_pairs dec (length es) kt vt (flat_map (fun e => encode (fst e) ++ encode (snd e)) es ++ r) = Some (es, r).
  Proof.
    induction es as [|[k x] es IH]; intros r HF; [reflexivity|].
    inversion HF as [|? ? [Hk [Hv [Dk Dv]]] HF']; subst. cbn [fst snd] in *. cbn [length dec_pairs flat_map fst snd].
    rewrite <- !app_assoc. rewrite Dk, Dv. rewrite IH by exact HF'. reflexivity.
  Qed.
End LoopLemmas.

Lemma flat_map_length_ge {A} (g : A -> list Z) (l : list A) :
  (forall a, 1 <= length (g a))%nat -> (length l <= length (flat_map g l))%nat.
Proof.
  intros Hg. induction l as [|a l IH]; cbn [flat_map length]; [lia|].
  rewrite app_length. specialize (Hg a). lia.
Qed.

Lemma dec_count_ok {A} (es : list A) rest : zlen es < 2 ^ 31 -> (length es <= length rest)%nat ->
  dec_count (enc_int 4 (zlen es) ++ rest) = Some (length es, rest).
Proof.
  intros Hl Hr. unfold dec_count. rewrite take_enc_int.
  assert (0 <= zlen es) by (unfold zlen; lia).
  rewrite dec_int_count by lia.
  destruct (Z.ltb_spec (zlen es) 0); [lia|].
  destruct (Z.gtb_spec (zlen es) (zlen rest)); [unfold zlen in *; lia|].
  rewrite to_nat_zlen. reflexivity.
Qed.

Lemma fold_max_le {A} (g : A -> nat) (l : list A) (d : nat) :
  (fold_right (fun a m => Nat.max (g a) m) O l <= d)%nat -> Forall (fun a => (g a <= d)%nat) l.
Proof.
  induction l as [|a l IH]; cbn [fold_right]; intros H; constructor; [lia|apply IH; lia].
Qed.

Lemma valid_type_nonzero t : valid_type t = true -> t <> 0.
Proof. intros H ->. discriminate H. Qed.

Lemma type_of_valid v : valid_type (type_of v) = true.
Proof. destruct v; reflexivity. Qed.

Lemma is_scalar_container v : is_scalar (type_of v) = negb (is_container (type_of v)).
Proof. destruct v; reflexivity. Qed.

Lemma decode_scalar d t bs : is_scalar t = true -> decode d t bs = dec_scalar t bs.
Proof. intros H. destruct d; cbn [decode]; rewrite H; reflexivity. Qed.

Lemma decode_struct d bs : decode (S d) T_STRUCT bs =
  match dec_fields (decode d) (S (length bs)) bs with Some (fs, r) => Some (VStruct fs, r) | None => None end.
Proof. reflexivity. Qed.

Lemma decode_map d bs : decode (S d) T_MAP bs =
  match bs with
  | kt :: vt :: r =>
    match dec_count r with
    | Some (n, r2) => match dec_pairs (decode d) n kt vt r2 with Some (es, r3) => Some (VMap kt vt es, r3) | None => None end
    | None => None
    end
  | _ => None
  end.
Proof. reflexivity. Qed.

Lemma decode_set d bs : decode (S d) T_SET bs =
  match bs with
  | et :: r =>
    match dec_count r with
    | Some (n, r2) => match dec_elems (decode d) n et r2 with Some (es, r3) => Some (VSet et es, r3) | None => None end
    | None => None
    end
  | _ => None
  end.
Proof. reflexivity. Qed.

Lemma decode_list d bs : decode (S d) T_LIST bs =
  match bs with
  | et :: r =>
    match dec_count r with
    | Some (n, r2) => match dec_elems (decode d) n et r2 with Some (es, r3) => Some (VList et es, r3) | None => None end
    | None => None
    end
  | _ => None
  end.
Proof. reflexivity. Qed.

Theorem decode_encode : forall v, wf v = true -> forall d r, (depth v <= d)%nat ->
  decode d (type_of v) (encode v ++ r) = Some (v, r).
Proof.
  induction v as [b|z|z|z|z|z|s|fs IH|kt vt es IH|et es IH|et es IH] using tval_ind'; intros Hwf d r Hd;
  try (rewrite decode_scalar by reflexivity; apply dec_scalar_encode; [exact Hwf|reflexivity]).
  - (* struct *)
    destruct d as [|d]; [cbn in Hd; lia|]. cbn [depth] in Hd. apply le_S_n in Hd.
    cbn [type_of]. rewrite decode_struct.
    cbn [encode]. rewrite <- app_assoc. cbn [app].
    cbn [wf] in Hwf. rewrite forallb_forall in Hwf.
    pose proof (fold_max_le (fun f : Z * tval => depth (snd f)) fs d Hd) as Hdep.
    rewrite dec_fields_encode; [reflexivity| |].
    + rewrite Forall_forall in *. intros f Hin. specialize (Hwf f Hin). apply andb_true_iff in Hwf. destruct Hwf as [Hid Hw].
      split; [exact Hid|]. split; [apply valid_type_nonzero, type_of_valid|].
      intros r'. apply IH; auto.
    + rewrite app_length. cbn [length].
      pose proof (flat_map_length_ge (fun f : Z * tval => type_of (snd f) :: enc_int 2 (fst f) ++ encode (snd f)) fs
        ltac:(intros; cbn [length]; lia)). lia.
  - (* map *)
    destruct d as [|d]; [cbn in Hd; lia|]. cbn [depth] in Hd. apply le_S_n in Hd.
    cbn [type_of]. rewrite decode_map.
    cbn [encode app]. rewrite <- app_assoc.
    cbn [wf] in Hwf. repeat (apply andb_true_iff in Hwf; destruct Hwf as [Hwf ?]).
    match goal with H : (zlen es <? 2 ^ 31) = true |- _ => apply Z.ltb_lt in H end.
    rewrite dec_count_ok; [|assumption|].
    2:{ rewrite app_length.
        pose proof (flat_map_length_ge (fun e : tval * tval => encode (fst e) ++ encode (snd e)) es
          ltac:(intros a; cbv beta; rewrite app_length; pose proof (encode_nonempty (fst a)); lia)). lia. }
    match goal with H : forallb _ es = true |- _ => rewrite forallb_forall in H; rename H into Hall end.
    pose proof (fold_max_le (fun e : tval * tval => Nat.max (depth (fst e)) (depth (snd e))) es d Hd) as Hdep.
    rewrite dec_pairs_encode; [reflexivity|].
    rewrite Forall_forall in *. intros e Hin. specialize (Hall e Hin). specialize (IH e Hin). specialize (Hdep e Hin).
    repeat (apply andb_true_iff in Hall; destruct Hall as [Hall ?]).
    apply Z.eqb_eq in Hall. match goal with H : (type_of (snd e) =? vt) = true |- _ => apply Z.eqb_eq in H end.
    destruct IH as [IHk IHv].
    repeat split; auto; intros r'; [apply IHk|apply IHv]; auto; lia.
  - (* set *)
    destruct d as [|d]; [cbn in Hd; lia|]. cbn [depth] in Hd. apply le_S_n in Hd.
    cbn [type_of]. rewrite decode_set.
    cbn [encode app]. rewrite <- app_assoc.
    cbn [wf] in Hwf. repeat (apply andb_true_iff in Hwf; destruct Hwf as [Hwf ?]).
    match goal with H : (zlen es <? 2 ^ 31) = true |- _ => apply Z.ltb_lt in H end.
    rewrite dec_count_ok; [|assumption|].
    2:{ rewrite app_length. pose proof (flat_map_length_ge encode es encode_nonempty). lia. }
    match goal with H : forallb _ es = true |- _ => rewrite forallb_forall in H; rename H into Hall end.
    pose proof (fold_max_le depth es d Hd) as Hdep.
    rewrite dec_elems_encode; [reflexivity|].
    rewrite Forall_forall in *. intros e Hin. specialize (Hall e Hin). specialize (IH e Hin). specialize (Hdep e Hin).
    apply andb_true_iff in Hall. destruct Hall as [Ht Hw]. apply Z.eqb_eq in Ht.
    split; [exact Ht|]. intros r'. apply IH; auto.
  - (* list *)
    destruct d as [|d]; [cbn in Hd; lia|]. cbn [depth] in Hd. apply le_S_n in Hd.
    cbn [type_of]. rewrite decode_list.
    cbn [encode app]. rewrite <- app_assoc.
    cbn [wf] in Hwf. repeat (apply andb_true_iff in Hwf; destruct Hwf as [Hwf ?]).
    match goal with H : (zlen es <? 2 ^ 31) = true |- _ => apply Z.ltb_lt in H end.
    rewrite dec_count_ok; [|assumption|].
    2:{ rewrite app_length. pose proof (flat_map_length_ge encode es encode_nonempty). lia. }
    match goal with H : forallb _ es = true |- _ => rewrite forallb_forall in H; rename H into Hall end.
    pose proof (fold_max_le depth es d Hd) as Hdep.
    rewrite dec_elems_encode; [reflexivity|].
    rewrite Forall_forall in *. intros e Hin. specialize (Hall e Hin). specialize (IH e Hin). specialize (Hdep e Hin).
    apply andb_true_iff in Hall. destruct Hall as [Ht Hw]. apply Z.eqb_eq in Ht.
    split; [exact Ht|]. intros r'. apply IH; auto.
Qed.

(* ---- skip (SkipGo) advances by exactly |encode v| ---- *)

Lemma drop_app a r : drop (zlen a) (a ++ r) = Some r.
Proof.
  unfold drop. assert (0 <= zlen a) by (unfold zlen; lia).
  destruct (Z.ltb_spec (zlen a) 0); [lia|].
  destruct (Z.gtb_spec (zlen a) (zlen (a ++ r))); [unfold zlen in *; rewrite app_length in *; lia|].
  rewrite to_nat_zlen. rewrite skipn_app, skipn_all, Nat.sub_diag. reflexivity.
Qed.

Lemma drop_app_n n a r : zlen a = n -> drop n (a ++ r) = Some r.
Proof. intros <-. apply drop_app. Qed.

Lemma zlen_enc_int n z : zlen (enc_int n z) = Z.of_nat n.
Proof. unfold zlen. rewrite enc_int_length. reflexivity. Qed.

Lemma fixed_encode_len v : fixed_size (type_of v) >? 0 = true -> zlen (encode v) = fixed_size (type_of v).
Proof.
  destruct v; cbn [type_of]; intros H; try discriminate H; cbn [encode]; try rewrite zlen_enc_int; reflexivity.
Qed.

Lemma skipstr_encode s r : wf (VString s) = true -> skipstr (encode (VString s) ++ r) = Some r.
Proof.
  intros Hwf. cbn [wf] in Hwf. apply andb_true_iff in Hwf. destruct Hwf as [_ Hl]. apply Z.ltb_lt in Hl.
  cbn [encode]. rewrite <- app_assoc. unfold skipstr. rewrite take_enc_int.
  assert (0 <= zlen s) by (unfold zlen; lia). rewrite dec_int_count by lia.
  destruct (Z.ltb_spec (zlen s) 0); [lia|]. apply drop_app.
Qed.

Lemma skip_count_ok n rest : 0 <= n < 2 ^ 31 -> skip_count (enc_int 4 n ++ rest) = Some (n, rest).
Proof.
  intros H. unfold skip_count. rewrite take_enc_int. rewrite dec_int_count by lia.
  destruct (Z.ltb_spec n 0); [lia|]. reflexivity.
Qed.

Section SkipLoopLemmas.
  Variable skp : Z -> list Z -> option (list Z).

  Definition one_ok (x : tval) : Prop := forall r, skip_one skp (type_of x) (encode x ++ r) = Some r.

  Lemma skip_elems_encode et es : forall r,
    Forall (fun e => type_of e = et /\ one_ok e) es ->
    skip_elems skp (length es) et (flat_map encode es ++ r) = Some r.
  Proof.
    induction es as [|e es IH]; intros r HF; [reflexivity|].
    inversion HF as [|? ? [Ht He] HF']; subst. cbn [length skip_elems flat_map].
    rewrite <- app_assoc. rewrite He. apply IH. exact HF'.
  Qed.

  Lemma skip_pairs_encode kt vt es : forall r,
    Forall (fun e => type_of (fst e) = kt /\ type_of (snd e) = vt /\ one_ok (fst e) /\ one_ok (snd e)) es ->
    skip_pairs skp (length es) kt vt (flat_map (fun e => encode (fst e) ++ encode (snd e)) es ++ r) = Some r.
  Proof.
    induction es as [|[k x] es IH]; intros r HF; [reflexivity|].
    inversion HF as [|? ? [Hk [Hv [Dk Dv]]] HF']; subst. cbn [fst snd] in *. cbn [length skip_pairs flat_map fst snd].
    rewrite <- !app_assoc. rewrite Dk, Dv. apply IH. exact HF'.
  Qed.

  Lemma skip_fields_encode fs : forall fuel r,
    Forall (fun f => type_of (snd f) <> 0 /\
                     forall r', (if fixed_size (type_of (snd f)) >? 0 then drop (fixed_size (type_of (snd f))) (encode (snd f) ++ r')
                                 else skp (type_of (snd f)) (encode (snd f) ++ r')) = Some r') fs ->
    (length fs < fuel)%nat ->
    skip_fields skp fuel (flat_map (fun f => type_of (snd f) :: enc_int 2 (fst f) ++ encode (snd f)) fs ++ 0 :: r) = Some r.
  Proof.
    induction fs as [|[id x] fs IH]; intros fuel r HF Hfuel; destruct fuel as [|fuel]; try (cbn in Hfuel; lia).
    - reflexivity.
    - inversion HF as [|? ? [Ht Hx] HF']; subst. cbn [fst snd] in *.
      cbn [flat_map skip_fields]. cbn [app fst snd].
      destruct (Z.eqb_spec (type_of x) 0); [contradiction|].
      rewrite <- !app_assoc. rewrite (drop_app_n 2 (enc_int 2 id)) by apply zlen_enc_int.
      cbv zeta. rewrite Hx. apply IH; [exact HF'|cbn in Hfuel; lia].
  Qed.
End SkipLoopLemmas.

Lemma flat_map_fixed_len et es :
  fixed_size et >? 0 = true -> Forall (fun e => type_of e = et) es ->
  zlen (flat_map encode es) = zlen es * fixed_size et.
Proof.
  intros Hf. induction es as [|e es IH]; intros HF; [reflexivity|].
  inversion HF; subst. cbn [flat_map]. unfold zlen in *. rewrite app_length. cbn [length].
  rewrite Nat2Z.inj_add, IH by assumption. pose proof (fixed_encode_len e Hf) as He. unfold zlen in He. lia.
Qed.

Lemma flat_map_pairs_fixed_len kt vt (es : list (tval * tval)) :
  fixed_size kt >? 0 = true -> fixed_size vt >? 0 = true ->
  Forall (fun e => type_of (fst e) = kt /\ type_of (snd e) = vt) es ->
  zlen (flat_map (fun e => encode (fst e) ++ encode (snd e)) es) = zlen es * (fixed_size kt + fixed_size vt).
Proof.
  intros Hk Hv. induction es as [|[k x] es IH]; intros HF; [reflexivity|].
  inversion HF as [|? ? [Ek Ev] HF']; subst. cbn [fst snd] in *. cbn [flat_map fst snd]. unfold zlen in *. rewrite !app_length. cbn [length].
  rewrite !Nat2Z.inj_add, IH by assumption.
  pose proof (fixed_encode_len k Hk) as H1. pose proof (fixed_encode_len x Hv) as H2. unfold zlen in *. lia.
Qed.

Lemma skip_S d t bs : skip (S d) t bs =
  let n := fixed_size t in
  if n >? 0 then drop n bs
  else if t =? T_STRING then skipstr bs
  else if t =? T_STRUCT then skip_fields (skip d) (S (length bs)) bs
  else if t =? T_MAP then
    match bs with
    | kt :: vt :: r =>
      match skip_count r with
      | None => None
      | Some (sz, r2) =>
        let ks := fixed_size kt in let vs := fixed_size vt in
        if (ks >? 0) && (vs >? 0) then drop (sz * (ks + vs)) r2
        else if sz >? zlen r2 then None
        else skip_pairs (skip d) (Z.to_nat sz) kt vt r2
      end
    | _ => None
    end
  else if (t =? T_SET) || (t =? T_LIST) then
    match bs with
    | et :: r =>
      match skip_count r with
      | None => None
      | Some (sz, r2) =>
        let es := fixed_size et in
        if es >? 0 then drop (sz * es) r2
        else if sz >? zlen r2 then None
        else skip_elems (skip d) (Z.to_nat sz) et r2
      end
    | _ => None
    end
  else None.
Proof. reflexivity. Qed.

(* one element at the enclosing container's depth budget: fixed -> drop, string -> skipstr, else recursive skip *)
Lemma skip_one_from_skip d x : wf x = true ->
  (is_container (type_of x) = true -> forall r, skip d (type_of x) (encode x ++ r) = Some r) ->
  one_ok (skip d) x.
Proof.
  intros Hwf Hc r. unfold skip_one. cbv zeta.
  destruct (fixed_size (type_of x) >? 0) eqn:Ef.
  - apply drop_app_n. apply fixed_encode_len. exact Ef.
  - destruct x; cbn [type_of] in *; try discriminate Ef.
    + change (T_STRING =? T_STRING) with true. cbn iota. apply skipstr_encode. exact Hwf.
    + change (T_STRUCT =? T_STRING) with false. cbn iota. apply Hc. reflexivity.
    + change (T_MAP =? T_STRING) with false. cbn iota. apply Hc. reflexivity.
    + change (T_SET =? T_STRING) with false. cbn iota. apply Hc. reflexivity.
    + change (T_LIST =? T_STRING) with false. cbn iota. apply Hc. reflexivity.
Qed.

Theorem skip_encode : forall v, wf v = true -> forall d r, (depth v <= d)%nat ->
  skip d (type_of v) (encode v ++ r) = Some r.
Proof.
  induction v as [b|z|z|z|z|z|s|fs IH|kt vt es IH|et es IH|et es IH] using tval_ind'; intros Hwf d r Hd;
  (destruct d as [|d]; [cbn in Hd; lia|]); rewrite skip_S; cbv zeta.
  - apply (drop_app_n 1 [b]). reflexivity.
  - apply (drop_app_n 1). apply zlen_enc_int.
  - apply (drop_app_n 2). apply zlen_enc_int.
  - apply (drop_app_n 4). apply zlen_enc_int.
  - apply (drop_app_n 8). apply zlen_enc_int.
  - apply (drop_app_n 8). apply zlen_enc_int.
  - apply skipstr_encode. exact Hwf.
  - (* struct *)
    cbn [type_of]. change (fixed_size T_STRUCT >? 0) with false. change (T_STRUCT =? T_STRING) with false.
    change (T_STRUCT =? T_STRUCT) with true. cbn iota.
    cbn [depth] in Hd. apply le_S_n in Hd.
    cbn [encode]. rewrite <- app_assoc. cbn [app].
    cbn [wf] in Hwf. rewrite forallb_forall in Hwf.
    pose proof (fold_max_le (fun f : Z * tval => depth (snd f)) fs d Hd) as Hdep.
    apply skip_fields_encode.
    + rewrite Forall_forall in *. intros f Hin. specialize (Hwf f Hin). apply andb_true_iff in Hwf. destruct Hwf as [Hid Hw].
      split; [apply valid_type_nonzero, type_of_valid|]. intros r'.
      destruct (fixed_size (type_of (snd f)) >? 0) eqn:Ef.
      * apply drop_app_n. apply fixed_encode_len. exact Ef.
      * apply IH; auto.
    + rewrite app_length. cbn [length].
      pose proof (flat_map_length_ge (fun f : Z * tval => type_of (snd f) :: enc_int 2 (fst f) ++ encode (snd f)) fs
        ltac:(intros; cbn [length]; lia)). lia.
  - (* map *)
    cbn [type_of]. change (fixed_size T_MAP >? 0) with false. change (T_MAP =? T_STRING) with false.
    change (T_MAP =? T_STRUCT) with false. change (T_MAP =? T_MAP) with true. cbn iota.
    cbn [depth] in Hd. apply le_S_n in Hd.
    cbn [encode app]. rewrite <- app_assoc.
    cbn [wf] in Hwf. repeat (apply andb_true_iff in Hwf; destruct Hwf as [Hwf ?]).
    match goal with H : (zlen es <? 2 ^ 31) = true |- _ => apply Z.ltb_lt in H end.
    assert (0 <= zlen es) by (unfold zlen; lia).
    rewrite skip_count_ok by lia.
    match goal with H : forallb _ es = true |- _ => rewrite forallb_forall in H; rename H into Hall end.
    assert (Hty : Forall (fun e : tval * tval => type_of (fst e) = kt /\ type_of (snd e) = vt) es).
    { rewrite Forall_forall. intros e Hin. specialize (Hall e Hin).
      repeat (apply andb_true_iff in Hall; destruct Hall as [Hall ?]).
      apply Z.eqb_eq in Hall. match goal with H : (type_of (snd e) =? vt) = true |- _ => apply Z.eqb_eq in H end. auto. }
    destruct ((fixed_size kt >? 0) && (fixed_size vt >? 0)) eqn:Efix.
    + apply andb_true_iff in Efix. destruct Efix as [Ek Ev].
      apply drop_app_n. apply flat_map_pairs_fixed_len; assumption.
    + pose proof (flat_map_length_ge (fun e : tval * tval => encode (fst e) ++ encode (snd e)) es
          ltac:(intros a; cbv beta; rewrite app_length; pose proof (encode_nonempty (fst a)); lia)) as Hlen.
      destruct (Z.gtb_spec (zlen es) (zlen (flat_map (fun e : tval * tval => encode (fst e) ++ encode (snd e)) es ++ r)));
        [unfold zlen in *; rewrite app_length in *; lia|].
      rewrite to_nat_zlen.
      pose proof (fold_max_le (fun e : tval * tval => Nat.max (depth (fst e)) (depth (snd e))) es d Hd) as Hdep.
      apply skip_pairs_encode.
      rewrite Forall_forall in *. intros e Hin. specialize (Hall e Hin). specialize (IH e Hin). specialize (Hdep e Hin).
      specialize (Hty e Hin). destruct Hty as [Tk Tv]. destruct IH as [IHk IHv].
      repeat (apply andb_true_iff in Hall; destruct Hall as [Hall ?]).
      split; [exact Tk|]. split; [exact Tv|].
      split; apply skip_one_from_skip; auto; intros _ r'; [apply IHk|apply IHv]; auto; lia.
  - (* set *)
    cbn [type_of]. change (fixed_size T_SET >? 0) with false. change (T_SET =? T_STRING) with false.
    change (T_SET =? T_STRUCT) with false. change (T_SET =? T_MAP) with false.
    change ((T_SET =? T_SET) || (T_SET =? T_LIST)) with true. cbn iota.
    cbn [depth] in Hd. apply le_S_n in Hd.
    cbn [encode app]. rewrite <- app_assoc.
    cbn [wf] in Hwf. repeat (apply andb_true_iff in Hwf; destruct Hwf as [Hwf ?]).
    match goal with H : (zlen es <? 2 ^ 31) = true |- _ => apply Z.ltb_lt in H end.
    assert (0 <= zlen es) by (unfold zlen; lia).
    rewrite skip_count_ok by lia.
    match goal with H : forallb _ es = true |- _ => rewrite forallb_forall in H; rename H into Hall end.
    assert (Hty : Forall (fun e : tval => type_of e = et) es).
    { rewrite Forall_forall. intros e Hin. specialize (Hall e Hin).
      apply andb_true_iff in Hall. destruct Hall as [Hall _]. apply Z.eqb_eq in Hall. exact Hall. }
    destruct (fixed_size et >? 0) eqn:Efix.
    + apply drop_app_n. apply flat_map_fixed_len; assumption.
    + pose proof (flat_map_length_ge encode es encode_nonempty) as Hlen.
      destruct (Z.gtb_spec (zlen es) (zlen (flat_map encode es ++ r))); [unfold zlen in *; rewrite app_length in *; lia|].
      rewrite to_nat_zlen.
      pose proof (fold_max_le depth es d Hd) as Hdep.
      apply skip_elems_encode.
      rewrite Forall_forall in *. intros e Hin. specialize (Hall e Hin). specialize (IH e Hin). specialize (Hdep e Hin).
      specialize (Hty e Hin). apply andb_true_iff in Hall. destruct Hall as [_ Hw].
      split; [exact Hty|]. apply skip_one_from_skip; [exact Hw|]. intros _ r'. apply IH; auto.
  - (* list *)
    cbn [type_of]. change (fixed_size T_LIST >? 0) with false. change (T_LIST =? T_STRING) with false.
    change (T_LIST =? T_STRUCT) with false. change (T_LIST =? T_MAP) with false.
    change ((T_LIST =? T_SET) || (T_LIST =? T_LIST)) with true. cbn iota.
    cbn [depth] in Hd. apply le_S_n in Hd.
    cbn [encode app]. rewrite <- app_assoc.
    cbn [wf] in Hwf. repeat (apply andb_true_iff in Hwf; destruct Hwf as [Hwf ?]).
    match goal with H : (zlen es <? 2 ^ 31) = true |- _ => apply Z.ltb_lt in H end.
    assert (0 <= zlen es) by (unfold zlen; lia).
    rewrite skip_count_ok by lia.
    match goal with H : forallb _ es = true |- _ => rewrite forallb_forall in H; rename H into Hall end.
    assert (Hty : Forall (fun e : tval => type_of e = et) es).
    { rewrite Forall_forall. intros e Hin. specialize (Hall e Hin).
      apply andb_true_iff in Hall. destruct Hall as [Hall _]. apply Z.eqb_eq in Hall. exact Hall. }
    destruct (fixed_size et >? 0) eqn:Efix.
    + apply drop_app_n. apply flat_map_fixed_len; assumption.
    + pose proof (flat_map_length_ge encode es encode_nonempty) as Hlen.
      destruct (Z.gtb_spec (zlen es) (zlen (flat_map encode es ++ r))); [unfold zlen in *; rewrite app_length in *; lia|].
      rewrite to_nat_zlen.
      pose proof (fold_max_le depth es d Hd) as Hdep.
      apply skip_elems_encode.
      rewrite Forall_forall in *. intros e Hin. specialize (Hall e Hin). specialize (IH e Hin). specialize (Hdep e Hin).
      specialize (Hty e Hin). apply andb_true_iff in Hall. destruct Hall as [_ Hw].
      split; [exact Hty|]. apply skip_one_from_skip; [exact Hw|]. intros _ r'. apply IH; auto.
Qed.
