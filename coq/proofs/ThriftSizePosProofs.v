(* Patching the provisional count of a container header in place (ModifyI32 at the position Write*BeginWithSizePos recorded) gives
   the header with the new count, whatever follows it - also nothing (the count is the LAST i32 of the buffer). *)
From Coq Require Import ZArith List Bool Lia.
From DG Require Import CaseFormat ProtoWireRef ProtoWireRefProofs ThriftWire ThriftWireProofs ThriftAnyDesc ThriftSizePos.
Import ListNotations.
Local Open Scope Z_scope.

Lemma modify_i32_splice pre old v post : length old = 4%nat ->
  modify_i32 (zlen pre) v (pre ++ old ++ post) = (pre ++ enc_int 4 v ++ post, 0).
Proof.
  intros Hl. unfold modify_i32, zlen. rewrite !app_length, Hl.
  destruct (Z.ltb_spec (Z.of_nat (length pre + (4 + length post))) (Z.of_nat (length pre) + 4)); [lia|].
  destruct (Z.ltb_spec (Z.of_nat (length pre)) 0); [lia|].
  rewrite Nat2Z.id. replace (Z.to_nat (Z.of_nat (length pre) + 4)) with (length pre + 4)%nat by lia.
  rewrite firstn_app, Nat.sub_diag, firstn_all, firstn_O, app_nil_r.
  rewrite skipn_app, skipn_all2 by lia. replace (length pre + 4 - length pre)%nat with 4%nat by lia.
  rewrite skipn_app, skipn_all2 by lia. rewrite Hl, Nat.sub_diag, skipn_O. reflexivity.
Qed.

Theorem list_size_patch pre et prov n elems :
  let '(buf, pos) := list_begin_pos pre et prov in
  modify_i32 pos n (buf ++ elems) = (pre ++ list_begin et n ++ elems, 0).
Proof.
  cbn [list_begin_pos]. unfold list_begin.
  replace (zlen pre + 1) with (zlen (pre ++ [et])) by (unfold zlen; rewrite app_length; cbn [length]; lia).
  replace ((pre ++ et :: enc_int 4 prov) ++ elems) with ((pre ++ [et]) ++ enc_int 4 prov ++ elems)
    by (rewrite <- !app_assoc; reflexivity).
  rewrite modify_i32_splice by apply enc_int_length. rewrite <- app_assoc. reflexivity.
Qed.

Theorem map_size_patch pre kt vt prov n elems :
  let '(buf, pos) := map_begin_pos pre kt vt prov in
  modify_i32 pos n (buf ++ elems) = (pre ++ map_begin kt vt n ++ elems, 0).
Proof.
  cbn [map_begin_pos]. unfold map_begin.
  replace (zlen pre + 2) with (zlen (pre ++ [kt; vt])) by (unfold zlen; rewrite app_length; cbn [length]; lia).
  replace ((pre ++ kt :: vt :: enc_int 4 prov) ++ elems) with ((pre ++ [kt; vt]) ++ enc_int 4 prov ++ elems)
    by (rewrite <- !app_assoc; reflexivity).
  rewrite modify_i32_splice by apply enc_int_length. rewrite <- app_assoc. reflexivity.
Qed.

(* header with a provisional count, the elements appended, the count patched to their number: the encoded list *)
Theorem list_written_with_patched_count pre et prov es :
  let '(buf, pos) := list_begin_pos pre et prov in
  modify_i32 pos (zlen es) (buf ++ flat_map encode es) = (pre ++ encode (VList et es), 0).
Proof. exact (list_size_patch pre et prov (zlen es) (flat_map encode es)). Qed.

(* a position that leaves fewer than four bytes is an error and changes nothing *)
Theorem modify_i32_out_of_range pos v buf : zlen buf < pos + 4 -> modify_i32 pos v buf = (buf, 1).
Proof. intros H. unfold modify_i32. destruct (Z.ltb_spec (zlen buf) (pos + 4)); [reflexivity|lia]. Qed.
