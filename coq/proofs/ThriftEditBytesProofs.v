(* C04 at algorithm level: the byte-level SetByPath / UnsetByPath of model/ThriftEditBytes.v (search by chained
   skip, three-slice splice, in-place count patch) refine the AST-level edits of model/ThriftEdit.v: run on the
   encoding of a well-formed value they return the encoding of the edited value (same 'existed' flag, error exactly
   when the spec fails), so every buffer of every history is the encoding of the model state. *)
From Coq Require Import ZArith List Bool Lia.
From DG Require Import ProtoWireRef ProtoWireRefProofs ThriftWire ThriftWireProofs ThriftCanonProofs CaseFormat ThriftGeneric ThriftGenericProofs
  ThriftEdit ThriftEditProofs ThriftEditBytes.
Import ListNotations.
Local Open Scope Z_scope.

(* ================= slices of concatenations ================= *)
Lemma bfirstn_app a b : bfirstn (zlen a) (a ++ b) = a.
Proof. unfold bfirstn. rewrite to_nat_zlen, firstn_app, firstn_all, Nat.sub_diag. cbn [firstn]. apply app_nil_r. Qed.

Lemma bskipn_app a b : bskipn (zlen a) (a ++ b) = b.
Proof. unfold bskipn. rewrite to_nat_zlen, skipn_app, skipn_all, Nat.sub_diag. reflexivity. Qed.

Lemma bfirstn_app_n n a b : n = zlen a -> bfirstn n (a ++ b) = a.
Proof. intros ->. apply bfirstn_app. Qed.

Lemma bskipn_app_n n a b : n = zlen a -> bskipn n (a ++ b) = b.
Proof. intros ->. apply bskipn_app. Qed.

(* the splice of Node.replace on a buffer seen as pre | mid | post *)
Lemma replace_mid pre mid post nw s e : s = zlen pre -> e = zlen pre + zlen mid ->
  replace (pre ++ mid ++ post) s e nw = pre ++ nw ++ post.
Proof.
  intros -> ->. unfold replace. rewrite bfirstn_app. f_equal. f_equal.
  rewrite app_assoc. apply bskipn_app_n. rewrite zlen_app. reflexivity.
Qed.

Lemma replace_ins pre post nw s : s = zlen pre -> replace (pre ++ post) s s nw = pre ++ nw ++ post.
Proof. intros ->. apply (replace_mid pre [] post); [reflexivity|]. rewrite zlen_nil. lia. Qed.

Lemma write_i32_mid pre old post pos val : zlen old = 4 -> pos = zlen pre ->
  write_i32 (pre ++ old ++ post) pos val = pre ++ enc_int 4 val ++ post.
Proof.
  intros Ho ->. unfold write_i32. rewrite bfirstn_app. f_equal. f_equal.
  rewrite app_assoc. apply bskipn_app_n. rewrite zlen_app. lia.
Qed.

(* the count patch: the four bytes at pos hold n, afterwards they hold n + d *)
Lemma patch_count_mid pre n post pos d : 0 <= n < 2 ^ 31 -> pos = zlen pre ->
  patch_count (pre ++ enc_int 4 n ++ post) pos d = pre ++ enc_int 4 (n + d) ++ post.
Proof.
  intros Hn ->. unfold patch_count. rewrite bskipn_app.
  rewrite (bfirstn_app_n 4 (enc_int 4 n) post) by (rewrite zlen_enc_int; reflexivity).
  rewrite dec_int_count by exact Hn. apply write_i32_mid; [apply zlen_enc_int|reflexivity].
Qed.

Lemma nth_app_len (a : list Z) x b : nth (length a) (a ++ x :: b) 0 = x.
Proof. induction a as [|y a IH]; [reflexivity|exact IH]. Qed.

Lemma slice_mid pre mid post ps pe : ps = zlen pre -> pe = zlen pre + zlen mid ->
  bfirstn (pe - ps) (bskipn ps (pre ++ mid ++ post)) = mid.
Proof. intros -> ->. rewrite bskipn_app. apply bfirstn_app_n. lia. Qed.

(* ================= the walk of SetByPath vs the AST ================= *)
(* spec-level image of [walk]: what the path addresses in the AST, with the byte positions *)
Fixpoint wlookup (v : tval) (off : Z) (p : list pstep) : wres :=
  match p with
  | [] => WFound (type_of v) off (off + zlen (encode v))
  | s :: p' =>
    match lookup1 v s with
    | LFound sub o => wlookup sub (off + o) p'
    | LNotFound => match p' with [] => WNotFoundLast (type_of v) (off + nf_start (type_of v)) | _ => WNotFound end
    | LErr => WErr
    end
  end.

Theorem walk_refines : forall p v r off, good v -> walk (type_of v) (encode v ++ r) off p = wlookup v off p.
Proof.
  induction p as [|s p IH]; intros v r off Hg.
  - cbn [walk wlookup]. rewrite skip_go_encode by exact Hg. rewrite zlen_app. f_equal. lia.
  - cbn [walk wlookup]. pose proof (search1_refines v s r Hg) as H.
    destruct (lookup1 v s) as [sub o| |] eqn:E; cbn [sres_matches] in H.
    + destruct H as [r' H]. rewrite H. apply IH. eapply lookup1_good; eassumption.
    + rewrite H. reflexivity.
    + rewrite H. reflexivity.
Qed.

(* ================= one container level: where a child sits in the encoding ================= *)
Local Notation encF := (flat_map (fun f : Z * tval => type_of (snd f) :: enc_int 2 (fst f) ++ encode (snd f))).
Local Notation encP := (flat_map (fun e : tval * tval => encode (fst e) ++ encode (snd e))).
Local Notation encE := (flat_map encode).

Lemma find_field_gsplit id fs pre e post : gsplit (fun i => i =? id) fs pre e post ->
  forall off, find_field id fs off = LFound (snd e) (off + zlen (encF pre) + 3).
Proof.
  intros [E [He Hpre]]. subst fs. induction pre as [|g pre IH]; intros off; cbn [app find_field].
  - rewrite He. cbn [flat_map]. rewrite zlen_nil. f_equal. lia.
  - inversion Hpre as [|? ? Hg Hp]; subst. rewrite Hg. rewrite (IH Hp). f_equal.
    cbn [flat_map]. rewrite zlen_app, zlen_cons, zlen_app, zlen_enc_int. lia.
Qed.

Lemma find_key_gsplit pr es pre e post : gsplit pr es pre e post ->
  forall off, find_key pr es off = LFound (snd e) (off + zlen (encP pre) + zlen (encode (fst e))).
Proof.
  intros [E [He Hpre]]. subst es. induction pre as [|g pre IH]; intros off; cbn [app find_key].
  - rewrite He. cbn [flat_map]. rewrite zlen_nil. f_equal. lia.
  - inversion Hpre as [|? ? Hg Hp]; subst. rewrite Hg. rewrite (IH Hp). f_equal.
    cbn [flat_map]. rewrite !zlen_app. lia.
Qed.

Lemma find_index_mid (pre : list tval) c post : forall off,
  find_index (length pre) (pre ++ c :: post) off = LFound c (off + zlen (encE pre)).
Proof.
  induction pre as [|g pre IH]; intros off; cbn [app length find_index].
  - cbn [flat_map]. rewrite zlen_nil. f_equal. lia.
  - rewrite IH. f_equal. cbn [flat_map]. rewrite zlen_app. lia.
Qed.

Lemma find_key_none pr es : gfind pr es = None -> forall off, find_key pr es off = LNotFound.
Proof.
  induction es as [|e es IH]; intros H off; [reflexivity|]. cbn [gfind] in H. cbn [find_key].
  destruct (pr (fst e)); [discriminate H|]. apply IH. exact H.
Qed.

Lemma find_field_none id fs : gfind (fun i => i =? id) fs = None -> forall off, find_field id fs off = LNotFound.
Proof.
  induction fs as [|f fs IH]; intros H off; [reflexivity|]. cbn [gfind] in H. cbn [find_field].
  destruct (fst f =? id); [discriminate H|]. apply IH. exact H.
Qed.

Lemma lookup1_map_key_pred kt vt es s pr : key_pred kt s = Some pr -> lookup1 (VMap kt vt es) s = find_key pr es 6.
Proof.
  destruct s as [id|i|ks|n|b]; cbn [key_pred lookup1]; try discriminate.
  - destruct (kt =? T_STRING); [|discriminate]. intros H; inversion H; reflexivity.
  - destruct (is_int_type kt); [|discriminate]. intros H; inversion H; reflexivity.
  - intros H; inversion H; reflexivity.
Qed.

Lemma lookup1_map_no_pred kt vt es s : key_pred kt s = None -> lookup1 (VMap kt vt es) s = LErr.
Proof.
  destruct s as [id|i|ks|n|b]; cbn [key_pred lookup1]; try reflexivity.
  - destruct (kt =? T_STRING); [discriminate|reflexivity].
  - destruct (is_int_type kt); [discriminate|reflexivity].
  - discriminate.
Qed.

(* a replaced child: same bytes before and after it *)
Lemma child_replaced_encode s c c' v v' : child_replaced s c c' v v' -> type_of c' = type_of c ->
  exists pre post, lookup1 v s = LFound c (zlen pre) /\ encode v = pre ++ encode c ++ post /\ encode v' = pre ++ encode c' ++ post.
Proof.
  intros H Ht.
  destruct s as [id|i|ks|n|b]; destruct v as [?|?|?|?|?|?|?|fs|kt vt es|et es|et es]; cbn [child_replaced] in H; try contradiction.
  - (* struct *)
    destruct H as [pre0 [e [post0 [Hs [Hc E']]]]]. pose proof Hs as [E _]. subst v' c fs.
    exists (encF pre0 ++ type_of (snd e) :: enc_int 2 (fst e)), (encF post0 ++ [0]).
    split; [|split].
    + cbn [lookup1]. rewrite (find_field_gsplit _ _ _ _ _ Hs). f_equal. rewrite zlen_app, zlen_cons, zlen_enc_int. lia.
    + cbn [encode]. rewrite flat_map_app. cbn [flat_map]. rewrite <- !app_assoc. cbn [app]. rewrite <- !app_assoc. reflexivity.
    + cbn [encode]. rewrite flat_map_app. cbn [flat_map fst snd]. rewrite Ht. rewrite <- !app_assoc. cbn [app]. rewrite <- !app_assoc. reflexivity.
  - destruct H as [pr [pre0 [e [post0 [Hp _]]]]]. discriminate Hp.
  - destruct H as [pr [pre0 [e [post0 [Hp _]]]]]. discriminate Hp.
  - (* set *)
    destruct H as [Hi [pre0 [post0 [E [L E']]]]]. subst v' es.
    exists (et :: enc_int 4 (zlen (pre0 ++ c :: post0)) ++ encE pre0), (encE post0).
    split; [|split].
    + cbn [lookup1]. destruct (Z.ltb_spec i 0); [lia|]. rewrite <- L, find_index_mid. f_equal.
      rewrite zlen_cons, zlen_app, zlen_enc_int. lia.
    + cbn [encode]. rewrite flat_map_app. cbn [flat_map app]. rewrite <- !app_assoc. reflexivity.
    + cbn [encode]. rewrite (zlen_replace pre0 c c' post0). rewrite flat_map_app. cbn [flat_map app]. rewrite <- !app_assoc. reflexivity.
  - (* list *)
    destruct H as [Hi [pre0 [post0 [E [L E']]]]]. subst v' es.
    exists (et :: enc_int 4 (zlen (pre0 ++ c :: post0)) ++ encE pre0), (encE post0).
    split; [|split].
    + cbn [lookup1]. destruct (Z.ltb_spec i 0); [lia|]. rewrite <- L, find_index_mid. f_equal.
      rewrite zlen_cons, zlen_app, zlen_enc_int. lia.
    + cbn [encode]. rewrite flat_map_app. cbn [flat_map app]. rewrite <- !app_assoc. reflexivity.
    + cbn [encode]. rewrite (zlen_replace pre0 c c' post0). rewrite flat_map_app. cbn [flat_map app]. rewrite <- !app_assoc. reflexivity.
  - (* map, three key kinds *)
    destruct H as [pr [pre0 [e [post0 [Hp [Hs [Hc E']]]]]]]. pose proof Hs as [E _]. subst v' c es.
    exists (kt :: vt :: enc_int 4 (zlen (pre0 ++ e :: post0)) ++ encP pre0 ++ encode (fst e)), (encP post0).
    split; [|split].
    + rewrite (lookup1_map_key_pred _ _ _ _ _ Hp), (find_key_gsplit _ _ _ _ _ Hs). f_equal.
      rewrite !zlen_cons, !zlen_app, zlen_enc_int. lia.
    + cbn [encode]. rewrite flat_map_app. cbn [flat_map app]. rewrite <- !app_assoc. reflexivity.
    + cbn [encode]. rewrite (zlen_replace pre0 e (fst e, c') post0). rewrite flat_map_app. cbn [flat_map app fst snd]. rewrite <- !app_assoc. reflexivity.
  - destruct H as [pr [pre0 [e [post0 [Hp [Hs [Hc E']]]]]]]. pose proof Hs as [E _]. subst v' c es.
    exists (kt :: vt :: enc_int 4 (zlen (pre0 ++ e :: post0)) ++ encP pre0 ++ encode (fst e)), (encP post0).
    split; [|split].
    + rewrite (lookup1_map_key_pred _ _ _ _ _ Hp), (find_key_gsplit _ _ _ _ _ Hs). f_equal.
      rewrite !zlen_cons, !zlen_app, zlen_enc_int. lia.
    + cbn [encode]. rewrite flat_map_app. cbn [flat_map app]. rewrite <- !app_assoc. reflexivity.
    + cbn [encode]. rewrite (zlen_replace pre0 e (fst e, c') post0). rewrite flat_map_app. cbn [flat_map app fst snd]. rewrite <- !app_assoc. reflexivity.
  - destruct H as [pr [pre0 [e [post0 [Hp [Hs [Hc E']]]]]]]. pose proof Hs as [E _]. subst v' c es.
    exists (kt :: vt :: enc_int 4 (zlen (pre0 ++ e :: post0)) ++ encP pre0 ++ encode (fst e)), (encP post0).
    split; [|split].
    + rewrite (lookup1_map_key_pred _ _ _ _ _ Hp), (find_key_gsplit _ _ _ _ _ Hs). f_equal.
      rewrite !zlen_cons, !zlen_app, zlen_enc_int. lia.
    + cbn [encode]. rewrite flat_map_app. cbn [flat_map app]. rewrite <- !app_assoc. reflexivity.
    + cbn [encode]. rewrite (zlen_replace pre0 e (fst e, c') post0). rewrite flat_map_app. cbn [flat_map app fst snd]. rewrite <- !app_assoc. reflexivity.
Qed.

(* ================= Path.ToRaw writes the encoding of the key the step denotes ================= *)
Lemma enc_int_to_s8 z : enc_int 1 (to_s 8 z) = enc_int 1 z.  Proof. exact (enc_int_to_s 1 z). Qed.
Lemma enc_int_to_s16 z : enc_int 2 (to_s 16 z) = enc_int 2 z. Proof. exact (enc_int_to_s 2 z). Qed.
Lemma enc_int_to_s32 z : enc_int 4 (to_s 32 z) = enc_int 4 z. Proof. exact (enc_int_to_s 4 z). Qed.
Lemma enc_int_to_s64 z : enc_int 8 (to_s 64 z) = enc_int 8 z. Proof. exact (enc_int_to_s 8 z). Qed.

Lemma to_raw_key kt s kv : key_of_step kt s = Some kv -> (forall b, s = PBinKey b -> encode kv = b) ->
  to_raw s kt = Some (encode kv).
Proof.
  destruct s as [id|i|ks|n|b]; cbn [key_of_step to_raw]; try discriminate.
  - destruct (kt =? T_STRING); [|discriminate]. intros H _. inversion H. reflexivity.
  - intros H _.
    destruct (kt =? T_BYTE). { inversion H. cbn [encode]. rewrite enc_int_to_s8. reflexivity. }
    destruct (kt =? T_I16). { inversion H. cbn [encode]. rewrite enc_int_to_s16. reflexivity. }
    destruct (kt =? T_I32). { inversion H. cbn [encode]. rewrite enc_int_to_s32. reflexivity. }
    destruct (kt =? T_I64). { inversion H. cbn [encode]. rewrite enc_int_to_s64. reflexivity. }
    discriminate H.
  - intros _ Hb. rewrite (Hb b eq_refl). reflexivity.
Qed.

Lemma bytes_okb_ok b : bytes_okb b = true -> bytes_ok b.
Proof.
  unfold bytes_okb, bytes_ok. rewrite forallb_forall, Forall_forall. intros H x Hx. specialize (H x Hx).
  unfold byte_okb in H. apply andb_true_iff in H. destruct H as [H1 H2]. apply Z.leb_le in H1. apply Z.ltb_lt in H2.
  unfold byte_ok. lia.
Qed.

Lemma raw_key_judge_true ko b : raw_key_judge ko b = true -> bytes_ok b /\ exists kv, ko = Some kv.
Proof.
  unfold raw_key_judge. intros H. apply andb_true_iff in H. destruct H as [H1 H2]. split; [apply bytes_okb_ok; exact H1|].
  destruct ko as [kv|]; [exists kv; reflexivity|discriminate H2].
Qed.

(* explicit unfolding (by computation on raw_key_ok only): the proofs below never let the unifier look into key_of_step *)
Lemma raw_key_ok_unfold b kt vt es :
  raw_key_ok (PBinKey b) (VMap kt vt es) = raw_key_judge (key_of_step kt (PBinKey b)) b.
Proof. reflexivity. Qed.

Lemma key_of_step_bin_eq kt b : key_of_step kt (PBinKey b) =
  match skip_go kt b with
  | Some [] => match decode (S (length b)) kt b with Some (kv, []) => Some kv | _ => None end
  | _ => None
  end.
Proof. reflexivity. Qed.

(* a raw key that decodes IS the encoding of the key it denotes (decode_canonical) *)
Lemma key_of_step_bin_canon kt b kv : bytes_ok b -> key_of_step kt (PBinKey b) = Some kv -> encode kv = b.
Proof.
  intros B H. rewrite key_of_step_bin_eq in H. revert H. generalize (skip_go kt b). intros sk H.
  destruct sk as [[|? ?]|]; try discriminate H.
  destruct (decode (S (length b)) kt b) as [[kv' [|? ?]]|] eqn:D; try discriminate H. inversion H; subst kv'.
  destruct (decode_canonical _ _ _ _ _ B D) as [E _]. rewrite app_nil_r in E. symmetry. exact E.
Qed.

Lemma raw_key_ok_map s kt vt es kv : raw_key_ok s (VMap kt vt es) = true -> key_of_step kt s = Some kv ->
  forall b, s = PBinKey b -> encode kv = b.
Proof.
  intros H Hk b ->. rewrite raw_key_ok_unfold in H. destruct (raw_key_judge_true _ _ H) as [B _].
  exact (key_of_step_bin_canon kt b kv B Hk).
Qed.

(* ================= setNotFound + replace on an absent LAST step ================= *)
Lemma snf_struct pos s bs xb xt :
  set_not_found T_STRUCT pos s bs xb xt = Some (bs, (match to_raw s xt with Some k => k | None => [] end) ++ xb).
Proof. reflexivity. Qed.
Lemma snf_list pos s bs xb xt : set_not_found T_LIST pos s bs xb xt = Some (patch_count bs (pos - 4) 1, xb).
Proof. reflexivity. Qed.
Lemma snf_set pos s bs xb xt : set_not_found T_SET pos s bs xb xt = Some (patch_count bs (pos - 4) 1, xb).
Proof. reflexivity. Qed.
Lemma snf_map pos s bs xb xt : set_not_found T_MAP pos s bs xb xt =
  match to_raw s (nth (Z.to_nat (pos - 6)) bs 0) with None => None | Some key => Some (patch_count bs (pos - 4) 1, key ++ xb) end.
Proof. reflexivity. Qed.

Lemma insert_elems A B et n body xb : 0 <= n < 2 ^ 31 ->
  replace (patch_count (A ++ (et :: enc_int 4 n ++ body) ++ B) (zlen A + 5 - 4) 1) (zlen A + 5) (zlen A + 5) xb
  = A ++ (et :: enc_int 4 (n + 1) ++ xb ++ body) ++ B.
Proof.
  intros Hn.
  replace (A ++ (et :: enc_int 4 n ++ body) ++ B) with ((A ++ [et]) ++ enc_int 4 n ++ (body ++ B))
    by (rewrite <- !app_assoc; reflexivity).
  rewrite patch_count_mid; [|exact Hn|rewrite zlen_app, zlen_cons, zlen_nil; lia].
  rewrite (app_assoc (A ++ [et])). rewrite replace_ins; [|rewrite !zlen_app, zlen_cons, zlen_nil, zlen_enc_int; lia].
  rewrite <- !app_assoc. cbn [app]. rewrite <- ?app_assoc. reflexivity.
Qed.

Lemma insert_pair A B kt vt n body nb : 0 <= n < 2 ^ 31 ->
  replace (patch_count (A ++ (kt :: vt :: enc_int 4 n ++ body) ++ B) (zlen A + 6 - 4) 1) (zlen A + 6) (zlen A + 6) nb
  = A ++ (kt :: vt :: enc_int 4 (n + 1) ++ nb ++ body) ++ B.
Proof.
  intros Hn.
  replace (A ++ (kt :: vt :: enc_int 4 n ++ body) ++ B) with ((A ++ [kt; vt]) ++ enc_int 4 n ++ (body ++ B))
    by (rewrite <- !app_assoc; reflexivity).
  rewrite patch_count_mid; [|exact Hn|rewrite zlen_app, !zlen_cons, zlen_nil; lia].
  rewrite (app_assoc (A ++ [kt; vt])). rewrite replace_ins; [|rewrite !zlen_app, !zlen_cons, zlen_nil, zlen_enc_int; lia].
  rewrite <- !app_assoc. cbn [app]. rewrite <- ?app_assoc. reflexivity.
Qed.

Lemma zlen_bound {A} (l : list A) : zlen l < 2 ^ 31 -> 0 <= zlen l < 2 ^ 31.
Proof. pose proof (zlen_nonneg l). lia. Qed.

(* NOTE on proof style: ThriftEdit.key_of_step walks a raw key with skip_go (depth fuel 1023) before decoding it. A kernel
   conversion that has [key_of_step kt (PBinKey b)] (concrete constructor) as the scrutinee of a match does not terminate in
   practice, so every lemma below treats maps with the step as a VARIABLE and goes through equations proved by
   [destruct s; reflexivity] (insert_at_map_eq, remove_at_map_eq, raw_key_ok_unfold). *)
Lemma insert_at_map_eq front s x kt vt es : insert_at front s x (VMap kt vt es) =
  match key_pred kt s with
  | None => None
  | Some _ => match key_of_step kt s with Some kv => Some (VMap kt vt (ins front (kv, x) es)) | None => None end
  end.
Proof. destruct s; reflexivity. Qed.

Lemma insert_base_map s x kt vt es kv : good (VMap kt vt es) -> to_raw s kt = Some (encode kv) ->
  forall A B, exists bs' nb,
    set_not_found T_MAP (zlen A + 6) s (A ++ encode (VMap kt vt es) ++ B) (encode x) (type_of x) = Some (bs', nb) /\
    replace bs' (zlen A + 6) (zlen A + 6) nb = A ++ encode (VMap kt vt ((kv, x) :: es)) ++ B.
Proof.
  intros Hg Hraw A B. rewrite snf_map.
  replace (zlen A + 6 - 6) with (zlen A) by lia. rewrite to_nat_zlen. cbn [encode app]. rewrite nth_app_len. rewrite Hraw.
  eexists; eexists; split; [reflexivity|].
  destruct (good_map_inv _ _ _ Hg) as [Hlen _].
  change (A ++ kt :: vt :: (enc_int 4 (zlen es) ++ encP es) ++ B) with (A ++ (kt :: vt :: enc_int 4 (zlen es) ++ encP es) ++ B).
  rewrite insert_pair by (apply zlen_bound; exact Hlen).
  cbn [flat_map fst snd]. rewrite zlen_cons, (Z.add_comm 1). rewrite <- !app_assoc. cbn [app]. rewrite <- ?app_assoc. reflexivity.
Qed.

Lemma insert_base s x v v' : good v -> insert_at true s x v = Some v' -> raw_key_ok s v = true ->
  forall A B, exists bs' nb,
    set_not_found (type_of v) (zlen A + nf_start (type_of v)) s (A ++ encode v ++ B) (encode x) (type_of x) = Some (bs', nb) /\
    replace bs' (zlen A + nf_start (type_of v)) (zlen A + nf_start (type_of v)) nb = A ++ encode v' ++ B.
Proof.
  intros Hg Hi Hraw A B.
  destruct v as [?|?|?|?|?|?|?|fs|kt vt es|et es|et es].
  9: { (* map: the step stays a variable *)
    rewrite insert_at_map_eq in Hi.
    destruct (key_pred kt s) as [pr|] eqn:Ep; [|discriminate Hi].
    destruct (key_of_step kt s) as [kv|] eqn:Ek; [|discriminate Hi]. inversion Hi; subst v'.
    cbn [type_of ins]. change (nf_start T_MAP) with 6.
    apply insert_base_map; [exact Hg|]. apply to_raw_key; [exact Ek|]. eapply raw_key_ok_map; eassumption. }
  all: destruct s as [id|i|ks|n|b]; cbn [insert_at] in Hi; try discriminate Hi.
  - (* struct *)
    inversion Hi; subst v'. cbn [type_of ins]. rewrite snf_struct. cbn [to_raw].
    eexists; eexists; split; [reflexivity|]. change (nf_start T_STRUCT) with 0.
    rewrite replace_ins by lia. cbn [encode flat_map fst snd]. rewrite <- !app_assoc. reflexivity.
  - (* set *)
    destruct (i <? 0); [discriminate Hi|]. inversion Hi; subst v'. cbn [type_of ins]. rewrite snf_set.
    eexists; eexists; split; [reflexivity|]. change (nf_start T_SET) with 5.
    destruct (good_set_inv _ _ Hg) as [Hlen _]. cbn [encode].
    rewrite insert_elems by (apply zlen_bound; exact Hlen). rewrite zlen_cons, (Z.add_comm 1). reflexivity.
  - (* list *)
    destruct (i <? 0); [discriminate Hi|]. inversion Hi; subst v'. cbn [type_of ins]. rewrite snf_list.
    eexists; eexists; split; [reflexivity|]. change (nf_start T_LIST) with 5.
    destruct (good_list_inv _ _ Hg) as [Hlen _]. cbn [encode].
    rewrite insert_elems by (apply zlen_bound; exact Hlen). rewrite zlen_cons, (Z.add_comm 1). reflexivity.
Qed.

Lemma vlookup1_err v s : vlookup1 v s = LErr -> lookup1 v s = LErr.
Proof. rewrite <- lsub_lookup1. destruct (lookup1 v s); cbn [lsub]; intros H; try discriminate H; reflexivity. Qed.

Lemma key_of_step_some kt vt es s pr : key_pred kt s = Some pr -> raw_key_ok s (VMap kt vt es) = true ->
  exists kv, key_of_step kt s = Some kv.
Proof.
  destruct s as [id|i|ks|n|b]; intros Hp Hraw; try discriminate Hp.
  - cbn [key_pred] in Hp. cbn [key_of_step]. destruct (kt =? T_STRING); [eexists; reflexivity|discriminate Hp].
  - cbn [key_pred] in Hp. cbn [key_of_step]. destruct (is_int_type kt) eqn:Ei; [|discriminate Hp]. unfold is_int_type in Ei.
    destruct (kt =? T_BYTE); [eexists; reflexivity|]. destruct (kt =? T_I16); [eexists; reflexivity|].
    destruct (kt =? T_I32); [eexists; reflexivity|]. destruct (kt =? T_I64); [eexists; reflexivity|]. discriminate Ei.
  - rewrite raw_key_ok_unfold in Hraw. destruct (raw_key_judge_true _ _ Hraw) as [_ [kv Hk]].
    exists kv. exact Hk.
Qed.

(* an absent last step that fits the container always has an insertion (given a decodable raw key) *)
Lemma insert_at_some s x v : lookup1 v s = LNotFound -> raw_key_ok s v = true -> exists v', insert_at true s x v = Some v'.
Proof.
  intros L Hraw.
  destruct v as [?|?|?|?|?|?|?|fs|kt vt es|et es|et es].
  9: { rewrite insert_at_map_eq. destruct (key_pred kt s) as [pr|] eqn:Ep.
       - destruct (key_of_step_some _ _ _ _ _ Ep Hraw) as [kv Hk]. rewrite Hk. eexists; reflexivity.
       - rewrite (lookup1_map_no_pred _ _ _ _ Ep) in L. discriminate L. }
  all: destruct s as [id|i|ks|n|b]; try discriminate L; cbn [lookup1] in L; cbn [insert_at].
  - eexists; reflexivity.
  - destruct (i <? 0); [discriminate L|]. eexists; reflexivity.
  - destruct (i <? 0); [discriminate L|]. eexists; reflexivity.
Qed.

(* ================= SET: the walk and the splice against ast_set, by induction on the path ================= *)
Lemma set_spec : forall p x v off, good v -> set_dom p v = true ->
  match ast_set true p x v with
  | Some (v', true) => exists sub pre post,
       lookup v off p = LFound sub (off + zlen pre) /\
       wlookup v off p = WFound (type_of sub) (off + zlen pre) (off + zlen pre + zlen (encode sub)) /\
       type_of sub = type_of x /\ encode v = pre ++ encode sub ++ post /\ encode v' = pre ++ encode x ++ post
  | Some (v', false) => exists ct pos q ls, split_last p = Some (q, ls) /\ wlookup v off p = WNotFoundLast ct (off + pos) /\
       forall A B, exists bs' nb,
         set_not_found ct (zlen A + pos) ls (A ++ encode v ++ B) (encode x) (type_of x) = Some (bs', nb) /\
         replace bs' (zlen A + pos) (zlen A + pos) nb = A ++ encode v' ++ B
  | None => match wlookup v off p with
            | WFound t _ _ => (t =? type_of x) = false
            | WNotFoundLast _ _ => False
            | _ => True
            end
  end.
Proof.
  induction p as [|s p IH]; intros x v off Hg Hd.
  - cbn [ast_set wlookup lookup]. destruct (type_of v =? type_of x) eqn:E; [|reflexivity].
    exists v, [], []. rewrite zlen_nil. cbn [app]. rewrite app_nil_r. apply Z.eqb_eq in E.
    split; [f_equal; lia|]. split; [f_equal; lia|]. split; [exact E|]. split; [reflexivity|]. rewrite app_nil_r. reflexivity.
  - rewrite ast_set_cons_eq. pose proof (descend_spec (ast_set true p x) s v) as HD.
    destruct (descend (ast_set true p x) s v) as [| |v1 e1].
    + (* the step addresses nothing *)
      apply vlookup1_notfound in HD. cbn [set_dom] in Hd. rewrite HD in Hd. cbn [wlookup]. rewrite HD.
      destruct p as [|t p]; [|exact I].
      destruct (insert_at_some s x v HD Hd) as [v2 Ei]. rewrite Ei.
      exists (type_of v), (nf_start (type_of v)), [], s. split; [reflexivity|]. split; [reflexivity|].
      intros A B. apply insert_base; assumption.
    + (* failure *)
      destruct HD as [HE|[c [L Hk]]].
      * apply vlookup1_err in HE. cbn [wlookup]. rewrite HE. exact I.
      * destruct (vlookup1_found _ _ _ _ L) as [o' L']. cbn [wlookup]. rewrite L'.
        cbn [set_dom] in Hd. rewrite L' in Hd.
        specialize (IH x c (off + o') (lookup1_good _ _ _ _ Hg L') Hd). rewrite Hk in IH. exact IH.
    + (* the step addresses a child c, edited into c' *)
      destruct HD as [c [c' [L [Hk R]]]]. destruct (vlookup1_found _ _ _ _ L) as [o' L'].
      cbn [set_dom] in Hd. rewrite L' in Hd.
      pose proof (IH x c (off + o') (lookup1_good _ _ _ _ Hg L') Hd) as IHc. rewrite Hk in IHc.
      destruct (child_replaced_encode _ _ _ _ _ R (ast_set_type _ _ _ _ _ _ Hk)) as [pre1 [post1 [L1 [E1 E1']]]].
      rewrite L1 in L'. inversion L'; subst o'. clear L'.
      destruct e1.
      * destruct IHc as [sub [pre2 [post2 [Hl [Hw [Ht [E2 E2']]]]]]].
        exists sub, (pre1 ++ pre2), (post2 ++ post1). rewrite zlen_app.
        split; [cbn [lookup]; rewrite L1, Hl; f_equal; lia|].
        split; [cbn [wlookup]; rewrite L1, Hw; f_equal; lia|].
        split; [exact Ht|]. split.
        -- rewrite E1, E2. rewrite <- !app_assoc. reflexivity.
        -- rewrite E1', E2'. rewrite <- !app_assoc. reflexivity.
      * destruct IHc as [ct [pos [q [ls [Hsl [Hw Hctx]]]]]].
        exists ct, (zlen pre1 + pos), (s :: q), ls.
        split; [cbn [split_last]; rewrite Hsl; reflexivity|].
        split; [cbn [wlookup]; rewrite L1, Hw; f_equal; lia|].
        intros A B. destruct (Hctx (A ++ pre1) (post1 ++ B)) as [bs' [nb [H1 H2]]]. exists bs', nb.
        rewrite zlen_app in H1, H2. rewrite E1, E1'.
        replace (zlen A + (zlen pre1 + pos)) with (zlen A + zlen pre1 + pos) by lia.
        replace (A ++ (pre1 ++ encode c ++ post1) ++ B) with ((A ++ pre1) ++ encode c ++ post1 ++ B) by (rewrite <- !app_assoc; reflexivity).
        replace (A ++ (pre1 ++ encode c' ++ post1) ++ B) with ((A ++ pre1) ++ encode c' ++ post1 ++ B) by (rewrite <- !app_assoc; reflexivity).
        split; assumption.
Qed.

Lemma split_last_none p : split_last p = None -> p = [].
Proof. destruct p as [|s p]; [reflexivity|]. cbn [split_last]. destruct (split_last p) as [[q l]|]; discriminate. Qed.

Lemma split_last_some p : p <> [] -> exists q ls, split_last p = Some (q, ls).
Proof.
  intros Hp. destruct (split_last p) as [[q l]|] eqn:E; [eexists; eexists; reflexivity|].
  apply split_last_none in E. contradiction.
Qed.

Lemma split_last_app p : forall q ls, split_last p = Some (q, ls) -> p = q ++ [ls].
Proof.
  induction p as [|s p IH]; intros q ls H; [discriminate H|]. cbn [split_last] in H.
  destruct (split_last p) as [[q' l']|] eqn:E.
  - inversion H; subst. rewrite (IH q' ls eq_refl). reflexivity.
  - inversion H; subst. apply split_last_none in E. subst p. reflexivity.
Qed.

(* ================= set_refines ================= *)
Theorem set_refines : forall p x v,
  wf v = true -> (depth v <= max_skip_depth)%nat -> p <> [] -> set_dom p v = true ->
  set_by_path (type_of v) (encode v) p (encode x) (type_of x) =
  match ast_set true p x v with Some (v', ex) => Some (encode v', ex) | None => None end.
Proof.
  intros p x v Hw Hdp Hp Hd. assert (Hg : good v) by (split; assumption).
  unfold set_by_path. destruct (split_last_some p Hp) as [q [ls Esl]]. rewrite Esl.
  pose proof (walk_refines p v [] 0 Hg) as HW. rewrite app_nil_r in HW. rewrite HW.
  pose proof (set_spec p x v 0 Hg Hd) as HS.
  destruct (ast_set true p x v) as [[v' [|]]|].
  - destruct HS as [sub [pre [post [_ [Hwl [Ht [E E']]]]]]]. rewrite Hwl, Ht, Z.eqb_refl.
    rewrite E at 1. rewrite replace_mid by lia. rewrite E'. reflexivity.
  - destruct HS as [ct [pos [q' [ls' [Hsl [Hwl Hctx]]]]]]. rewrite Esl in Hsl. inversion Hsl; subst q' ls'.
    rewrite Hwl. destruct (Hctx [] []) as [bs' [nb [H1 H2]]].
    cbn [app] in H1, H2. rewrite app_nil_r, zlen_nil in H1. rewrite app_nil_r, zlen_nil in H2.
    rewrite H1, H2. reflexivity.
  - destruct (wlookup v 0 p) as [t s e|ct pos| |]; try reflexivity; [rewrite HS; reflexivity|contradiction].
Qed.

(* ================= deleteChild ================= *)
Ltac norm_app := repeat (progress (rewrite <- ?app_assoc; cbn [app])).

Definition dc_elems (bs : list Z) (s : pstep) : dcres :=
  match s with
  | PIndex i =>
    match bs with
    | et :: r =>
      match skip_count r with
      | None => DcErr None
      | Some (sz, r2) =>
        if i <? 0 then DcErr None else if i >=? sz then DcNotFound else
        let patch := Some (1, sz - 1) in
        let d := fixed_size et in
        if d >? 0 then DcFound patch (5 + d * i) (5 + d * i + d)
        else match search_nth (Z.to_nat i) et r2 5 with
             | SFound _ o rest =>
               match skip_go et rest with
               | Some r3 => DcFound patch o (o + (zlen rest - zlen r3))
               | None => DcErr patch
               end
             | _ => DcErr patch
             end
      end
    | [] => DcErr None
    end
  | _ => DcErr None
  end.
Lemma dc_list fx bs s : delete_child fx T_LIST bs s = dc_elems bs s. Proof. reflexivity. Qed.
Lemma dc_set fx bs s : delete_child fx T_SET bs s = dc_elems bs s. Proof. reflexivity. Qed.

(* count patch (n -> n - 1) and removal of one element [el] of a container with header H *)
Lemma remove_span A B H n mid el post pos s0 e0 :
  pos = zlen A + zlen H -> s0 = zlen A + zlen H + 4 + zlen mid -> e0 = s0 + zlen el ->
  replace (write_i32 (A ++ (H ++ enc_int 4 n ++ mid ++ el ++ post) ++ B) pos (n - 1)) s0 e0 []
  = A ++ (H ++ enc_int 4 (n - 1) ++ mid ++ post) ++ B.
Proof.
  intros -> -> ->.
  replace (A ++ (H ++ enc_int 4 n ++ mid ++ el ++ post) ++ B) with ((A ++ H) ++ enc_int 4 n ++ (mid ++ el ++ post ++ B))
    by (rewrite <- !app_assoc; reflexivity).
  rewrite write_i32_mid; [|apply zlen_enc_int|rewrite zlen_app; reflexivity].
  replace ((A ++ H) ++ enc_int 4 (n - 1) ++ mid ++ el ++ post ++ B) with (((A ++ H) ++ enc_int 4 (n - 1) ++ mid) ++ el ++ (post ++ B))
    by (rewrite <- !app_assoc; reflexivity).
  rewrite replace_mid; [|rewrite !zlen_app, zlen_enc_int; lia|rewrite !zlen_app, zlen_enc_int; lia].
  cbn [app]. rewrite <- !app_assoc. reflexivity.
Qed.

Lemma Forall_mid {A} (P : A -> Prop) pre a post : Forall P (pre ++ a :: post) -> Forall P pre /\ P a /\ Forall P post.
Proof. intros H. apply Forall_app in H. destruct H as [H1 H2]. inversion H2; subst. auto. Qed.

(* the element loop of deleteChild on a list / set body *)
Lemma dc_elems_found et pre c0 post i :
  zlen (pre ++ c0 :: post) < 2 ^ 31 -> Forall (fun e => type_of e = et /\ good e) (pre ++ c0 :: post) ->
  0 <= i -> length pre = Z.to_nat i ->
  exists s0 e0, dc_elems (et :: enc_int 4 (zlen (pre ++ c0 :: post)) ++ flat_map encode (pre ++ c0 :: post)) (PIndex i)
                = DcFound (Some (1, zlen (pre ++ c0 :: post) - 1)) s0 e0 /\
                s0 = 5 + zlen (flat_map encode pre) /\ e0 = s0 + zlen (encode c0).
Proof.
  intros Hlen HF Hi L.
  destruct (Forall_mid _ _ _ _ HF) as [HFpre [[Tc Gc] HFpost]].
  assert (Hzi : zlen pre = i) by (unfold zlen; lia).
  unfold dc_elems. rewrite skip_count_ok by (apply zlen_bound; exact Hlen).
  destruct (Z.ltb_spec i 0); [lia|].
  assert (Hlt : i < zlen (pre ++ c0 :: post)) by (rewrite zlen_app, zlen_cons; pose proof (zlen_nonneg post); lia).
  destruct (Z.geb_spec i (zlen (pre ++ c0 :: post))); [lia|]. cbv zeta.
  destruct (fixed_size et >? 0) eqn:Ef.
  - eexists; eexists; split; [reflexivity|].
    assert (Hpre : zlen (flat_map encode pre) = zlen pre * fixed_size et).
    { apply flat_map_fixed_len; [exact Ef|]. eapply Forall_impl; [|exact HFpre]. intros a [Ha _]. exact Ha. }
    assert (Hc : zlen (encode c0) = fixed_size et) by (rewrite <- Tc; apply fixed_encode_len; rewrite Tc; exact Ef).
    rewrite Hpre, Hc, Hzi. split; lia.
  - pose proof (search_nth_refines et (pre ++ c0 :: post) (Z.to_nat i) [] 5 HF) as HS.
    rewrite app_nil_r in HS. rewrite <- L in HS. rewrite find_index_mid in HS.
    specialize (HS ltac:(rewrite app_length; cbn [length]; lia)). cbn [sres_matches] in HS. destruct HS as [r' HS].
    rewrite <- L. rewrite HS.
    replace (skip_go et (encode c0 ++ r')) with (skip_go (type_of c0) (encode c0 ++ r')) by (rewrite Tc; reflexivity).
    rewrite skip_go_encode by exact Gc.
    eexists; eexists; split; [reflexivity|]. split; [reflexivity|]. rewrite zlen_app. lia.
Qed.

Lemma dc_elems_absent et es i : zlen es < 2 ^ 31 -> 0 <= i -> zlen es <= i ->
  dc_elems (et :: enc_int 4 (zlen es) ++ flat_map encode es) (PIndex i) = DcNotFound.
Proof.
  intros Hlen Hi Hge. unfold dc_elems. rewrite skip_count_ok by (apply zlen_bound; exact Hlen).
  destruct (Z.ltb_spec i 0); [lia|]. destruct (Z.geb_spec i (zlen es)); [reflexivity|lia].
Qed.

Lemma dc_elems_neg et es i : zlen es < 2 ^ 31 -> i < 0 ->
  dc_elems (et :: enc_int 4 (zlen es) ++ flat_map encode es) (PIndex i) = DcErr None.
Proof.
  intros Hlen Hi. unfold dc_elems. rewrite skip_count_ok by (apply zlen_bound; exact Hlen).
  destruct (Z.ltb_spec i 0); [reflexivity|lia].
Qed.

Lemma del_nth_absent (es : list tval) n : (length es <= n)%nat -> del_nth n es = None.
Proof.
  revert n. induction es as [|x es IH]; intros n H; [destruct n; reflexivity|].
  destruct n as [|n]; [cbn in H; lia|]. cbn [del_nth]. rewrite IH; [reflexivity|cbn in H; lia].
Qed.

Lemma del_nth_present (es : list tval) n : (n < length es)%nat ->
  exists pre c0 post, es = pre ++ c0 :: post /\ length pre = n /\ del_nth n es = Some (pre ++ post).
Proof.
  intros H. pose proof (del_nth_spec es n) as HS. destruct (del_nth n es) as [es'|].
  - destruct HS as [pre [c0 [post [E [L E']]]]]. exists pre, c0, post. subst. auto.
  - apply nth_error_None in HS. lia.
Qed.

(* list / set: the whole deleteChild + replace against del_nth *)
Lemma dc_elems_spec et es i (mk : list tval -> tval) :
  (forall l, encode (mk l) = et :: enc_int 4 (zlen l) ++ flat_map encode l) ->
  zlen es < 2 ^ 31 -> Forall (fun e => type_of e = et /\ good e) es ->
  if i <? 0 then dc_elems (encode (mk es)) (PIndex i) = DcErr None else
  match del_nth (Z.to_nat i) es with
  | Some es' => exists patch s0 e0, dc_elems (encode (mk es)) (PIndex i) = DcFound patch s0 e0 /\
      forall A B, replace (apply_patch (A ++ encode (mk es) ++ B) (zlen A) patch) (zlen A + s0) (zlen A + e0) [] = A ++ encode (mk es') ++ B
  | None => dc_elems (encode (mk es)) (PIndex i) = DcNotFound
  end.
Proof.
  intros Hmk Hlen HF. rewrite Hmk. destruct (Z.ltb_spec i 0) as [Hi|Hi]; [apply dc_elems_neg; assumption|].
  destruct (Nat.lt_ge_cases (Z.to_nat i) (length es)) as [Hlt|Hge].
  - destruct (del_nth_present es _ Hlt) as [pre [c0 [post [E [L D]]]]]. rewrite D. subst es.
    destruct (dc_elems_found et pre c0 post i Hlen HF Hi L) as [s0 [e0 [Hdc [Hs0 He0]]]].
    eexists; eexists; eexists; split; [exact Hdc|]. intros A B. rewrite !Hmk. cbn [apply_patch].
    rewrite flat_map_app. cbn [flat_map].
    pose proof (remove_span A B [et] (zlen (pre ++ c0 :: post)) (flat_map encode pre) (encode c0) (flat_map encode post)
                  (zlen A + 1) (zlen A + s0) (zlen A + e0)) as HR.
    rewrite zlen_cons, zlen_nil in HR. cbn [app] in HR. cbn [app].
    rewrite HR by lia. rewrite flat_map_app, zlen_remove.
    replace (zlen (pre ++ post) + 1 - 1) with (zlen (pre ++ post)) by lia. reflexivity.
  - rewrite del_nth_absent by exact Hge. apply dc_elems_absent; [exact Hlen|exact Hi|unfold zlen; lia].
Qed.

(* struct: field loop *)
Lemma dc_struct_unfold fx bs id : delete_child fx T_STRUCT bs (PField id) =
  match search_field (S (length bs)) id bs 0 with
  | SFound ft o rest => match skip_go ft rest with Some r => DcFound None (o - 3) (o + (zlen rest - zlen r)) | None => DcErr None end
  | SNotFound => DcNotFound
  | SErr => DcErr None
  end.
Proof. reflexivity. Qed.

Lemma gsplit_in {K} (pr : K -> bool) l pre e post : gsplit pr l pre e post -> In e l.
Proof. intros [E _]. subst l. apply in_or_app. right. left. reflexivity. Qed.

Lemma dc_struct_spec fx fs id : good (VStruct fs) ->
  match gdel (fun i => i =? id) fs with
  | Some fs' => exists s0 e0, delete_child fx T_STRUCT (encode (VStruct fs)) (PField id) = DcFound None s0 e0 /\
      forall A B, replace (A ++ encode (VStruct fs) ++ B) (zlen A + s0) (zlen A + e0) [] = A ++ encode (VStruct fs') ++ B
  | None => delete_child fx T_STRUCT (encode (VStruct fs)) (PField id) = DcNotFound
  end.
Proof.
  intros Hg. pose proof (gdel_spec (fun i => i =? id) fs) as HS.
  pose proof (search1_refines (VStruct fs) (PField id) [] Hg) as H1. rewrite app_nil_r in H1.
  change (search1 (type_of (VStruct fs)) (PField id) (encode (VStruct fs)))
    with (search_field (S (length (encode (VStruct fs)))) id (encode (VStruct fs)) 0) in H1.
  cbn [lookup1] in H1. rewrite dc_struct_unfold.
  destruct (gdel (fun i => i =? id) fs) as [fs'|].
  - destruct HS as [pre [e [post [Hs E']]]]. rewrite (find_field_gsplit _ _ _ _ _ Hs) in H1.
    cbn [sres_matches] in H1. destruct H1 as [r' H1]. rewrite H1.
    assert (Ge : good (snd e)).
    { pose proof (good_struct_inv _ Hg) as HF. rewrite Forall_forall in HF. apply (HF e). eapply gsplit_in; exact Hs. }
    rewrite skip_go_encode by exact Ge.
    eexists; eexists; split; [reflexivity|]. intros A B. destruct Hs as [E _]. subst fs fs'. cbn [encode].
    rewrite !flat_map_app. cbn [flat_map].
    replace (A ++ ((encF pre ++ (type_of (snd e) :: enc_int 2 (fst e) ++ encode (snd e)) ++ encF post) ++ [0]) ++ B)
      with ((A ++ encF pre) ++ (type_of (snd e) :: enc_int 2 (fst e) ++ encode (snd e)) ++ (encF post ++ [0] ++ B))
      by (norm_app; reflexivity).
    rewrite replace_mid.
    + norm_app. reflexivity.
    + rewrite zlen_app. lia.
    + rewrite !zlen_app, zlen_cons, !zlen_app, zlen_enc_int. lia.
  - rewrite (find_field_none _ _ HS) in H1. cbn [sres_matches] in H1. rewrite H1. reflexivity.
Qed.

(* map: raw key loop *)
Lemma dc_map_unfold fx kt vt r s : delete_child fx T_MAP (kt :: vt :: r) s =
  match skip_count r with
  | None => DcErr None
  | Some (sz, _) =>
    match map_key_raw fx s kt with
    | None => DcErr None
    | Some raw =>
      match search_map (PBinKey raw) (kt :: vt :: r) with
      | SFound _ o rest =>
        match skip_go vt rest with
        | Some r3 => DcFound (Some (2, sz - 1)) (o - zlen raw) (o + (zlen rest - zlen r3))
        | None => DcErr None
        end
      | SNotFound => DcNotFound
      | SErr => DcErr None
      end
    end
  end.
Proof. reflexivity. Qed.

Lemma dc_map_spec fx kt vt es s kv : good (VMap kt vt es) -> map_key_raw fx s kt = Some (encode kv) ->
  match gdel (bin_key_is (encode kv)) es with
  | Some es' => exists patch s0 e0, delete_child fx T_MAP (encode (VMap kt vt es)) s = DcFound patch s0 e0 /\
      forall A B, replace (apply_patch (A ++ encode (VMap kt vt es) ++ B) (zlen A) patch) (zlen A + s0) (zlen A + e0) [] = A ++ encode (VMap kt vt es') ++ B
  | None => delete_child fx T_MAP (encode (VMap kt vt es)) s = DcNotFound
  end.
Proof.
  intros Hg Hraw. pose proof (gdel_spec (bin_key_is (encode kv)) es) as HS.
  pose proof (search_map_refines (PBinKey (encode kv)) kt vt es [] Hg) as H1. rewrite app_nil_r in H1. cbn [lookup1] in H1.
  destruct (good_map_inv _ _ _ Hg) as [Hlen HF].
  cbn [encode] in *. rewrite dc_map_unfold. rewrite skip_count_ok by (apply zlen_bound; exact Hlen). rewrite Hraw.
  destruct (gdel (bin_key_is (encode kv)) es) as [es'|].
  - destruct HS as [pre [e [post [Hs E']]]]. rewrite (find_key_gsplit _ _ _ _ _ Hs) in H1.
    cbn [sres_matches] in H1. destruct H1 as [r' H1]. rewrite H1.
    rewrite Forall_forall in HF. destruct (HF e (gsplit_in _ _ _ _ _ Hs)) as [_ [Tv [_ Gv]]].
    replace (skip_go vt (encode (snd e) ++ r')) with (Some r') by (rewrite <- Tv; symmetry; apply skip_go_encode; exact Gv).
    eexists; eexists; eexists; split; [reflexivity|]. intros A B. cbn [apply_patch].
    destruct Hs as [E [He _]]. subst es es'. unfold bin_key_is in He. apply bytes_eqb_eq in He.
    rewrite !flat_map_app. cbn [flat_map].
    pose proof (remove_span A B [kt; vt] (zlen (pre ++ e :: post)) (encP pre) (encode (fst e) ++ encode (snd e)) (encP post)
                  (zlen A + 2)
                  (zlen A + (6 + zlen (encP pre) + zlen (encode (fst e)) - zlen (encode kv)))
                  (zlen A + (6 + zlen (encP pre) + zlen (encode (fst e)) + (zlen (encode (snd e) ++ r') - zlen r')))) as HR.
    rewrite !zlen_cons, zlen_nil in HR. cbn [app] in HR. rewrite <- ?app_assoc in HR. cbn [app]. rewrite <- ?app_assoc.
    rewrite HR; [| lia | rewrite He; lia | rewrite !zlen_app, He; lia].
    rewrite zlen_remove. replace (zlen (pre ++ post) + 1 - 1) with (zlen (pre ++ post)) by lia. reflexivity.
  - rewrite (find_key_none _ _ HS) in H1. cbn [sres_matches] in H1. rewrite H1. reflexivity.
Qed.

Lemma unset_last_ok_bin fx b kt vt es : unset_last_ok fx (PBinKey b) (VMap kt vt es) = raw_key_ok (PBinKey b) (VMap kt vt es).
Proof. reflexivity. Qed.

(* no key for the step (the spec's error): deleteChild finds no raw bytes to compare, with the kind check or without it *)
Lemma map_key_raw_none fx kt vt es s : key_of_step kt s = None -> unset_last_ok fx s (VMap kt vt es) = true -> map_key_raw fx s kt = None.
Proof.
  unfold map_key_raw. destruct s as [id|i|ks|n|b]; intros Hk Hu.
  - cbn [unset_last_ok] in Hu. subst fx. reflexivity.
  - destruct fx; reflexivity.
  - cbn [unset_last_ok] in Hu. cbn [key_of_step] in Hk. cbn [key_kind_ok to_raw].
    destruct (kt =? T_STRING); [discriminate Hk|]. rewrite orb_false_r in Hu. subst fx. reflexivity.
  - cbn [key_of_step] in Hk. cbn [to_raw].
    destruct (kt =? T_BYTE); [discriminate Hk|]. destruct (kt =? T_I16); [discriminate Hk|].
    destruct (kt =? T_I32); [discriminate Hk|]. destruct (kt =? T_I64); [discriminate Hk|].
    destruct (fx && negb (key_kind_ok (PIntKey n) kt)); reflexivity.
  - rewrite unset_last_ok_bin, raw_key_ok_unfold in Hu. destruct (raw_key_judge_true _ _ Hu) as [_ [kv Hk']].
    rewrite Hk in Hk'. discriminate Hk'.
Qed.

(* a step that denotes a key is of the map's key kind *)
Lemma key_of_step_kind kt s kv : key_of_step kt s = Some kv -> key_kind_ok s kt = true.
Proof.
  destruct s as [id|i|ks|n|b]; intros Hk; try discriminate Hk; cbn [key_kind_ok].
  - cbn [key_of_step] in Hk. destruct (kt =? T_STRING); [reflexivity|discriminate Hk].
  - cbn [key_of_step] in Hk. unfold is_int_type.
    destruct (kt =? T_BYTE); [reflexivity|]. destruct (kt =? T_I16); [reflexivity|].
    destruct (kt =? T_I32); [reflexivity|]. destruct (kt =? T_I64); [reflexivity|]. discriminate Hk.
  - reflexivity.
Qed.

Lemma unset_raw_key fx kt vt es s kv : unset_last_ok fx s (VMap kt vt es) = true -> key_of_step kt s = Some kv ->
  map_key_raw fx s kt = Some (encode kv).
Proof.
  intros Hu Hk. unfold map_key_raw. rewrite (key_of_step_kind _ _ _ Hk). rewrite andb_false_r.
  apply to_raw_key; [exact Hk|]. intros b ->. rewrite unset_last_ok_bin in Hu.
  exact (raw_key_ok_map (PBinKey b) kt vt es kv Hu Hk b eq_refl).
Qed.

Lemma remove_at_map_eq s kt vt es : remove_at s (VMap kt vt es) =
  match key_of_step kt s with
  | None => DErr
  | Some kv => match del_key (bin_key_is (encode kv)) es with Some es' => DOk (VMap kt vt es') true | None => DOk (VMap kt vt es) false end
  end.
Proof. destruct s; reflexivity. Qed.

(* deleteChild on the encoding of the parent against the last step of ast_unset *)
Lemma delete_child_spec fx s c : good c -> unset_last_ok fx s c = true ->
  match remove_at s c with
  | DOk c' true => exists patch s0 e0, delete_child fx (type_of c) (encode c) s = DcFound patch s0 e0 /\
        forall A B, replace (apply_patch (A ++ encode c ++ B) (zlen A) patch) (zlen A + s0) (zlen A + e0) [] = A ++ encode c' ++ B
  | DOk _ false => delete_child fx (type_of c) (encode c) s = DcNotFound
  | DErr => delete_child fx (type_of c) (encode c) s = DcErr None \/ delete_child fx (type_of c) (encode c) s = DcNone
  end.
Proof.
  intros Hg Hu.
  destruct c as [?|?|?|?|?|?|?|fs|kt vt es|et es|et es].
  9: { (* map: the step stays a variable *)
    rewrite remove_at_map_eq. destruct (key_of_step kt s) as [kv|] eqn:Ek.
    - rewrite del_key_gdel. pose proof (dc_map_spec fx kt vt es s kv Hg (unset_raw_key _ _ _ _ _ _ Hu Ek)) as H. cbn [type_of].
      destruct (gdel (bin_key_is (encode kv)) es) as [es'|]; exact H.
    - left. cbn [type_of encode]. destruct (good_map_inv _ _ _ Hg) as [Hlen _].
      rewrite dc_map_unfold, skip_count_ok by (apply zlen_bound; exact Hlen). rewrite (map_key_raw_none _ _ _ _ _ Ek Hu). reflexivity. }
  all: destruct s as [id|i|ks|n|b]; cbn [remove_at]; try (right; reflexivity); try (left; reflexivity).
  - (* struct, field *)
    rewrite del_field_gdel. pose proof (dc_struct_spec fx fs id Hg) as H. cbn [type_of].
    destruct (gdel (fun i => i =? id) fs) as [fs'|]; [|exact H].
    destruct H as [s0 [e0 [H1 H2]]]. exists None, s0, e0. split; [exact H1|]. intros A B. cbn [apply_patch]. apply H2.
  - (* set, index *)
    destruct (good_set_inv _ _ Hg) as [Hlen HF]. cbn [type_of]. rewrite dc_set.
    pose proof (dc_elems_spec et es i (VSet et) ltac:(reflexivity) Hlen HF) as H.
    destruct (i <? 0); [left; exact H|]. destruct (del_nth (Z.to_nat i) es) as [es'|]; exact H.
  - (* list, index *)
    destruct (good_list_inv _ _ Hg) as [Hlen HF]. cbn [type_of]. rewrite dc_list.
    pose proof (dc_elems_spec et es i (VList et) ltac:(reflexivity) Hlen HF) as H.
    destruct (i <? 0); [left; exact H|]. destruct (del_nth (Z.to_nat i) es) as [es'|]; exact H.
Qed.

(* ================= UNSET: ast_unset seen from the parent of the addressed element ================= *)
(* the spec walks to the parent (all steps but the last) and removes the child there; everything around the parent's
   encoding stays as it is *)
Lemma unset_spec fx : forall p v off, good v -> unset_dom fx p v = true ->
  exists pre ls, split_last p = Some (pre, ls) /\
  match lookup v off pre with
  | LFound c o => unset_last_ok fx ls c = true /\ good c /\ exists A B, o = off + zlen A /\ encode v = A ++ encode c ++ B /\
      match remove_at ls c with
      | DOk c' r => exists v', ast_unset p v = DOk v' r /\ encode v' = A ++ encode c' ++ B
      | DErr => ast_unset p v = DErr
      end
  | LNotFound => ast_unset p v = DOk v false
  | LErr => ast_unset p v = DErr
  end.
Proof.
  induction p as [|s p IH]; intros v off Hg Hd; [discriminate Hd|].
  destruct p as [|t p].
  - (* last step *)
    exists [], s. split; [reflexivity|]. cbn [lookup]. cbn [unset_dom] in Hd.
    split; [exact Hd|]. split; [exact Hg|]. exists [], []. rewrite zlen_nil. cbn [app]. rewrite app_nil_r.
    split; [lia|]. split; [reflexivity|]. rewrite ast_unset_single.
    destruct (remove_at s v) as [c' r|]; [|reflexivity]. exists c'. rewrite app_nil_r. split; reflexivity.
  - (* inner step *)
    change (unset_dom fx (s :: t :: p) v) with (match lookup1 v s with LFound c _ => unset_dom fx (t :: p) c | _ => true end) in Hd.
    pose proof (ast_unset_cons2 s t p v) as HU. pose proof (descend_spec (unset_k (t :: p)) s v) as HD.
    destruct (descend (unset_k (t :: p)) s v) as [| |v1 r1].
    + (* absent *)
      apply vlookup1_notfound in HD.
      destruct (split_last_some (t :: p) ltac:(discriminate)) as [pre2 [ls E2]].
      exists (s :: pre2), ls. split; [cbn [split_last] in *; rewrite E2; reflexivity|].
      cbn [lookup]. rewrite HD. exact HU.
    + destruct HD as [HE|[c0 [L Hk]]].
      * apply vlookup1_err in HE.
        destruct (split_last_some (t :: p) ltac:(discriminate)) as [pre2 [ls E2]].
        exists (s :: pre2), ls. split; [cbn [split_last] in *; rewrite E2; reflexivity|].
        cbn [lookup]. rewrite HE. exact HU.
      * destruct (vlookup1_found _ _ _ _ L) as [o' L']. rewrite L' in Hd.
        destruct (lookup1_split _ _ _ _ L') as [pre1 [post1 [E1 O1]]].
        destruct (IH c0 (off + o') (lookup1_good _ _ _ _ Hg L') Hd) as [pre2 [ls [E2 IHc]]].
        exists (s :: pre2), ls. split; [cbn [split_last] in *; rewrite E2; reflexivity|].
        cbn [lookup]. rewrite L'.
        unfold unset_k in Hk. destruct (ast_unset (t :: p) c0) as [c1 r1|] eqn:Eu; [discriminate Hk|].
        destruct (lookup c0 (off + o') pre2) as [c o| |]; [|discriminate IHc|exact HU].
        destruct IHc as [Hlu [Hgc [A2 [B2 [Ho [Ec Hr]]]]]]. split; [exact Hlu|]. split; [exact Hgc|].
        exists (pre1 ++ A2), (B2 ++ post1). rewrite zlen_app. split; [lia|].
        split; [rewrite E1, Ec; rewrite <- !app_assoc; reflexivity|].
        destruct (remove_at ls c) as [c' r|]; [|exact HU]. destruct Hr as [v' [Hv' _]]. discriminate Hv'.
    + (* the step addresses a child c0, edited into c0' *)
      destruct HD as [c0 [c0' [L [Hk R]]]]. destruct (vlookup1_found _ _ _ _ L) as [o' L']. rewrite L' in Hd.
      destruct (IH c0 (off + o') (lookup1_good _ _ _ _ Hg L') Hd) as [pre2 [ls [E2 IHc]]].
      unfold unset_k in Hk. destruct (ast_unset (t :: p) c0) as [c1 r|] eqn:Eu; [|discriminate Hk]. inversion Hk; subst c1 r1. clear Hk.
      destruct (child_replaced_encode _ _ _ _ _ R (ast_unset_type _ _ _ _ Eu)) as [pre1 [post1 [L1 [E1 E1']]]].
      rewrite L1 in L'. inversion L'; subst o'. clear L'.
      exists (s :: pre2), ls. split; [cbn [split_last] in *; rewrite E2; reflexivity|].
      cbn [lookup]. rewrite L1.
      destruct (lookup c0 (off + zlen pre1) pre2) as [c o| |].
      * destruct IHc as [Hlu [Hgc [A2 [B2 [Ho [Ec Hr]]]]]]. split; [exact Hlu|]. split; [exact Hgc|].
        exists (pre1 ++ A2), (B2 ++ post1). rewrite zlen_app. split; [lia|].
        split; [rewrite E1, Ec; rewrite <- !app_assoc; reflexivity|].
        destruct (remove_at ls c) as [c' r'|]; [|discriminate Hr].
        destruct Hr as [v' [Hv' Ev']]. inversion Hv'; subst v' r'. exists v1. split; [exact HU|].
        rewrite E1', Ev'. rewrite <- !app_assoc. reflexivity.
      * inversion IHc; subst c0' r. rewrite HU. f_equal. eapply ast_unset_absent_id. exact HU.
      * discriminate IHc.
Qed.

Lemma parent_refines pre v : wf v = true -> (depth v <= max_skip_depth)%nat ->
  match pre with [] => GFound (type_of v) 0 (zlen (encode v)) | _ => get_by_path (type_of v) (encode v) 0 pre end
  = gres_of_lres (lookup v 0 pre).
Proof.
  intros Hw Hd. destruct pre as [|s pre].
  - cbn [lookup gres_of_lres]. f_equal.
  - pose proof (get_by_path_refines_lookup (s :: pre) v [] 0 Hw Hd) as H. rewrite app_nil_r in H. exact H.
Qed.

(* ================= unset_refines ================= *)
Theorem unset_refines : forall fx p v,
  wf v = true -> (depth v <= max_skip_depth)%nat -> unset_dom fx p v = true ->
  match ast_unset p v with
  | DOk v' true => unset_by_path fx (type_of v) (encode v) p = UbOk (encode v')
  | DOk v' false => unset_by_path fx (type_of v) (encode v) p = UbOk (encode v) \/ unset_by_path fx (type_of v) (encode v) p = UbNotFound
  | DErr => unset_by_path fx (type_of v) (encode v) p = UbErr (encode v) \/ unset_by_path fx (type_of v) (encode v) p = UbOk (encode v)
  end.
Proof.
  intros fx p v Hw Hdp Hd. assert (Hg : good v) by (split; assumption).
  destruct (unset_spec fx p v 0 Hg Hd) as [pre [ls [Esl H]]].
  unfold unset_by_path. rewrite Esl. rewrite (parent_refines pre v Hw Hdp).
  destruct (lookup v 0 pre) as [c o| |]; cbn [gres_of_lres].
  - destruct H as [Hlu [Hgc [A [B [Ho [E Hr]]]]]].
    assert (Hs : bfirstn (o + zlen (encode c) - o) (bskipn o (encode v)) = encode c) by (rewrite E; apply slice_mid; lia).
    rewrite Hs. pose proof (delete_child_spec fx ls c Hgc Hlu) as HD.
    assert (Hoz : o = zlen A) by lia. clear Ho. subst o.
    destruct (remove_at ls c) as [c' [|]|].
    + destruct HD as [patch [s0 [e0 [Hdc Hrep]]]]. rewrite Hdc. destruct Hr as [v' [Hv' Ev']]. rewrite Hv'.
      rewrite Ev', E. f_equal. apply Hrep.
    + rewrite HD. destruct Hr as [v' [Hv' Ev']]. rewrite Hv'. right. reflexivity.
    + rewrite Hr. destruct HD as [HD|HD]; rewrite HD.
      * left. reflexivity.
      * right. f_equal. rewrite E at 1. rewrite replace_ins by reflexivity. rewrite E. reflexivity.
  - rewrite H. left. reflexivity.
  - rewrite H. left. reflexivity.
Qed.

(* whatever the outcome, the buffer afterwards is the encoding of the spec's next state *)
Corollary unset_refines_bytes fx p v : wf v = true -> (depth v <= max_skip_depth)%nat -> unset_dom fx p v = true ->
  ub_bytes (encode v) (unset_by_path fx (type_of v) (encode v) p) = encode (ast_step true v (OUnset p)).
Proof.
  intros Hw Hdp Hd. pose proof (unset_refines fx p v Hw Hdp Hd) as H. cbn [ast_step].
  destruct (ast_unset p v) as [v' [|]|] eqn:Eu.
  - rewrite H. reflexivity.
  - rewrite (ast_unset_absent_id _ _ _ Eu). destruct H as [H|H]; rewrite H; reflexivity.
  - destruct H as [H|H]; rewrite H; reflexivity.
Qed.

(* ================= histories ================= *)
Lemma ast_step_type front v o : type_of (ast_step front v o) = type_of v.
Proof.
  destruct o as [p x|p]; cbn [ast_step].
  - destruct (ast_set front p x v) as [[v' ex]|] eqn:E; [eapply ast_set_type; exact E|reflexivity].
  - destruct (ast_unset p v) as [v' r|] eqn:E; [eapply ast_unset_type; exact E|reflexivity].
Qed.

Lemma unset_dom_nonempty fx p v : unset_dom fx p v = true -> p <> [].
Proof. destruct p; [discriminate|discriminate]. Qed.

(* one step: the byte-level operation on the encoding of v yields the encoding of the spec's next state *)
Theorem bytes_step_refines fx v o : wf v = true -> op_dom fx v o = true ->
  bytes_step fx (type_of v, encode v) o = (type_of (ast_step true v o), encode (ast_step true v o)).
Proof.
  intros Hw Hd. rewrite ast_step_type. unfold op_dom in Hd. apply andb_true_iff in Hd. destruct Hd as [Hdp Hd].
  apply Nat.leb_le in Hdp. destruct o as [p x|p].
  - destruct (and4_inv _ _ _ _ Hd) as [Hp [Hx [Hc Hsd]]].
    destruct p as [|s p']; [discriminate Hp|]. cbn [bytes_step ast_step].
    rewrite (set_refines (s :: p') x v Hw Hdp ltac:(discriminate) Hsd).
    destruct (ast_set true (s :: p') x v) as [[v' ex]|]; reflexivity.
  - destruct p as [|s p']; [discriminate Hd|]. cbn [bytes_step].
    rewrite (unset_refines_bytes fx (s :: p') v Hw Hdp Hd). reflexivity.
Qed.

Theorem history_refines fx : forall ops v, wf v = true -> history_ok true v ops = true -> history_dom fx v ops = true ->
  bytes_states fx (type_of v, encode v) ops = map (fun s => (type_of s, encode s)) (ast_states true v ops) /\
  fold_left (bytes_step fx) ops (type_of v, encode v) =
    (type_of (fold_left (ast_step true) ops v), encode (fold_left (ast_step true) ops v)).
Proof.
  induction ops as [|o ops IH]; intros v Hw Hok Hd; [split; reflexivity|].
  cbn [history_ok] in Hok. apply andb_true_iff in Hok. destruct Hok as [Hc Hok].
  cbn [history_dom] in Hd. apply andb_true_iff in Hd. destruct Hd as [Hdo Hd].
  pose proof (ast_step_wf true v o Hw Hc) as Hw'.
  destruct (IH (ast_step true v o) Hw' Hok Hd) as [IH1 IH2].
  cbn [bytes_states ast_states map fold_left]. cbv zeta. rewrite (bytes_step_refines fx v o Hw Hdo).
  split; [f_equal; exact IH1|exact IH2].
Qed.

(* ================= failed operations ================= *)
(* the byte-level set fails exactly when the spec fails; a byte-level unset that reports an error (other than
   not-found) left the buffer as it was, and so did one that reports not-found *)
Theorem failed_op_bytes_unchanged fx v : wf v = true -> (depth v <= max_skip_depth)%nat ->
  (forall p x, p <> [] -> set_dom p v = true ->
     (set_by_path (type_of v) (encode v) p (encode x) (type_of x) = None <-> ast_set true p x v = None)) /\
  (forall p, unset_dom fx p v = true ->
     (forall b, unset_by_path fx (type_of v) (encode v) p = UbErr b -> b = encode v /\ ast_unset p v = DErr) /\
     (unset_by_path fx (type_of v) (encode v) p = UbNotFound -> ast_unset p v = DOk v false)) /\
  (forall o, op_dom fx v o = true ->
     match o with OSet p x => ast_set true p x v = None | OUnset p => ast_unset p v = DErr end ->
     bytes_step fx (type_of v, encode v) o = (type_of v, encode v)).
Proof.
  intros Hw Hdp. split; [|split].
  - intros p x Hp Hd. rewrite (set_refines p x v Hw Hdp Hp Hd).
    destruct (ast_set true p x v) as [[v' ex]|]; split; intros H; try discriminate H; reflexivity.
  - intros p Hd. pose proof (unset_refines fx p v Hw Hdp Hd) as H.
    destruct (ast_unset p v) as [v' [|]|] eqn:Eu.
    + split; [intros b Hb|intros Hb]; rewrite H in Hb; discriminate Hb.
    + rewrite (ast_unset_absent_id _ _ _ Eu).
      split; [intros b Hb; destruct H as [H|H]; rewrite H in Hb; discriminate Hb|reflexivity].
    + split; [|intros Hb; destruct H as [H|H]; rewrite H in Hb; discriminate Hb].
      intros b Hb. destruct H as [H|H]; rewrite H in Hb; [inversion Hb; split; reflexivity|discriminate Hb].
  - intros o Hd Hf. rewrite (bytes_step_refines fx v o Hw Hd).
    rewrite (failed_op_unchanged true v o Hf). reflexivity.
Qed.

(* ================= ReplaceByPath ================= *)
Lemma wlookup_found : forall p v off sub o, lookup v off p = LFound sub o ->
  wlookup v off p = WFound (type_of sub) o (o + zlen (encode sub)).
Proof.
  induction p as [|s p IH]; intros v off sub o H; cbn [lookup wlookup] in *.
  - inversion H; subst. reflexivity.
  - destruct (lookup1 v s) as [c oc| |]; try discriminate H. apply IH. exact H.
Qed.

Lemma wlookup_not_found : forall p v off, (forall sub o, lookup v off p <> LFound sub o) ->
  forall t s e, wlookup v off p <> WFound t s e.
Proof.
  induction p as [|s p IH]; intros v off H t s' e; cbn [lookup wlookup] in *.
  - exfalso. apply (H v off). reflexivity.
  - destruct (lookup1 v s) as [c oc| |]; [apply IH; exact H| |discriminate]. destruct p; discriminate.
Qed.

Lemma set_dom_found : forall p v off sub o, lookup v off p = LFound sub o -> set_dom p v = true.
Proof.
  induction p as [|s p IH]; intros v off sub o H; [reflexivity|]. cbn [lookup set_dom] in *.
  destruct (lookup1 v s) as [c oc| |]; try discriminate H. eapply IH. exact H.
Qed.

Theorem replace_refines : forall p cb v, wf v = true -> (depth v <= max_skip_depth)%nat ->
  replace_by_path (type_of v) (encode v) p (cb_bytes cb) = rres_of (ast_replace p cb v).
Proof.
  intros p cb v Hw Hdp. assert (Hg : good v) by (split; assumption).
  unfold replace_by_path, ast_replace. pose proof (walk_refines p v [] 0 Hg) as HW. rewrite app_nil_r in HW. rewrite HW.
  destruct (lookup v 0 p) as [sub o| |] eqn:L.
  - rewrite (wlookup_found _ _ _ _ _ L). pose proof (set_dom_found _ _ _ _ _ L) as Hd.
    destruct cb as [x| |]; cbn [cb_bytes rres_of].
    + pose proof (set_spec p x v 0 Hg Hd) as HS. rewrite L in HS. rewrite (wlookup_found _ _ _ _ _ L) in HS.
      destruct (ast_set true p x v) as [[v' [|]]|].
      * destruct HS as [sub' [pre [post [Hl [_ [Ht [E E']]]]]]]. inversion Hl; subst sub' o.
        rewrite Ht, Z.eqb_refl. cbn [rres_of]. f_equal. rewrite E at 1. rewrite replace_mid by lia. symmetry. exact E'.
      * destruct HS as [ct [pos [q [ls [_ [HWn _]]]]]]. discriminate HWn.
      * rewrite HS. reflexivity.
    + pose proof (set_spec p sub v 0 Hg Hd) as HS. rewrite L in HS. rewrite (wlookup_found _ _ _ _ _ L) in HS.
      destruct (ast_set true p sub v) as [[v' [|]]|].
      * destruct HS as [sub' [pre [post [Hl [_ [_ [E E']]]]]]]. inversion Hl; subst sub' o. cbn [rres_of]. f_equal.
        rewrite E. rewrite (slice_mid pre (encode sub) post) by lia. rewrite replace_mid by lia. symmetry. exact E'.
      * destruct HS as [ct [pos [q [ls [_ [HWn _]]]]]]. discriminate HWn.
      * rewrite Z.eqb_refl in HS. discriminate HS.
    + reflexivity.
  - destruct (wlookup v 0 p) as [t s e| | |] eqn:EW; try reflexivity.
    exfalso. eapply (wlookup_not_found p v 0); [|exact EW]. intros sub o H. rewrite L in H. discriminate H.
  - destruct (wlookup v 0 p) as [t s e| | |] eqn:EW; try reflexivity.
    exfalso. eapply (wlookup_not_found p v 0); [|exact EW]. intros sub o H. rewrite L in H. discriminate H.
Qed.

(* on an existing element ReplaceByPath with a callback that returns x IS SetByPath of x *)
Corollary replace_is_set_when_present p x v sub o : wf v = true -> (depth v <= max_skip_depth)%nat ->
  lookup v 0 p = LFound sub o ->
  replace_by_path (type_of v) (encode v) p (CbConst (type_of x) (encode x)) =
    match ast_set true p x v with Some (v', _) => ROk (encode v') | None => RErr true end.
Proof.
  intros Hw Hdp L. change (CbConst (type_of x) (encode x)) with (cb_bytes (ACConst x)).
  rewrite (replace_refines p (ACConst x) v Hw Hdp). unfold ast_replace. rewrite L.
  destruct (ast_set true p x v) as [[v' ex]|]; reflexivity.
Qed.

(* on an absent element (or a path that does not fit) it is an error with exist = false and the value unchanged, whatever
   the callback *)
Corollary replace_absent_unchanged p cb v : wf v = true -> (depth v <= max_skip_depth)%nat ->
  (forall sub o, lookup v 0 p <> LFound sub o) ->
  replace_by_path (type_of v) (encode v) p (cb_bytes cb) = RErr false /\ ast_replace p cb v = (None, false).
Proof.
  intros Hw Hdp H. rewrite (replace_refines p cb v Hw Hdp). unfold ast_replace.
  destruct (lookup v 0 p) as [sub o| |] eqn:L; [exfalso; apply (H sub o); reflexivity| |]; split; reflexivity.
Qed.
