(* C04 at algorithm level: the byte-level SetByPath / UnsetByPath of model/ThriftEditBytes.v (search by chained
   skip, three-slice splice, in-place count patch) refine the AST-level edits of model/ThriftEdit.v: run on the
   encoding of a well-formed value they return the encoding of the edited value (same 'existed' flag, error exactly
   when the spec fails), so every buffer of every history is the encoding of the model state. *)
From Coq Require Import ZArith List Bool Lia.
From DG Require Import ProtoWireRef ProtoWireRefProofs ThriftWire ThriftWireProofs CaseFormat ThriftGeneric ThriftGenericProofs
  ThriftEdit ThriftEditProofs ThriftEditBytes.
Import ListNotations.
Local Open Scope Z_scope.

(* ================= slices of concatenations ================= *)
Lemma bfirstn_app a b : bfirstn (zlen a) (a ++ b) = a.
Proof. unfold bfirstn. rewrite to_nat_zlen, firstn_app, firstn_all, Nat.sub_diag. cbn [firstn]. apply app_nil_r. Qed.

Lemma bskipn_app a b : bskipn (zlen a) (a ++ b) = b.
Proof. unfold bskipn. rewrite to_nat_zlen, skipn_app, skipn_all, Nat.sub_diag. reflexivity. Qed.

Lemma bfirstn_app_n n a b : n = zlen a -> bfirstn n (a ++ b) = a.
Proof. intros ->. apply bfirstn_app. Qed.

Lemma bskipn_app_n n a b : n = zlen a -> bskipn n (a ++ b) = b.
Proof. intros ->. apply bskipn_app. Qed.

(* the splice of Node.replace on a buffer seen as pre | mid | post *)
Lemma replace_mid pre mid post nw s e : s = zlen pre -> e = zlen pre + zlen mid ->
  replace (pre ++ mid ++ post) s e nw = pre ++ nw ++ post.
Proof.
  intros -> ->. unfold replace. rewrite bfirstn_app. f_equal. f_equal.
  rewrite app_assoc. apply bskipn_app_n. rewrite zlen_app. reflexivity.
Qed.

Lemma replace_ins pre post nw s : s = zlen pre -> replace (pre ++ post) s s nw = pre ++ nw ++ post.
Proof. intros ->. apply (replace_mid pre [] post); [reflexivity|]. rewrite zlen_nil. lia. Qed.

Lemma write_i32_mid pre old post pos val : zlen old = 4 -> pos = zlen pre ->
  write_i32 (pre ++ old ++ post) pos val = pre ++ enc_int 4 val ++ post.
Proof.
  intros Ho ->. unfold write_i32. rewrite bfirstn_app. f_equal. f_equal.
  rewrite app_assoc. apply bskipn_app_n. rewrite zlen_app. lia.
Qed.

(* the count patch: the four bytes at pos hold n, afterwards they hold n + d *)
Lemma patch_count_mid pre n post pos d : 0 <= n < 2 ^ 31 -> pos = zlen pre ->
  patch_count (pre ++ enc_int 4 n ++ post) pos d = pre ++ enc_int 4 (n + d) ++ post.
Proof.
  intros Hn ->. unfold patch_count. rewrite bskipn_app.
  rewrite (bfirstn_app_n 4 (enc_int 4 n) post) by (rewrite zlen_enc_int; reflexivity).
  rewrite dec_int_count by exact Hn. apply write_i32_mid; [apply zlen_enc_int|reflexivity].
Qed.

Lemma nth_app_len (a : list Z) x b : nth (length a) (a ++ x :: b) 0 = x.
Proof. induction a as [|y a IH]; [reflexivity|exact IH]. Qed.

Lemma slice_mid pre mid post ps pe : ps = zlen pre -> pe = zlen pre + zlen mid ->
  bfirstn (pe - ps) (bskipn ps (pre ++ mid ++ post)) = mid.
Proof. intros -> ->. rewrite bskipn_app. apply bfirstn_app_n. lia. Qed.

(* ================= the walk of SetByPath vs the AST ================= *)
(* spec-level image of [walk]: what the path addresses in the AST, with the byte positions *)
Fixpoint wlookup (v : tval) (off : Z) (p : list pstep) : wres :=
  match p with
  | [] => WFound (type_of v) off (off + zlen (encode v))
  | s :: p' =>
    match lookup1 v s with
    | LFound sub o => wlookup sub (off + o) p'
    | LNotFound => match p' with [] => WNotFoundLast (type_of v) (off + nf_start (type_of v)) | _ => WNotFound end
    | LErr => WErr
    end
  end.

Theorem walk_refines : forall p v r off, good v -> walk (type_of v) (encode v ++ r) off p = wlookup v off p.
Proof.
  induction p as [|s p IH]; intros v r off Hg.
  - cbn [walk wlookup]. rewrite skip_go_encode by exact Hg. rewrite zlen_app. f_equal. lia.
  - cbn [walk wlookup]. pose proof (search1_refines v s r Hg) as H.
    destruct (lookup1 v s) as [sub o| |] eqn:E; cbn [sres_matches] in H.
    + destruct H as [r' H]. rewrite H. apply IH. eapply lookup1_good; eassumption.
    + rewrite H. reflexivity.
    + rewrite H. reflexivity.
Qed.

(* ================= one container level: where a child sits in the encoding ================= *)
Local Notation encF := (flat_map (fun f : Z * tval => type_of (snd f) :: enc_int 2 (fst f) ++ encode (snd f))).
Local Notation encP := (flat_map (fun e : tval * tval => encode (fst e) ++ encode (snd e))).
Local Notation encE := (flat_map encode).

Lemma find_field_gsplit id fs pre e post : gsplit (fun i => i =? id) fs pre e post ->
  forall off, find_field id fs off = LFound (snd e) (off + zlen (encF pre) + 3).
Proof.
  intros [E [He Hpre]]. subst fs. induction pre as [|g pre IH]; intros off; cbn [app find_field].
  - rewrite He. cbn [flat_map]. rewrite zlen_nil. f_equal. lia.
  - inversion Hpre as [|? ? Hg Hp]; subst. rewrite Hg. rewrite (IH Hp). f_equal.
    cbn [flat_map]. rewrite zlen_app, zlen_cons, zlen_app, zlen_enc_int. lia.
Qed.

Lemma find_key_gsplit pr es pre e post : gsplit pr es pre e post ->
  forall off, find_key pr es off = LFound (snd e) (off + zlen (encP pre) + zlen (encode (fst e))).
Proof.
  intros [E [He Hpre]]. subst es. induction pre as [|g pre IH]; intros off; cbn [app find_key].
  - rewrite He. cbn [flat_map]. rewrite zlen_nil. f_equal. lia.
  - inversion Hpre as [|? ? Hg Hp]; subst. rewrite Hg. rewrite (IH Hp). f_equal.
    cbn [flat_map]. rewrite !zlen_app. lia.
Qed.

Lemma find_index_mid (pre : list tval) c post : forall off,
  find_index (length pre) (pre ++ c :: post) off = LFound c (off + zlen (encE pre)).
Proof.
  induction pre as [|g pre IH]; intros off; cbn [app length find_index].
  - cbn [flat_map]. rewrite zlen_nil. f_equal. lia.
  - rewrite IH. f_equal. cbn [flat_map]. rewrite zlen_app. lia.
Qed.

Lemma find_key_none pr es : gfind pr es = None -> forall off, find_key pr es off = LNotFound.
Proof.
  induction es as [|e es IH]; intros H off; [reflexivity|]. cbn [gfind] in H. cbn [find_key].
  destruct (pr (fst e)); [discriminate H|]. apply IH. exact H.
Qed.

Lemma find_field_none id fs : gfind (fun i => i =? id) fs = None -> forall off, find_field id fs off = LNotFound.
Proof.
  induction fs as [|f fs IH]; intros H off; [reflexivity|]. cbn [gfind] in H. cbn [find_field].
  destruct (fst f =? id); [discriminate H|]. apply IH. exact H.
Qed.

Lemma lookup1_map_key_pred kt vt es s pr : key_pred kt s = Some pr -> lookup1 (VMap kt vt es) s = find_key pr es 6.
Proof.
  destruct s as [id|i|ks|n|b]; cbn [key_pred lookup1]; try discriminate.
  - destruct (kt =? T_STRING); [|discriminate]. intros H; inversion H; reflexivity.
  - destruct (is_int_type kt); [|discriminate]. intros H; inversion H; reflexivity.
  - intros H; inversion H; reflexivity.
Qed.

Lemma lookup1_map_no_pred kt vt es s : key_pred kt s = None -> lookup1 (VMap kt vt es) s = LErr.
Proof.
  destruct s as [id|i|ks|n|b]; cbn [key_pred lookup1]; try reflexivity.
  - destruct (kt =? T_STRING); [discriminate|reflexivity].
  - destruct (is_int_type kt); [discriminate|reflexivity].
  - discriminate.
Qed.

(* a replaced child: same bytes before and after it *)
Lemma child_replaced_encode s c c' v v' : child_replaced s c c' v v' -> type_of c' = type_of c ->
  exists pre post, lookup1 v s = LFound c (zlen pre) /\ encode v = pre ++ encode c ++ post /\ encode v' = pre ++ encode c' ++ post.
Proof.
  intros H Ht.
  destruct s as [id|i|ks|n|b]; destruct v as [?|?|?|?|?|?|?|fs|kt vt es|et es|et es]; cbn [child_replaced] in H; try contradiction.
  - (* struct *)
    destruct H as [pre0 [e [post0 [Hs [Hc E']]]]]. pose proof Hs as [E _]. subst v' c fs.
    exists (encF pre0 ++ type_of (snd e) :: enc_int 2 (fst e)), (encF post0 ++ [0]).
    split; [|split].
    + cbn [lookup1]. rewrite (find_field_gsplit _ _ _ _ _ Hs). f_equal. rewrite zlen_app, zlen_cons, zlen_enc_int. lia.
    + cbn [encode]. rewrite flat_map_app. cbn [flat_map]. rewrite <- !app_assoc. cbn [app]. rewrite <- !app_assoc. reflexivity.
    + cbn [encode]. rewrite flat_map_app. cbn [flat_map fst snd]. rewrite Ht. rewrite <- !app_assoc. cbn [app]. rewrite <- !app_assoc. reflexivity.
  - destruct H as [pr [pre0 [e [post0 [Hp _]]]]]. discriminate Hp.
  - destruct H as [pr [pre0 [e [post0 [Hp _]]]]]. discriminate Hp.
  - (* set *)
    destruct H as [Hi [pre0 [post0 [E [L E']]]]]. subst v' es.
    exists (et :: enc_int 4 (zlen (pre0 ++ c :: post0)) ++ encE pre0), (encE post0).
    split; [|split].
    + cbn [lookup1]. destruct (Z.ltb_spec i 0); [lia|]. rewrite <- L, find_index_mid. f_equal.
      rewrite zlen_cons, zlen_app, zlen_enc_int. lia.
    + cbn [encode]. rewrite flat_map_app. cbn [flat_map app]. rewrite <- !app_assoc. reflexivity.
    + cbn [encode]. rewrite (zlen_replace pre0 c c' post0). rewrite flat_map_app. cbn [flat_map app]. rewrite <- !app_assoc. reflexivity.
  - (* list *)
    destruct H as [Hi [pre0 [post0 [E [L E']]]]]. subst v' es.
    exists (et :: enc_int 4 (zlen (pre0 ++ c :: post0)) ++ encE pre0), (encE post0).
    split; [|split].
    + cbn [lookup1]. destruct (Z.ltb_spec i 0); [lia|]. rewrite <- L, find_index_mid. f_equal.
      rewrite zlen_cons, zlen_app, zlen_enc_int. lia.
    + cbn [encode]. rewrite flat_map_app. cbn [flat_map app]. rewrite <- !app_assoc. reflexivity.
    + cbn [encode]. rewrite (zlen_replace pre0 c c' post0). rewrite flat_map_app. cbn [flat_map app]. rewrite <- !app_assoc. reflexivity.
  - (* map, three key kinds *)
    destruct H as [pr [pre0 [e [post0 [Hp [Hs [Hc E']]]]]]]. pose proof Hs as [E _]. subst v' c es.
    exists (kt :: vt :: enc_int 4 (zlen (pre0 ++ e :: post0)) ++ encP pre0 ++ encode (fst e)), (encP post0).
    split; [|split].
    + rewrite (lookup1_map_key_pred _ _ _ _ _ Hp), (find_key_gsplit _ _ _ _ _ Hs). f_equal.
      rewrite !zlen_cons, !zlen_app, zlen_enc_int. lia.
    + cbn [encode]. rewrite flat_map_app. cbn [flat_map app]. rewrite <- !app_assoc. reflexivity.
    + cbn [encode]. rewrite (zlen_replace pre0 e (fst e, c') post0). rewrite flat_map_app. cbn [flat_map app fst snd]. rewrite <- !app_assoc. reflexivity.
  - destruct H as [pr [pre0 [e [post0 [Hp [Hs [Hc E']]]]]]]. pose proof Hs as [E _]. subst v' c es.
    exists (kt :: vt :: enc_int 4 (zlen (pre0 ++ e :: post0)) ++ encP pre0 ++ encode (fst e)), (encP post0).
    split; [|split].
    + rewrite (lookup1_map_key_pred _ _ _ _ _ Hp), (find_key_gsplit _ _ _ _ _ Hs). f_equal.
      rewrite !zlen_cons, !zlen_app, zlen_enc_int. lia.
    + cbn [encode]. rewrite flat_map_app. cbn [flat_map app]. rewrite <- !app_assoc. reflexivity.
    + cbn [encode]. rewrite (zlen_replace pre0 e (fst e, c') post0). rewrite flat_map_app. cbn [flat_map app fst snd]. rewrite <- !app_assoc. reflexivity.
  - destruct H as [pr [pre0 [e [post0 [Hp [Hs [Hc E']]]]]]]. pose proof Hs as [E _]. subst v' c es.
    exists (kt :: vt :: enc_int 4 (zlen (pre0 ++ e :: post0)) ++ encP pre0 ++ encode (fst e)), (encP post0).
    split; [|split].
    + rewrite (lookup1_map_key_pred _ _ _ _ _ Hp), (find_key_gsplit _ _ _ _ _ Hs). f_equal.
      rewrite !zlen_cons, !zlen_app, zlen_enc_int. lia.
    + cbn [encode]. rewrite flat_map_app. cbn [flat_map app]. rewrite <- !app_assoc. reflexivity.
    + cbn [encode]. rewrite (zlen_replace pre0 e (fst e, c') post0). rewrite flat_map_app. cbn [flat_map app fst snd]. rewrite <- !app_assoc. reflexivity.
Qed.

(* ================= Path.ToRaw writes the encoding of the key the step denotes ================= *)
Lemma enc_int_to_s n z : enc_int n (to_s (8 * Z.of_nat n) z) = enc_int n z.
Proof.
  unfold enc_int. f_equal. f_equal. rewrite pow256_pow2. unfold to_s.
  rewrite Zminus_mod_idemp_l. f_equal. lia.
Qed.

Lemma enc_int_to_s8 z : enc_int 1 (to_s 8 z) = enc_int 1 z.  Proof. exact (enc_int_to_s 1 z). Qed.
Lemma enc_int_to_s16 z : enc_int 2 (to_s 16 z) = enc_int 2 z. Proof. exact (enc_int_to_s 2 z). Qed.
Lemma enc_int_to_s32 z : enc_int 4 (to_s 32 z) = enc_int 4 z. Proof. exact (enc_int_to_s 4 z). Qed.
Lemma enc_int_to_s64 z : enc_int 8 (to_s 64 z) = enc_int 8 z. Proof. exact (enc_int_to_s 8 z). Qed.

Lemma to_raw_key kt s kv : key_of_step kt s = Some kv -> (forall b, s = PBinKey b -> encode kv = b) ->
  to_raw s kt = Some (encode kv).
Proof.
  destruct s as [id|i|ks|n|b]; cbn [key_of_step to_raw]; try discriminate.
  - destruct (kt =? T_STRING); [|discriminate]. intros H _. inversion H. reflexivity.
  - intros H _.
    destruct (kt =? T_BYTE). { inversion H. cbn [encode]. rewrite enc_int_to_s8. reflexivity. }
    destruct (kt =? T_I16). { inversion H. cbn [encode]. rewrite enc_int_to_s16. reflexivity. }
    destruct (kt =? T_I32). { inversion H. cbn [encode]. rewrite enc_int_to_s32. reflexivity. }
    destruct (kt =? T_I64). { inversion H. cbn [encode]. rewrite enc_int_to_s64. reflexivity. }
    discriminate H.
  - intros _ Hb. rewrite (Hb b eq_refl). reflexivity.
Qed.

Lemma raw_key_ok_map s kt vt es kv : raw_key_ok s (VMap kt vt es) = true -> key_of_step kt s = Some kv ->
  forall b, s = PBinKey b -> encode kv = b.
Proof.
  intros H Hk b ->. cbn [raw_key_ok] in H. rewrite Hk in H. apply bytes_eqb_eq. exact H.
Qed.

(* ================= setNotFound + replace on an absent LAST step ================= *)
Lemma snf_struct pos s bs xb xt :
  set_not_found T_STRUCT pos s bs xb xt = Some (bs, (match to_raw s xt with Some k => k | None => [] end) ++ xb).
Proof. reflexivity. Qed.
Lemma snf_list pos s bs xb xt : set_not_found T_LIST pos s bs xb xt = Some (patch_count bs (pos - 4) 1, xb).
Proof. reflexivity. Qed.
Lemma snf_set pos s bs xb xt : set_not_found T_SET pos s bs xb xt = Some (patch_count bs (pos - 4) 1, xb).
Proof. reflexivity. Qed.
Lemma snf_map pos s bs xb xt : set_not_found T_MAP pos s bs xb xt =
  match to_raw s (nth (Z.to_nat (pos - 6)) bs 0) with None => None | Some key => Some (patch_count bs (pos - 4) 1, key ++ xb) end.
Proof. reflexivity. Qed.

Lemma insert_elems A B et n body xb : 0 <= n < 2 ^ 31 ->
  replace (patch_count (A ++ (et :: enc_int 4 n ++ body) ++ B) (zlen A + 5 - 4) 1) (zlen A + 5) (zlen A + 5) xb
  = A ++ (et :: enc_int 4 (n + 1) ++ xb ++ body) ++ B.
Proof.
  intros Hn.
  replace (A ++ (et :: enc_int 4 n ++ body) ++ B) with ((A ++ [et]) ++ enc_int 4 n ++ (body ++ B))
    by (rewrite <- !app_assoc; reflexivity).
  rewrite patch_count_mid; [|exact Hn|rewrite zlen_app, zlen_cons, zlen_nil; lia].
  rewrite (app_assoc (A ++ [et])). rewrite replace_ins; [|rewrite !zlen_app, zlen_cons, zlen_nil, zlen_enc_int; lia].
  rewrite <- !app_assoc. cbn [app]. rewrite <- ?app_assoc. reflexivity.
Qed.

Lemma insert_pair A B kt vt n body nb : 0 <= n < 2 ^ 31 ->
  replace (patch_count (A ++ (kt :: vt :: enc_int 4 n ++ body) ++ B) (zlen A + 6 - 4) 1) (zlen A + 6) (zlen A + 6) nb
  = A ++ (kt :: vt :: enc_int 4 (n + 1) ++ nb ++ body) ++ B.
Proof.
  intros Hn.
  replace (A ++ (kt :: vt :: enc_int 4 n ++ body) ++ B) with ((A ++ [kt; vt]) ++ enc_int 4 n ++ (body ++ B))
    by (rewrite <- !app_assoc; reflexivity).
  rewrite patch_count_mid; [|exact Hn|rewrite zlen_app, !zlen_cons, zlen_nil; lia].
  rewrite (app_assoc (A ++ [kt; vt])). rewrite replace_ins; [|rewrite !zlen_app, !zlen_cons, zlen_nil, zlen_enc_int; lia].
  rewrite <- !app_assoc. cbn [app]. rewrite <- ?app_assoc. reflexivity.
Qed.

Lemma zlen_bound {A} (l : list A) : zlen l < 2 ^ 31 -> 0 <= zlen l < 2 ^ 31.
Proof. pose proof (zlen_nonneg l). lia. Qed.

Lemma insert_base s x v v' : good v -> insert_at true s x v = Some v' -> raw_key_ok s v = true ->
  forall A B, exists bs' nb,
    set_not_found (type_of v) (zlen A + nf_start (type_of v)) s (A ++ encode v ++ B) (encode x) (type_of x) = Some (bs', nb) /\
    replace bs' (zlen A + nf_start (type_of v)) (zlen A + nf_start (type_of v)) nb = A ++ encode v' ++ B.
Proof.
  intros Hg Hi Hraw A B.
  destruct s as [id|i|ks|n|b]; destruct v as [?|?|?|?|?|?|?|fs|kt vt es|et es|et es]; cbn [insert_at] in Hi; try discriminate Hi.
  - (* struct *)
    inversion Hi; subst v'. cbn [type_of ins]. rewrite snf_struct. cbn [to_raw].
    eexists; eexists; split; [reflexivity|]. change (nf_start T_STRUCT) with 0.
    rewrite replace_ins by lia. cbn [encode flat_map fst snd]. rewrite <- !app_assoc. reflexivity.
  - (* set *)
    destruct (i <? 0); [discriminate Hi|]. inversion Hi; subst v'. cbn [type_of ins]. rewrite snf_set.
    eexists; eexists; split; [reflexivity|]. change (nf_start T_SET) with 5.
    destruct (good_set_inv _ _ Hg) as [Hlen _]. cbn [encode].
    rewrite insert_elems by (apply zlen_bound; exact Hlen). rewrite zlen_cons, (Z.add_comm 1). reflexivity.
  - (* list *)
    destruct (i <? 0); [discriminate Hi|]. inversion Hi; subst v'. cbn [type_of ins]. rewrite snf_list.
    eexists; eexists; split; [reflexivity|]. change (nf_start T_LIST) with 5.
    destruct (good_list_inv _ _ Hg) as [Hlen _]. cbn [encode].
    rewrite insert_elems by (apply zlen_bound; exact Hlen). rewrite zlen_cons, (Z.add_comm 1). reflexivity.
  - (* map, string key *)
    destruct (key_pred kt (PStrKey ks)) as [pr|] eqn:Ep; [|discriminate Hi].
    destruct (key_of_step kt (PStrKey ks)) as [kv|] eqn:Ek; [|discriminate Hi]. inversion Hi; subst v'.
    cbn [type_of ins]. rewrite snf_map. change (nf_start T_MAP) with 6.
    replace (zlen A + 6 - 6) with (zlen A) by lia. rewrite to_nat_zlen. cbn [encode app]. rewrite nth_app_len.
    rewrite (to_raw_key _ _ _ Ek (raw_key_ok_map _ _ _ _ _ Hraw Ek)).
    eexists; eexists; split; [reflexivity|].
    destruct (good_map_inv _ _ _ Hg) as [Hlen _].
    change (A ++ kt :: vt :: (enc_int 4 (zlen es) ++ encP es) ++ B) with (A ++ (kt :: vt :: enc_int 4 (zlen es) ++ encP es) ++ B).
    rewrite insert_pair by (apply zlen_bound; exact Hlen).
    cbn [flat_map fst snd]. rewrite zlen_cons, (Z.add_comm 1). rewrite <- !app_assoc. cbn [app]. rewrite <- ?app_assoc. reflexivity.
  - (* map, integer key *)
    destruct (key_pred kt (PIntKey n)) as [pr|] eqn:Ep; [|discriminate Hi].
    destruct (key_of_step kt (PIntKey n)) as [kv|] eqn:Ek; [|discriminate Hi]. inversion Hi; subst v'.
    cbn [type_of ins]. rewrite snf_map. change (nf_start T_MAP) with 6.
    replace (zlen A + 6 - 6) with (zlen A) by lia. rewrite to_nat_zlen. cbn [encode app]. rewrite nth_app_len.
    rewrite (to_raw_key _ _ _ Ek (raw_key_ok_map _ _ _ _ _ Hraw Ek)).
    eexists; eexists; split; [reflexivity|].
    destruct (good_map_inv _ _ _ Hg) as [Hlen _].
    change (A ++ kt :: vt :: (enc_int 4 (zlen es) ++ encP es) ++ B) with (A ++ (kt :: vt :: enc_int 4 (zlen es) ++ encP es) ++ B).
    rewrite insert_pair by (apply zlen_bound; exact Hlen).
    cbn [flat_map fst snd]. rewrite zlen_cons, (Z.add_comm 1). rewrite <- !app_assoc. cbn [app]. rewrite <- ?app_assoc. reflexivity.
  - (* map, raw key *)
    destruct (key_pred kt (PBinKey b)) as [pr|] eqn:Ep; [|discriminate Hi].
    destruct (key_of_step kt (PBinKey b)) as [kv|] eqn:Ek; [|discriminate Hi]. inversion Hi; subst v'.
    cbn [type_of ins]. rewrite snf_map. change (nf_start T_MAP) with 6.
    replace (zlen A + 6 - 6) with (zlen A) by lia. rewrite to_nat_zlen. cbn [encode app]. rewrite nth_app_len.
    rewrite (to_raw_key _ _ _ Ek (raw_key_ok_map _ _ _ _ _ Hraw Ek)).
    eexists; eexists; split; [reflexivity|].
    destruct (good_map_inv _ _ _ Hg) as [Hlen _].
    change (A ++ kt :: vt :: (enc_int 4 (zlen es) ++ encP es) ++ B) with (A ++ (kt :: vt :: enc_int 4 (zlen es) ++ encP es) ++ B).
    rewrite insert_pair by (apply zlen_bound; exact Hlen).
    cbn [flat_map fst snd]. rewrite zlen_cons, (Z.add_comm 1). rewrite <- !app_assoc. cbn [app]. rewrite <- ?app_assoc. reflexivity.
Qed.

Lemma vlookup1_err v s : vlookup1 v s = LErr -> lookup1 v s = LErr.
Proof. rewrite <- lsub_lookup1. destruct (lookup1 v s); cbn [lsub]; intros H; try discriminate H; reflexivity. Qed.

(* an absent last step that fits the container always has an insertion (given a decodable raw key) *)
Lemma insert_at_some s x v : lookup1 v s = LNotFound -> raw_key_ok s v = true -> exists v', insert_at true s x v = Some v'.
Proof.
  intros L Hraw.
  destruct s as [id|i|ks|n|b]; destruct v as [?|?|?|?|?|?|?|fs|kt vt es|et es|et es]; try discriminate L; cbn [lookup1] in L; cbn [insert_at key_pred key_of_step].
  - eexists; reflexivity.
  - destruct (i <? 0); [discriminate L|]. eexists; reflexivity.
  - destruct (i <? 0); [discriminate L|]. eexists; reflexivity.
  - destruct (kt =? T_STRING); [|discriminate L]. eexists; reflexivity.
  - destruct (is_int_type kt) eqn:Ei; [|discriminate L]. unfold is_int_type in Ei.
    destruct (kt =? T_BYTE); [eexists; reflexivity|]. destruct (kt =? T_I16); [eexists; reflexivity|].
    destruct (kt =? T_I32); [eexists; reflexivity|]. destruct (kt =? T_I64); [eexists; reflexivity|]. discriminate Ei.
  - cbn [raw_key_ok key_of_step] in Hraw.
    destruct (decode (S (length b)) kt b) as [[kv [|? ?]]|]; try discriminate Hraw. eexists; reflexivity.
Qed.

(* ================= SET: the walk and the splice against ast_set, by induction on the path ================= *)
Lemma set_spec : forall p x v off, good v -> set_dom p v = true ->
  match ast_set true p x v with
  | Some (v', true) => exists sub pre post,
       lookup v off p = LFound sub (off + zlen pre) /\
       wlookup v off p = WFound (type_of sub) (off + zlen pre) (off + zlen pre + zlen (encode sub)) /\
       type_of sub = type_of x /\ encode v = pre ++ encode sub ++ post /\ encode v' = pre ++ encode x ++ post
  | Some (v', false) => exists ct pos q ls, split_last p = Some (q, ls) /\ wlookup v off p = WNotFoundLast ct (off + pos) /\
       forall A B, exists bs' nb,
         set_not_found ct (zlen A + pos) ls (A ++ encode v ++ B) (encode x) (type_of x) = Some (bs', nb) /\
         replace bs' (zlen A + pos) (zlen A + pos) nb = A ++ encode v' ++ B
  | None => match wlookup v off p with
            | WFound t _ _ => (t =? type_of x) = false
            | WNotFoundLast _ _ => False
            | _ => True
            end
  end.
Proof.
  induction p as [|s p IH]; intros x v off Hg Hd.
  - cbn [ast_set wlookup lookup]. destruct (type_of v =? type_of x) eqn:E; [|reflexivity].
    exists v, [], []. rewrite zlen_nil. cbn [app]. rewrite app_nil_r. apply Z.eqb_eq in E.
    split; [f_equal; lia|]. split; [f_equal; lia|]. split; [exact E|]. split; [reflexivity|]. rewrite app_nil_r. reflexivity.
  - rewrite ast_set_cons_eq. pose proof (descend_spec (ast_set true p x) s v) as HD.
    destruct (descend (ast_set true p x) s v) as [| |v1 e1].
    + (* the step addresses nothing *)
      apply vlookup1_notfound in HD. cbn [set_dom] in Hd. rewrite HD in Hd. cbn [wlookup]. rewrite HD.
      destruct p as [|t p]; [|exact I].
      destruct (insert_at_some s x v HD Hd) as [v2 Ei]. rewrite Ei.
      exists (type_of v), (nf_start (type_of v)), [], s. split; [reflexivity|]. split; [reflexivity|].
      intros A B. apply insert_base; assumption.
    + (* failure *)
      destruct HD as [HE|[c [L Hk]]].
      * apply vlookup1_err in HE. cbn [wlookup]. rewrite HE. exact I.
      * destruct (vlookup1_found _ _ _ _ L) as [o' L']. cbn [wlookup]. rewrite L'.
        cbn [set_dom] in Hd. rewrite L' in Hd.
        specialize (IH x c (off + o') (lookup1_good _ _ _ _ Hg L') Hd). rewrite Hk in IH. exact IH.
    + (* the step addresses a child c, edited into c' *)
      destruct HD as [c [c' [L [Hk R]]]]. destruct (vlookup1_found _ _ _ _ L) as [o' L'].
      cbn [set_dom] in Hd. rewrite L' in Hd.
      pose proof (IH x c (off + o') (lookup1_good _ _ _ _ Hg L') Hd) as IHc. rewrite Hk in IHc.
      destruct (child_replaced_encode _ _ _ _ _ R (ast_set_type _ _ _ _ _ _ Hk)) as [pre1 [post1 [L1 [E1 E1']]]].
      rewrite L1 in L'. inversion L'; subst o'. clear L'.
      destruct e1.
      * destruct IHc as [sub [pre2 [post2 [Hl [Hw [Ht [E2 E2']]]]]]].
        exists sub, (pre1 ++ pre2), (post2 ++ post1). rewrite zlen_app.
        split; [cbn [lookup]; rewrite L1, Hl; f_equal; lia|].
        split; [cbn [wlookup]; rewrite L1, Hw; f_equal; lia|].
        split; [exact Ht|]. split.
        -- rewrite E1, E2. rewrite <- !app_assoc. reflexivity.
        -- rewrite E1', E2'. rewrite <- !app_assoc. reflexivity.
      * destruct IHc as [ct [pos [q [ls [Hsl [Hw Hctx]]]]]].
        exists ct, (zlen pre1 + pos), (s :: q), ls.
        split; [cbn [split_last]; rewrite Hsl; reflexivity|].
        split; [cbn [wlookup]; rewrite L1, Hw; f_equal; lia|].
        intros A B. destruct (Hctx (A ++ pre1) (post1 ++ B)) as [bs' [nb [H1 H2]]]. exists bs', nb.
        rewrite zlen_app in H1, H2. rewrite E1, E1'.
        replace (zlen A + (zlen pre1 + pos)) with (zlen A + zlen pre1 + pos) by lia.
        replace (A ++ (pre1 ++ encode c ++ post1) ++ B) with ((A ++ pre1) ++ encode c ++ post1 ++ B) by (rewrite <- !app_assoc; reflexivity).
        replace (A ++ (pre1 ++ encode c' ++ post1) ++ B) with ((A ++ pre1) ++ encode c' ++ post1 ++ B) by (rewrite <- !app_assoc; reflexivity).
        split; assumption.
Qed.

Lemma split_last_none p : split_last p = None -> p = [].
Proof. destruct p as [|s p]; [reflexivity|]. cbn [split_last]. destruct (split_last p) as [[q l]|]; discriminate. Qed.

Lemma split_last_some p : p <> [] -> exists q ls, split_last p = Some (q, ls).
Proof.
  intros Hp. destruct (split_last p) as [[q l]|] eqn:E; [eexists; eexists; reflexivity|].
  apply split_last_none in E. contradiction.
Qed.

Lemma split_last_app p : forall q ls, split_last p = Some (q, ls) -> p = q ++ [ls].
Proof.
  induction p as [|s p IH]; intros q ls H; [discriminate H|]. cbn [split_last] in H.
  destruct (split_last p) as [[q' l']|] eqn:E.
  - inversion H; subst. rewrite (IH q' ls eq_refl). reflexivity.
  - inversion H; subst. apply split_last_none in E. subst p. reflexivity.
Qed.

(* ================= set_refines ================= *)
Theorem set_refines : forall p x v,
  wf v = true -> (depth v <= max_skip_depth)%nat -> p <> [] -> set_dom p v = true ->
  set_by_path (type_of v) (encode v) p (encode x) (type_of x) =
  match ast_set true p x v with Some (v', ex) => Some (encode v', ex) | None => None end.
Proof.
  intros p x v Hw Hdp Hp Hd. assert (Hg : good v) by (split; assumption).
  unfold set_by_path. destruct (split_last_some p Hp) as [q [ls Esl]]. rewrite Esl.
  pose proof (walk_refines p v [] 0 Hg) as HW. rewrite app_nil_r in HW. rewrite HW.
  pose proof (set_spec p x v 0 Hg Hd) as HS.
  destruct (ast_set true p x v) as [[v' [|]]|].
  - destruct HS as [sub [pre [post [_ [Hwl [Ht [E E']]]]]]]. rewrite Hwl, Ht, Z.eqb_refl.
    rewrite E at 1. rewrite replace_mid by lia. rewrite E'. reflexivity.
  - destruct HS as [ct [pos [q' [ls' [Hsl [Hwl Hctx]]]]]]. rewrite Esl in Hsl. inversion Hsl; subst q' ls'.
    rewrite Hwl. destruct (Hctx [] []) as [bs' [nb [H1 H2]]].
    cbn [app] in H1, H2. rewrite app_nil_r, zlen_nil in H1. rewrite app_nil_r, zlen_nil in H2.
    rewrite H1, H2. reflexivity.
  - destruct (wlookup v 0 p) as [t s e|ct pos| |]; try reflexivity; [rewrite HS; reflexivity|contradiction].
Qed.
