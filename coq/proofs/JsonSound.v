(* JSON: whatever the parser accepts is a well-formed AST (string contents are bytes, number lexemes follow the grammar),
   hence printing and re-parsing a parsed document is the identity (print o parse normalises, parse o print = id). *)
From Coq Require Import ZArith List Bool Lia.
From DG Require Import Json JsonProofs.
Import ListNotations.
Local Open Scope Z_scope.

Lemma jbytes_app : forall a b, jbytes_okb (a ++ b) = jbytes_okb a && jbytes_okb b.
Proof. intros a b. unfold jbytes_okb. apply forallb_app. Qed.

Lemma hex_val_range : forall c v, hex_val c = Some v -> 0 <= v < 16.
Proof.
  intros c v H. unfold hex_val in H.
  destruct ((48 <=? c) && (c <=? 57)) eqn:E1; [apply andb_true_iff in E1; rewrite !Z.leb_le in E1; inversion H; lia|].
  destruct ((97 <=? c) && (c <=? 102)) eqn:E2; [apply andb_true_iff in E2; rewrite !Z.leb_le in E2; inversion H; lia|].
  destruct ((65 <=? c) && (c <=? 70)) eqn:E3; [apply andb_true_iff in E3; rewrite !Z.leb_le in E3; inversion H; lia|].
  discriminate.
Qed.

Lemma hex4_range : forall bs u r, hex4 bs = Some (u, r) -> 0 <= u < 65536.
Proof.
  intros bs u r H. unfold hex4 in H.
  destruct bs as [|a [|b [|c [|d t]]]]; try discriminate.
  destruct (hex_val a) as [x|] eqn:Ea; [|discriminate]. destruct (hex_val b) as [y|] eqn:Eb; [|discriminate].
  destruct (hex_val c) as [z|] eqn:Ec; [|discriminate]. destruct (hex_val d) as [w|] eqn:Ed; [|discriminate].
  inversion H; subst.
  pose proof (hex_val_range _ _ Ea). pose proof (hex_val_range _ _ Eb). pose proof (hex_val_range _ _ Ec). pose proof (hex_val_range _ _ Ed). lia.
Qed.

Lemma jb : forall c, 0 <= c < 256 -> jbyte_okb c = true.
Proof. intros c H. apply jbyte_okb_range. exact H. Qed.

Lemma utf8_enc_bytes : forall cp, 0 <= cp < 1114112 -> jbytes_okb (utf8_enc cp) = true.
Proof.
  intros cp H. unfold utf8_enc.
  destruct (Z.ltb_spec cp 128); [cbn; rewrite jb by lia; reflexivity|].
  destruct (Z.ltb_spec cp 2048).
  { cbn [jbytes_okb forallb]. rewrite !jb; [reflexivity | | ]; Z.div_mod_to_equations; lia. }
  destruct (Z.ltb_spec cp 65536).
  { cbn [jbytes_okb forallb]. rewrite !jb; [reflexivity | | | ]; Z.div_mod_to_equations; lia. }
  cbn [jbytes_okb forallb]. rewrite !jb; [reflexivity | | | | ]; Z.div_mod_to_equations; lia.
Qed.

Lemma app_res_some : forall pre x s r, app_res pre x = Some (s, r) -> exists s', x = Some (s', r) /\ s = pre ++ s'.
Proof. intros pre [[s' r']|] s r H; cbn in H; [inversion H; subst; eauto | discriminate]. Qed.

Lemma simple_escape_byte : forall e x, simple_escape e = Some x -> jbyte_okb x = true.
Proof.
  intros e x H. unfold simple_escape in H.
  repeat match type of H with (if ?b then _ else _) = _ => destruct b end; inversion H; reflexivity.
Qed.

Lemma parse_str_bytes : forall fuel bs s r, parse_str fuel bs = Some (s, r) -> jbytes_okb s = true.
Proof.
  induction fuel as [|f IH]; intros bs s r H; [discriminate|].
  rewrite parse_str_S in H. destruct bs as [|c t]; [discriminate|].
  destruct (c =? 34); [inversion H; reflexivity|].
  destruct (c =? 92).
  - destruct t as [|e r2]; [discriminate|]. destruct (e =? 117).
    + destruct (hex4 r2) as [[u r3]|] eqn:Eh; [|discriminate].
      pose proof (hex4_range _ _ _ Eh) as Hu.
      destruct (is_hi_sur u) eqn:Ehi.
      * destruct r3 as [|b1 [|b2 r4]]; try discriminate.
        destruct ((b1 =? 92) && (b2 =? 117)); [|discriminate].
        destruct (hex4 r4) as [[lo r5]|] eqn:El; [|discriminate].
        destruct (is_lo_sur lo) eqn:Elo; [|discriminate].
        apply app_res_some in H. destruct H as (s' & Hs & ->).
        rewrite jbytes_app, (IH _ _ _ Hs), andb_true_r. apply utf8_enc_bytes.
        unfold is_hi_sur in Ehi. unfold is_lo_sur in Elo.
        apply andb_true_iff in Ehi. apply andb_true_iff in Elo. rewrite !Z.leb_le in *. lia.
      * destruct (is_lo_sur u); [discriminate|].
        apply app_res_some in H. destruct H as (s' & Hs & ->).
        rewrite jbytes_app, (IH _ _ _ Hs), andb_true_r. apply utf8_enc_bytes. lia.
    + destruct (simple_escape e) as [x|] eqn:Ee; [|discriminate].
      apply app_res_some in H. destruct H as (s' & Hs & ->).
      rewrite jbytes_app, (IH _ _ _ Hs), andb_true_r. cbn. rewrite (simple_escape_byte _ _ Ee). reflexivity.
  - destruct ((c <? 32) || (255 <? c)) eqn:Ec; [discriminate|].
    apply orb_false_iff in Ec. destruct Ec as [E1 E2]. apply Z.ltb_ge in E1. apply Z.ltb_ge in E2.
    apply app_res_some in H. destruct H as (s' & Hs & ->).
    rewrite jbytes_app, (IH _ _ _ Hs), andb_true_r. cbn. rewrite jb by lia. reflexivity.
Qed.

(* the scanned prefix is itself a complete lexeme *)
Lemma scan_num_self : forall bs st l r, scan_num st bs = Some (l, r) -> scan_num st l = Some (l, []).
Proof.
  induction bs as [|c t IH]; intros st l r H.
  - cbn in H. destruct (num_acc st) eqn:Ea; inversion H; subst. cbn. rewrite Ea. reflexivity.
  - cbn [scan_num] in H. destruct (num_step st c) as [s|] eqn:E.
    + destruct (scan_num s t) as [[l1 r1]|] eqn:E2; [|discriminate]. inversion H; subst.
      cbn [scan_num]. rewrite E, (IH s l1 r E2). reflexivity.
    + destruct (num_acc st) eqn:Ea; inversion H; subst. cbn. rewrite Ea. reflexivity.
Qed.

Lemma scan_num_okb : forall bs l r, scan_num N0 bs = Some (l, r) -> num_okb l = true.
Proof. intros bs l r H. unfold num_okb. rewrite (scan_num_self bs N0 l r H). reflexivity. Qed.

Section LoopsWf.
  Variable pv : list Z -> option (json * list Z).
  Hypothesis Hpv : forall bs j r, pv bs = Some (j, r) -> json_wf j = true.

  Lemma parse_elems_wf : forall fuel bs xs r, parse_elems pv fuel bs = Some (xs, r) -> forallb json_wf xs = true.
  Proof.
    induction fuel as [|f IH]; intros bs xs r H; [discriminate|].
    cbn [parse_elems] in H. destruct (pv bs) as [[x r1]|] eqn:Ex; [|discriminate].
    destruct (skip_ws r1) as [|c r2]; [discriminate|].
    destruct (c =? 44).
    - destruct (parse_elems pv f r2) as [[xs' r3]|] eqn:E; [|discriminate]. inversion H; subst.
      cbn [forallb]. rewrite (Hpv _ _ _ Ex), (IH _ _ _ E). reflexivity.
    - destruct (c =? 93); [|discriminate]. inversion H; subst. cbn [forallb]. rewrite (Hpv _ _ _ Ex). reflexivity.
  Qed.

  Lemma parse_members_wf : forall fuel bs ms r, parse_members pv fuel bs = Some (ms, r) ->
    forallb (fun m => jbytes_okb (fst m) && json_wf (snd m)) ms = true.
  Proof.
    induction fuel as [|f IH]; intros bs ms r H; [discriminate|].
    cbn [parse_members] in H. destruct (skip_ws bs) as [|q t]; [discriminate|].
    destruct (negb (q =? 34)); [discriminate|].
    destruct (parse_str (S f) t) as [[k r2]|] eqn:Ek; [|discriminate].
    destruct (skip_ws r2) as [|c2 r3]; [discriminate|].
    destruct (negb (c2 =? 58)); [discriminate|].
    destruct (pv r3) as [[x r4]|] eqn:Ex; [|discriminate].
    destruct (skip_ws r4) as [|c3 r5]; [discriminate|].
    destruct (c3 =? 44).
    - destruct (parse_members pv f r5) as [[ms' r6]|] eqn:E; [|discriminate]. inversion H; subst.
      cbn [forallb fst snd]. rewrite (parse_str_bytes _ _ _ _ Ek), (Hpv _ _ _ Ex), (IH _ _ _ E). reflexivity.
    - destruct (c3 =? 125); [|discriminate]. inversion H; subst.
      cbn [forallb fst snd]. rewrite (parse_str_bytes _ _ _ _ Ek), (Hpv _ _ _ Ex). reflexivity.
  Qed.
End LoopsWf.

Theorem parse_value_wf : forall d bs j r, parse_value d bs = Some (j, r) -> json_wf j = true.
Proof.
  induction d as [|d' IH]; intros bs j r H; [discriminate|].
  rewrite parse_value_S in H. destruct (skip_ws bs) as [|c t]; [discriminate|].
  destruct (c =? 110). { destruct (match_lit _ t); inversion H; reflexivity. }
  destruct (c =? 116). { destruct (match_lit _ t); inversion H; reflexivity. }
  destruct (c =? 102). { destruct (match_lit _ t); inversion H; reflexivity. }
  destruct (c =? 34).
  { destruct (parse_str d' t) as [[s r']|] eqn:E; [|discriminate]. inversion H; subst. exact (parse_str_bytes _ _ _ _ E). }
  destruct (c =? 91).
  { destruct (skip_ws t) as [|c2 r2]; [discriminate|]. destruct (c2 =? 93); [inversion H; reflexivity|].
    destruct (parse_elems (parse_value d') d' t) as [[xs r']|] eqn:E; [|discriminate]. inversion H; subst.
    exact (parse_elems_wf (parse_value d') IH _ _ _ _ E). }
  destruct (c =? 123).
  { destruct (skip_ws t) as [|c2 r2]; [discriminate|]. destruct (c2 =? 125); [inversion H; reflexivity|].
    destruct (parse_members (parse_value d') d' t) as [[ms r']|] eqn:E; [|discriminate]. inversion H; subst.
    exact (parse_members_wf (parse_value d') IH _ _ _ _ E). }
  destruct (scan_num N0 (c :: t)) as [[l r']|] eqn:E; [|discriminate]. inversion H; subst.
  exact (scan_num_okb _ _ _ E).
Qed.

(* everything the parser accepts is a well-formed AST *)
Theorem json_parse_wf : forall bs j, json_parse bs = Some j -> json_wf j = true.
Proof.
  intros bs j H. unfold json_parse in H.
  destruct (parse_value (S (S (length bs))) bs) as [[j' r]|] eqn:E; [|discriminate].
  destruct (skip_ws r); [|discriminate]. inversion H; subst. exact (parse_value_wf _ _ _ _ E).
Qed.

(* print o parse is a normal form: the canonical text of a parsed document parses to the same document *)
Corollary json_parse_canonical : forall bs j, json_parse bs = Some j -> json_parse (json_print j) = Some j.
Proof. intros bs j H. apply json_parse_print. exact (json_parse_wf bs j H). Qed.

(* unquote yields bytes *)
Corollary unquote_bytes : forall bs s, unquote bs = Some s -> jbytes_okb s = true.
Proof.
  intros bs s H. unfold unquote in H. destruct bs as [|c r]; [discriminate|].
  destruct (c =? 34); [|discriminate].
  destruct (parse_str (S (length r)) r) as [[s' r']|] eqn:E; [|discriminate].
  destruct r'; [|discriminate]. inversion H; subst. exact (parse_str_bytes _ _ _ _ E).
Qed.
