(* (G) BinaryProtocol.Reset / Recycle of thrift and proto/binary, translated from the Go source on every build (gen/Gen_thriftpool.v,
   gen/Gen_protopool.v), against the pool state machine of model/Pool.v: the object that `Put` hands to the pool is reset. *)
From Coq Require Import ZArith List Bool Lia.
From DG Require Import GoSem Pool.
From DG Require Gen_thriftpool Gen_protopool.
Import ListNotations.
Local Open Scope Z_scope.

(* Reset: cursor 0, buffer truncated to length 0 (the borrowed flag is not its business) *)
Theorem Reset_resets buf rd b :
  Gen_thriftpool.BinaryProtocol_Reset buf rd b = ([], 0, b) /\ Gen_protopool.BinaryProtocol_Reset buf rd b = ([], 0, b).
Proof. split; reflexivity. Qed.

(* Recycle: for EVERY content, cursor and borrowed flag exactly one bpPool.Put, of an object with empty buffer, cursor 0, not borrowed *)
Theorem Recycle_puts_reset buf rd b :
  Gen_thriftpool.BinaryProtocol_Recycle buf rd b = ([(Gen_thriftpool.Eff_Put, [])], [], 0, false) /\
  Gen_protopool.BinaryProtocol_Recycle buf rd b = ([(Gen_protopool.Eff_Put, [])], [], 0, false).
Proof. destruct b; split; reflexivity. Qed.

(* the model's Put (Pool.step) leaves in the pooled buffer exactly the logical content the source's Recycle leaves in the object *)
Theorem Put_is_Recycle st c s b rd brw : work st c s = Some b ->
  logical (mem (step st (Put c s)) b) = snd (fst (fst (Gen_thriftpool.BinaryProtocol_Recycle (logical (mem st b)) rd brw))) /\
  logical (mem (step st (Put c s)) b) = snd (fst (fst (Gen_protopool.BinaryProtocol_Recycle (logical (mem st b)) rd brw))) /\
  In b (pool (step st (Put c s))).
Proof.
  intros H. rewrite (proj1 (Recycle_puts_reset _ rd brw)), (proj2 (Recycle_puts_reset _ rd brw)). cbn [fst snd].
  cbn [step]. rewrite H. cbn [mem pool]. unfold upd_mem. rewrite Nat.eqb_refl. cbn [logical]. repeat split. left. reflexivity.
Qed.
