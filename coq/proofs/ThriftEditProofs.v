(* C04: properties of the AST-level edits (ast_set / ast_unset / ast_step) of model/ThriftEdit.v:
   well-formedness is preserved (so every state round-trips through encode/decode), the 'existed'
   flag says exactly whether the path addressed an element, a replacement changes the addressed element
   and nothing a disjoint path can see, an insertion adds exactly one child to exactly the addressed
   container, unset removes exactly one child or changes nothing, histories stay well-formed. *)
From Coq Require Import ZArith List Bool Lia.
From DG Require Import ProtoWireRef ProtoWireRefProofs ThriftWire ThriftWireProofs CaseFormat ThriftGeneric ThriftGenericProofs ThriftEdit.
Import ListNotations.
Local Open Scope Z_scope.

(* key_of_step consults skip_go (depth fuel 1023) before decoding a raw key: never unfold it during conversion *)
Opaque skip_go.

(* ---------------- offset-free view of lookup ---------------- *)
Definition lsub (r : lres) : lres := match r with LFound s _ => LFound s 0 | x => x end.
Definition of_opt (o : option tval) : lres := match o with Some c => LFound c 0 | None => LNotFound end.

Section Gen.
  Context {K : Type}.
  Variable pr : K -> bool.

  Fixpoint gfind (l : list (K * tval)) : option tval :=
    match l with [] => None | e :: r => if pr (fst e) then Some (snd e) else gfind r end.

  (* e is the FIRST entry of l whose key satisfies pr *)
  Definition gsplit (l pre : list (K * tval)) (e : K * tval) (post : list (K * tval)) : Prop :=
    l = pre ++ e :: post /\ pr (fst e) = true /\ Forall (fun g => pr (fst g) = false) pre.

  Lemma gfind_none l : gfind l = None -> Forall (fun g => pr (fst g) = false) l.
  Proof.
    induction l as [|e l IH]; intros H; [constructor|]. cbn [gfind] in H.
    destruct (pr (fst e)) eqn:E; [discriminate H|]. constructor; auto.
  Qed.

  Lemma gfind_none_conv l : Forall (fun g => pr (fst g) = false) l -> gfind l = None.
  Proof.
    induction l as [|e l IH]; intros H; [reflexivity|]. inversion H as [|? ? He Hl]; subst.
    cbn [gfind]. rewrite He. auto.
  Qed.

  Lemma gfind_split l pre e post : gsplit l pre e post -> gfind l = Some (snd e).
  Proof.
    intros [El [He Hpre]]. subst l. induction pre as [|g pre IH]; cbn [app gfind].
    - rewrite He. reflexivity.
    - inversion Hpre as [|? ? Hg Hp]; subst. rewrite Hg. apply IH. exact Hp.
  Qed.

  Lemma gfind_some l : forall c, gfind l = Some c -> exists pre e post, gsplit l pre e post /\ snd e = c.
  Proof.
    induction l as [|e l IH]; intros c H; [discriminate H|]. cbn [gfind] in H.
    destruct (pr (fst e)) eqn:E.
    - inversion H; subst. exists [], e, l. split; [|reflexivity]. split; [reflexivity|]. split; [exact E|constructor].
    - destruct (IH c H) as [pre [e' [post [[El [He Hpre]] Hc]]]].
      exists (e :: pre), e', post. split; [|exact Hc]. split; [rewrite El; reflexivity|]. split; [exact He|constructor; assumption].
  Qed.

  Lemma gfind_app_none l1 l2 : gfind l1 = None -> gfind (l1 ++ l2) = gfind l2.
  Proof.
    induction l1 as [|e l1 IH]; intros H; [reflexivity|]. cbn [gfind] in H. cbn [app gfind].
    destruct (pr (fst e)); [discriminate H|]. auto.
  Qed.

  Section Upd.
    Variable k : tval -> option (tval * bool).
    Fixpoint gupd (l : list (K * tval)) : ures (list (K * tval)) :=
      match l with
      | [] => UAbsent
      | f :: r =>
        if pr (fst f) then match k (snd f) with Some (x', ex) => UOk ((fst f, x') :: r) ex | None => UFail end
        else match gupd r with UOk r' ex => UOk (f :: r') ex | UAbsent => UAbsent | UFail => UFail end
      end.

    Lemma gupd_spec l :
      match gupd l with
      | UAbsent => gfind l = None
      | UFail => exists c, gfind l = Some c /\ k c = None
      | UOk l' ex => exists pre e post c', gsplit l pre e post /\ k (snd e) = Some (c', ex) /\ l' = pre ++ (fst e, c') :: post
      end.
    Proof.
      induction l as [|f l IH]; cbn [gupd gfind]; [reflexivity|].
      destruct (pr (fst f)) eqn:E.
      - destruct (k (snd f)) as [[x' ex]|] eqn:Ek.
        + exists [], f, l, x'. split; [|split; [exact Ek|reflexivity]]. split; [reflexivity|]. split; [exact E|constructor].
        + exists (snd f). split; [reflexivity|exact Ek].
      - destruct (gupd l) as [| |l' ex]; [exact IH|exact IH|].
        destruct IH as [pre [e [post [c' [[El [He Hpre]] [Hk El']]]]]].
        exists (f :: pre), e, post, c'. split; [|split; [exact Hk|rewrite El'; reflexivity]].
        split; [rewrite El; reflexivity|]. split; [exact He|constructor; assumption].
    Qed.

    Lemma gupd_split l pre e post c' ex : gsplit l pre e post -> k (snd e) = Some (c', ex) ->
      gupd l = UOk (pre ++ (fst e, c') :: post) ex.
    Proof.
      intros [El [He Hpre]] Hk. subst l. induction pre as [|g pre IH]; cbn [app gupd].
      - rewrite He, Hk. reflexivity.
      - inversion Hpre as [|? ? Hg Hp]; subst. rewrite Hg. rewrite (IH Hp). reflexivity.
    Qed.

    Lemma gupd_absent l : gfind l = None -> gupd l = UAbsent.
    Proof.
      induction l as [|f l IH]; intros H; [reflexivity|]. cbn [gfind] in H. cbn [gupd].
      destruct (pr (fst f)); [discriminate H|]. rewrite (IH H). reflexivity.
    Qed.
  End Upd.

  Fixpoint gdel (l : list (K * tval)) : option (list (K * tval)) :=
    match l with [] => None | e :: r => if pr (fst e) then Some r else match gdel r with Some r' => Some (e :: r') | None => None end end.

  Lemma gdel_spec l :
    match gdel l with
    | None => gfind l = None
    | Some l' => exists pre e post, gsplit l pre e post /\ l' = pre ++ post
    end.
  Proof.
    induction l as [|f l IH]; cbn [gdel gfind]; [reflexivity|].
    destruct (pr (fst f)) eqn:E.
    - exists [], f, l. split; [|reflexivity]. split; [reflexivity|]. split; [exact E|constructor].
    - destruct (gdel l) as [l'|]; [|exact IH].
      destruct IH as [pre [e [post [[El [He Hpre]] El']]]].
      exists (f :: pre), e, post. split; [|rewrite El'; reflexivity].
      split; [rewrite El; reflexivity|]. split; [exact He|constructor; assumption].
  Qed.
End Gen.

Lemma gfind_ext {K} (p1 p2 : K -> bool) l : (forall a, p1 a = p2 a) -> gfind p1 l = gfind p2 l.
Proof. intros H. induction l as [|e l IH]; cbn [gfind]; [reflexivity|]. rewrite H, IH. reflexivity. Qed.

(* the model's three keyed loops are instances *)
Lemma upd_fields_gupd k id fs : upd_fields k id fs = gupd (fun i => i =? id) k fs.
Proof. induction fs as [|f fs IH]; cbn [upd_fields gupd]; [reflexivity|]. rewrite IH. reflexivity. Qed.

Lemma upd_key_gupd k pr es : upd_key k pr es = gupd pr k es.
Proof. induction es as [|f es IH]; cbn [upd_key gupd]; [reflexivity|]. rewrite IH. reflexivity. Qed.

Lemma del_field_gdel id fs : del_field id fs = gdel (fun i => i =? id) fs.
Proof. induction fs as [|f fs IH]; cbn [del_field gdel]; [reflexivity|]. rewrite IH. reflexivity. Qed.

Lemma del_key_gdel pr es : del_key pr es = gdel pr es.
Proof. induction es as [|f es IH]; cbn [del_key gdel]; [reflexivity|]. rewrite IH. reflexivity. Qed.

Lemma find_field_gfind id fs : forall off, lsub (find_field id fs off) = of_opt (gfind (fun i => i =? id) fs).
Proof. induction fs as [|f fs IH]; intros off; cbn [find_field gfind]; [reflexivity|]. destruct (fst f =? id); [reflexivity|apply IH]. Qed.

Lemma find_key_gfind pr es : forall off, lsub (find_key pr es off) = of_opt (gfind pr es).
Proof. induction es as [|f es IH]; intros off; cbn [find_key gfind]; [reflexivity|]. destruct (pr (fst f)); [reflexivity|apply IH]. Qed.

Lemma find_index_nth es : forall n off, lsub (find_index n es off) = of_opt (nth_error es n).
Proof.
  induction es as [|x es IH]; intros n off; [destruct n; reflexivity|].
  destruct n as [|n]; cbn [find_index nth_error]; [reflexivity|apply IH].
Qed.

(* positional update / delete *)
Lemma upd_nth_spec k es : forall n,
  match upd_nth k n es with
  | UAbsent => nth_error es n = None
  | UFail => exists c, nth_error es n = Some c /\ k c = None
  | UOk es' ex => exists pre c post c', es = pre ++ c :: post /\ length pre = n /\ k c = Some (c', ex) /\ es' = pre ++ c' :: post
  end.
Proof.
  induction es as [|x es IH]; intros n; [destruct n; reflexivity|].
  destruct n as [|n]; cbn [upd_nth nth_error].
  - destruct (k x) as [[x' ex]|] eqn:Ek.
    + exists [], x, es, x'. repeat split; auto.
    + exists x. split; [reflexivity|exact Ek].
  - specialize (IH n). destruct (upd_nth k n es) as [| |es' ex]; [exact IH|exact IH|].
    destruct IH as [pre [c [post [c' [E [L [Hk E']]]]]]].
    exists (x :: pre), c, post, c'. repeat split; [rewrite E; reflexivity|cbn [length]; lia|exact Hk|rewrite E'; reflexivity].
Qed.

Lemma upd_nth_split k pre c post c' ex : k c = Some (c', ex) ->
  upd_nth k (length pre) (pre ++ c :: post) = UOk (pre ++ c' :: post) ex.
Proof.
  intros Hk. induction pre as [|g pre IH]; cbn [app length upd_nth].
  - rewrite Hk. reflexivity.
  - rewrite IH. reflexivity.
Qed.

Lemma nth_error_split (es : list tval) : forall n c, nth_error es n = Some c ->
  exists pre post, es = pre ++ c :: post /\ length pre = n.
Proof.
  induction es as [|x es IH]; intros n c H; [destruct n; discriminate H|].
  destruct n as [|n]; cbn [nth_error] in H.
  - inversion H; subst. exists [], es. split; reflexivity.
  - destruct (IH n c H) as [pre [post [E L]]]. exists (x :: pre), post. split; [rewrite E; reflexivity|cbn [length]; lia].
Qed.

Lemma nth_error_mid (pre : list tval) c post : nth_error (pre ++ c :: post) (length pre) = Some c.
Proof. induction pre as [|g pre IH]; [reflexivity|exact IH]. Qed.

Lemma nth_error_replace_other (pre : list tval) c c' post n : n <> length pre ->
  nth_error (pre ++ c' :: post) n = nth_error (pre ++ c :: post) n.
Proof.
  revert n. induction pre as [|g pre IH]; intros n Hn.
  - destruct n as [|n]; [cbn in Hn; lia|reflexivity].
  - destruct n as [|n]; [reflexivity|]. cbn [app nth_error]. apply IH. cbn in Hn. lia.
Qed.

Lemma del_nth_spec es : forall n,
  match del_nth n es with
  | None => nth_error es n = None
  | Some es' => exists pre c post, es = pre ++ c :: post /\ length pre = n /\ es' = pre ++ post
  end.
Proof.
  induction es as [|x es IH]; intros n; [destruct n; reflexivity|].
  destruct n as [|n]; cbn [del_nth nth_error].
  - exists [], x, es. repeat split.
  - specialize (IH n). destruct (del_nth n es) as [es'|]; [|exact IH].
    destruct IH as [pre [c [post [E [L E']]]]]. exists (x :: pre), c, post.
    repeat split; [rewrite E; reflexivity|cbn [length]; lia|rewrite E'; reflexivity].
Qed.

(* ---------------- offset-free one-step and path lookup ---------------- *)
Definition vlookup1 (v : tval) (s : pstep) : lres :=
  match s, v with
  | PField id, VStruct fs => of_opt (gfind (fun i => i =? id) fs)
  | PIndex i, VList _ es => if i <? 0 then LErr else of_opt (nth_error es (Z.to_nat i))
  | PIndex i, VSet _ es => if i <? 0 then LErr else of_opt (nth_error es (Z.to_nat i))
  | _, VMap kt _ es => match key_pred kt s with Some pr => of_opt (gfind pr es) | None => LErr end
  | _, _ => LErr
  end.

Fixpoint vlookup (v : tval) (p : list pstep) : lres :=
  match p with
  | [] => LFound v 0
  | s :: p' => match vlookup1 v s with LFound c _ => vlookup c p' | r => r end
  end.

Lemma lsub_lookup1 v s : lsub (lookup1 v s) = vlookup1 v s.
Proof.
  destruct s as [id|i|k|n|b]; destruct v as [?|?|?|?|?|?|?|fs|kt vt es|et es|et es]; try reflexivity;
    cbn [lookup1 vlookup1 key_pred].
  - apply find_field_gfind.
  - destruct (i <? 0); [reflexivity|apply find_index_nth].
  - destruct (i <? 0); [reflexivity|apply find_index_nth].
  - destruct (kt =? T_STRING); [apply find_key_gfind|reflexivity].
  - destruct (is_int_type kt); [apply find_key_gfind|reflexivity].
  - apply find_key_gfind.
Qed.

Lemma lsub_lookup : forall p v off, lsub (lookup v off p) = vlookup v p.
Proof.
  induction p as [|s p IH]; intros v off; cbn [lookup vlookup]; [reflexivity|].
  rewrite <- lsub_lookup1. destruct (lookup1 v s) as [c o| |]; cbn [lsub]; [apply IH|reflexivity|reflexivity].
Qed.

Lemma vlookup1_found v s c o : vlookup1 v s = LFound c o -> exists o', lookup1 v s = LFound c o'.
Proof. rewrite <- lsub_lookup1. destruct (lookup1 v s) as [c' o'| |]; cbn [lsub]; intros H; inversion H; subst. eexists; reflexivity. Qed.

Lemma vlookup1_notfound v s : vlookup1 v s = LNotFound -> lookup1 v s = LNotFound.
Proof. rewrite <- lsub_lookup1. destruct (lookup1 v s) as [c' o'| |]; cbn [lsub]; intros H; inversion H; reflexivity. Qed.


(* ---------------- what one level of an edit does to a container ---------------- *)
(* v' is v with the child c addressed by step s replaced by c' (same position, same key) *)
Definition child_replaced (s : pstep) (c c' : tval) (v v' : tval) : Prop :=
  match s, v with
  | PField id, VStruct fs =>
      exists pre e post, gsplit (fun i => i =? id) fs pre e post /\ snd e = c /\ v' = VStruct (pre ++ (fst e, c') :: post)
  | PIndex i, VList et es =>
      0 <= i /\ exists pre post, es = pre ++ c :: post /\ length pre = Z.to_nat i /\ v' = VList et (pre ++ c' :: post)
  | PIndex i, VSet et es =>
      0 <= i /\ exists pre post, es = pre ++ c :: post /\ length pre = Z.to_nat i /\ v' = VSet et (pre ++ c' :: post)
  | _, VMap kt vt es =>
      exists pr pre e post, key_pred kt s = Some pr /\ gsplit pr es pre e post /\ snd e = c /\ v' = VMap kt vt (pre ++ (fst e, c') :: post)
  | _, _ => False
  end.

(* v' is v with one new child x added (front or back), addressed by step s *)
Definition child_inserted (front : bool) (s : pstep) (x : tval) (v v' : tval) : Prop :=
  match s, v with
  | PField id, VStruct fs => v' = VStruct (ins front (id, x) fs)
  | PIndex i, VList et es => 0 <= i /\ v' = VList et (ins front x es)
  | PIndex i, VSet et es => 0 <= i /\ v' = VSet et (ins front x es)
  | _, VMap kt vt es => exists pr kv, key_pred kt s = Some pr /\ key_of_step kt s = Some kv /\ v' = VMap kt vt (ins front (kv, x) es)
  | _, _ => False
  end.

(* the generic "descend into the child addressed by s and apply k there" of ast_set / ast_unset *)
Definition descend (k : tval -> option (tval * bool)) (s : pstep) (v : tval) : ures tval :=
  match s, v with
  | PField id, VStruct fs => match upd_fields k id fs with UOk fs' ex => UOk (VStruct fs') ex | UAbsent => UAbsent | UFail => UFail end
  | PIndex i, VList et es => if i <? 0 then UFail else match upd_nth k (Z.to_nat i) es with UOk es' ex => UOk (VList et es') ex | UAbsent => UAbsent | UFail => UFail end
  | PIndex i, VSet et es => if i <? 0 then UFail else match upd_nth k (Z.to_nat i) es with UOk es' ex => UOk (VSet et es') ex | UAbsent => UAbsent | UFail => UFail end
  | _, VMap kt vt es =>
      match key_pred kt s with
      | None => UFail
      | Some pr => match upd_key k pr es with UOk es' ex => UOk (VMap kt vt es') ex | UAbsent => UAbsent | UFail => UFail end
      end
  | _, _ => UFail
  end.

Lemma descend_spec k s v :
  match descend k s v with
  | UOk v' ex => exists c c', vlookup1 v s = LFound c 0 /\ k c = Some (c', ex) /\ child_replaced s c c' v v'
  | UAbsent => vlookup1 v s = LNotFound
  | UFail => vlookup1 v s = LErr \/ exists c, vlookup1 v s = LFound c 0 /\ k c = None
  end.
Proof.
  destruct s as [id|i|ks|n|b]; destruct v as [?|?|?|?|?|?|?|fs|kt vt es|et es|et es];
    try (left; reflexivity); cbn [descend vlookup1 child_replaced].
  - (* field / struct *)
    rewrite upd_fields_gupd. pose proof (gupd_spec (fun i => i =? id) k fs) as H.
    destruct (gupd (fun i => i =? id) k fs) as [| |fs' ex].
    + rewrite H. reflexivity.
    + right. destruct H as [c [Hf Hk]]. exists c. rewrite Hf. auto.
    + destruct H as [pre [e [post [c' [Hs [Hk E]]]]]]. exists (snd e), c'.
      rewrite (gfind_split _ _ _ _ _ Hs). split; [reflexivity|]. split; [exact Hk|]. exists pre, e, post. subst fs'. auto.
  - (* index / set *)
    destruct (Z.ltb_spec i 0) as [Hi|Hi]; [left; reflexivity|].
    pose proof (upd_nth_spec k es (Z.to_nat i)) as H. destruct (upd_nth k (Z.to_nat i) es) as [| |es' ex].
    + rewrite H. reflexivity.
    + right. destruct H as [c [Hf Hk]]. exists c. rewrite Hf. auto.
    + destruct H as [pre [c [post [c' [E [L [Hk E']]]]]]]. exists c, c'. subst es.
      rewrite <- L, nth_error_mid. split; [reflexivity|]. split; [exact Hk|]. split; [exact Hi|]. exists pre, post. subst es'. auto.
  - (* index / list *)
    destruct (Z.ltb_spec i 0) as [Hi|Hi]; [left; reflexivity|].
    pose proof (upd_nth_spec k es (Z.to_nat i)) as H. destruct (upd_nth k (Z.to_nat i) es) as [| |es' ex].
    + rewrite H. reflexivity.
    + right. destruct H as [c [Hf Hk]]. exists c. rewrite Hf. auto.
    + destruct H as [pre [c [post [c' [E [L [Hk E']]]]]]]. exists c, c'. subst es.
      rewrite <- L, nth_error_mid. split; [reflexivity|]. split; [exact Hk|]. split; [exact Hi|]. exists pre, post. subst es'. auto.
  - (* str key / map *)
    destruct (key_pred kt (PStrKey ks)) as [pr|] eqn:Ep; [|left; reflexivity].
    rewrite upd_key_gupd. pose proof (gupd_spec pr k es) as H. destruct (gupd pr k es) as [| |es' ex].
    + rewrite H. reflexivity.
    + right. destruct H as [c [Hf Hk]]. exists c. rewrite Hf. auto.
    + destruct H as [pre [e [post [c' [Hs [Hk E]]]]]]. exists (snd e), c'.
      rewrite (gfind_split _ _ _ _ _ Hs). split; [reflexivity|]. split; [exact Hk|]. exists pr, pre, e, post. subst es'. auto.
  - (* int key / map *)
    destruct (key_pred kt (PIntKey n)) as [pr|] eqn:Ep; [|left; reflexivity].
    rewrite upd_key_gupd. pose proof (gupd_spec pr k es) as H. destruct (gupd pr k es) as [| |es' ex].
    + rewrite H. reflexivity.
    + right. destruct H as [c [Hf Hk]]. exists c. rewrite Hf. auto.
    + destruct H as [pre [e [post [c' [Hs [Hk E]]]]]]. exists (snd e), c'.
      rewrite (gfind_split _ _ _ _ _ Hs). split; [reflexivity|]. split; [exact Hk|]. exists pr, pre, e, post. subst es'. auto.
  - (* bin key / map *)
    destruct (key_pred kt (PBinKey b)) as [pr|] eqn:Ep; [|left; reflexivity].
    rewrite upd_key_gupd. pose proof (gupd_spec pr k es) as H. destruct (gupd pr k es) as [| |es' ex].
    + rewrite H. reflexivity.
    + right. destruct H as [c [Hf Hk]]. exists c. rewrite Hf. auto.
    + destruct H as [pre [e [post [c' [Hs [Hk E]]]]]]. exists (snd e), c'.
      rewrite (gfind_split _ _ _ _ _ Hs). split; [reflexivity|]. split; [exact Hk|]. exists pr, pre, e, post. subst es'. auto.
Qed.

(* converse: a replacement of the addressed child is what descend computes *)
Lemma descend_replaced k s c c' v v' ex : child_replaced s c c' v v' -> k c = Some (c', ex) -> descend k s v = UOk v' ex.
Proof.
  intros H Hk.
  destruct s as [id|i|ks|n|b]; destruct v as [?|?|?|?|?|?|?|fs|kt vt es|et es|et es]; cbn [child_replaced] in H; try contradiction;
    cbn [descend].
  - destruct H as [pre [e [post [Hs [Hc E]]]]]. subst c v'. rewrite upd_fields_gupd, (gupd_split _ _ _ _ _ _ _ _ Hs Hk). reflexivity.
  - destruct H as [pr [pre [e [post [Hp _]]]]]. discriminate Hp.
  - destruct H as [pr [pre [e [post [Hp _]]]]]. discriminate Hp.
  - destruct H as [Hi [pre [post [E [L E']]]]]. destruct (Z.ltb_spec i 0); [lia|]. subst es v'. rewrite <- L, (upd_nth_split _ _ _ _ _ _ Hk). reflexivity.
  - destruct H as [Hi [pre [post [E [L E']]]]]. destruct (Z.ltb_spec i 0); [lia|]. subst es v'. rewrite <- L, (upd_nth_split _ _ _ _ _ _ Hk). reflexivity.
  - destruct H as [pr [pre [e [post [Hp [Hs [Hc E]]]]]]]. rewrite Hp. subst c v'. rewrite upd_key_gupd, (gupd_split _ _ _ _ _ _ _ _ Hs Hk). reflexivity.
  - destruct H as [pr [pre [e [post [Hp [Hs [Hc E]]]]]]]. rewrite Hp. subst c v'. rewrite upd_key_gupd, (gupd_split _ _ _ _ _ _ _ _ Hs Hk). reflexivity.
  - destruct H as [pr [pre [e [post [Hp [Hs [Hc E]]]]]]]. rewrite Hp. subst c v'. rewrite upd_key_gupd, (gupd_split _ _ _ _ _ _ _ _ Hs Hk). reflexivity.
Qed.

(* ast_set and ast_unset in terms of descend *)
Definition insert_at (front : bool) (s : pstep) (x : tval) (v : tval) : option tval :=
  match s, v with
  | PField id, VStruct fs => Some (VStruct (ins front (id, x) fs))
  | PIndex i, VList et es => if i <? 0 then None else Some (VList et (ins front x es))
  | PIndex i, VSet et es => if i <? 0 then None else Some (VSet et (ins front x es))
  | _, VMap kt vt es =>
      match key_pred kt s with
      | None => None
      | Some _ => match key_of_step kt s with Some kv => Some (VMap kt vt (ins front (kv, x) es)) | None => None end
      end
  | _, _ => None
  end.

Lemma ast_set_cons_eq front s p' x v :
  ast_set front (s :: p') x v =
  match descend (ast_set front p' x) s v with
  | UOk v' ex => Some (v', ex)
  | UFail => None
  | UAbsent => match p' with [] => match insert_at front s x v with Some v' => Some (v', false) | None => None end | _ => None end
  end.
Proof.
  destruct s as [id|i|ks|n|b]; destruct v as [?|?|?|?|?|?|?|fs|kt vt es|et es|et es]; try reflexivity;
    cbn [ast_set descend insert_at key_pred].
  - destruct (upd_fields (ast_set front p' x) id fs); try reflexivity. destruct p'; reflexivity.
  - destruct (i <? 0); [reflexivity|]. destruct (upd_nth (ast_set front p' x) (Z.to_nat i) es); try reflexivity. destruct p'; reflexivity.
  - destruct (i <? 0); [reflexivity|]. destruct (upd_nth (ast_set front p' x) (Z.to_nat i) es); try reflexivity. destruct p'; reflexivity.
  - destruct (kt =? T_STRING); [|reflexivity]. destruct (upd_key (ast_set front p' x) (str_key_is ks) es); try reflexivity.
    destruct p'; [|reflexivity]. destruct (key_of_step kt (PStrKey ks)); reflexivity.
  - destruct (is_int_type kt); [|reflexivity]. destruct (upd_key (ast_set front p' x) (int_key_is n) es); try reflexivity.
    destruct p'; [|reflexivity]. destruct (key_of_step kt (PIntKey n)); reflexivity.
  - destruct (upd_key (ast_set front p' x) (bin_key_is b) es); try reflexivity.
    destruct p'; [|reflexivity]. destruct (key_of_step kt (PBinKey b)); reflexivity.
Qed.

Lemma insert_at_inserted front s x v v' : insert_at front s x v = Some v' -> child_inserted front s x v v'.
Proof.
  destruct s as [id|i|ks|n|b]; destruct v as [?|?|?|?|?|?|?|fs|kt vt es|et es|et es]; cbn [insert_at child_inserted]; try discriminate.
  - intros HH; inversion HH; reflexivity.
  - destruct (Z.ltb_spec i 0); [discriminate|]. intros HH; inversion HH; auto.
  - destruct (Z.ltb_spec i 0); [discriminate|]. intros HH; inversion HH; auto.
  - destruct (key_pred kt (PStrKey ks)) as [pr|]; [|discriminate]. destruct (key_of_step kt (PStrKey ks)) as [kv|]; [|discriminate].
    intros HH; inversion HH. exists pr, kv. auto.
  - destruct (key_pred kt (PIntKey n)) as [pr|]; [|discriminate]. destruct (key_of_step kt (PIntKey n)) as [kv|]; [|discriminate].
    intros HH; inversion HH. exists pr, kv. auto.
  - destruct (key_pred kt (PBinKey b)) as [pr|]; [|discriminate]. destruct (key_of_step kt (PBinKey b)) as [kv|]; [|discriminate].
    intros HH; inversion HH. exists pr, kv. auto.
Qed.

(* the structural case analysis of a successful set on a non-empty path *)
Lemma ast_set_cons front s p' x v v' ex : ast_set front (s :: p') x v = Some (v', ex) ->
  (exists c c', vlookup1 v s = LFound c 0 /\ ast_set front p' x c = Some (c', ex) /\ child_replaced s c c' v v')
  \/ (vlookup1 v s = LNotFound /\ p' = [] /\ ex = false /\ child_inserted front s x v v').
Proof.
  rewrite ast_set_cons_eq. pose proof (descend_spec (ast_set front p' x) s v) as H.
  destruct (descend (ast_set front p' x) s v) as [| |v1 e1]; intros E.
  - right. destruct p'; [|discriminate E]. destruct (insert_at front s x v) as [v2|] eqn:Ei; [|discriminate E].
    inversion E; subst. repeat split; auto. apply insert_at_inserted. exact Ei.
  - discriminate E.
  - inversion E; subst. left. exact H.
Qed.

(* ---------------- consequences of a replacement ---------------- *)
Lemma forallb_mid {A} (f : A -> bool) pre a post : forallb f (pre ++ a :: post) = true ->
  f a = true /\ forall b, f b = true -> forallb f (pre ++ b :: post) = true.
Proof.
  rewrite forallb_app. cbn [forallb]. intros H. apply andb_true_iff in H. destruct H as [H1 H2].
  apply andb_true_iff in H2. destruct H2 as [H2 H3]. split; [exact H2|].
  intros b Hb. rewrite forallb_app. cbn [forallb]. rewrite H1, Hb, H3. reflexivity.
Qed.

Lemma zlen_replace {A} (pre : list A) a b post : zlen (pre ++ b :: post) = zlen (pre ++ a :: post).
Proof. unfold zlen. rewrite !app_length. reflexivity. Qed.

Lemma child_replaced_type s c c' v v' : child_replaced s c c' v v' -> type_of v' = type_of v.
Proof.
  destruct s; destruct v; cbn [child_replaced]; try contradiction; intros H;
  repeat match goal with H : exists _, _ |- _ => destruct H | H : _ /\ _ |- _ => destruct H end; subst; reflexivity.
Qed.

Lemma child_replaced_wf s c c' v v' : child_replaced s c c' v v' -> wf v = true ->
  wf c = true /\ (wf c' = true -> type_of c' = type_of c -> wf v' = true).
Proof.
  intros H Hw.
  destruct s as [id|i|ks|n|b]; destruct v as [?|?|?|?|?|?|?|fs|kt vt es|et es|et es]; cbn [child_replaced] in H; try contradiction.
  - destruct H as [pre [e [post [[E _] [Hc E']]]]]. subst fs c v'. cbn [wf] in *.
    destruct (forallb_mid _ _ _ _ Hw) as [He Hrep]. apply andb_true_iff in He. destruct He as [Hid Hwc].
    split; [exact Hwc|]. intros Hwc' _. apply Hrep. cbn [fst snd]. rewrite Hid, Hwc'. reflexivity.
  - destruct H as [pr [pre [e [post [Hp _]]]]]. discriminate Hp.
  - destruct H as [pr [pre [e [post [Hp _]]]]]. discriminate Hp.
  - destruct H as [Hi [pre [post [E [L E']]]]]. subst es v'. cbn [wf] in *. rewrite (zlen_replace pre c c' post).
    apply andb_true_iff in Hw. destruct Hw as [Hhead Hfa].
    destruct (forallb_mid _ _ _ _ Hfa) as [He Hrep].
    apply andb_true_iff in He. destruct He as [Ht Hwc]. split; [exact Hwc|]. intros Hwc' Hty.
    rewrite Hhead. cbn [andb]. apply Hrep. rewrite Hty, Ht, Hwc'. reflexivity.
  - destruct H as [Hi [pre [post [E [L E']]]]]. subst es v'. cbn [wf] in *. rewrite (zlen_replace pre c c' post).
    apply andb_true_iff in Hw. destruct Hw as [Hhead Hfa].
    destruct (forallb_mid _ _ _ _ Hfa) as [He Hrep].
    apply andb_true_iff in He. destruct He as [Ht Hwc]. split; [exact Hwc|]. intros Hwc' Hty.
    rewrite Hhead. cbn [andb]. apply Hrep. rewrite Hty, Ht, Hwc'. reflexivity.
  - destruct H as [pr [pre [e [post [Hp [[E _] [Hc E']]]]]]]. subst es c v'. cbn [wf] in *. rewrite (zlen_replace pre e (fst e, c') post).
    apply andb_true_iff in Hw. destruct Hw as [Hhead Hfa].
    destruct (forallb_mid _ _ _ _ Hfa) as [He Hrep].
    repeat (apply andb_true_iff in He; destruct He as [He ?]). split; [assumption|]. intros Hwc' Hty.
    rewrite Hhead. cbn [andb]. apply Hrep. cbn [fst snd]. rewrite Hty.
    repeat (apply andb_true_iff; split); assumption.
  - destruct H as [pr [pre [e [post [Hp [[E _] [Hc E']]]]]]]. subst es c v'. cbn [wf] in *. rewrite (zlen_replace pre e (fst e, c') post).
    apply andb_true_iff in Hw. destruct Hw as [Hhead Hfa].
    destruct (forallb_mid _ _ _ _ Hfa) as [He Hrep].
    repeat (apply andb_true_iff in He; destruct He as [He ?]). split; [assumption|]. intros Hwc' Hty.
    rewrite Hhead. cbn [andb]. apply Hrep. cbn [fst snd]. rewrite Hty.
    repeat (apply andb_true_iff; split); assumption.
  - destruct H as [pr [pre [e [post [Hp [[E _] [Hc E']]]]]]]. subst es c v'. cbn [wf] in *. rewrite (zlen_replace pre e (fst e, c') post).
    apply andb_true_iff in Hw. destruct Hw as [Hhead Hfa].
    destruct (forallb_mid _ _ _ _ Hfa) as [He Hrep].
    repeat (apply andb_true_iff in He; destruct He as [He ?]). split; [assumption|]. intros Hwc' Hty.
    rewrite Hhead. cbn [andb]. apply Hrep. cbn [fst snd]. rewrite Hty.
    repeat (apply andb_true_iff; split); assumption.
Qed.

Lemma child_replaced_get s c c' v v' : child_replaced s c c' v v' -> vlookup1 v' s = LFound c' 0.
Proof.
  intros H.
  destruct s as [id|i|ks|n|b]; destruct v as [?|?|?|?|?|?|?|fs|kt vt es|et es|et es]; cbn [child_replaced] in H; try contradiction.
  - destruct H as [pre [e [post [[E [He Hpre]] [Hc E']]]]]. subst v'. cbn [vlookup1].
    rewrite (gfind_split _ _ pre (fst e, c') post); [reflexivity|]. split; [reflexivity|]. split; [exact He|exact Hpre].
  - destruct H as [pr [pre [e [post [Hp _]]]]]. discriminate Hp.
  - destruct H as [pr [pre [e [post [Hp _]]]]]. discriminate Hp.
  - destruct H as [Hi [pre [post [E [L E']]]]]. subst v'. cbn [vlookup1]. destruct (Z.ltb_spec i 0); [lia|]. rewrite <- L, nth_error_mid. reflexivity.
  - destruct H as [Hi [pre [post [E [L E']]]]]. subst v'. cbn [vlookup1]. destruct (Z.ltb_spec i 0); [lia|]. rewrite <- L, nth_error_mid. reflexivity.
  - destruct H as [pr [pre [e [post [Hp [[E [He Hpre]] [Hc E']]]]]]]. subst v'. cbn [vlookup1]. rewrite Hp.
    rewrite (gfind_split _ _ pre (fst e, c') post); [reflexivity|]. split; [reflexivity|]. split; [exact He|exact Hpre].
  - destruct H as [pr [pre [e [post [Hp [[E [He Hpre]] [Hc E']]]]]]]. subst v'. cbn [vlookup1]. rewrite Hp.
    rewrite (gfind_split _ _ pre (fst e, c') post); [reflexivity|]. split; [reflexivity|]. split; [exact He|exact Hpre].
  - destruct H as [pr [pre [e [post [Hp [[E [He Hpre]] [Hc E']]]]]]]. subst v'. cbn [vlookup1]. rewrite Hp.
    rewrite (gfind_split _ _ pre (fst e, c') post); [reflexivity|]. split; [reflexivity|]. split; [exact He|exact Hpre].
Qed.

(* two steps that certainly address different children of any container *)
Definition step_indep (s t : pstep) : Prop :=
  match s, t with
  | PField a, PField b => a <> b
  | PIndex a, PIndex b => a <> b
  | PStrKey a, PStrKey b => a <> b
  | PIntKey a, PIntKey b => a <> b
  | PBinKey a, PBinKey b => a <> b
  | PField _, _ => True | _, PField _ => True      (* different families: at most one fits the container *)
  | PIndex _, _ => True | _, PIndex _ => True
  | _, _ => False                                   (* two spellings of a map key may address the same entry *)
  end.

Lemma gfind_replace_other {K} (pr : K -> bool) pre (e : K * tval) c' post :
  pr (fst e) = false -> gfind pr (pre ++ (fst e, c') :: post) = gfind pr (pre ++ e :: post).
Proof.
  intros He. induction pre as [|g pre IH]; cbn [app gfind fst snd].
  - rewrite He. reflexivity.
  - rewrite IH. reflexivity.
Qed.

Lemma key_preds_exclusive kt s t ps pt k : step_indep s t ->
  key_pred kt s = Some ps -> key_pred kt t = Some pt -> ps k = true -> pt k = false.
Proof.
  intros Hi Hs Ht Hk.
  destruct s as [a|a|a|a|a]; destruct t as [b|b|b|b|b]; cbn [key_pred] in Hs, Ht; try discriminate; cbn [step_indep] in Hi; try contradiction.
  - destruct (kt =? T_STRING); [|discriminate]. inversion Hs; inversion Ht; subst.
    unfold str_key_is in *. destruct k; try reflexivity. apply bytes_eqb_eq in Hk. subst.
    destruct (bytes_eqb a b) eqn:E; [|reflexivity]. apply bytes_eqb_eq in E. contradiction.
  - destruct (is_int_type kt); [|discriminate]. inversion Hs; inversion Ht; subst.
    unfold int_key_is in *. destruct (int_of_key k); [|reflexivity]. apply Z.eqb_eq in Hk. subst.
    apply Z.eqb_neq. exact Hi.
  - inversion Hs; inversion Ht; subst. unfold bin_key_is in *. apply bytes_eqb_eq in Hk. subst.
    destruct (bytes_eqb (encode k) b) eqn:E; [|reflexivity]. apply bytes_eqb_eq in E. contradiction.
Qed.

Lemma child_replaced_other s t c c' v v' : child_replaced s c c' v v' -> step_indep s t -> vlookup1 v' t = vlookup1 v t.
Proof.
  intros H Hi.
  destruct s as [id|i|ks|n|b]; destruct v as [?|?|?|?|?|?|?|fs|kt vt es|et es|et es]; cbn [child_replaced] in H; try contradiction.
  - destruct H as [pre [e [post [[E [He Hpre]] [Hc E']]]]]. subst v' fs.
    destruct t as [b|b|b|b|b]; try reflexivity. cbn [step_indep] in Hi. cbn [vlookup1].
    rewrite gfind_replace_other; [reflexivity|]. apply Z.eqb_eq in He. rewrite He. apply Z.eqb_neq. exact Hi.
  - destruct H as [pr [pre [e [post [Hp _]]]]]. discriminate Hp.
  - destruct H as [pr [pre [e [post [Hp _]]]]]. discriminate Hp.
  - destruct H as [H0 [pre [post [E [L E']]]]]. subst v' es.
    destruct t as [b|b|b|b|b]; try reflexivity. cbn [step_indep] in Hi. cbn [vlookup1].
    destruct (Z.ltb_spec b 0); [reflexivity|]. rewrite (nth_error_replace_other pre c c'); [reflexivity|]. rewrite L. lia.
  - destruct H as [H0 [pre [post [E [L E']]]]]. subst v' es.
    destruct t as [b|b|b|b|b]; try reflexivity. cbn [step_indep] in Hi. cbn [vlookup1].
    destruct (Z.ltb_spec b 0); [reflexivity|]. rewrite (nth_error_replace_other pre c c'); [reflexivity|]. rewrite L. lia.
  - destruct H as [pr [pre [e [post [Hp [[E [He Hpre]] [Hc E']]]]]]]. subst v' es.
    destruct t as [b'|b'|b'|b'|b']; cbn [vlookup1];
      (match goal with |- context [key_pred kt ?t] => destruct (key_pred kt t) as [pt|] eqn:Ept end; [|reflexivity]);
      (assert (Hx : pt (fst e) = false) by (eapply key_preds_exclusive; eassumption));
      rewrite gfind_replace_other by exact Hx; reflexivity.
  - destruct H as [pr [pre [e [post [Hp [[E [He Hpre]] [Hc E']]]]]]]. subst v' es.
    destruct t as [b'|b'|b'|b'|b']; cbn [vlookup1];
      (match goal with |- context [key_pred kt ?t] => destruct (key_pred kt t) as [pt|] eqn:Ept end; [|reflexivity]);
      (assert (Hx : pt (fst e) = false) by (eapply key_preds_exclusive; eassumption));
      rewrite gfind_replace_other by exact Hx; reflexivity.
  - destruct H as [pr [pre [e [post [Hp [[E [He Hpre]] [Hc E']]]]]]]. subst v' es.
    destruct t as [b'|b'|b'|b'|b']; cbn [vlookup1];
      (match goal with |- context [key_pred kt ?t] => destruct (key_pred kt t) as [pt|] eqn:Ept end; [|reflexivity]);
      (assert (Hx : pt (fst e) = false) by (eapply key_preds_exclusive; eassumption));
      rewrite gfind_replace_other by exact Hx; reflexivity.
Qed.

(* ---------------- consequences of an insertion ---------------- *)
Lemma forallb_ins {A} (f : A -> bool) front a l : forallb f (ins front a l) = f a && forallb f l.
Proof. destruct front; cbn [ins forallb]; [reflexivity|]. rewrite forallb_app. cbn [forallb]. rewrite andb_true_r. apply andb_comm. Qed.

Lemma zlen_ins {A} front (a : A) l : zlen (ins front a l) = zlen l + 1.
Proof. destruct front; unfold zlen; cbn [ins length]; [lia|]. rewrite app_length. cbn [length]. lia. Qed.

Lemma and4_inv a b c d : a && b && c && d = true -> a = true /\ b = true /\ c = true /\ d = true.
Proof. destruct a, b, c, d; cbn; intros H; try discriminate H; auto. Qed.
Lemma and5_inv a b c d e : a && b && c && d && e = true -> a = true /\ b = true /\ c = true /\ d = true /\ e = true.
Proof. destruct a, b, c, d, e; cbn; intros H; try discriminate H; repeat split. Qed.

Lemma child_inserted_type front s x v v' : child_inserted front s x v v' -> type_of v' = type_of v.
Proof.
  destruct s; destruct v; cbn [child_inserted]; try contradiction; intros H;
  repeat match goal with H : exists _, _ |- _ => destruct H | H : _ /\ _ |- _ => destruct H end; subst; reflexivity.
Qed.

Lemma child_inserted_wf front s x v v' : child_inserted front s x v v' ->
  wf v = true -> wf x = true -> ins_ok s x v = true -> wf v' = true.
Proof.
  intros H Hw Hx Hok.
  destruct s as [id|i|ks|n|b]; destruct v as [?|?|?|?|?|?|?|fs|kt vt es|et es|et es]; cbn [child_inserted] in H; try contradiction;
    cbn [ins_ok] in Hok.
  - subst v'. cbn [wf] in *. rewrite forallb_ins. cbn [fst snd]. rewrite Hok, Hx, Hw. reflexivity.
  - destruct H as [pr [kv [Hp _]]]. discriminate Hp.
  - destruct H as [pr [kv [Hp _]]]. discriminate Hp.
  - destruct H as [_ E]. subst v'. cbn [wf] in *. rewrite forallb_ins, zlen_ins.
    apply andb_true_iff in Hok. destruct Hok as [Ht Hn].
    destruct (and4_inv _ _ _ _ Hw) as [Hb [_ [_ Hfa]]].
    rewrite Hb, Hn, Ht, Hx, Hfa. apply Z.eqb_eq in Ht. rewrite <- Ht, type_of_valid, orb_true_r. reflexivity.
  - destruct H as [_ E]. subst v'. cbn [wf] in *. rewrite forallb_ins, zlen_ins.
    apply andb_true_iff in Hok. destruct Hok as [Ht Hn].
    destruct (and4_inv _ _ _ _ Hw) as [Hb [_ [_ Hfa]]].
    rewrite Hb, Hn, Ht, Hx, Hfa. apply Z.eqb_eq in Ht. rewrite <- Ht, type_of_valid, orb_true_r. reflexivity.
  - destruct H as [pr [kv [Hp [Hk E]]]]. subst v'. rewrite Hk in Hok. cbn [wf] in *. rewrite forallb_ins, zlen_ins. cbn [fst snd].
    destruct (and5_inv _ _ _ _ _ Hw) as [Hbk [Hbv [_ [_ Hfa]]]].
    apply andb_true_iff in Hok. destruct Hok as [Hok Hkv]. apply andb_true_iff in Hok. destruct Hok as [Ht Hn].
    apply andb_true_iff in Hkv. destruct Hkv as [Htk Hwk].
    rewrite Hbk, Hbv, Hn, Ht, Htk, Hwk, Hx, Hfa. apply Z.eqb_eq in Ht, Htk. rewrite <- Ht, <- Htk, !type_of_valid, orb_true_r. reflexivity.
  - destruct H as [pr [kv [Hp [Hk E]]]]. subst v'. rewrite Hk in Hok. cbn [wf] in *. rewrite forallb_ins, zlen_ins. cbn [fst snd].
    destruct (and5_inv _ _ _ _ _ Hw) as [Hbk [Hbv [_ [_ Hfa]]]].
    apply andb_true_iff in Hok. destruct Hok as [Hok Hkv]. apply andb_true_iff in Hok. destruct Hok as [Ht Hn].
    apply andb_true_iff in Hkv. destruct Hkv as [Htk Hwk].
    rewrite Hbk, Hbv, Hn, Ht, Htk, Hwk, Hx, Hfa. apply Z.eqb_eq in Ht, Htk. rewrite <- Ht, <- Htk, !type_of_valid, orb_true_r. reflexivity.
  - destruct H as [pr [kv [Hp [Hk E]]]]. subst v'. rewrite Hk in Hok. cbn [wf] in *. rewrite forallb_ins, zlen_ins. cbn [fst snd].
    destruct (and5_inv _ _ _ _ _ Hw) as [Hbk [Hbv [_ [_ Hfa]]]].
    apply andb_true_iff in Hok. destruct Hok as [Hok Hkv]. apply andb_true_iff in Hok. destruct Hok as [Ht Hn].
    apply andb_true_iff in Hkv. destruct Hkv as [Htk Hwk].
    rewrite Hbk, Hbv, Hn, Ht, Htk, Hwk, Hx, Hfa. apply Z.eqb_eq in Ht, Htk. rewrite <- Ht, <- Htk, !type_of_valid, orb_true_r. reflexivity.
Qed.

(* ---------------- bridging vlookup and lookup ---------------- *)
Lemma vlookup_found_iff v p sub : (exists off, lookup v 0 p = LFound sub off) <-> vlookup v p = LFound sub 0.
Proof.
  rewrite <- (lsub_lookup p v 0). split.
  - intros [off H]. rewrite H. reflexivity.
  - destruct (lookup v 0 p) as [s o| |]; cbn [lsub]; intros H; inversion H; subst. eexists; reflexivity.
Qed.

Lemma vlookup_notfound_iff v p : lookup v 0 p = LNotFound <-> vlookup v p = LNotFound.
Proof. rewrite <- (lsub_lookup p v 0). destruct (lookup v 0 p); cbn [lsub]; split; intros H; try discriminate H; reflexivity. Qed.

(* ================= SET ================= *)
Lemma ast_set_type front p x v v' ex : ast_set front p x v = Some (v', ex) -> type_of v' = type_of v.
Proof.
  intros H. destruct p as [|s p'].
  - cbn [ast_set] in H. destruct (Z.eqb_spec (type_of v) (type_of x)) as [E|E]; [|discriminate H]. inversion H; subst. symmetry. exact E.
  - destruct (ast_set_cons _ _ _ _ _ _ _ H) as [[c [c' [_ [_ R]]]]|[_ [_ [_ I]]]];
      [eapply child_replaced_type|eapply child_inserted_type]; eassumption.
Qed.

Theorem ast_set_wf front : forall p x v v' ex,
  wf v = true -> wf x = true -> set_compat p x v = true -> ast_set front p x v = Some (v', ex) -> wf v' = true.
Proof.
  induction p as [|s p IH]; intros x v v' ex Hw Hx Hc H.
  - cbn [ast_set] in H. destruct (type_of v =? type_of x); [|discriminate H]. inversion H; subst. exact Hx.
  - destruct (ast_set_cons _ _ _ _ _ _ _ H) as [[c [c' [L [S R]]]]|[L [Ep [Ee I]]]].
    + destruct (vlookup1_found _ _ _ _ L) as [o' L']. cbn [set_compat] in Hc. rewrite L' in Hc.
      destruct (child_replaced_wf _ _ _ _ _ R Hw) as [Hwc Hrep].
      apply Hrep; [exact (IH x c c' ex Hwc Hx Hc S)|eapply ast_set_type; exact S].
    + subst. cbn [set_compat] in Hc. rewrite (vlookup1_notfound _ _ L) in Hc. eapply child_inserted_wf; eassumption.
Qed.

Lemma ast_set_existed_v front : forall p x v v' ex, ast_set front p x v = Some (v', ex) ->
  (ex = true <-> exists sub, vlookup v p = LFound sub 0).
Proof.
  induction p as [|s p IH]; intros x v v' ex H.
  - cbn [ast_set] in H. destruct (type_of v =? type_of x); [|discriminate H]. inversion H; subst.
    split; [intros _; exists v; reflexivity|reflexivity].
  - destruct (ast_set_cons _ _ _ _ _ _ _ H) as [[c [c' [L [S R]]]]|[L [Ep [Ee I]]]].
    + cbn [vlookup]. rewrite L. eapply IH. exact S.
    + subst. cbn [vlookup]. rewrite L. split; [discriminate|intros [sub Hs]; discriminate Hs].
Qed.

Theorem ast_set_existed front p x v v' ex : ast_set front p x v = Some (v', ex) ->
  (ex = true <-> exists sub off, lookup v 0 p = LFound sub off).
Proof.
  intros H. rewrite (ast_set_existed_v _ _ _ _ _ _ H). split; intros [sub Hs]; exists sub; apply vlookup_found_iff; exact Hs.
Qed.

(* the addressed element now holds x *)
Lemma ast_set_get_v front : forall p x v v', ast_set front p x v = Some (v', true) -> vlookup v' p = LFound x 0.
Proof.
  induction p as [|s p IH]; intros x v v' H.
  - cbn [ast_set] in H. destruct (type_of v =? type_of x); [|discriminate H]. inversion H; subst. reflexivity.
  - destruct (ast_set_cons _ _ _ _ _ _ _ H) as [[c [c' [L [S R]]]]|[L [Ep [Ee I]]]]; [|discriminate Ee].
    cbn [vlookup]. rewrite (child_replaced_get _ _ _ _ _ R). eapply IH. exact S.
Qed.

Theorem ast_set_get front p x v v' : ast_set front p x v = Some (v', true) -> exists off, lookup v' 0 p = LFound x off.
Proof. intros H. apply vlookup_found_iff. eapply ast_set_get_v. exact H. Qed.

(* paths that diverge at a position where the two steps certainly address different children *)
Fixpoint disjoint (p q : list pstep) : Prop :=
  match p, q with
  | s :: p', t :: q' => step_indep s t \/ (s = t /\ disjoint p' q')
  | _, _ => False
  end.

Lemma ast_set_frame_v front : forall p q x v v', ast_set front p x v = Some (v', true) -> disjoint p q -> vlookup v' q = vlookup v q.
Proof.
  induction p as [|s p IH]; intros q x v v' H D; [contradiction D|].
  destruct q as [|t q]; [contradiction D|]. cbn [disjoint] in D.
  destruct (ast_set_cons _ _ _ _ _ _ _ H) as [[c [c' [L [S R]]]]|[L [Ep [Ee I]]]]; [|discriminate Ee].
  destruct D as [Hi|[Est D]].
  - cbn [vlookup]. rewrite (child_replaced_other _ _ _ _ _ _ R Hi). reflexivity.
  - subst t. cbn [vlookup]. rewrite (child_replaced_get _ _ _ _ _ R), L. eapply IH; eassumption.
Qed.

(* frame: a replacement is invisible through every disjoint path (same sub-value / same not-found / same error) *)
Theorem ast_set_frame front p q x v v' : ast_set front p x v = Some (v', true) -> disjoint p q ->
  lsub (lookup v' 0 q) = lsub (lookup v 0 q).
Proof. intros H D. rewrite !lsub_lookup. eapply ast_set_frame_v; eassumption. Qed.

(* insertion = the addressed container c (reached by the path without its last step) is replaced by
   c' = c plus exactly one new child (at the front or the back), everything else as in a replacement *)
Theorem ast_set_insert_v front : forall p x v v', ast_set front p x v = Some (v', false) ->
  exists pre s c c', p = pre ++ [s] /\ vlookup v pre = LFound c 0 /\ vlookup1 c s = LNotFound /\
                     child_inserted front s x c c' /\ ast_set front pre c' v = Some (v', true).
Proof.
  induction p as [|s p IH]; intros x v v' H.
  - cbn [ast_set] in H. destruct (type_of v =? type_of x); discriminate H.
  - destruct (ast_set_cons _ _ _ _ _ _ _ H) as [[c0 [c0' [L [S R]]]]|[L [Ep [Ee I]]]].
    + destruct (IH _ _ _ S) as [pre [s' [c [c' [Ep [Lc [Ls [I Hs]]]]]]]].
      exists (s :: pre), s', c, c'. split; [rewrite Ep; reflexivity|]. split; [cbn [vlookup]; rewrite L; exact Lc|].
      split; [exact Ls|]. split; [exact I|].
      rewrite ast_set_cons_eq. rewrite (descend_replaced _ _ _ _ _ _ _ R Hs). reflexivity.
    + subst p. exists [], s, v, v'. split; [reflexivity|]. split; [reflexivity|]. split; [exact L|]. split; [exact I|].
      cbn [ast_set]. rewrite (child_inserted_type _ _ _ _ _ I), Z.eqb_refl. reflexivity.
Qed.

Definition nchildren (v : tval) : Z :=
  match v with VStruct fs => zlen fs | VMap _ _ es => zlen es | VSet _ es => zlen es | VList _ es => zlen es | _ => 0 end.

Lemma child_inserted_count front s x c c' : child_inserted front s x c c' -> nchildren c' = nchildren c + 1.
Proof.
  destruct s; destruct c; cbn [child_inserted]; try contradiction; intros H;
  repeat match goal with H : exists _, _ |- _ => destruct H | H : _ /\ _ |- _ => destruct H end; subst; cbn [nchildren]; apply zlen_ins.
Qed.

Theorem ast_set_insert front p x v v' : ast_set front p x v = Some (v', false) ->
  exists pre s c c' off, p = pre ++ [s] /\ lookup v 0 pre = LFound c off /\ lookup1 c s = LNotFound /\
                     child_inserted front s x c c' /\ nchildren c' = nchildren c + 1 /\
                     ast_set front pre c' v = Some (v', true).
Proof.
  intros H. destruct (ast_set_insert_v _ _ _ _ _ H) as [pre [s [c [c' [Ep [Lc [Ls [I Hs]]]]]]]].
  apply vlookup_found_iff in Lc. destruct Lc as [off Lc].
  exists pre, s, c, c', off. repeat split; auto. apply vlookup1_notfound; exact Ls. eapply child_inserted_count; exact I.
Qed.

Lemma ins_cases {A} front (a : A) l : ins front a l = a :: l \/ ins front a l = l ++ [a].
Proof. destruct front; [left|right]; reflexivity. Qed.

(* ================= UNSET ================= *)
(* the last step of an unset path *)
Definition remove_at (s : pstep) (v : tval) : dres :=
  match s, v with
  | PField id, VStruct fs => match del_field id fs with Some fs' => DOk (VStruct fs') true | None => DOk v false end
  | PIndex i, VList et es => if i <? 0 then DErr else match del_nth (Z.to_nat i) es with Some es' => DOk (VList et es') true | None => DOk v false end
  | PIndex i, VSet et es => if i <? 0 then DErr else match del_nth (Z.to_nat i) es with Some es' => DOk (VSet et es') true | None => DOk v false end
  | _, VMap kt vt es =>
      match key_of_step kt s with
      | None => DErr
      | Some kv => match del_key (bin_key_is (encode kv)) es with Some es' => DOk (VMap kt vt es') true | None => DOk v false end
      end
  | _, _ => DErr
  end.

Definition unset_k (p : list pstep) (child : tval) : option (tval * bool) :=
  match ast_unset p child with DOk c' r => Some (c', r) | DErr => None end.

Lemma ast_unset_single s v : ast_unset [s] v = remove_at s v.
Proof. destruct s; destruct v; reflexivity. Qed.

Definition unset_nested (k : tval -> option (tval * bool)) (s : pstep) (v : tval) : dres :=
  match s, v with
  | PField id, VStruct fs =>
    match upd_fields k id fs with UOk fs' r => DOk (VStruct fs') r | UFail => DErr | UAbsent => DOk v false end
  | PIndex i, VList et es =>
    if i <? 0 then DErr else match upd_nth k (Z.to_nat i) es with UOk es' r => DOk (VList et es') r | UFail => DErr | UAbsent => DOk v false end
  | PIndex i, VSet et es =>
    if i <? 0 then DErr else match upd_nth k (Z.to_nat i) es with UOk es' r => DOk (VSet et es') r | UFail => DErr | UAbsent => DOk v false end
  | _, VMap kt vt es =>
    match key_pred kt s with
    | None => DErr
    | Some pr => match upd_key k pr es with UOk es' r => DOk (VMap kt vt es') r | UFail => DErr | UAbsent => DOk v false end
    end
  | _, _ => DErr
  end.

Lemma ast_unset_cons2a s t p v : ast_unset (s :: t :: p) v = unset_nested (unset_k (t :: p)) s v.
Proof. destruct s; destruct v; reflexivity. Qed.

Lemma unset_nested_descend k s v : unset_nested k s v =
  match descend k s v with UOk v' r => DOk v' r | UFail => DErr | UAbsent => DOk v false end.
Proof.
  destruct s as [id|i|ks|n|b]; destruct v as [?|?|?|?|?|?|?|fs|kt vt es|et es|et es]; try reflexivity;
    cbn [unset_nested descend key_pred].
  - destruct (upd_fields k id fs); reflexivity.
  - destruct (i <? 0); [reflexivity|]. destruct (upd_nth k (Z.to_nat i) es); reflexivity.
  - destruct (i <? 0); [reflexivity|]. destruct (upd_nth k (Z.to_nat i) es); reflexivity.
  - destruct (kt =? T_STRING); [|reflexivity]. destruct (upd_key k (str_key_is ks) es); reflexivity.
  - destruct (is_int_type kt); [|reflexivity]. destruct (upd_key k (int_key_is n) es); reflexivity.
  - destruct (upd_key k (bin_key_is b) es); reflexivity.
Qed.

Lemma ast_unset_cons2 s t p v : ast_unset (s :: t :: p) v =
  match descend (unset_k (t :: p)) s v with UOk v' r => DOk v' r | UFail => DErr | UAbsent => DOk v false end.
Proof. rewrite ast_unset_cons2a. apply unset_nested_descend. Qed.

(* v' is v without the FIRST child addressed by s (for a map: the first entry whose key bytes equal the
   encoding of the key the step denotes, as deleteChild compares raw key bytes) *)
Definition child_removed (s : pstep) (v v' : tval) : Prop :=
  match s, v with
  | PField id, VStruct fs => exists pre e post, gsplit (fun i => i =? id) fs pre e post /\ v' = VStruct (pre ++ post)
  | PIndex i, VList et es => 0 <= i /\ exists pre c post, es = pre ++ c :: post /\ length pre = Z.to_nat i /\ v' = VList et (pre ++ post)
  | PIndex i, VSet et es => 0 <= i /\ exists pre c post, es = pre ++ c :: post /\ length pre = Z.to_nat i /\ v' = VSet et (pre ++ post)
  | _, VMap kt vt es => exists kv pre e post, key_of_step kt s = Some kv /\ gsplit (bin_key_is (encode kv)) es pre e post /\ v' = VMap kt vt (pre ++ post)
  | _, _ => False
  end.

(* nothing in v is addressed by s (but s fits v's kind) *)
Definition child_absent (s : pstep) (v : tval) : Prop :=
  match s, v with
  | PField id, VStruct fs => gfind (fun i => i =? id) fs = None
  | PIndex i, VList et es => 0 <= i /\ nth_error es (Z.to_nat i) = None
  | PIndex i, VSet et es => 0 <= i /\ nth_error es (Z.to_nat i) = None
  | _, VMap kt vt es => exists kv, key_of_step kt s = Some kv /\ gfind (bin_key_is (encode kv)) es = None
  | _, _ => False
  end.

Lemma remove_at_spec s v :
  match remove_at s v with
  | DOk v' true => child_removed s v v'
  | DOk v' false => v' = v /\ child_absent s v
  | DErr => True
  end.
Proof.
  destruct s as [id|i|ks|n|b]; destruct v as [?|?|?|?|?|?|?|fs|kt vt es|et es|et es]; try exact I; cbn [remove_at child_removed child_absent].
  - rewrite del_field_gdel. pose proof (gdel_spec (fun i => i =? id) fs) as H. destruct (gdel (fun i => i =? id) fs) as [fs'|].
    + destruct H as [pre [e [post [Hs E]]]]. exists pre, e, post. subst. auto.
    + auto.
  - destruct (Z.ltb_spec i 0) as [Hi|Hi]; [exact I|]. pose proof (del_nth_spec es (Z.to_nat i)) as H. destruct (del_nth (Z.to_nat i) es) as [es'|].
    + destruct H as [pre [c [post [E [L E']]]]]. split; [exact Hi|]. exists pre, c, post. subst. auto.
    + auto.
  - destruct (Z.ltb_spec i 0) as [Hi|Hi]; [exact I|]. pose proof (del_nth_spec es (Z.to_nat i)) as H. destruct (del_nth (Z.to_nat i) es) as [es'|].
    + destruct H as [pre [c [post [E [L E']]]]]. split; [exact Hi|]. exists pre, c, post. subst. auto.
    + auto.
  - destruct (key_of_step kt (PStrKey ks)) as [kv|] eqn:Ek; [|exact I].
    rewrite del_key_gdel. pose proof (gdel_spec (bin_key_is (encode kv)) es) as H. destruct (gdel (bin_key_is (encode kv)) es) as [es'|].
    + destruct H as [pre [e [post [Hs E]]]]. exists kv, pre, e, post. subst. auto.
    + split; [reflexivity|]. exists kv. auto.
  - destruct (key_of_step kt (PIntKey n)) as [kv|] eqn:Ek; [|exact I].
    rewrite del_key_gdel. pose proof (gdel_spec (bin_key_is (encode kv)) es) as H. destruct (gdel (bin_key_is (encode kv)) es) as [es'|].
    + destruct H as [pre [e [post [Hs E]]]]. exists kv, pre, e, post. subst. auto.
    + split; [reflexivity|]. exists kv. auto.
  - destruct (key_of_step kt (PBinKey b)) as [kv|] eqn:Ek; [|exact I].
    rewrite del_key_gdel. pose proof (gdel_spec (bin_key_is (encode kv)) es) as H. destruct (gdel (bin_key_is (encode kv)) es) as [es'|].
    + destruct H as [pre [e [post [Hs E]]]]. exists kv, pre, e, post. subst. auto.
    + split; [reflexivity|]. exists kv. auto.
Qed.

Lemma forallb_remove {A} (f : A -> bool) pre a post : forallb f (pre ++ a :: post) = true -> forallb f (pre ++ post) = true.
Proof.
  rewrite !forallb_app. cbn [forallb]. intros H. apply andb_true_iff in H. destruct H as [H1 H2].
  apply andb_true_iff in H2. destruct H2 as [_ H3]. rewrite H1, H3. reflexivity.
Qed.

Lemma zlen_remove {A} (pre : list A) a post : zlen (pre ++ a :: post) = zlen (pre ++ post) + 1.
Proof. unfold zlen. rewrite !app_length. cbn [length]. lia. Qed.

Lemma child_removed_type s v v' : child_removed s v v' -> type_of v' = type_of v.
Proof.
  destruct s; destruct v; cbn [child_removed]; try contradiction; intros H;
  repeat match goal with H : exists _, _ |- _ => destruct H | H : _ /\ _ |- _ => destruct H end; subst; reflexivity.
Qed.

Lemma child_removed_count s v v' : child_removed s v v' -> nchildren v = nchildren v' + 1.
Proof.
  destruct s; destruct v; cbn [child_removed]; try contradiction; intros H;
  repeat match goal with H : exists _, _ |- _ => destruct H | H : _ /\ _ |- _ => destruct H | H : gsplit _ _ _ _ _ |- _ => destruct H end;
  subst; cbn [nchildren]; apply zlen_remove.
Qed.

Lemma elems_wf_remove (hd : bool) {A} (f : A -> bool) (vt : bool) pre a post :
  hd && (zlen (pre ++ a :: post) <? 2 ^ 31) && ((zlen (pre ++ a :: post) =? 0) || vt) && forallb f (pre ++ a :: post) = true ->
  hd && (zlen (pre ++ post) <? 2 ^ 31) && ((zlen (pre ++ post) =? 0) || vt) && forallb f (pre ++ post) = true.
Proof.
  intros H. destruct (and4_inv _ _ _ _ H) as [Hh [Hl [Hv Hf]]]. rewrite Hh, (forallb_remove _ _ _ _ Hf).
  rewrite zlen_remove in Hl, Hv. pose proof (zlen_nonneg (pre ++ post)) as Hn.
  apply Z.ltb_lt in Hl. destruct (Z.ltb_spec (zlen (pre ++ post)) (2 ^ 31)); [|lia].
  destruct (Z.eqb_spec (zlen (pre ++ post) + 1) 0); [lia|]. cbn [orb] in Hv. rewrite Hv, orb_true_r. reflexivity.
Qed.

Lemma child_removed_wf s v v' : child_removed s v v' -> wf v = true -> wf v' = true.
Proof.
  intros H Hw.
  destruct s as [id|i|ks|n|b]; destruct v as [?|?|?|?|?|?|?|fs|kt vt es|et es|et es]; cbn [child_removed] in H; try contradiction.
  - destruct H as [pre [e [post [[E _] E']]]]. subst. cbn [wf] in *. eapply forallb_remove. exact Hw.
  - destruct H as [kv [pre [e [post [Hk [[E _] E']]]]]]. subst. cbn [wf] in *. apply elems_wf_remove with (a := e). exact Hw.
  - destruct H as [kv [pre [e [post [Hk [[E _] E']]]]]]. subst. cbn [wf] in *. apply elems_wf_remove with (a := e). exact Hw.
  - destruct H as [Hi [pre [c [post [E [L E']]]]]]. subst. cbn [wf] in *. apply elems_wf_remove with (a := c). exact Hw.
  - destruct H as [Hi [pre [c [post [E [L E']]]]]]. subst. cbn [wf] in *. apply elems_wf_remove with (a := c). exact Hw.
  - destruct H as [kv [pre [e [post [Hk [[E _] E']]]]]]. subst. cbn [wf] in *. apply elems_wf_remove with (a := e). exact Hw.
  - destruct H as [kv [pre [e [post [Hk [[E _] E']]]]]]. subst. cbn [wf] in *. apply elems_wf_remove with (a := e). exact Hw.
  - destruct H as [kv [pre [e [post [Hk [[E _] E']]]]]]. subst. cbn [wf] in *. apply elems_wf_remove with (a := e). exact Hw.
Qed.

Lemma ast_unset_type : forall p v v' r, ast_unset p v = DOk v' r -> type_of v' = type_of v.
Proof.
  induction p as [|s p IH]; intros v v' r H; [discriminate H|].
  destruct p as [|t p].
  - rewrite ast_unset_single in H. pose proof (remove_at_spec s v) as Hs. rewrite H in Hs.
    destruct r; [eapply child_removed_type; exact Hs|destruct Hs as [E _]; subst; reflexivity].
  - rewrite ast_unset_cons2 in H. pose proof (descend_spec (unset_k (t :: p)) s v) as Hs.
    destruct (descend (unset_k (t :: p)) s v) as [| |v1 r1]; [inversion H; reflexivity|discriminate H|].
    inversion H; subst. destruct Hs as [c [c' [_ [_ R]]]]. eapply child_replaced_type. exact R.
Qed.

Theorem ast_unset_wf : forall p v v' r, wf v = true -> ast_unset p v = DOk v' r -> wf v' = true.
Proof.
  induction p as [|s p IH]; intros v v' r Hw H; [discriminate H|].
  destruct p as [|t p].
  - rewrite ast_unset_single in H. pose proof (remove_at_spec s v) as Hs. rewrite H in Hs.
    destruct r; [eapply child_removed_wf; eassumption|destruct Hs as [E _]; subst; exact Hw].
  - rewrite ast_unset_cons2 in H. pose proof (descend_spec (unset_k (t :: p)) s v) as Hs.
    destruct (descend (unset_k (t :: p)) s v) as [| |v1 r1]; [inversion H; subst; exact Hw|discriminate H|].
    inversion H; subst. destruct Hs as [c [c' [_ [Hk R]]]].
    destruct (child_replaced_wf _ _ _ _ _ R Hw) as [Hwc Hrep].
    unfold unset_k in Hk. destruct (ast_unset (t :: p) c) as [c1 r1|] eqn:Eu; [|discriminate Hk]. inversion Hk; subst.
    apply Hrep; [exact (IH c c' r Hwc Eu)|eapply ast_unset_type; exact Eu].
Qed.

(* unsetting something absent changes nothing *)
Theorem ast_unset_absent_id : forall p v v', ast_unset p v = DOk v' false -> v' = v.
Proof.
  induction p as [|s p IH]; intros v v' H; [discriminate H|].
  destruct p as [|t p].
  - rewrite ast_unset_single in H. pose proof (remove_at_spec s v) as Hs. rewrite H in Hs. destruct Hs as [E _]. exact E.
  - rewrite ast_unset_cons2 in H. pose proof (descend_spec (unset_k (t :: p)) s v) as Hs.
    destruct (descend (unset_k (t :: p)) s v) as [| |v1 r1]; [inversion H; reflexivity|discriminate H|].
    inversion H; subst. destruct Hs as [c [c' [L [Hk R]]]].
    unfold unset_k in Hk. destruct (ast_unset (t :: p) c) as [c1 r1|] eqn:Eu; [|discriminate Hk]. inversion Hk; subst.
    pose proof (IH c c' Eu) as Ec. subst c'.
    (* replacing a child by itself *)
    destruct s as [id|i|ks|n|b]; destruct v as [?|?|?|?|?|?|?|fs|kt vt es|et es|et es]; cbn [child_replaced] in R; try contradiction;
      repeat match goal with H : exists _, _ |- _ => destruct H | H : _ /\ _ |- _ => destruct H | H : gsplit _ _ _ _ _ |- _ => destruct H end;
      subst; try discriminate;
      repeat match goal with e : (_ * _)%type |- _ => destruct e end; reflexivity.
Qed.

(* when unset reports a removal, exactly one child of exactly the addressed container is gone *)
Theorem ast_unset_removes_one_v front : forall p v v', ast_unset p v = DOk v' true ->
  exists pre s c c', p = pre ++ [s] /\ vlookup v pre = LFound c 0 /\ child_removed s c c' /\
                     ast_set front pre c' v = Some (v', true).
Proof.
  induction p as [|s p IH]; intros v v' H; [discriminate H|].
  destruct p as [|t p].
  - rewrite ast_unset_single in H. pose proof (remove_at_spec s v) as Hs. rewrite H in Hs.
    exists [], s, v, v'. split; [reflexivity|]. split; [reflexivity|]. split; [exact Hs|].
    cbn [ast_set]. rewrite (child_removed_type _ _ _ Hs), Z.eqb_refl. reflexivity.
  - rewrite ast_unset_cons2 in H. pose proof (descend_spec (unset_k (t :: p)) s v) as Hs.
    destruct (descend (unset_k (t :: p)) s v) as [| |v1 r1]; [discriminate H|discriminate H|].
    inversion H; subst. destruct Hs as [c0 [c0' [L [Hk R]]]].
    unfold unset_k in Hk. destruct (ast_unset (t :: p) c0) as [c1 r1|] eqn:Eu; [|discriminate Hk]. inversion Hk; subst.
    destruct (IH _ _ Eu) as [pre [s' [c [c' [Ep [Lc [Rm Hs]]]]]]].
    exists (s :: pre), s', c, c'. split; [rewrite Ep; reflexivity|]. split; [cbn [vlookup]; rewrite L; exact Lc|]. split; [exact Rm|].
    rewrite ast_set_cons_eq. rewrite (descend_replaced _ _ _ _ _ _ _ R Hs). reflexivity.
Qed.

Theorem ast_unset_removes_one front p v v' : ast_unset p v = DOk v' true ->
  exists pre s c c' off, p = pre ++ [s] /\ lookup v 0 pre = LFound c off /\ child_removed s c c' /\
                         nchildren c = nchildren c' + 1 /\ ast_set front pre c' v = Some (v', true).
Proof.
  intros H. destruct (ast_unset_removes_one_v front _ _ _ H) as [pre [s [c [c' [Ep [Lc [Rm Hs]]]]]]].
  apply vlookup_found_iff in Lc. destruct Lc as [off Lc]. exists pre, s, c, c', off. repeat split; auto.
  eapply child_removed_count. exact Rm.
Qed.

(* when unset reports "nothing removed", the path indeed addresses nothing: some prefix is absent, or the
   last step addresses no child of the container the prefix reaches *)
Theorem ast_unset_false_absent : forall p v v', ast_unset p v = DOk v' false ->
  exists pre s post, p = pre ++ s :: post /\
    ((post <> [] /\ exists c, vlookup v pre = LFound c 0 /\ vlookup1 c s = LNotFound)
     \/ (post = [] /\ exists c, vlookup v pre = LFound c 0 /\ child_absent s c)).
Proof.
  induction p as [|s p IH]; intros v v' H; [discriminate H|].
  destruct p as [|t p].
  - rewrite ast_unset_single in H. pose proof (remove_at_spec s v) as Hs. rewrite H in Hs. destruct Hs as [_ Ha].
    exists [], s, []. split; [reflexivity|]. right. split; [reflexivity|]. exists v. split; [reflexivity|exact Ha].
  - rewrite ast_unset_cons2 in H. pose proof (descend_spec (unset_k (t :: p)) s v) as Hs.
    destruct (descend (unset_k (t :: p)) s v) as [| |v1 r1]; [|discriminate H|].
    + exists [], s, (t :: p). split; [reflexivity|]. left. split; [discriminate|]. exists v. split; [reflexivity|exact Hs].
    + inversion H; subst. destruct Hs as [c0 [c0' [L [Hk R]]]].
      unfold unset_k in Hk. destruct (ast_unset (t :: p) c0) as [c1 r1|] eqn:Eu; [|discriminate Hk]. inversion Hk; subst.
      destruct (IH _ _ Eu) as [pre [s' [post [Ep Hcase]]]].
      exists (s :: pre), s', post. split; [rewrite Ep; reflexivity|].
      destruct Hcase as [[Hne [c [Lc Ls]]]|[He [c [Lc Ha]]]]; [left|right]; (split; [assumption|]); exists c;
        (split; [cbn [vlookup]; rewrite L; exact Lc|assumption]).
Qed.

(* ================= HISTORIES ================= *)
Lemma ast_step_wf front v o : wf v = true -> op_compat v o = true -> wf (ast_step front v o) = true.
Proof.
  intros Hw Hc. destruct o as [p x|p]; cbn [ast_step op_compat] in *.
  - apply andb_true_iff in Hc. destruct Hc as [Hx Hc].
    destruct (ast_set front p x v) as [[v' ex]|] eqn:E; [|exact Hw]. exact (ast_set_wf front p x v v' ex Hw Hx Hc E).
  - destruct (ast_unset p v) as [v' r|] eqn:E; [|exact Hw]. exact (ast_unset_wf p v v' r Hw E).
Qed.

Theorem history_wf front : forall ops v, wf v = true -> history_ok front v ops = true ->
  Forall (fun s => wf s = true) (ast_states front v ops) /\ wf (fold_left (ast_step front) ops v) = true.
Proof.
  induction ops as [|o ops IH]; intros v Hw Hok; cbn [ast_states fold_left].
  - split; [constructor|exact Hw].
  - cbn [history_ok] in Hok. apply andb_true_iff in Hok. destruct Hok as [Hc Hok].
    pose proof (ast_step_wf front v o Hw Hc) as Hw'. destruct (IH _ Hw' Hok) as [HF Hlast].
    split; [constructor; assumption|exact Hlast].
Qed.

(* every intermediate state round-trips through encode / decode *)
Theorem history_roundtrip front ops v : wf v = true -> history_ok front v ops = true ->
  Forall (fun s => forall r, decode (depth s) (type_of s) (encode s ++ r) = Some (s, r)) (ast_states front v ops).
Proof.
  intros Hw Hok. destruct (history_wf front ops v Hw Hok) as [HF _].
  eapply Forall_impl; [|exact HF]. intros s Hs r. apply decode_encode; [exact Hs|lia].
Qed.

(* a failed operation leaves the model state unchanged *)
Theorem failed_op_unchanged front v o :
  match o with OSet p x => ast_set front p x v = None | OUnset p => ast_unset p v = DErr end -> ast_step front v o = v.
Proof. destruct o as [p x|p]; cbn [ast_step]; intros H; rewrite H; reflexivity. Qed.
